// Package gate implements a cooperative scheduler for replaying TLC behaviours on real goroutines.
//
// Every goroutine of the system under test that takes part in a schedule is an "actor". Actors block at
// named gates (At); the driver releases exactly one actor at a time (Step) and waits until that actor
// blocks at its next gate, finishes, or is found blocked inside the code under test (timeout).
package gate

import (
	"context"
	"fmt"
	"sync"
	"time"
)

type ctxKey struct{}

// WithActor tags ctx with an actor name; gates look the actor up through ctx.
func WithActor(ctx context.Context, name string) context.Context {
	return context.WithValue(ctx, ctxKey{}, name)
}

// Actor returns the actor name of ctx, or "".
func Actor(ctx context.Context) string {
	if v, ok := ctx.Value(ctxKey{}).(string); ok {
		return v
	}
	return ""
}

type actor struct {
	name    string
	at      string        // gate the actor is blocked at ("" = running, "done" = finished)
	release chan string   // directive handed to the actor
	arrived chan struct{} // signalled on every arrival / finish
}

// Sched is the cooperative scheduler.
type Sched struct {
	mu     sync.Mutex
	actors map[string]*actor
	dead   bool
	deadCh chan struct{}
	// BlockedAfter is how long Step waits for the actor to reach its next gate before it is considered
	// to be blocked inside the code under test (e.g. on a mutex held by another actor).
	BlockedAfter time.Duration
	// GiveUp bounds every wait; exceeding it is an inconclusive run, never a verdict.
	GiveUp time.Duration
}

func New() *Sched {
	return &Sched{deadCh: make(chan struct{}), actors: map[string]*actor{}, BlockedAfter: 40 * time.Millisecond, GiveUp: 20 * time.Second}
}

func (s *Sched) get(name string) *actor {
	s.mu.Lock()
	defer s.mu.Unlock()
	a := s.actors[name]
	if a == nil {
		a = &actor{name: name, release: make(chan string), arrived: make(chan struct{}, 64)}
		s.actors[name] = a
	}
	return a
}

// Kill releases all actors with directive "dead" now and in the future (crash of the incarnation).
func (s *Sched) Kill() {
	s.mu.Lock()
	if !s.dead {
		s.dead = true
		close(s.deadCh)
	}
	s.mu.Unlock()
}

// At blocks the calling actor at gate `point` until the driver releases it; returns the directive.
// Actors unknown to the scheduler (name "") pass through.
func (s *Sched) At(name, point string) string {
	if name == "" {
		return "go"
	}
	s.mu.Lock()
	dead := s.dead
	s.mu.Unlock()
	if dead {
		return "dead"
	}
	a := s.get(name)
	s.mu.Lock()
	a.at = point
	s.mu.Unlock()
	select {
	case a.arrived <- struct{}{}:
	default:
	}
	select {
	case d := <-a.release:
		return d
	case <-s.deadCh:
		return "dead"
	}
}

// Go starts fn as actor `name`; the actor first blocks at gate "start".
func (s *Sched) Go(name string, fn func(ctx context.Context)) {
	a := s.get(name)
	s.mu.Lock()
	a.at = ""
	s.mu.Unlock()
	go func() {
		s.At(name, "start")
		fn(WithActor(context.Background(), name))
		s.mu.Lock()
		a.at = "done"
		s.mu.Unlock()
		select {
		case a.arrived <- struct{}{}:
		default:
		}
	}()
}

// Where returns the gate the actor is blocked at: "" if running/blocked in code, "done" if finished.
func (s *Sched) Where(name string) string {
	a := s.get(name)
	s.mu.Lock()
	defer s.mu.Unlock()
	return a.at
}

// Await waits until the actor is blocked at a gate (or done) and returns that gate.
func (s *Sched) Await(name string, d time.Duration) (string, bool) {
	a := s.get(name)
	deadline := time.After(d)
	for {
		s.mu.Lock()
		at := a.at
		s.mu.Unlock()
		if at != "" {
			return at, true
		}
		select {
		case <-a.arrived:
		case <-deadline:
			return "", false
		}
	}
}

// Step releases the actor, which must be blocked at gate `expect` (waiting for it to arrive there first),
// with the given directive, and waits until it arrives at its next gate / finishes / is blocked in code.
// It returns the new position ("" = blocked inside the code under test).
func (s *Sched) Step(name, expect, directive string) (string, error) {
	at, ok := s.Await(name, s.GiveUp)
	if !ok {
		return "", fmt.Errorf("actor %s never arrived at gate %q", name, expect)
	}
	if expect != "" && at != expect {
		return at, fmt.Errorf("actor %s is at gate %q, expected %q", name, at, expect)
	}
	a := s.get(name)
	s.mu.Lock()
	a.at = ""
	s.mu.Unlock()
	// drain stale arrival signals
	for {
		select {
		case <-a.arrived:
			continue
		default:
		}
		break
	}
	select {
	case a.release <- directive:
	case <-s.deadCh:
		return "", fmt.Errorf("incarnation is dead")
	case <-time.After(s.GiveUp):
		return "", fmt.Errorf("actor %s does not take its release", name)
	}
	now, _ := s.Await(name, s.BlockedAfter)
	return now, nil
}
