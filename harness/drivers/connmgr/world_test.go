// World of the X01 driver: 2-3 REAL grpc connection managers connected through in-memory bufconn listeners,
// with scripted seams (dialer, authenticator, protocol acceptor, back-off decorator, package clock) that double as
// scheduling gates and as recorders of the real linearization points.
package connmgr

import (
	"bytes"
	"context"
	"errors"
	"fmt"
	"net"
	"path/filepath"
	"runtime"
	"strconv"
	"strings"
	"sync"
	"sync/atomic"
	"testing"
	"time"

	ssi "github.com/nuts-foundation/go-did"
	"github.com/nuts-foundation/go-did/did"
	"github.com/nuts-foundation/go-stoabs"
	"github.com/nuts-foundation/go-stoabs/bbolt"
	"github.com/nuts-foundation/nuts-node/network"
	"github.com/nuts-foundation/nuts-node/network/transport"
	ngrpc "github.com/nuts-foundation/nuts-node/network/transport/grpc"
	"google.golang.org/grpc"
	"google.golang.org/grpc/codes"
	"google.golang.org/grpc/metadata"
	"google.golang.org/grpc/status"
	"google.golang.org/grpc/test/bufconn"
)

const (
	unit   = 5 * time.Second  // one model time unit
	boMin  = 20 * time.Second // BMin = 4 units
	boMax  = 45 * time.Second // BMax = 9 units
	delayD = 30 * time.Second // Delay = 6 units
)

var baseTime = time.Date(2030, 1, 1, 0, 0, 0, 0, time.UTC)

func gid() int64 {
	var buf [64]byte
	n := runtime.Stack(buf[:], false)
	f := bytes.Fields(buf[:n])
	id, _ := strconv.ParseInt(string(f[1]), 10, 64)
	return id
}

// ------------------------------------------------------------------------------------------------ gates

type slot struct {
	at      string
	release chan string
}

type world struct {
	t       *testing.T
	dir     string
	mu      sync.Mutex
	cond    *sync.Cond
	log     []map[string]any
	lastE   time.Time
	clock   atomic.Int64 // fake time, ns after baseTime
	feedGid atomic.Int64 // goroutine that is inside Connect()
	nodes   map[string]*node
	slots   map[string]*slot       // actor -> gate it is blocked at
	free    map[string]string      // node -> "" (gates block) | "go" (gates pass, no faults) | "stop" (node is stopping)
	gids    map[int64]string       // goroutine -> call ("A/B")
	role    map[int64]string       // goroutine -> "cli" | "srv"
	conns   map[string]*holdConn   // call -> transport connection (client end)
	targets map[string]string      // call -> node that serves it
	bos     map[string]*recBackoff // latest back-off object per "m/k"
	next    string                 // label of the back-off object created by the next backoffCreator call
	viol    []violation
	drift   []string
	noDID   map[string]bool // nodes without node DID
	// monitor state
	due         map[string]time.Time // "m/k" -> no dial before
	removed     map[string]int64     // "m/k" -> canary poll count at removal
	obsOpen     map[string]bool      // "m#inc|peerkey" -> connected seen
	checks      int
	sabotage    string
	pendingInit string            // label whose next created back-off object is initialised from the persisted value
	lastOp      map[string]string // "m/k" -> last back-off operation since the dial began
	attempted   map[string]bool   // "m/k" -> a dial is in progress
	wasUp       map[string]bool   // "m/k" -> the outbound stream of the current call was established
	failed      map[string]bool   // "m/k" -> the current call's dial failed
	fedAddr     map[string]string // "m/k" -> address of the last Connect() for the contact
	refused     map[string]bool   // "m/k" -> the peer's handler answered the current call with Unauthenticated
	authed      map[string]bool   // "in:m/k" | "out:m/k" -> the Authenticator accepted the current call
}

func newWorld(t *testing.T, noDID []string, sabotage string) *world {
	w := &world{t: t, dir: t.TempDir(), nodes: map[string]*node{}, slots: map[string]*slot{}, free: map[string]string{},
		gids: map[int64]string{}, role: map[int64]string{}, conns: map[string]*holdConn{}, targets: map[string]string{}, bos: map[string]*recBackoff{},
		noDID: map[string]bool{}, lastOp: map[string]string{}, attempted: map[string]bool{}, wasUp: map[string]bool{}, failed: map[string]bool{}, fedAddr: map[string]string{}, refused: map[string]bool{}, authed: map[string]bool{}, due: map[string]time.Time{}, removed: map[string]int64{}, obsOpen: map[string]bool{}, sabotage: sabotage}
	w.cond = sync.NewCond(&w.mu)
	w.noDID["C"] = true // as MCDidOf in MCConnMgr.tla: node C has no node DID
	for _, n := range noDID {
		w.noDID[n] = true
	}
	return w
}

func (w *world) now() time.Time { return baseTime.Add(time.Duration(w.clock.Load())) }

func (w *world) ev(e map[string]any) {
	w.mu.Lock()
	e["t"] = w.clock.Load() / int64(time.Second)
	// events of an incarnation that is being stopped are not part of the modelled behaviour (Restart is one atomic action)
	owner := ""
	for _, f := range []string{"node", "srv"} {
		if v, ok := e[f].(string); ok && owner == "" {
			owner = v
		}
	}
	if owner == "" {
		switch e["ev"] {
		case "dial.begin", "dial.end", "bo":
			owner, _ = e["m"].(string)
		}
	}
	if owner != "" && w.free[owner] == "stop" {
		e["dying"] = true
	}
	w.log = append(w.log, e)
	w.lastE = time.Now()
	w.cond.Broadcast()
	w.mu.Unlock()
}

func (w *world) violate(kind, site, detail string) {
	w.mu.Lock()
	w.viol = append(w.viol, violation{Prop: "X01", Kind: kind, Site: site, Detail: detail, Step: len(w.log)})
	w.mu.Unlock()
}

// at blocks the calling goroutine (actor) at a gate until the driver releases it; returns the directive.
func (w *world) at(nodeName, actor, point string) string {
	w.mu.Lock()
	if mode := w.free[nodeName]; mode != "" {
		w.mu.Unlock()
		return mode
	}
	s := &slot{at: point, release: make(chan string, 1)}
	w.slots[actor] = s
	w.lastE = time.Now()
	w.cond.Broadcast()
	w.mu.Unlock()
	d := <-s.release
	return d
}

// await waits until the actor is blocked at the gate.
func (w *world) await(actor, point string, d time.Duration) bool {
	deadline := time.Now().Add(d)
	w.mu.Lock()
	defer w.mu.Unlock()
	for {
		if s := w.slots[actor]; s != nil && s.at == point {
			return true
		}
		if time.Now().After(deadline) {
			return false
		}
		w.waitLocked(5 * time.Millisecond)
	}
}

func (w *world) waitLocked(d time.Duration) {
	t := time.AfterFunc(d, func() { w.mu.Lock(); w.cond.Broadcast(); w.mu.Unlock() })
	w.cond.Wait()
	t.Stop()
}

func (w *world) where(actor string) string {
	w.mu.Lock()
	defer w.mu.Unlock()
	if s := w.slots[actor]; s != nil {
		return s.at
	}
	return ""
}

func (w *world) release(actor, directive string) bool {
	w.mu.Lock()
	s := w.slots[actor]
	delete(w.slots, actor)
	w.lastE = time.Now()
	w.mu.Unlock()
	if s == nil {
		return false
	}
	s.release <- directive
	return true
}

// freeNode lets every present and future gate of the node's actors pass ("free" directive).
func (w *world) freeNode(name, mode string) {
	w.mu.Lock()
	w.free[name] = mode
	var rel []*slot
	for a, s := range w.slots {
		if actorNode(a) == name {
			rel = append(rel, s)
			delete(w.slots, a)
		}
	}
	w.mu.Unlock()
	for _, s := range rel {
		s.release <- mode
	}
	w.releaseHolds(name)
}

// actor names: "cli/A/B" runs on A; "srv/A/B" (handler serving the stream of call A/B) runs on the target node, which is
// recorded in the name as "srv/A/B@N".
func actorNode(a string) string {
	if strings.HasPrefix(a, "srv/") {
		if i := strings.LastIndex(a, "@"); i >= 0 {
			return a[i+1:]
		}
	}
	p := strings.Split(a, "/")
	if len(p) > 1 {
		return p[1]
	}
	return ""
}

// settle waits until nothing has been logged and no gate has been reached for `quiet`.
func (w *world) settle(quiet, max time.Duration) {
	deadline := time.Now().Add(max)
	for {
		w.mu.Lock()
		idle := time.Since(w.lastE)
		w.mu.Unlock()
		if idle >= quiet || time.Now().After(deadline) {
			return
		}
		time.Sleep(quiet - idle + time.Millisecond)
	}
}

// ------------------------------------------------------------------------------------------ addresses

func kname(k string) string { return strings.ToLower(strings.ReplaceAll(k, "@", "boot-")) }

// address of node `to` as used by contact k: unique per contact so that the dialer seam knows the call
func addrOf(to, k string) string { return strings.ToLower(to) + "." + kname(k) + ":5555" }
func nodeOfAddr(a string) string {
	return strings.ToUpper(strings.SplitN(a, ".", 2)[0])
}
func keyOfAddr(a string) string {
	p := strings.SplitN(a, ".", 2)
	if len(p) < 2 {
		return "?"
	}
	s := strings.TrimSuffix(p[1], ":5555")
	if strings.HasPrefix(s, "boot-") {
		return "@" + strings.ToUpper(strings.TrimPrefix(s, "boot-"))
	}
	return strings.ToUpper(s)
}
func didOfName(n string) did.DID {
	if n == "" || n == "none" {
		return did.DID{}
	}
	return did.MustParseDID("did:nuts:" + n)
}
func nameOfDID(d did.DID) string {
	if d.Empty() {
		return "none"
	}
	return strings.TrimPrefix(d.String(), "did:nuts:")
}

// ------------------------------------------------------------------------------------- back-off decorator

// recBackoff decorates the real BoundedBackoff (it sits below the persisting and locking layers the address book adds)
type recBackoff struct {
	w       *world
	label   string // "m/k" or "m/canary"
	inner   ngrpc.Backoff
	canary  bool
	polls   atomic.Int64
	mu      sync.Mutex
	val     time.Duration
	ops     int
	feedOps int       // operations made by the goroutine that is inside Connect() (the harness feeding a contact)
	init    bool      // the next Reset is the initialisation from the persisted value (NewPersistedBackoff)
	due     time.Time // monitor: no dial of the contact holding this object before this moment
}

func (b *recBackoff) Reset(v time.Duration) {
	if b.canary {
		return
	}
	b.inner.Reset(v)
	b.mu.Lock()
	old := b.val
	b.val = v
	isInit := b.init
	b.init = false
	b.ops++
	if b.w.feedGid.Load() == gid() {
		b.feedOps++
	}
	b.mu.Unlock()
	b.w.onBackoffOp(b, "reset", old, v, isInit)
}

func (b *recBackoff) Backoff() time.Duration {
	if b.canary {
		return time.Hour
	}
	v := b.inner.Backoff()
	b.mu.Lock()
	old := b.val
	b.val = v
	b.ops++
	if b.w.feedGid.Load() == gid() {
		b.feedOps++
	}
	b.mu.Unlock()
	b.w.onBackoffOp(b, "backoff", old, v, false)
	return v
}

func (b *recBackoff) Value() time.Duration {
	if b.canary {
		return time.Hour
	}
	return b.inner.Value()
}

func (b *recBackoff) Expired() bool {
	if b.canary {
		// polled once per pass of connectLoop (first contact of the address book): a tick observation
		n := b.polls.Add(1)
		b.w.ev(map[string]any{"ev": "tick", "m": strings.SplitN(b.label, "/", 2)[0], "n": n})
		return false
	}
	return b.inner.Expired()
}

// ------------------------------------------------------------------------------------------------ nodes

type node struct {
	w      *world
	name   string
	did    did.DID
	inc    int
	cm     transport.ConnectionManager
	lis    *bufconn.Listener
	store  stoabs.KVStore
	canary *recBackoff
	cl     ngrpc.ConnectionList
	proto  *proto
	up     bool
}

func (n *node) pid() string { return fmt.Sprintf("%s.%d", n.name, n.inc) }

func (w *world) startNode(name string) *node {
	n := w.nodes[name]
	if n == nil {
		n = &node{w: w, name: name}
		if !w.noDID[name] {
			n.did = didOfName(name)
		}
		w.nodes[name] = n
	}
	n.inc++
	w.mu.Lock()
	w.free[name] = ""
	w.mu.Unlock()
	var err error
	n.store, err = bbolt.CreateBBoltStore(filepath.Join(w.dir, name+".db"), stoabs.WithNoSync())
	if err != nil {
		w.t.Fatal(err)
	}
	n.lis = bufconn.Listen(4 * 1024 * 1024)
	lis := n.lis
	n.proto = &proto{TestProtocol: &ngrpc.TestProtocol{}, w: w, n: n, inc: n.inc}
	cfg, err := ngrpc.NewConfig("bufnet-"+name, transport.PeerID(n.pid()),
		ngrpc.WithBackoff(func() ngrpc.Backoff { return w.newBackoff(name) }),
		ngrpc.WithConnectionTimeout(30*time.Minute),
		ngrpc.VerifWithDialer(n.dial),
		ngrpc.VerifWithListener(func(string) (net.Listener, error) { return lis, nil }))
	if err != nil {
		w.t.Fatal(err)
	}
	cm, err := ngrpc.NewGRPCConnectionManager(cfg, n.store, n.did, &auth{w: w, n: n}, n.proto)
	if err != nil {
		w.t.Fatal(err)
	}
	n.cm = cm
	inc := n.inc
	cm.RegisterObserver(func(peer transport.Peer, state transport.StreamState, _ transport.Protocol) {
		w.onObserve(n, inc, peer, string(state))
	})
	// the canary is the first contact of the address book: it is polled at the start of every pass and never dialled
	w.next = name + "/canary"
	cm.Connect("canary", did.DID{}, nil)
	if err := cm.Start(); err != nil {
		w.t.Fatal(err)
	}
	n.up = true
	return n
}

func (w *world) stopNode(n *node) {
	if !n.up {
		return
	}
	n.up = false
	w.freeNode(n.name, "stop")
	done := make(chan struct{})
	go func() { n.cm.Stop(); close(done) }()
	select {
	case <-done:
	case <-time.After(250 * time.Millisecond):
		// GracefulStop waits for the peers' transports: let the held ones see the GOAWAY
		w.releaseHoldsTo(n.name)
		select {
		case <-done:
		case <-time.After(20 * time.Second):
			w.t.Logf("Stop of %s does not return", n.name)
		}
	}
	_ = n.lis.Close()
	_ = n.store.Close(context.Background())
}

func (w *world) newBackoff(nodeName string) ngrpc.Backoff {
	label := w.next
	w.next = ""
	b := &recBackoff{w: w, label: label, inner: ngrpc.BoundedBackoff(boMin, boMax)}
	w.mu.Lock()
	if w.pendingInit != "" && w.pendingInit == label {
		b.init = true
		b.due = w.due[label] // what the monitor remembers as persisted for this DID
	}
	w.mu.Unlock()
	if strings.HasSuffix(label, "/canary") || label == "" {
		b.canary = true
		if n := w.nodes[nodeName]; n != nil && label != "" {
			n.canary = b
		}
		return b
	}
	w.mu.Lock()
	w.bos[label] = b
	w.mu.Unlock()
	return b
}

// persisted reads the bbolt shelf the way the monitor needs it: is there a persisted back-off for the DID?
func (n *node) persisted(d did.DID) bool {
	found := false
	_ = n.store.ReadShelf(context.Background(), "backoff", func(r stoabs.Reader) error {
		v, err := r.Get(stoabs.BytesKey(d.String()))
		if err == nil && len(v) > 0 {
			found = true
		}
		return nil
	})
	return found
}

// ----------------------------------------------------------------------------------------- dialer seam

// holdConn is the client end of a transport connection whose inbound direction (peer -> client) can be held back: the
// network delay between the peer's handler and the calling goroutine is a scheduling choice of the specification
// (CliHeaders, CliGone, CliClose happen when the data arrives).
type holdConn struct {
	net.Conn
	mu   sync.Mutex
	cond *sync.Cond
	held bool
}

func newHoldConn(c net.Conn) *holdConn {
	h := &holdConn{Conn: c}
	h.cond = sync.NewCond(&h.mu)
	return h
}

func (h *holdConn) Read(b []byte) (int, error) {
	h.mu.Lock()
	for h.held {
		h.cond.Wait()
	}
	h.mu.Unlock()
	n, err := h.Conn.Read(b)
	// data that arrived while the reader was already waiting is held back as well
	h.mu.Lock()
	for h.held {
		h.cond.Wait()
	}
	h.mu.Unlock()
	return n, err
}

func (h *holdConn) hold(on bool) {
	h.mu.Lock()
	h.held = on
	h.cond.Broadcast()
	h.mu.Unlock()
}

func (h *holdConn) Close() error {
	h.hold(false)
	return h.Conn.Close()
}

// hold switches the delivery peer -> client of the call's transport connection
func (w *world) hold(call string, on bool) {
	w.mu.Lock()
	c := w.conns[call]
	if w.free[actorNode("cli/"+call)] != "" {
		on = false
	}
	w.mu.Unlock()
	if c != nil {
		c.hold(on)
	}
}

func (w *world) releaseHoldsTo(target string) {
	w.mu.Lock()
	var cs []*holdConn
	for call, c := range w.conns {
		if w.targets[call] == target {
			cs = append(cs, c)
		}
	}
	w.mu.Unlock()
	for _, c := range cs {
		c.hold(false)
	}
}

func (w *world) releaseHolds(node string) {
	w.mu.Lock()
	var cs []*holdConn
	for call, c := range w.conns {
		if node == "" || strings.HasPrefix(call, node+"/") {
			cs = append(cs, c)
		}
	}
	w.mu.Unlock()
	for _, c := range cs {
		c.hold(false)
	}
}

func (n *node) dial(ctx context.Context, target string, opts ...grpc.DialOption) (*grpc.ClientConn, error) {
	w := n.w
	if target == "canary" || !strings.Contains(target, ".") {
		// the canary contact never expires: dialling it means the connect loop ignores the back-off
		w.violate("dial-before-deadline", n.name+"/canary", "a contact whose back-off has not expired was dialled")
		return nil, errors.New("canary dialled")
	}
	k := keyOfAddr(target)
	call := n.name + "/" + k
	g := gid()
	w.mu.Lock()
	w.gids[g] = call
	w.role[g] = "cli"
	w.mu.Unlock()
	w.onDialBegin(n, k, target)
	d := w.at(n.name, "cli/"+call, "dial")
	switch d {
	case "fail":
		w.mu.Lock()
		w.failed[call] = true
		w.mu.Unlock()
		w.ev(map[string]any{"ev": "dial.end", "m": n.name, "k": k, "res": "fail"})
		return nil, errors.New("scripted dial failure")
	case "cancel", "stop":
		w.ev(map[string]any{"ev": "dial.end", "m": n.name, "k": k, "res": "cancel"})
		return nil, status.Error(codes.Canceled, "context canceled")
	}
	srv := w.nodes[nodeOfAddr(target)]
	if srv == nil || !srv.up {
		w.ev(map[string]any{"ev": "dial.end", "m": n.name, "k": k, "res": "fail", "why": "target down"})
		return nil, errors.New("target is down")
	}
	lis := srv.lis
	all := append([]grpc.DialOption{}, opts...)
	all = append(all, grpc.WithContextDialer(func(context.Context, string) (net.Conn, error) {
		c, err := lis.Dial()
		if err != nil {
			return nil, err
		}
		hc := newHoldConn(c)
		w.mu.Lock()
		w.conns[call] = hc
		w.targets[call] = nodeOfAddr(target)
		w.mu.Unlock()
		return hc, nil
	}), grpc.WithUserAgent("x01call="+call))
	dctx, cancel := context.WithTimeout(ctx, 5*time.Second)
	defer cancel()
	cc, err := grpc.DialContext(dctx, "passthrough:///"+target, all...)
	if err != nil {
		w.ev(map[string]any{"ev": "dial.end", "m": n.name, "k": k, "res": "fail", "why": err.Error()})
		return nil, err
	}
	w.mu.Lock()
	delete(w.authed, "in:"+call)
	delete(w.authed, "out:"+call)
	w.mu.Unlock()
	w.hold(call, true) // what the peer sends from now on arrives when the script says so (CliHeaders)
	w.ev(map[string]any{"ev": "dial.end", "m": n.name, "k": k, "res": "ok", "to": nodeOfAddr(target)})
	return cc, nil
}

// ----------------------------------------------------------------------------------- authenticator seam

type auth struct {
	w *world
	n *node
}

func (a *auth) Authenticate(nodeDID did.DID, peer transport.Peer) (transport.Peer, error) {
	w := a.w
	g := gid()
	w.mu.Lock()
	call, role := w.gids[g], w.role[g]
	w.mu.Unlock()
	side := "out"
	actor := "cli/" + call
	if role == "srv" {
		side = "in"
		actor = "srv/" + call + "@" + a.n.name
	}
	parts := strings.SplitN(call, "/", 2)
	if len(parts) != 2 {
		parts = []string{"?", "?"}
	}
	w.ev(map[string]any{"ev": "auth.begin", "node": a.n.name, "side": side, "m": parts[0], "k": parts[1], "did": nameOfDID(nodeDID)})
	d := w.at(a.n.name, actor, "auth")
	ok := d != "fail" // a stopping node does not change what the authenticator answers
	w.mu.Lock()
	w.authed[side+":"+call] = ok
	w.mu.Unlock()
	w.ev(map[string]any{"ev": "auth.end", "node": a.n.name, "side": side, "m": parts[0], "k": parts[1], "ok": ok})
	if !ok {
		return peer, errors.New("scripted authentication failure")
	}
	peer.NodeDID = nodeDID
	peer.Authenticated = true
	return peer, nil
}

// --------------------------------------------------------------------------------------- protocol seam

type proto struct {
	*ngrpc.TestProtocol
	ngrpc.UnimplementedTestServer
	w        *world
	n        *node
	inc      int
	acceptor func(stream grpc.ServerStream) error
	// outbox scenario
	handleGate atomic.Bool
	handleCh   chan struct{}
	recvMu     sync.Mutex
	recv       []int
}

func (p *proto) Register(registrar grpc.ServiceRegistrar, acceptor func(stream grpc.ServerStream) error, cl ngrpc.ConnectionList, _ transport.ConnectionManager) {
	p.acceptor = acceptor
	p.n.cl = cl
	ngrpc.RegisterTestServer(registrar, p)
}

func (p *proto) DoStuff(stream ngrpc.Test_DoStuffServer) error {
	w := p.w
	call := "?/?"
	if md, ok := metadata.FromIncomingContext(stream.Context()); ok {
		for _, ua := range md.Get("user-agent") {
			for _, f := range strings.Fields(ua) {
				if strings.HasPrefix(f, "x01call=") {
					call = strings.TrimPrefix(f, "x01call=")
				}
			}
		}
	}
	g := gid()
	w.mu.Lock()
	w.gids[g] = call
	w.role[g] = "srv"
	w.mu.Unlock()
	parts := strings.SplitN(call, "/", 2)
	w.ev(map[string]any{"ev": "srv.begin", "m": parts[0], "k": parts[1], "srv": p.n.name})
	w.at(p.n.name, "srv/"+call+"@"+p.n.name, "accept")
	w.ev(map[string]any{"ev": "srv.accept", "m": parts[0], "k": parts[1], "srv": p.n.name})
	err := p.acceptor(stream)
	res := "ok"
	switch {
	case err == nil:
	case errors.Is(err, ngrpc.ErrAlreadyConnected):
		res = "already"
	case status.Code(err) == codes.Unauthenticated:
		res = "unauth"
	case strings.Contains(err.Error(), "unable to send headers"):
		res = "headers"
	default:
		res = "err:" + err.Error()
	}
	if res == "unauth" {
		w.mu.Lock()
		w.refused[call] = true // the peer refused the caller's node DID: the caller has to back off
		w.mu.Unlock()
	}
	w.ev(map[string]any{"ev": "srv.return", "m": parts[0], "k": parts[1], "srv": p.n.name, "res": res})
	return err
}

func (p *proto) Handle(_ ngrpc.Connection, envelope interface{}) error {
	if p.handleGate.Load() {
		<-p.handleCh
	}
	if m, ok := envelope.(*ngrpc.TestMessage); ok && len(m.Data) >= 4 {
		id := int(m.Data[0])<<24 | int(m.Data[1])<<16 | int(m.Data[2])<<8 | int(m.Data[3])
		p.recvMu.Lock()
		p.recv = append(p.recv, id)
		p.recvMu.Unlock()
	}
	return nil
}

func (p *proto) UnwrapMessage(envelope interface{}) interface{} { return envelope }

// ------------------------------------------------------------------------------------------- feeding

func (w *world) feed(n *node, k, to, dk string) {
	addr := addrOf(to, k)
	label := n.name + "/" + k
	w.next = label
	if strings.HasPrefix(k, "@") {
		n.cm.Connect(addr, did.DID{}, nil) // connectToKnownNodes: bootstrap nodes
		w.next = ""
		w.mu.Lock()
		w.fedAddr[label] = addr
		w.mu.Unlock()
		return
	}
	d := didOfName(k)
	// is a contact object going to be created from a persisted back-off? then its first Reset is the initialisation
	exists := false
	for _, c := range n.cm.Contacts() {
		if c.DID.Equals(d) {
			exists = true
		}
	}
	w.mu.Lock()
	prev := w.bos[label]
	w.mu.Unlock()
	// an unchanged contact keeps its back-off ("contact didn't change, so backoff doesn't either")
	unchanged, opsBefore := false, 0
	for _, c := range n.cm.Contacts() {
		if c.DID.Equals(d) && c.Address == addr && prev != nil {
			unchanged = true
			prev.mu.Lock()
			opsBefore = prev.feedOps
			prev.mu.Unlock()
		}
	}
	w.feedGid.Store(gid())
	defer func() {
		w.feedGid.Store(0)
		w.mu.Lock()
		w.fedAddr[label] = addr
		w.mu.Unlock()
		if unchanged {
			prev.mu.Lock()
			changed := prev.feedOps != opsBefore
			prev.mu.Unlock()
			if changed {
				w.violate("backoff-changed-by-unchanged-feed", label, "Connect() with the address the contact already has changed its back-off")
			}
		}
	}()
	pers := !exists && n.persisted(d) && !(n.did.Equals(d) && !n.did.Empty())
	if pers {
		w.mu.Lock()
		w.pendingInit = label
		w.mu.Unlock()
	}
	switch dk {
	case "delay":
		dd := delayD
		if n.did.Equals(d) && !n.did.Empty() {
			break // the network layer never feeds the own DID (connectToDID); nothing to do
		}
		n.cm.Connect(addr, d, &dd)
	default:
		doc := did.Document{ID: d}
		doc.Service = []did.Service{{ID: ssi.MustParseURI(d.String() + "#nutscomm"), Type: transport.NutsCommServiceType, ServiceEndpoint: "grpc://" + addr}}
		network.VerifConnectToDID(n.cm, n.did, doc, dk == "zero", false, time.Hour)
	}
	w.mu.Lock()
	w.pendingInit = ""
	if w.bos[label] != prev {
		delete(w.removed, label) // a (new) contact object exists again
		delete(w.attempted, label)
		delete(w.wasUp, label)
		delete(w.failed, label)
	}
	w.mu.Unlock()
	w.next = ""
}
