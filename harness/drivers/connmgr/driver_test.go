// Driver for ConnMgr.tla (X01): replays TLC behaviours on REAL grpc connection managers (world_test.go) and evaluates the
// X01 properties on the real observables (dialer calls, back-off operations, observer events, connection lists, Send results).
package connmgr

import (
	"bufio"
	"context"
	"encoding/json"
	"fmt"
	"io"
	"math"
	"net"
	"os"
	"path/filepath"
	"sort"
	"strings"
	"testing"
	"time"

	"github.com/nuts-foundation/go-did/did"
	"github.com/nuts-foundation/go-stoabs"
	"github.com/nuts-foundation/go-stoabs/bbolt"
	"github.com/nuts-foundation/nuts-node/network/transport"
	ngrpc "github.com/nuts-foundation/nuts-node/network/transport/grpc"
	"github.com/sirupsen/logrus"
)

type step map[string]any

func (s step) str(k string) string {
	v, _ := s[k].(string)
	return v
}

type script struct {
	ID    string   `json:"id"`
	Kind  string   `json:"kind"` // "" = behaviour of ConnMgr.tla, "outbox" = outbox scenario
	Steps []step   `json:"steps"`
	NoDID []string `json:"nodid"`
	Nodes []string `json:"nodes"`
	// Fair: run the fair suffix (no more faults, time passes) and check that matching contacts get connected
	Fair bool `json:"fair"`
}

type input struct {
	Scripts  []script `json:"scripts"`
	Sabotage string   `json:"sabotage,omitempty"`
}

type violation struct {
	Prop   string `json:"prop"`
	Kind   string `json:"kind"`
	Site   string `json:"site"`
	Detail string `json:"detail"`
	Step   int    `json:"step"`
}

type result struct {
	ID         string           `json:"id"`
	Violations []violation      `json:"violations"`
	Drift      []string         `json:"drift"`
	Deferred   int              `json:"deferred"`
	Error      string           `json:"error,omitempty"`
	Trace      []map[string]any `json:"trace"`
	Checks     int              `json:"checks"`
	Notes      []string         `json:"notes"`
	WallMs     int64            `json:"wall_ms"`
	Seen       map[string]int   `json:"seen"`
}

// ------------------------------------------------------------------------------------------ monitors

func secs(d time.Duration) float64 { return math.Round(d.Seconds()*1000) / 1000 }

func (w *world) onBackoffOp(b *recBackoff, op string, old, v time.Duration, isInit bool) {
	parts := strings.SplitN(b.label, "/", 2)
	dying := false
	w.mu.Lock()
	dying = w.free[parts[0]] == "stop"
	refused := false
	if !isInit {
		refused = w.refused[b.label]
		delete(w.refused, b.label)
		b.due = w.now().Add(v)
		if !strings.HasPrefix(parts[1], "@") {
			w.due[b.label] = b.due // the persisting layer writes every operation of a DID contact to the store
		}
		w.lastOp[b.label] = op
	}
	w.checks++
	w.mu.Unlock()
	e := map[string]any{"ev": "bo", "m": parts[0], "k": parts[1], "op": op, "ms": v.Milliseconds(), "oldms": old.Milliseconds()}
	if isInit {
		e["init"] = true
	}
	if dying {
		e["dying"] = true
	}
	if w.sabotage == "log-backoff-value" && op == "backoff" {
		e["ms"] = v.Milliseconds() + 5000
	}
	w.ev(e)
	// P2: a peer that refuses our node DID (Unauthenticated) is backed off from, not redialled after 1..5 s
	if refused && op == "reset" && !dying && v < 24*time.Hour {
		w.violate("reset-after-auth-refusal", "connect", fmt.Sprintf("%s: the peer closed the stream with Unauthenticated, connect() did Reset(%v) instead of Backoff()", b.label, v))
	}
	if op == "backoff" {
		// P2: a failure multiplies the back-off by 1.5 from the minimum up to the cap, never lowers it below min(old, cap)
		want := boMin
		if old >= boMin {
			want = time.Duration(float64(old) * 1.5)
			if want > boMax {
				want = boMax
			}
		}
		if v != want {
			w.violate("backoff-shape", b.label, fmt.Sprintf("Backoff() after %v returned %v, expected %v (min %v, cap %v)", old, v, want, boMin, boMax))
		}
	}
}

func (w *world) onDialBegin(n *node, k, target string) {
	label := n.name + "/" + k
	var polls int64
	if n.canary != nil {
		polls = n.canary.polls.Load()
	}
	w.mu.Lock()
	var due time.Time
	hasDue := false
	if b := w.bos[label]; b != nil { // the contact in the address book holds the back-off object created last
		due, hasDue = b.due, !b.due.IsZero()
	}
	rem, wasRemoved := w.removed[label]
	prevAttempted, prevUp, prevOp, prevFail := w.attempted[label], w.wasUp[label], w.lastOp[label], w.failed[label]
	w.attempted[label] = true
	w.lastOp[label] = ""
	w.wasUp[label] = false
	w.failed[label] = false
	delete(w.refused, label)
	dying := w.free[n.name] == "stop"
	w.checks += 2
	w.mu.Unlock()
	fed := w.fedAddrOf(label)
	if fed != "" && fed != target && !wasRemoved {
		w.violate("dialled-stale-address", label, "dialled "+target+", the contact's address is "+fed)
	}
	now := w.now()
	e := map[string]any{"ev": "dial.begin", "m": n.name, "k": k, "to": nodeOfAddr(target)}
	if dying {
		e["dying"] = true
	}
	w.ev(e)
	// P2: the previous attempt of this contact object failed => Backoff() was called; it was established and ended => some
	// back-off operation (Reset after an orderly end, Backoff after an authentication failure) was made
	if prevAttempted && prevFail && prevOp != "backoff" {
		w.violate("no-backoff-after-failure", label, "the previous dial failed and the contact is dialled again without Backoff() in between")
	}
	if prevAttempted && prevUp && prevOp == "" {
		w.violate("no-reset-after-success", label, "the previous connection was established and ended, the contact is dialled again without Reset()/Backoff() in between")
	}
	// P3: no dial before the deadline set by the last back-off operation (persisted ones included)
	if hasDue && now.Before(due) {
		w.violate("dial-before-deadline", label, fmt.Sprintf("dialled at t=%v, deadline t=%v", now.Sub(baseTime), due.Sub(baseTime)))
	}
	// P5: a removed contact is not selected by a later pass of the connect loop
	if wasRemoved && polls >= rem+2 {
		w.violate("removed-contact-dialled", label, fmt.Sprintf("removed at pass %d, dialled at pass %d", rem, polls))
	}
}

func (w *world) onObserve(n *node, inc int, peer transport.Peer, state string) {
	dir := "out"
	m, k := n.name, ""
	if peer.Address == "bufconn" {
		dir = "in"
		g := gid()
		w.mu.Lock()
		call := w.gids[g]
		w.mu.Unlock()
		if p := strings.SplitN(call, "/", 2); len(p) == 2 {
			m, k = p[0], p[1]
		}
	} else {
		k = keyOfAddr(peer.Address)
		if k == "?" {
			w.violate("malformed-peer-in-event", n.name, fmt.Sprintf("observer called with peer %q (state %s)", peer.String(), state))
		}
	}
	id := fmt.Sprintf("%s#%d|%s", n.name, inc, peer.Key())
	w.mu.Lock()
	open := w.obsOpen[id]
	if state == "connected" {
		w.obsOpen[id] = true
		if dir == "out" {
			w.wasUp[n.name+"/"+k] = true
		}
	} else {
		delete(w.obsOpen, id)
	}
	dying := w.free[n.name] == "stop" || inc != n.inc
	w.checks++
	w.mu.Unlock()
	e := map[string]any{"ev": "obs", "node": n.name, "state": state, "dir": dir, "m": m, "k": k, "pid": string(peer.ID), "did": nameOfDID(peer.NodeDID)}
	if dying {
		e["dying"] = true
	}
	w.ev(e)
	// peer ID handling: an outbound connection carries the peer ID the answering node sent, an inbound one the caller's
	// (with the -bootstrap postfix for a bootstrap call)
	if state == "connected" && k != "" {
		want := ""
		if dir == "out" {
			want = nodeOfAddr(peer.Address) + "."
		} else {
			want = m + "."
		}
		okID := strings.HasPrefix(string(peer.ID), want)
		if dir == "in" && strings.HasPrefix(k, "@") != strings.HasSuffix(string(peer.ID), "-bootstrap") {
			okID = false
		}
		if !okID {
			w.violate("wrong-peer-id", n.name+":"+dir, fmt.Sprintf("stream of call %s/%s reported Connected with peer ID %q", m, k, peer.ID))
		}
	}
	// a connection with a node DID is an authenticated one: the Authenticator accepted exactly this call
	if state == "connected" && !peer.NodeDID.Empty() {
		w.mu.Lock()
		okAuth := w.authed[dir+":"+m+"/"+k]
		w.mu.Unlock()
		if !okAuth || !peer.Authenticated {
			w.violate("node-did-without-authentication", n.name+":"+dir, fmt.Sprintf("stream of call %s/%s reported Connected with node DID %s, authenticator accepted=%v, Authenticated=%v", m, k, nameOfDID(peer.NodeDID), okAuth, peer.Authenticated))
		}
	}
	// an outbound connection to a DID contact is a connection to THAT node DID, authenticated
	if dir == "out" && state == "connected" && !strings.HasPrefix(k, "@") && nameOfDID(peer.NodeDID) != k {
		w.violate("connected-to-unexpected-did", n.name+"/"+k, "outbound stream of contact "+k+" reported Connected with node DID "+nameOfDID(peer.NodeDID))
	}
	// P7: Connected and Disconnected alternate per peer, starting with Connected
	if state == "connected" && open {
		w.violate("connected-twice", id, "observer got Connected for a peer that is already connected")
	}
	if state != "connected" && !open {
		w.violate("disconnected-without-connected", id, "observer got Disconnected for a peer that was not connected")
	}
}

func (w *world) fedAddrOf(label string) string {
	w.mu.Lock()
	defer w.mu.Unlock()
	return w.fedAddr[label]
}

// checkConns evaluates P1 on the real connection lists (called at quiescent points).
func (w *world) checkConns() {
	for _, n := range w.nodes {
		if !n.up {
			continue
		}
		bad := w.dupConns(n)
		if bad != "" {
			time.Sleep(60 * time.Millisecond) // a connection object being torn down?
			bad = w.dupConns(n)
		}
		if bad != "" {
			parts := strings.SplitN(bad, "|", 2)
			w.violate(parts[0], n.name, parts[1])
		}
		w.mu.Lock()
		w.checks++
		w.mu.Unlock()
	}
}

func (w *world) dupConns(n *node) string {
	seen := map[string]bool{}
	out := map[string]bool{}
	for _, c := range ngrpc.VerifConnections(n.cm) {
		dir := "out"
		if c.Peer.Address == "bufconn" {
			dir = "in"
		}
		if !n.did.Empty() && c.Peer.NodeDID.Equals(n.did) {
			return "self-connection|" + c.Peer.String()
		}
		if dir == "out" && !c.Peer.NodeDID.Empty() {
			key := c.Peer.NodeDID.String()
			if out[key] {
				return "two-outbound-connections-to-one-did|" + key
			}
			out[key] = true
		}
		if c.Connected {
			key := dir + "|" + c.Peer.Key()
			if seen[key] {
				return "duplicate-connection|" + key
			}
			seen[key] = true
		}
	}
	return ""
}

// doubles counts peers that are connected twice (inbound + outbound): not promised to be absent, reported as a note
func (w *world) doubles() []string {
	var res []string
	for _, n := range w.nodes {
		if !n.up {
			continue
		}
		cnt := map[string]int{}
		for _, c := range ngrpc.VerifConnections(n.cm) {
			if c.Connected && !c.Peer.NodeDID.Empty() {
				cnt[string(c.Peer.ID)+"("+c.Peer.NodeDID.String()+")"]++
			}
		}
		for k, v := range cnt {
			if v > 1 {
				res = append(res, fmt.Sprintf("%s has %d live connections to %s", n.name, v, k))
			}
		}
	}
	sort.Strings(res)
	return res
}

// linked: hasActiveConnection as a user sees it (Peers / connection list)
func (w *world) linked(n *node, c transport.Contact) bool {
	for _, vc := range ngrpc.VerifConnections(n.cm) {
		if !vc.Connected {
			continue
		}
		if c.DID.Empty() {
			if vc.Peer.Address == c.Address && vc.Peer.NodeDID.Empty() {
				return true
			}
		} else if vc.Peer.NodeDID.Equals(c.DID) && vc.Authenticated {
			return true
		}
	}
	return false
}

// ---------------------------------------------------------------------------------------- interpreter

const (
	arrive = 400 * time.Millisecond
	quiet  = 12 * time.Millisecond
)

func (w *world) waitTick(n *node, extra int64) bool {
	if n.canary == nil {
		return false
	}
	start := n.canary.polls.Load()
	deadline := time.Now().Add(4 * time.Second)
	for time.Now().Before(deadline) {
		if n.canary.polls.Load() >= start+extra {
			return true
		}
		time.Sleep(3 * time.Millisecond)
	}
	return false
}

func (w *world) run(sc script, res *result) {
	nodes := sc.Nodes
	if len(nodes) == 0 {
		nodes = []string{"A", "B"}
	}
	for _, name := range nodes {
		w.startNode(name)
	}
	deferred := 0
	prevDef := 0
	for i, st := range sc.Steps {
		if deferred != prevDef {
			res.Drift = append(res.Drift, fmt.Sprintf("step %d %s(%s,%s,%s) deferred", i-1, sc.Steps[i-1].str("a"), sc.Steps[i-1].str("m"), sc.Steps[i-1].str("k"), sc.Steps[i-1].str("res")))
			prevDef = deferred
		}
		a := st.str("a")
		m, k := st.str("m"), st.str("k")
		n := w.nodes[m]
		call := m + "/" + k
		switch a {
		case "Feed":
			if n == nil || !n.up {
				break
			}
			w.ev(map[string]any{"ev": "feed", "m": m, "k": k, "to": st.str("to"), "dk": st.str("dk")})
			w.feed(n, k, st.str("to"), st.str("dk"))
			// P8: the own DID never becomes a contact
			for _, c := range n.cm.Contacts() {
				if !n.did.Empty() && c.DID.Equals(n.did) {
					w.violate("own-did-in-address-book", m, c.Address)
				}
			}
		case "Remove":
			if n == nil || !n.up {
				break
			}
			n.cm.Connect("", didOfName(k), nil)
			// logged AFTER the call returned: the address book lock orders the removal with the passes of the connect loop
			w.ev(map[string]any{"ev": "remove", "m": m, "k": k})
			w.mu.Lock()
			w.removed[call] = n.canary.polls.Load()
			w.mu.Unlock()
		case "Advance":
			w.clock.Add(int64(unit))
			w.ev(map[string]any{"ev": "advance"})
		case "Tick":
			if n == nil || !n.up {
				break
			}
			if !w.waitTick(n, 1) {
				res.Error = "connect loop of " + m + " does not tick"
				return
			}
			if sel, ok := st["sel"].([]any); ok {
				for _, x := range sel {
					// either the goroutine reaches the dialer or it found an existing connection (invisible)
					w.await("cli/"+m+"/"+fmt.Sprint(x), "dial", 120*time.Millisecond)
				}
			}
		case "Register":
			if st.str("res") == "new" && !w.await("cli/"+call, "dial", arrive) {
				deferred++
			}
		case "DialFail", "DialCancel", "DialOK":
			if !w.await("cli/"+call, "dial", arrive) {
				deferred++
				break
			}
			d := map[string]string{"DialFail": "fail", "DialCancel": "cancel", "DialOK": "ok"}[a]
			w.release("cli/"+call, d)
			if a == "DialOK" {
				w.await("srv/"+call+"@"+st.str("to"), "accept", arrive)
			}
		case "SrvAccept":
			srv := w.srvActor(call)
			if srv == "" || !w.await(srv, "accept", arrive) {
				deferred++
				break
			}
			w.release(srv, "go")
		case "SrvAdmit":
			srv := w.srvActor(call)
			if srv == "" {
				break
			}
			if w.await(srv, "auth", 60*time.Millisecond) {
				d := "ok"
				if st.str("res") == "unauth" {
					d = "fail"
				}
				w.release(srv, d)
			} // else: anonymous stream, admitted right after the headers
		case "CliHeaders":
			w.hold(call, false) // the peer's headers (and whatever followed) arrive
			if st.str("res") == "auth" && !w.await("cli/"+call, "auth", arrive) {
				deferred++
			}
			if st.str("res") == "error" && w.await("cli/"+call, "auth", 60*time.Millisecond) {
				// the headers did arrive (a stopping peer still sent them): end the call with the same outcome (Backoff) another way
				w.release("cli/"+call, "fail")
			}
			if st.str("res") == "connected" {
				w.awaitUp(call, arrive)
				w.hold(call, true) // the end of the stream arrives at CliGone / CliClose
			}
		case "CliAuth":
			if !w.await("cli/"+call, "auth", arrive) {
				deferred++
				break
			}
			d := "ok"
			if st.str("res") == "unauth" {
				d = "fail"
			}
			w.release("cli/"+call, d)
			if st.str("res") == "connected" {
				w.awaitUp(call, arrive)
				w.hold(call, true) // the end of the stream arrives at CliGone / CliClose
			}
		case "Drop":
			w.mu.Lock()
			c := w.conns[call]
			w.mu.Unlock()
			if c != nil {
				w.ev(map[string]any{"ev": "drop", "m": m, "k": k})
				_ = c.Close()
				w.hold(call, false)
			} else {
				deferred++
			}
		case "Restart":
			if n == nil {
				break
			}
			w.ev(map[string]any{"ev": "restart", "m": m})
			w.stopNode(n)
			w.settle(quiet, 300*time.Millisecond)
			w.mu.Lock()
			for key := range w.bos { // back-off objects die with the incarnation; w.due keeps what was persisted
				if strings.HasPrefix(key, m+"/") {
					delete(w.bos, key)
				}
			}
			for _, mp := range []map[string]bool{w.attempted, w.wasUp, w.failed} {
				for key := range mp {
					if strings.HasPrefix(key, m+"/") {
						delete(mp, key)
					}
				}
			}
			for key := range w.removed {
				if strings.HasPrefix(key, m+"/") {
					delete(w.removed, key)
				}
			}
			w.mu.Unlock()
			w.startNode(m)
			w.ev(map[string]any{"ev": "restarted", "m": m})
		case "CliClose", "CliGone":
			w.hold(call, false)
		case "SrvDown":
			// not controllable: goroutines of the code under test run by themselves
		default:
			res.Error = "unknown step " + a
			return
		}
		w.settle(quiet, 500*time.Millisecond)
		w.checkConns()
		_ = i
	}
	res.Deferred = deferred
	res.Notes = append(res.Notes, w.doubles()...)
	if sc.Fair {
		w.fairSuffix(res)
	}
}

// awaitUp waits until the observer has seen Connected for the outbound stream of the call
func (w *world) awaitUp(call string, d time.Duration) bool {
	deadline := time.Now().Add(d)
	for time.Now().Before(deadline) {
		w.mu.Lock()
		up := w.wasUp[call]
		w.mu.Unlock()
		if up {
			return true
		}
		time.Sleep(2 * time.Millisecond)
	}
	return false
}

func (w *world) srvActor(call string) string {
	w.mu.Lock()
	defer w.mu.Unlock()
	for a := range w.slots {
		if strings.HasPrefix(a, "srv/"+call+"@") {
			return a
		}
	}
	return ""
}

// fairSuffix: no more faults, every gate is open, time passes; a contact whose address is served by the expected node must
// get connected (P4).  Each round moves the clock past the largest back-off and waits for a pass of every connect loop.
func (w *world) fairSuffix(res *result) {
	w.ev(map[string]any{"ev": "fair"})
	for name := range w.nodes {
		w.mu.Lock()
		w.free[name] = "go"
		w.mu.Unlock()
	}
	for name := range w.nodes {
		w.freeNode(name, "go")
	}
	ok := false
	var missing []string
	for round := 0; round < 5 && !ok; round++ {
		for i := 0; i < int((boMax+unit)/unit); i++ {
			w.clock.Add(int64(unit))
			w.ev(map[string]any{"ev": "advance"})
		}
		for _, n := range w.nodes {
			if n.up {
				w.waitTick(n, 2)
			}
		}
		w.settle(30*time.Millisecond, time.Second)
		ok = true
		missing = nil
		for _, n := range w.nodes {
			if !n.up {
				continue
			}
			for _, c := range n.cm.Contacts() {
				if c.Address == "canary" {
					continue
				}
				target := w.nodes[nodeOfAddr(c.Address)]
				if target == nil || !target.up {
					continue
				}
				if !c.DID.Empty() && !target.did.Equals(c.DID) {
					continue // the address is served by another node DID: never connected, by design
				}
				if !w.linked(n, c) {
					ok = false
					missing = append(missing, n.name+"->"+c.Address)
				}
			}
		}
	}
	w.mu.Lock()
	w.checks++
	w.mu.Unlock()
	if !ok {
		w.violate("not-connected-under-fairness", strings.Join(missing, ","), "a reachable contact is not connected after 5 fault-free rounds that each exceed the largest back-off")
	}
	w.checkConns()
	res.Notes = append(res.Notes, w.doubles()...)
}

// ------------------------------------------------------------------------------------ outbox scenario

// runOutbox: P6 on a real connection pair.  The receiver's protocol handler is blocked, messages are large, so the
// sender goroutine gets stuck in SendMsg (transport window full) and the outbox fills up.
func (w *world) runOutbox(sc script, res *result) {
	a, b := w.startNode("A"), w.startNode("B")
	b.proto.handleCh = make(chan struct{})
	b.proto.handleGate.Store(true)
	for name := range w.nodes {
		w.freeNode(name, "go")
	}
	w.feed(a, "B", "B", "zero")
	deadline := time.Now().Add(6 * time.Second)
	var conn ngrpc.Connection
	for time.Now().Before(deadline) && conn == nil {
		for _, vc := range ngrpc.VerifConnections(a.cm) {
			if vc.Connected && vc.Peer.NodeDID.Equals(b.did) {
				conn = vc.Conn
			}
		}
		time.Sleep(10 * time.Millisecond)
	}
	if conn == nil {
		res.Error = "outbox scenario: no connection"
		return
	}
	soft, hard := ngrpc.VerifOutboxLimits()
	payload := make([]byte, 64*1024)
	id := 0
	send := func(ign bool) (string, time.Duration) {
		id++
		data := make([]byte, len(payload))
		data[0], data[1], data[2], data[3] = byte(id>>24), byte(id>>16), byte(id>>8), byte(id)
		done := make(chan error, 1)
		t0 := time.Now()
		go func() { done <- conn.Send(a.proto, &ngrpc.TestMessage{Data: data}, ign) }()
		select {
		case err := <-done:
			r := "queued"
			if err != nil {
				switch {
				case strings.Contains(err.Error(), "hard limit"):
					r = "hard"
				case strings.Contains(err.Error(), "max desired capacity"):
					r = "soft"
				default:
					r = "closed"
				}
			}
			return r, time.Since(t0)
		case <-time.After(3 * time.Second):
			return "blocked", time.Since(t0)
		}
	}
	var accepted []int
	note := func(r string, ign bool) {
		w.mu.Lock()
		w.checks++
		w.mu.Unlock()
		if r == "blocked" {
			w.violate("send-blocks", "conn.Send", fmt.Sprintf("Send(ignoreSoftLimit=%v) did not return within 3 s (message %d)", ign, id))
		}
		if r == "queued" {
			accepted = append(accepted, id)
		}
	}
	// phase 1: without ignoreSoftLimit until the first refusal; the sender goroutine drains a few messages into the transport
	first := ""
	for i := 0; i < soft+200 && first == ""; i++ {
		r, _ := send(false)
		note(r, false)
		if r != "queued" {
			first = r
		}
	}
	if first != "soft" {
		w.violate("soft-limit-not-enforced", "conn.Send", fmt.Sprintf("%d messages queued without ignoreSoftLimit, first refusal %q", len(accepted), first))
	}
	time.Sleep(150 * time.Millisecond) // let the sender goroutine get stuck
	// top up to exactly the soft limit
	for i := 0; i < 50; i++ {
		r, _ := send(false)
		note(r, false)
		if r != "queued" {
			break
		}
	}
	time.Sleep(100 * time.Millisecond)
	r, _ := send(false)
	note(r, false)
	if r != "soft" {
		w.violate("soft-limit-not-enforced", "conn.Send", "a Send without ignoreSoftLimit was "+r+" although the backlog is at the soft limit")
	}
	// phase 2: ignoreSoftLimit goes on up to the hard limit, exactly hard-soft more messages
	extra := 0
	last := ""
	for i := 0; i < hard+10; i++ {
		r, _ := send(true)
		note(r, true)
		if r != "queued" {
			last = r
			break
		}
		extra++
	}
	if last != "hard" || extra != hard-soft {
		w.violate("hard-limit-not-enforced", "conn.Send", fmt.Sprintf("%d messages accepted with ignoreSoftLimit beyond the soft limit (expected %d), then %q", extra, hard-soft, last))
	}
	r, _ = send(false)
	note(r, false)
	if r == "queued" {
		w.violate("hard-limit-not-enforced", "conn.Send", "Send accepted at the hard limit")
	}
	res.Notes = append(res.Notes, fmt.Sprintf("outbox: soft=%d hard=%d accepted=%d extra=%d", soft, hard, len(accepted), extra))
	// phase 3: the receiver reads again: everything accepted is delivered, in order, nothing else
	b.proto.handleGate.Store(false)
	close(b.proto.handleCh)
	deadline = time.Now().Add(60 * time.Second)
	for time.Now().Before(deadline) {
		b.proto.recvMu.Lock()
		n := len(b.proto.recv)
		b.proto.recvMu.Unlock()
		if n >= len(accepted) {
			break
		}
		time.Sleep(20 * time.Millisecond)
	}
	b.proto.recvMu.Lock()
	got := append([]int{}, b.proto.recv...)
	b.proto.recvMu.Unlock()
	if len(got) != len(accepted) {
		w.violate("outbox-loss", "conn.Send", fmt.Sprintf("%d accepted, %d delivered on an open connection", len(accepted), len(got)))
	} else {
		for i := range got {
			if got[i] != accepted[i] {
				w.violate("outbox-order", "conn.Send", fmt.Sprintf("position %d: delivered %d, accepted %d", i, got[i], accepted[i]))
				break
			}
		}
	}
	// phase 4: after disconnect Send reports an error and does not block or panic
	w.stopNode(b)
	time.Sleep(200 * time.Millisecond)
	r, _ = send(true)
	note(r, true)
	if r == "queued" {
		// the connection object may still be open for a moment; try once more
		time.Sleep(300 * time.Millisecond)
		r, _ = send(true)
		note(r, true)
	}
	w.ev(map[string]any{"ev": "outbox", "accepted": len(accepted), "delivered": len(got), "extra": extra, "after_close": r})
}

// ------------------------------------------------------------------------------ stop while dialling

type plainBackoff struct {
	in  ngrpc.Backoff
	ops *[]string
}

func (c plainBackoff) Backoff() time.Duration {
	v := c.in.Backoff()
	*c.ops = append(*c.ops, "backoff:"+v.String())
	return v
}
func (c plainBackoff) Reset(v time.Duration) {
	*c.ops = append(*c.ops, "reset:"+v.String())
	c.in.Reset(v)
}
func (c plainBackoff) Value() time.Duration { return c.in.Value() }
func (c plainBackoff) Expired() bool        { return c.in.Expired() }

// runStopDial: Stop() while the REAL dialer (grpc.DialContext, the default of NewConfig) is blocked on a peer that accepts
// TCP but never answers.  connect() promises "Do not backoff when context is cancelled" (the store may be closed already).
func (w *world) runStopDial(res *result) {
	lis, err := net.Listen("tcp", "127.0.0.1:0")
	if err != nil {
		res.Error = err.Error()
		return
	}
	defer lis.Close()
	store, err := bbolt.CreateBBoltStore(filepath.Join(w.dir, "stopdial.db"), stoabs.WithNoSync())
	if err != nil {
		res.Error = err.Error()
		return
	}
	defer store.Close(context.Background())
	var ops []string
	cfg, _ := ngrpc.NewConfig("", "probe", ngrpc.WithBackoff(func() ngrpc.Backoff {
		return plainBackoff{in: ngrpc.BoundedBackoff(time.Second, time.Hour), ops: &ops}
	}))
	cm, err := ngrpc.NewGRPCConnectionManager(cfg, store, did.DID{}, nil, &ngrpc.TestProtocol{})
	if err != nil {
		res.Error = err.Error()
		return
	}
	restore := ngrpc.VerifSetNow(time.Now)
	defer restore()
	cm.Connect(lis.Addr().String(), didOfName("X"), nil)
	_ = cm.Start()
	deadline := time.Now().Add(5 * time.Second)
	for time.Now().Before(deadline) && cm.Contacts()[0].Attempts == 0 {
		time.Sleep(20 * time.Millisecond)
	}
	time.Sleep(100 * time.Millisecond)
	if cm.Contacts()[0].Attempts == 0 {
		res.Error = "stopdial: no dial attempt"
		cm.Stop()
		return
	}
	cm.Stop()
	w.mu.Lock()
	w.checks++
	w.mu.Unlock()
	w.ev(map[string]any{"ev": "stopdial", "ops": strings.Join(ops, ",")})
	for _, o := range ops {
		if strings.HasPrefix(o, "backoff:") {
			w.violate("backoff-on-cancelled-dial", "connect", "Stop() during a dial of the real dialer: "+strings.Join(ops, ","))
			break
		}
	}
}

// ------------------------------------------------------------------------------------------------ main

func TestDriver(t *testing.T) {
	logrus.SetOutput(io.Discard)
	logrus.SetLevel(logrus.PanicLevel)
	inPath, outPath := os.Getenv("VERIF_IN"), os.Getenv("VERIF_OUT")
	if inPath == "" {
		t.Skip("VERIF_IN not set")
	}
	raw, err := os.ReadFile(inPath)
	if err != nil {
		t.Fatal(err)
	}
	var in input
	if err := json.Unmarshal(raw, &in); err != nil {
		t.Fatal(err)
	}
	f, err := os.Create(outPath)
	if err != nil {
		t.Fatal(err)
	}
	defer f.Close()
	out := bufio.NewWriter(f)
	defer out.Flush()
	for _, sc := range in.Scripts {
		res := runScript(t, sc, in.Sabotage)
		b, _ := json.Marshal(res)
		out.Write(b)
		out.WriteString("\n")
		out.Flush()
	}
}

func runScript(t *testing.T, sc script, sabotage string) (res result) {
	t0 := time.Now()
	res = result{ID: sc.ID, Violations: []violation{}, Drift: []string{}, Seen: map[string]int{}}
	w := newWorld(t, sc.NoDID, sabotage)
	restore := ngrpc.VerifSetNow(w.now)
	defer restore()
	defer func() {
		if r := recover(); r != nil {
			res.Error = fmt.Sprint("panic in driver: ", r)
		}
		w.mu.Lock()
		cut := len(w.log) // what happens during tear-down is not part of the behaviour
		w.mu.Unlock()
		for _, n := range w.nodes {
			w.stopNode(n)
		}
		w.mu.Lock()
		res.Violations = append(res.Violations, w.viol...)
		res.Trace = w.log[:cut]
		res.Checks = w.checks
		for _, e := range w.log {
			key := fmt.Sprint(e["ev"])
			if r, ok := e["res"]; ok {
				key += ":" + fmt.Sprint(r)
			}
			if r, ok := e["op"]; ok {
				key += ":" + fmt.Sprint(r)
			}
			if r, ok := e["state"]; ok {
				key += ":" + fmt.Sprint(r) + ":" + fmt.Sprint(e["dir"])
			}
			res.Seen[key]++
		}
		w.mu.Unlock()
		res.WallMs = time.Since(t0).Milliseconds()
	}()
	if sc.Kind == "outbox" {
		w.runOutbox(sc, &res)
	} else if sc.Kind == "stopdial" {
		w.runStopDial(&res)
	} else {
		w.run(sc, &res)
	}
	return
}

var _ = did.DID{}
