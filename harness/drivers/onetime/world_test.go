package onetime

import (
	"context"
	"crypto"
	"crypto/ecdsa"
	"crypto/elliptic"
	"crypto/rand"
	"crypto/sha256"
	"encoding/base64"
	"encoding/json"
	"errors"
	"fmt"
	"net/http"
	"net/http/httptest"
	"net/url"
	"strings"
	"testing"
	"time"

	"github.com/eko/gocache/lib/v4/store"
	"github.com/labstack/echo/v4"
	"github.com/lestrrat-go/jwx/v2/jwa"
	ssi "github.com/nuts-foundation/go-did"
	"github.com/nuts-foundation/go-did/did"
	"github.com/nuts-foundation/go-did/vc"
	"github.com/nuts-foundation/nuts-node/auth"
	"github.com/nuts-foundation/nuts-node/auth/api/iam"
	iamclient "github.com/nuts-foundation/nuts-node/auth/client/iam"
	"github.com/nuts-foundation/nuts-node/auth/oauth"
	"github.com/nuts-foundation/nuts-node/core"
	nutsCrypto "github.com/nuts-foundation/nuts-node/crypto"
	"github.com/nuts-foundation/nuts-node/crypto/dpop"
	"github.com/nuts-foundation/nuts-node/policy"
	"github.com/nuts-foundation/nuts-node/storage"
	"github.com/nuts-foundation/nuts-node/vcr"
	"github.com/nuts-foundation/nuts-node/vcr/holder"
	"github.com/nuts-foundation/nuts-node/vcr/issuer"
	"github.com/nuts-foundation/nuts-node/vcr/pe"
	"github.com/nuts-foundation/nuts-node/vcr/verifier"
	"github.com/nuts-foundation/nuts-node/vdr/didsubject"
	"github.com/nuts-foundation/nuts-node/vdr/resolver"
	"go.uber.org/mock/gomock"
)

const (
	verifierSubject = "verifier"
	holderSubject   = "holder"
	unknownSubject  = "unknown"
	holderClientID  = "https://example.com/oauth2/holder"
	verifierURL     = "https://example.com/oauth2/verifier"
	invalidMarker   = "urn:verif:does-not-verify"
	scope           = "test"
)

var (
	holderDID   = did.MustParseDID("did:web:example.com:iam:holder")
	verifierDID = did.MustParseDID("did:web:example.com:iam:verifier")
	issuerDID   = did.MustParseDID("did:web:example.com:iam:issuer")
)

// site names used in violation signatures / known findings
var siteOf = map[string]string{
	"code":     "oauth/authorization_code",
	"reqobj":   "oauth/request_object",
	"vpnonce":  "openid4vp/nonce",
	"redirect": "user/redirect_token",
	"s2snonce": "s2s/nonce",
	"dpopjti":  "dpop/jti",
	"preauth":  "openid4vci/pre_authorized_code",
}

type fakeEngine struct {
	storage.Engine
	db storage.SessionDatabase
}

func (f fakeEngine) GetSessionDatabase() storage.SessionDatabase { return f.db }

// didDocs resolves the two local DIDs to documents with one assertion key (jar.Sign looks the key id up).
type didDocs struct{ docs map[string]*did.Document }

func (d didDocs) Resolve(id did.DID, _ *resolver.ResolveMetadata) (*did.Document, *resolver.DocumentMetadata, error) {
	if doc, ok := d.docs[id.String()]; ok {
		return doc, &resolver.DocumentMetadata{}, nil
	}
	return nil, nil, resolver.ErrNotFound
}

// world holds the real objects: the real IAM API wrapper behind a real echo router, the real OpenID4VCI issuer
// handler, both over the real in-memory session database whose gocache store is gated.
type world struct {
	t       *testing.T
	gs      *gstore
	db      *storage.InMemorySessionDatabase
	wrapper *iam.Wrapper
	echo    *echo.Echo
	vci     issuer.OpenIDHandler
	vciSt   issuer.OpenIDStore
	mapping pe.WalletOwnerMapping
	key     *ecdsa.PrivateKey
	n       int
}

func newWorld(t *testing.T) *world {
	w := &world{t: t, gs: &gstore{}}
	w.db = storage.VerifNewInMemorySessionDatabase(func(inner store.StoreInterface) store.StoreInterface {
		w.gs.inner = inner
		return w.gs
	})
	w.key, _ = ecdsa.GenerateKey(elliptic.P256(), rand.Reader)
	ctrl := gomock.NewController(t)
	publicURL, _ := url.Parse("https://example.com")

	authn := auth.NewMockAuthenticationServices(ctrl)
	iamCl := iamclient.NewMockClient(ctrl)
	authn.EXPECT().PublicURL().Return(publicURL).AnyTimes()
	authn.EXPECT().IAMClient().Return(iamCl).AnyTimes()
	authn.EXPECT().SupportedDIDMethods().Return([]string{"web"}).AnyTimes()
	authn.EXPECT().AuthorizationEndpointEnabled().Return(true).AnyTimes()
	iamCl.EXPECT().AuthorizationServerMetadata(gomock.Any(), gomock.Any()).DoAndReturn(
		func(_ context.Context, issuerURL string) (*oauth.AuthorizationServerMetadata, error) {
			return &oauth.AuthorizationServerMetadata{
				Issuer:                     issuerURL,
				AuthorizationEndpoint:      "https://example.com/authorize",
				TokenEndpoint:              "https://example.com/token",
				ClientIdSchemesSupported:   []string{"entity_id"},
				VPFormats:                  oauth.DefaultOpenIDSupportedFormats(),
				RequireSignedRequestObject: true,
			}, nil
		}).AnyTimes()

	subjects := didsubject.NewMockManager(ctrl)
	subjects.EXPECT().Exists(gomock.Any(), gomock.Any()).DoAndReturn(func(_ context.Context, s string) (bool, error) {
		return s == verifierSubject || s == holderSubject, nil
	}).AnyTimes()
	subjects.EXPECT().ListDIDs(gomock.Any(), gomock.Any()).DoAndReturn(func(_ context.Context, s string) ([]did.DID, error) {
		switch s {
		case verifierSubject:
			return []did.DID{verifierDID}, nil
		case holderSubject:
			return []did.DID{holderDID}, nil
		}
		return nil, didsubject.ErrSubjectNotFound
	}).AnyTimes()

	vcrMock := vcr.NewMockVCR(ctrl)
	ver := verifier.NewMockVerifier(ctrl)
	iss := issuer.NewMockIssuer(ctrl)
	wal := holder.NewMockWallet(ctrl)
	vcrMock.EXPECT().Verifier().Return(ver).AnyTimes()
	vcrMock.EXPECT().Issuer().Return(iss).AnyTimes()
	vcrMock.EXPECT().Wallet().Return(wal).AnyTimes()
	// a presentation "verifies" unless it carries the marker id (flavour bad / vp-invalid)
	ver.EXPECT().VerifyVP(gomock.Any(), gomock.Any(), gomock.Any(), gomock.Any()).DoAndReturn(
		func(p vc.VerifiablePresentation, _, _ bool, _ *time.Time) ([]vc.VerifiableCredential, error) {
			if p.ID != nil && p.ID.String() == invalidMarker {
				return nil, errors.New("verif: presentation does not verify")
			}
			return p.VerifiableCredential, nil
		}).AnyTimes()
	iss.EXPECT().Issue(gomock.Any(), gomock.Any(), gomock.Any()).DoAndReturn(
		func(_ context.Context, tpl vc.VerifiableCredential, _ issuer.CredentialOptions) (*vc.VerifiableCredential, error) {
			return &tpl, nil
		}).AnyTimes()

	w.mapping = pe.WalletOwnerMapping{
		pe.WalletOwnerOrganization: pe.PresentationDefinition{
			Id: "1",
			InputDescriptors: []*pe.InputDescriptor{
				{Id: "1", Constraints: &pe.Constraints{Fields: []pe.Field{{Path: []string{"$.type"}}}}},
			},
		},
	}
	pol := policy.NewMockPDPBackend(ctrl)
	pol.EXPECT().PresentationDefinitions(gomock.Any(), gomock.Any()).Return(w.mapping, nil).AnyTimes()

	signer := nutsCrypto.NewMockJWTSigner(ctrl)
	signer.EXPECT().SignJWT(gomock.Any(), gomock.Any(), gomock.Any(), gomock.Any()).Return("signed.request.object", nil).AnyTimes()

	docs := didDocs{docs: map[string]*did.Document{}}
	for _, d := range []did.DID{holderDID, verifierDID} {
		doc := &did.Document{ID: d}
		kid := did.DIDURL{DID: d, Fragment: "0"}
		vm, err := did.NewVerificationMethod(kid, ssi.JsonWebKey2020, d, w.key.Public())
		if err != nil {
			t.Fatal(err)
		}
		doc.AddAssertionMethod(vm)
		docs.docs[d.String()] = doc
	}

	w.wrapper = iam.New(authn, vcrMock, resolver.DIDKeyResolver{Resolver: docs}, subjects, fakeEngine{db: w.db}, pol, signer, nil)
	w.echo = echo.New()
	w.echo.HideBanner = true
	w.echo.HTTPErrorHandler = core.CreateHTTPErrorHandler()
	w.wrapper.Routes(w.echo)

	var err error
	w.vci, err = issuer.NewOpenIDHandler(issuerDID, "https://example.com/issuer", "", nil, nil, w.db)
	if err != nil {
		t.Fatal(err)
	}
	w.vciSt = issuer.NewOpenIDMemoryStore(w.db)
	return w
}

// request is one prepared HTTP request (or direct call) of an actor.
type request struct {
	do func() (status int, ok bool, detail string)
}

func (w *world) serve(req *http.Request, success func(rec *httptest.ResponseRecorder) bool) request {
	return request{do: func() (int, bool, string) {
		rec := httptest.NewRecorder()
		w.echo.ServeHTTP(rec, req)
		body := rec.Body.String()
		if len(body) > 160 {
			body = body[:160]
		}
		return rec.Code, success(rec), body
	}}
}

func form(target string, vals url.Values, hdr map[string]string) *http.Request {
	req := httptest.NewRequest(http.MethodPost, target, strings.NewReader(vals.Encode()))
	req.Header.Set("Content-Type", "application/x-www-form-urlencoded")
	for k, v := range hdr {
		req.Header.Set(k, v)
	}
	return req
}

func jsonHas(rec *httptest.ResponseRecorder, status int, field string) (map[string]any, bool) {
	if rec.Code != status {
		return nil, false
	}
	var m map[string]any
	if json.Unmarshal(rec.Body.Bytes(), &m) != nil {
		return nil, false
	}
	_, ok := m[field]
	return m, ok
}

func pkce(verifier string) iam.PKCEParams {
	sum := sha256.Sum256([]byte(verifier))
	return iam.PKCEParams{Challenge: base64.RawURLEncoding.EncodeToString(sum[:]), ChallengeMethod: "S256"}
}

func (w *world) ldVP(id string, nonceField string, nonce string, domain string) string {
	now := time.Now().UTC()
	proof := map[string]any{
		"type":               "JsonWebSignature2020",
		"proofPurpose":       "assertionMethod",
		"verificationMethod": holderDID.String() + "#0",
		"created":            now.Format(time.RFC3339),
		"expires":            now.Add(4 * time.Second).Format(time.RFC3339),
		"domain":             domain,
		nonceField:           nonce,
	}
	vp := map[string]any{
		"type": "VerifiablePresentation",
		"verifiableCredential": map[string]any{
			"type":              "VerifiableCredential",
			"credentialSubject": map[string]any{"id": holderDID.String()},
		},
		"proof": proof,
	}
	if id != "" {
		vp["id"] = id
	}
	b, _ := json.Marshal(vp)
	return string(b)
}

// dpopHeader is a valid DPoP proof (fresh key, fresh jti) for a request to the token endpoint.
func (w *world) dpopHeader(method, target string) (string, error) {
	u, err := url.Parse(target)
	if err != nil {
		return "", err
	}
	key, err := ecdsa.GenerateKey(elliptic.P256(), rand.Reader)
	if err != nil {
		return "", err
	}
	return dpop.New(http.Request{Method: method, URL: u}).Sign("kid", key, jwa.ES256)
}

const submissionJSON = `{"id":"1", "definition_id":"1", "descriptor_map":[{"id":"1","format":"ldp_vc","path":"$.verifiableCredential"}]}`

// seed stores the secret exactly where the handlers look for it (through the real store accessors: real prefix,
// real TTL, real JSON shape). Returns the prepared requests per actor.
//
// reqCtx[r] != "" puts request r into another context: something that accompanies the value is different although the
// request, sent on its own, is as acceptable as the original one.
func (w *world) prepare(kind, secret string, flav, variant, reqCtx map[string]string, objMethod string) (map[string]request, error) {
	reqs := map[string]request{}
	// requests in the other context share it: one DPoP header, one other key, one other presentation id
	dpopHeaders := map[string]string{}
	dpopHeader := func(method, target string) (string, error) {
		if h, ok := dpopHeaders[method+" "+target]; ok {
			return h, nil
		}
		h, err := w.dpopHeader(method, target)
		dpopHeaders[method+" "+target] = h
		return h, err
	}
	okToken := func(rec *httptest.ResponseRecorder) bool {
		_, ok := jsonHas(rec, http.StatusOK, "access_token")
		return ok
	}
	switch kind {
	case "code":
		const verifierOK = "the-right-code-verifier"
		session := iam.OAuthSession{
			ClientID:          holderClientID,
			OwnSubject:        ptr(verifierSubject),
			RedirectURI:       "https://example.com/iam/holder/cb",
			Scope:             scope,
			OpenID4VPVerifier: iam.VerifNewPEXConsumer(pe.WalletOwnerMapping{}),
			PKCEParams:        pkce(verifierOK),
		}
		if err := w.wrapper.VerifStore("code").Put(secret, session); err != nil {
			return nil, err
		}
		for r, f := range flav {
			vals := url.Values{"grant_type": {oauth.AuthorizationCodeGrantType}, "code": {secret}, "code_verifier": {verifierOK}, "client_id": {holderClientID}}
			switch f + "/" + variant[r] {
			case "good/":
			case "bad/wrong-verifier":
				vals.Set("code_verifier", "not-the-code-verifier")
			case "bad/wrong-client":
				vals.Set("client_id", "https://example.com/oauth2/mallory")
			case "early/no-verifier":
				vals.Del("code_verifier")
			case "early/no-client":
				vals.Del("client_id")
			default:
				return nil, fmt.Errorf("code: unknown flavour/variant %s/%s", f, variant[r])
			}
			target, hdr := "https://example.com/oauth2/"+verifierSubject+"/token", map[string]string{}
			switch reqCtx[r] {
			case "":
			case "other-tenant": // the token endpoint of another tenant of this node
				target = "https://example.com/oauth2/" + holderSubject + "/token"
			case "with-dpop": // the optional DPoP header
				h, err := dpopHeader(http.MethodPost, target)
				if err != nil {
					return nil, err
				}
				hdr["DPoP"] = h
			default:
				return nil, fmt.Errorf("code: unknown context %q", reqCtx[r])
			}
			reqs[r] = w.serve(form(target, vals, hdr), okToken)
		}
	case "reqobj":
		audience := verifierURL // => request_uri_method get
		if objMethod == "post" {
			audience = ""
		}
		ro := iam.VerifJarRequest(holderDID, holderClientID, audience, map[string]string{"scope": scope, "state": "s"})
		if err := w.wrapper.VerifStore("reqobj").Put(secret, ro); err != nil {
			return nil, err
		}
		for r, f := range flav {
			method, subject := http.MethodGet, holderSubject
			if objMethod == "post" {
				method = http.MethodPost
			}
			switch f + "/" + variant[r] {
			case "good/":
			case "bad/wrong-verb":
				if method == http.MethodGet {
					method = http.MethodPost
				} else {
					method = http.MethodGet
				}
			case "bad/wrong-subject":
				subject = verifierSubject
			default:
				return nil, fmt.Errorf("reqobj: unknown flavour/variant %s/%s", f, variant[r])
			}
			req := httptest.NewRequest(method, "https://example.com/oauth2/"+subject+"/request.jwt/"+secret, nil)
			body := url.Values{}
			switch reqCtx[r] {
			case "":
			case "wallet-nonce": // optional parameter of request_uri_method=post
				body.Set("wallet_nonce", "wn-other")
			default:
				return nil, fmt.Errorf("reqobj: unknown context %q", reqCtx[r])
			}
			if method == http.MethodPost {
				req = form("https://example.com/oauth2/"+subject+"/request.jwt/"+secret, body, nil)
			}
			reqs[r] = w.serve(req, func(rec *httptest.ResponseRecorder) bool {
				return rec.Code == http.StatusOK && strings.Contains(rec.Body.String(), "signed.request.object")
			})
		}
	case "vpnonce":
		mkSession := func() iam.OAuthSession {
			return iam.OAuthSession{
				AuthorizationServerMetadata: &oauth.AuthorizationServerMetadata{ClientIdSchemesSupported: []string{"entity_id"}},
				SessionID:                   "token",
				OwnSubject:                  ptr(verifierSubject),
				ClientID:                    holderClientID,
				RedirectURI:                 "https://example.com/iam/holder/cb",
				Scope:                       scope,
				ClientState:                 "client-state",
				OpenID4VPVerifier:           iam.VerifNewPEXConsumer(w.mapping),
			}
		}
		state, otherState := "state-"+secret, "other-state-"+secret
		if err := w.wrapper.VerifStore("clientstate").Put(state, mkSession()); err != nil {
			return nil, err
		}
		if err := w.wrapper.VerifStore("clientstate").Put(otherState, mkSession()); err != nil {
			return nil, err
		}
		if err := w.wrapper.VerifStore("vpnonce").Put(secret, state); err != nil {
			return nil, err
		}
		for r, f := range flav {
			vpID, field := "", "challenge"
			switch reqCtx[r] {
			case "":
			case "nonce-field": // the value travels in the proof's nonce instead of its challenge
				field = "nonce"
			case "other-vp": // another presentation document carrying the same value
				vpID = "urn:verif:presentation:other"
			default:
				return nil, fmt.Errorf("vpnonce: unknown context %q", reqCtx[r])
			}
			vals := url.Values{"state": {state}, "presentation_submission": {submissionJSON}, "vp_token": {w.ldVP(vpID, field, secret, verifierURL)}}
			switch f + "/" + variant[r] {
			case "good/":
			case "bad/other-state":
				vals.Set("state", otherState)
			case "bad/vp-invalid":
				vals.Set("vp_token", w.ldVP(invalidMarker, field, secret, verifierURL))
			case "early/two-nonces":
				vals.Set("vp_token", "["+w.ldVP(vpID, field, secret, verifierURL)+","+w.ldVP("", "challenge", "another-nonce-"+secret+"-x", verifierURL)+"]")
			default:
				return nil, fmt.Errorf("vpnonce: unknown flavour/variant %s/%s", f, variant[r])
			}
			reqs[r] = w.serve(form("https://example.com/oauth2/"+verifierSubject+"/response", vals, nil), func(rec *httptest.ResponseRecorder) bool {
				m, ok := jsonHas(rec, http.StatusOK, "redirect_uri")
				if !ok {
					return false
				}
				u, err := url.Parse(fmt.Sprint(m["redirect_uri"]))
				return err == nil && u.Query().Get("code") != "" && u.Query().Get("error") == ""
			})
		}
	case "s2snonce":
		for r, f := range flav {
			vals := url.Values{"grant_type": {oauth.VpTokenGrantType}, "scope": {scope}, "client_id": {holderClientID},
				"presentation_submission": {submissionJSON}, "assertion": {w.ldVP("", "nonce", secret, verifierURL)}}
			hdr := map[string]string{}
			switch reqCtx[r] {
			case "":
			case "other-client": // client_id is not bound to the presentation in this grant
				vals.Set("client_id", "https://example.com/oauth2/another-client")
			case "other-scope":
				vals.Set("scope", scope+"-2")
			case "with-dpop": // the optional DPoP header
				h, err := dpopHeader(http.MethodPost, "https://example.com/oauth2/"+verifierSubject+"/token")
				if err != nil {
					return nil, err
				}
				hdr["DPoP"] = h
			case "other-vp": // another presentation document carrying the same value
				vals.Set("assertion", w.ldVP("urn:verif:presentation:other", "nonce", secret, verifierURL))
			default:
				return nil, fmt.Errorf("s2snonce: unknown context %q", reqCtx[r])
			}
			switch f + "/" + variant[r] {
			case "good/":
			case "bad/vp-invalid":
				vals.Set("assertion", w.ldVP(invalidMarker, "nonce", secret, verifierURL))
			case "bad/dpop-garbage":
				hdr["DPoP"] = "this.is.not-a-dpop-proof"
			default:
				return nil, fmt.Errorf("s2snonce: unknown flavour/variant %s/%s", f, variant[r])
			}
			reqs[r] = w.serve(form("https://example.com/oauth2/"+verifierSubject+"/token", vals, hdr), okToken)
		}
	case "dpopjti":
		otherKey, _ := ecdsa.GenerateKey(elliptic.P256(), rand.Reader)
		for r := range flav {
			// every request validates a proof carrying the jti; in another context it is another proof with the same jti
			accessToken, target, key := "the-access-token", "https://resource.example.com/fhir/Patient", w.key
			switch reqCtx[r] {
			case "":
			case "other-key":
				key = otherKey
			case "other-token":
				accessToken = "another-access-token"
			case "other-url":
				target = "https://resource.example.com/fhir/Observation"
			default:
				return nil, fmt.Errorf("dpopjti: unknown context %q", reqCtx[r])
			}
			targetURL, _ := url.Parse(target)
			proof := dpop.New(http.Request{Method: http.MethodGet, URL: targetURL})
			_ = proof.Token.Set("jti", secret)
			p2 := proof.GenerateProof(accessToken)
			raw, err := p2.Sign("kid", key, jwa.ES256)
			if err != nil {
				return nil, err
			}
			tp, _ := p2.Headers.JWK().Thumbprint(crypto.SHA256)
			body, _ := json.Marshal(map[string]string{"dpop_proof": raw, "method": http.MethodGet, "url": target,
				"thumbprint": base64.RawURLEncoding.EncodeToString(tp), "token": accessToken})
			req := httptest.NewRequest(http.MethodPost, "https://example.com/internal/auth/v2/dpop/validate", strings.NewReader(string(body)))
			req.Header.Set("Content-Type", "application/json")
			reqs[r] = w.serve(req, func(rec *httptest.ResponseRecorder) bool {
				m, ok := jsonHas(rec, http.StatusOK, "valid")
				return ok && m["valid"] == true
			})
		}
	case "redirect":
		session := iam.RedirectSession{
			SubjectID: holderSubject,
			SessionID: "session-" + secret,
			AccessTokenRequest: iam.RequestUserAccessTokenRequestObject{
				SubjectID: holderSubject,
				Body: &iam.RequestUserAccessTokenJSONRequestBody{
					Scope:               scope,
					AuthorizationServer: verifierURL,
					RedirectUri:         "https://app.example.com/cb",
					PreauthorizedUser:   &iam.UserDetails{Id: "u1", Name: "User", Role: "Role"},
				},
			},
		}
		if err := w.wrapper.VerifStore("redirect").Put(secret, session); err != nil {
			return nil, err
		}
		for r, f := range flav {
			if reqCtx[r] != "" {
				return nil, fmt.Errorf("redirect: unknown context %q", reqCtx[r])
			}
			subject := holderSubject
			switch f + "/" + variant[r] {
			case "good/":
			case "bad/unknown-subject":
				subject = unknownSubject // token is looked up first; provisioning the user session then fails
			default:
				return nil, fmt.Errorf("redirect: unknown flavour/variant %s/%s", f, variant[r])
			}
			req := httptest.NewRequest(http.MethodGet, "https://example.com/oauth2/"+subject+"/user?token="+url.QueryEscape(secret), nil)
			reqs[r] = w.serve(req, func(rec *httptest.ResponseRecorder) bool {
				return rec.Code == http.StatusFound && strings.HasPrefix(rec.Header().Get("Location"), "https://example.com/authorize")
			})
		}
	case "preauth":
		flowID := "flow-" + secret
		if err := w.vciSt.Store(context.Background(), issuer.Flow{ID: flowID, IssuerID: issuerDID.String(), WalletID: "https://wallet.example.com"}); err != nil {
			return nil, err
		}
		if err := w.vciSt.StoreReference(context.Background(), flowID, issuer.VerifPreAuthCodeRefType, secret); err != nil {
			return nil, err
		}
		for r := range flav {
			if reqCtx[r] != "" {
				return nil, fmt.Errorf("preauth: unknown context %q", reqCtx[r])
			}
			reqs[r] = request{do: func() (int, bool, string) {
				token, nonce, err := w.vci.HandleAccessTokenRequest(context.Background(), secret)
				if err != nil {
					return 400, false, err.Error()
				}
				return 200, token != "" && nonce != "", ""
			}}
		}
	default:
		return nil, fmt.Errorf("unknown kind %q", kind)
	}
	return reqs, nil
}

// window returns (validity window, strict) for the Tick step of a kind: 0 = the TTL of the entry itself.
func window(kind string) (time.Duration, bool) {
	switch kind {
	case "s2snonce":
		return iam.VerifS2SMaxPresentationValidity(), true
	case "dpopjti":
		return iam.VerifAccessTokenValidity(), true
	}
	return 0, false
}

func ptr[T any](v T) *T { return &v }
