// Driver for OneTime.tla (C05): replays TLC behaviours -- schedules of primitive cache operations of two or three
// requests presenting the same one-time secret -- on the REAL handlers of auth/api/iam (through the real echo routes)
// and vcr/issuer, over the REAL in-memory session database whose gocache store is gated (gstore_test.go).
// The oracle counts real successes per secret; the recorded trace goes back to TLC (TraceOneTime.tla).
package onetime

import (
	"bufio"
	"context"
	"crypto/rand"
	"encoding/hex"
	"encoding/json"
	"fmt"
	"io"
	"os"
	"sort"
	"sync"
	"testing"
	"time"

	"github.com/sirupsen/logrus"

	"verifharness/gate"
)

type step map[string]any

func (s step) str(k string) string {
	v, _ := s[k].(string)
	return v
}

type script struct {
	ID    string `json:"id"`
	Steps []step `json:"steps"`
	// Variant: per request the concrete realisation of its flavour ("" for good)
	Variant map[string]string `json:"variant,omitempty"`
	// Context: per request the concrete realisation of its context ("" = the original context c0): a legal variation of
	// what accompanies the value (other unauthenticated client_id / scope / tenant path, a DPoP header, another
	// presentation or proof carrying the same value, a wallet_nonce)
	Context map[string]string `json:"context,omitempty"`
	// ObjMethod: reqobj only, request_uri_method of the stored request object ("get"/"post")
	ObjMethod string `json:"obj_method,omitempty"`
	// Mutant: binding demonstration only (a deliberately broken cache)
	Mutant string `json:"mutant,omitempty"`
}

type input struct {
	Scripts        []script `json:"scripts"`
	BlockedAfterMs int      `json:"blocked_after_ms,omitempty"`
}

type reqResult struct {
	Flavour string `json:"flavour"`
	Variant string `json:"variant,omitempty"`
	Context string `json:"context,omitempty"`
	Status  int    `json:"status"`
	Ok      bool   `json:"ok"`
	Detail  string `json:"detail,omitempty"`
	Begin   int    `json:"begin"`
	End     int    `json:"end"`
}

type violation struct {
	Kind    string `json:"kind"`
	Site    string `json:"site"`
	Pattern string `json:"pattern"`
	// Contexts: "same" = the honoured requests were sent in the same context, "different" = the value was honoured once
	// more in another context
	Contexts string `json:"contexts,omitempty"`
	Detail   string `json:"detail"`
}

type result struct {
	ID         string                `json:"id"`
	Kind       string                `json:"kind"`
	Site       string                `json:"site"`
	Outcomes   map[string]*reqResult `json:"outcomes"`
	Violations []violation           `json:"violations"`
	Drift      []string              `json:"drift"`
	Deferred   int                   `json:"deferred"`
	Extra      int                   `json:"extra"`
	Error      string                `json:"error,omitempty"`
	Trace      []map[string]any      `json:"trace"`
	SecretTTL  float64               `json:"secret_ttl_s"`
	Expired    []string              `json:"expired,omitempty"`
	Successes  int                   `json:"successes"`
}

func secretValue() string {
	var b [10]byte
	_, _ = rand.Read(b[:])
	return "vs" + hex.EncodeToString(b[:])
}

func (w *world) runScript(sc script, blockedAfter time.Duration) (res result) {
	res = result{ID: sc.ID, Outcomes: map[string]*reqResult{}, Violations: []violation{}, Drift: []string{}}
	if len(sc.Steps) == 0 || sc.Steps[0].str("a") != "Init" {
		res.Error = "script does not start with Init"
		return
	}
	kind := sc.Steps[0].str("kind")
	res.Kind, res.Site = kind, siteOf[kind]
	flav := map[string]string{}
	if m, ok := sc.Steps[0]["flav"].(map[string]any); ok {
		for k, v := range m {
			flav[k], _ = v.(string)
		}
	}
	variant := sc.Variant
	if variant == nil {
		variant = map[string]string{}
	}
	// abstract context ("c0"/"c1") of every request as TLC chose it, and its concrete realisation
	ctx := map[string]string{}
	if m, ok := sc.Steps[0]["ctx"].(map[string]any); ok {
		for k, v := range m {
			ctx[k], _ = v.(string)
		}
	}
	for k := range flav {
		if ctx[k] == "" {
			ctx[k] = "c0"
		}
	}
	reqCtx := sc.Context
	if reqCtx == nil {
		reqCtx = map[string]string{}
	}
	for k := range flav {
		if (ctx[k] == "c0") != (reqCtx[k] == "") {
			res.Error = fmt.Sprintf("request %s: abstract context %s does not go with concrete context %q", k, ctx[k], reqCtx[k])
			return
		}
	}
	secret := secretValue()
	_ = w.gs.inner.Clear(context.Background())
	r := &run{sched: gate.New(), secret: secret, actors: map[int64]string{}, gids: map[string]int64{}, ttl: map[string]time.Duration{}, stale: map[string]any{}, mutant: sc.Mutant}
	r.sched.BlockedAfter = 200 * time.Microsecond // Step returns at once; settle() does the waiting
	r.sched.GiveUp = 8 * time.Second
	w.gs.set(r)
	defer w.gs.set(nil)
	defer func() { res.Trace = r.trace }()

	reqs, err := w.prepare(kind, secret, flav, variant, reqCtx, sc.ObjMethod)
	if err != nil {
		res.Error = "prepare: " + err.Error()
		return
	}
	r.mu.Lock()
	for k, ttl := range r.ttl {
		if r.isSecret(k) {
			res.SecretTTL = ttl.Seconds()
		}
	}
	r.mu.Unlock()
	r.record(map[string]any{"ev": "init", "kind": kind, "flav": flav, "ctx": ctx})

	var omu sync.Mutex
	names := make([]string, 0, len(reqs))
	for name := range reqs {
		names = append(names, name)
	}
	sort.Strings(names)
	for _, name := range names {
		name, rq := name, reqs[name]
		r.sched.Go(name, func(context.Context) {
			r.register(name)
			out := &reqResult{Flavour: flav[name], Variant: variant[name], Context: reqCtx[name]}
			out.Begin = r.record(map[string]any{"ev": "begin", "r": name})
			finished := false
			defer func() {
				if p := recover(); p != nil {
					out.Detail = fmt.Sprintf("panic: %v", p)
					out.Status = -1
				} else if !finished {
					out.Detail = "goroutine exited inside the handler"
					out.Status = -2
				}
				resStr := "refused"
				if out.Ok {
					resStr = "ok"
				}
				out.End = r.record(map[string]any{"ev": "end", "r": name, "res": resStr, "status": out.Status})
				omu.Lock()
				res.Outcomes[name] = out
				omu.Unlock()
			}()
			out.Status, out.Ok, out.Detail = rq.do()
			finished = true
		})
	}

	started := map[string]bool{}
	// offSchedule: requests that were found blocked inside the code under test (e.g. on a lock another request
	// holds while it waits at a gate). From then on their steps are best effort: the schedule was written for code
	// without that lock, the verdict comes from the real responses anyway.
	offSchedule := map[string]bool{}
	settleAll := func(first string) (string, bool) {
		pos, blocked := r.settle(first, blockedAfter)
		if blocked {
			offSchedule[first] = true
		}
		for _, other := range names {
			if other != first && started[other] && offSchedule[other] {
				r.settle(other, blockedAfter)
			}
		}
		return pos, blocked
	}
	advance := func(name, wantOp string, strict bool) bool {
		if _, ok := reqs[name]; !ok {
			res.Drift = append(res.Drift, "step for unknown request "+name)
			return false
		}
		if !started[name] {
			started[name] = true
			if _, err := r.sched.Step(name, "start", "go"); err != nil {
				res.Error = err.Error()
				return false
			}
		}
		pos, blocked := settleAll(name)
		strict = strict && !offSchedule[name]
		switch {
		case blocked:
			res.Deferred++
			return true
		case pos == "done":
			if strict {
				res.Drift = append(res.Drift, fmt.Sprintf("%s finished before its %s step", name, wantOp))
			}
			return true
		}
		if strict && pos != wantOp {
			res.Drift = append(res.Drift, fmt.Sprintf("%s is at primitive %s, the schedule says %s", name, pos, wantOp))
		}
		if _, err := r.sched.Step(name, pos, "go"); err != nil {
			res.Error = err.Error()
			return false
		}
		settleAll(name)
		return true
	}

	for _, st := range sc.Steps[1:] {
		if st.str("a") == "Tick" {
			win, strict := window(kind)
			exp := w.gs.elapse(r, win, strict)
			res.Expired = append(res.Expired, exp...)
			r.record(map[string]any{"ev": "tick", "expired": len(exp) > 0})
			continue
		}
		if !advance(st.str("r"), st.str("op"), true) {
			return
		}
	}
	// drain: whatever is left (requests that were blocked inside the code, or primitives the schedule does not know)
	for round := 0; round < 60; round++ {
		allDone := true
		for _, name := range names {
			if started[name] {
				if pos, ok := r.sched.Await(name, time.Millisecond); ok && pos == "done" {
					continue
				}
			}
			allDone = false
			res.Extra++
			if !advance(name, "", false) {
				return
			}
		}
		if allDone {
			break
		}
	}
	for _, name := range names {
		if pos, ok := r.sched.Await(name, 2*time.Second); !ok || pos != "done" {
			res.Error = fmt.Sprintf("request %s never finished (at %q)", name, pos)
			return
		}
	}
	omu.Lock()
	defer omu.Unlock()
	for name, o := range res.Outcomes {
		if o.Status < 0 {
			res.Error = fmt.Sprintf("request %s: %s", name, o.Detail)
			return
		}
	}
	w.judge(&res, r, kind)
	return
}

// judge evaluates the statement of C05 on the real responses.
func (w *world) judge(res *result, r *run, kind string) {
	var okReqs, refused []string
	for name, o := range res.Outcomes {
		if o.Ok {
			okReqs = append(okReqs, name)
		} else {
			refused = append(refused, name)
		}
	}
	sort.Strings(okReqs)
	sort.Strings(refused)
	res.Successes = len(okReqs)
	site := siteOf[kind]
	describe := func(names []string) string {
		s := ""
		for _, n := range names {
			o := res.Outcomes[n]
			s += fmt.Sprintf(" %s[%s%s%s status=%d events %d..%d]", n, o.Flavour, map[bool]string{true: "/" + o.Variant, false: ""}[o.Variant != ""],
				map[bool]string{true: " context=" + o.Context, false: ""}[o.Context != ""], o.Status, o.Begin, o.End)
		}
		return s
	}
	// at most one request presenting the value succeeds
	if len(okReqs) > 1 {
		pattern, contexts := "concurrent", "same"
		for i := range okReqs {
			for j := i + 1; j < len(okReqs); j++ {
				a, b := res.Outcomes[okReqs[i]], res.Outcomes[okReqs[j]]
				if !(a.Begin < b.End && b.Begin < a.End) {
					pattern = "sequential"
				}
				if a.Context != b.Context {
					contexts = "different"
				}
			}
		}
		res.Violations = append(res.Violations, violation{Kind: "double-success", Site: site, Pattern: pattern, Contexts: contexts,
			Detail: fmt.Sprintf("%d requests presenting the same value were honoured:%s", len(okReqs), describe(okReqs))})
	}
	// an authorization code is dead after any failed redemption attempt
	if kind == "code" {
		for _, a := range refused {
			for _, b := range okReqs {
				if res.Outcomes[b].Begin > res.Outcomes[a].End {
					res.Violations = append(res.Violations, violation{Kind: "success-after-failed-redemption", Site: site, Pattern: "sequential",
						Detail: "honoured after a refused attempt had completed:" + describe([]string{a, b})})
				}
			}
		}
	}
	// nothing is honoured after its validity window (entry kinds; for marker kinds a replay inside the window of the
	// guarded secret shows up as a double success)
	if kind != "s2snonce" && kind != "dpopjti" {
		tick := -1
		for i, e := range r.trace {
			if e["ev"] == "tick" {
				tick = i
				break
			}
		}
		if tick >= 0 {
			for _, b := range okReqs {
				if res.Outcomes[b].Begin > tick {
					res.Violations = append(res.Violations, violation{Kind: "success-after-expiry", Site: site, Pattern: "sequential",
						Detail: fmt.Sprintf("honoured after its validity window (ttl %.0fs) had elapsed:%s", res.SecretTTL, describe([]string{b}))})
				}
			}
		}
	}
}

func TestDriver(t *testing.T) {
	inPath, outPath := os.Getenv("VERIF_IN"), os.Getenv("VERIF_OUT")
	if inPath == "" {
		t.Skip("VERIF_IN not set")
	}
	logrus.SetLevel(logrus.PanicLevel)
	logrus.SetOutput(io.Discard)
	raw, err := os.ReadFile(inPath)
	if err != nil {
		t.Fatal(err)
	}
	var in input
	if err := json.Unmarshal(raw, &in); err != nil {
		t.Fatal(err)
	}
	blocked := 250 * time.Millisecond
	if in.BlockedAfterMs > 0 {
		blocked = time.Duration(in.BlockedAfterMs) * time.Millisecond
	}
	w := newWorld(t)
	out, err := os.Create(outPath)
	if err != nil {
		t.Fatal(err)
	}
	defer out.Close()
	bw := bufio.NewWriter(out)
	defer bw.Flush()
	enc := json.NewEncoder(bw)
	for _, sc := range in.Scripts {
		res := w.runScript(sc, blocked)
		if err := enc.Encode(res); err != nil {
			t.Fatal(err)
		}
	}
}
