package onetime

import (
	"bytes"
	"context"
	"runtime"
	"strconv"
	"strings"
	"sync"
	"time"

	"github.com/eko/gocache/lib/v4/store"

	"verifharness/gate"
)

// goid returns the id of the calling goroutine. SessionStoreImpl calls the cache with context.Background(), so the
// goroutine is the only thing that identifies the request a primitive cache operation belongs to.
func goid() int64 {
	var buf [64]byte
	n := runtime.Stack(buf[:], false)
	f := bytes.Fields(buf[:n])
	if len(f) < 2 {
		return -1
	}
	id, _ := strconv.ParseInt(string(f[1]), 10, 64)
	return id
}

// run is the per-script state of the gated store.
type run struct {
	mu     sync.Mutex
	sched  *gate.Sched
	secret string           // keys ending in "/"+secret are the secret's entry: gated + traced as "op"
	actors map[int64]string // goroutine -> request name
	gids   map[string]int64 // request name -> goroutine
	trace  []map[string]any
	ttl    map[string]time.Duration // full key -> expiration passed with the last Set
	mutant string                  // binding demonstration only (see driver_test.go)
	stale  map[string]any          // mutant "stale-get": value a second Get still sees after a Delete
}

func (r *run) actor() string {
	id := goid()
	r.mu.Lock()
	defer r.mu.Unlock()
	return r.actors[id]
}

func (r *run) register(name string) {
	id := goid()
	r.mu.Lock()
	r.actors[id] = name
	r.gids[name] = id
	r.mu.Unlock()
}

func (r *run) record(e map[string]any) int {
	r.mu.Lock()
	defer r.mu.Unlock()
	r.trace = append(r.trace, e)
	return len(r.trace) - 1
}

func (r *run) isSecret(key string) bool {
	return r.secret != "" && (key == r.secret || strings.HasSuffix(key, "/"+r.secret))
}

// goroutineStatus returns the scheduler status of goroutine id as printed in a stack dump ("running", "select",
// "sync.Mutex.Lock", ...), or "" if it does not exist (any more).
func goroutineStatus(id int64) string {
	buf := make([]byte, 1<<16)
	for {
		n := runtime.Stack(buf, true)
		if n < len(buf) {
			buf = buf[:n]
			break
		}
		buf = make([]byte, 2*len(buf))
	}
	marker := []byte("goroutine " + strconv.FormatInt(id, 10) + " [")
	i := 0
	for {
		j := bytes.Index(buf[i:], marker)
		if j < 0 {
			return ""
		}
		j += i
		if j == 0 || buf[j-1] == '\n' {
			rest := buf[j+len(marker):]
			if k := bytes.IndexByte(rest, ']'); k >= 0 {
				st := string(rest[:k])
				if c := strings.IndexByte(st, ','); c >= 0 {
					st = st[:c]
				}
				return st
			}
			return ""
		}
		i = j + len(marker)
	}
}

func lockWait(status string) bool {
	return strings.HasPrefix(status, "sync.") || strings.HasPrefix(status, "semacquire") ||
		strings.HasPrefix(status, "chan ") || status == "select"
}

// settle waits until request `name` is blocked at a gate or has finished (returns that position), or is blocked inside
// the code under test: its goroutine waits for a lock / channel (seen on consecutive polls) or does not arrive within
// giveUp. Blocking is decided from the goroutine's scheduler status, so it costs about a millisecond, not a timeout.
func (r *run) settle(name string, giveUp time.Duration) (string, bool) {
	deadline := time.Now().Add(giveUp)
	waits := 0
	for {
		if pos, ok := r.sched.Await(name, 300*time.Microsecond); ok {
			return pos, false
		}
		r.mu.Lock()
		id, known := r.gids[name]
		r.mu.Unlock()
		if known && lockWait(goroutineStatus(id)) {
			waits++
			if waits >= 4 {
				if pos, ok := r.sched.Await(name, 50*time.Microsecond); ok {
					return pos, false
				}
				return "", true
			}
		} else {
			waits = 0
		}
		if time.Now().After(deadline) {
			return "", true
		}
	}
}

// class is the key without its last segment (the store prefix), e.g. "oauth/code".
func class(key string) string {
	if i := strings.LastIndex(key, "/"); i >= 0 {
		return key[:i]
	}
	return ""
}

// gstore decorates the gocache store of the real in-memory session database: every primitive operation on the
// secret's key blocks at a scheduler gate until the script releases the calling request, and is recorded.
type gstore struct {
	inner store.StoreInterface
	mu    sync.Mutex
	cur   *run
}

func (g *gstore) current() *run {
	g.mu.Lock()
	defer g.mu.Unlock()
	return g.cur
}

func (g *gstore) set(r *run) {
	g.mu.Lock()
	g.cur = r
	g.mu.Unlock()
}

func (g *gstore) before(op string, key any) (*run, string, string, bool) {
	r := g.current()
	k, _ := key.(string)
	if r == nil {
		return nil, "", k, false
	}
	a := r.actor()
	sec := r.isSecret(k)
	if a != "" && sec {
		r.sched.At(a, op)
	}
	return r, a, k, sec
}

func (g *gstore) after(r *run, a, op, k string, sec bool, hit *bool, ttl time.Duration) {
	if r == nil {
		return
	}
	if a == "" {
		if op == "set" {
			r.mu.Lock()
			r.ttl[k] = ttl
			r.mu.Unlock()
		}
		return
	}
	e := map[string]any{"r": a, "op": op}
	if sec {
		e["ev"] = "op"
	} else {
		e["ev"] = "other"
		e["cls"] = class(k)
	}
	if hit != nil {
		e["hit"] = *hit
	}
	if op == "set" {
		e["ttl_s"] = ttl.Seconds()
		r.mu.Lock()
		r.ttl[k] = ttl
		r.mu.Unlock()
	}
	r.record(e)
}

func (g *gstore) Get(ctx context.Context, key any) (any, error) {
	r, a, k, sec := g.before("get", key)
	v, err := g.inner.Get(ctx, key)
	if r != nil && r.mutant == "stale-get" && sec && a != "" {
		// binding demonstration: the cache serves a deleted entry once more
		r.mu.Lock()
		if err == nil {
			r.stale[k] = v
		} else if s, ok := r.stale[k]; ok {
			v, err = s, nil
			delete(r.stale, k)
		}
		r.mu.Unlock()
	}
	hit := err == nil
	if b, ok := v.([]byte); ok && len(b) == 0 {
		hit = false
	}
	g.after(r, a, "get", k, sec, &hit, 0)
	return v, err
}

func (g *gstore) GetWithTTL(ctx context.Context, key any) (any, time.Duration, error) {
	r, a, k, sec := g.before("get", key)
	v, d, err := g.inner.GetWithTTL(ctx, key)
	hit := err == nil
	g.after(r, a, "get", k, sec, &hit, 0)
	return v, d, err
}

func (g *gstore) Set(ctx context.Context, key any, value any, options ...store.Option) error {
	r, a, k, sec := g.before("set", key)
	ttl := store.ApplyOptions(options...).Expiration
	err := g.inner.Set(ctx, key, value, options...)
	g.after(r, a, "set", k, sec, nil, ttl)
	return err
}

func (g *gstore) Delete(ctx context.Context, key any) error {
	r, a, k, sec := g.before("delete", key)
	err := g.inner.Delete(ctx, key)
	g.after(r, a, "delete", k, sec, nil, 0)
	return err
}

func (g *gstore) Invalidate(ctx context.Context, options ...store.InvalidateOption) error {
	return g.inner.Invalidate(ctx, options...)
}

func (g *gstore) Clear(ctx context.Context) error { return g.inner.Clear(ctx) }

func (g *gstore) GetType() string { return g.inner.GetType() }

// elapse lets the validity window of the secret pass. Entries are aged by rewriting their expiry (the field the
// cache compares against the clock): an entry whose TTL is finite and not longer than `window` is re-stored with an
// expiry of one nanosecond, so the cache itself finds it expired. window <= 0 means "exactly the TTL of the entry".
func (g *gstore) elapse(r *run, window time.Duration, strict bool) []string {
	var expired []string
	r.mu.Lock()
	keys := map[string]time.Duration{}
	for k, ttl := range r.ttl {
		if r.isSecret(k) {
			keys[k] = ttl
		}
	}
	r.mu.Unlock()
	for k, ttl := range keys {
		if ttl <= 0 {
			continue // stored without expiry: never ages out
		}
		if window > 0 && ((strict && ttl >= window) || (!strict && ttl > window)) {
			continue // outlives the window
		}
		v, err := g.inner.Get(context.Background(), k)
		if err != nil {
			continue
		}
		_ = g.inner.Set(context.Background(), k, v, store.WithExpiration(time.Nanosecond))
		expired = append(expired, class(k))
	}
	time.Sleep(20 * time.Microsecond)
	return expired
}
