// World of the DidStore driver: deterministic P-256 keys, real did:nuts identifiers, real DID documents and
// (for the ambassador) really signed network transactions built from the tables printed by MCDidStore.tla.
package didstoredrv

import (
	"crypto/ecdsa"
	"crypto/ed25519"
	"crypto/elliptic"
	"crypto/rand"
	"crypto/rsa"
	"crypto/sha256"
	"encoding/base64"
	"encoding/hex"
	"encoding/json"
	"fmt"
	"math/big"
	"sort"
	"strings"
	"sync"
	"time"

	"github.com/nuts-foundation/go-did/did"
	"github.com/nuts-foundation/nuts-node/crypto/hash"
	"github.com/nuts-foundation/nuts-node/network/dag"

	"verifharness/txforge"
)

// ---- tables (JSON print-out of MCDidStore.tla) ----------------------------------------------------------

type svc struct {
	ID  string `json:"id"`
	Val string `json:"val"`
}

type adoc struct {
	ID     string   `json:"id"`
	Keys   []string `json:"keys"`
	CapInv []string `json:"capInv"`
	Ctrl   []string `json:"ctrl"`
	Svcs   []svc    `json:"svcs"`
}

type atx struct {
	Did    string   `json:"did"`
	Lc     int      `json:"lc"`
	Sig    int      `json:"sig"`
	Prevs  []string `json:"prevs"`
	Doc    string   `json:"doc"`
	Kind   string   `json:"kind"`
	Key    string   `json:"key"`
	KidDid string   `json:"kidDid"`
	KidKey string   `json:"kidKey"`
	RR     int      `json:"rr"`
}

type scen struct {
	Ev  []string `json:"ev"`
	Dup int      `json:"dup"`
}

type tables struct {
	T     map[string]atx    `json:"T"`
	Docs  map[string]adoc   `json:"Docs"`
	Scen  map[string]scen   `json:"Scen"`
	Thumb map[string]string `json:"Thumb"`
	Rank  map[string]int    `json:"Rank"`
	// KeyUse: relationship under which a key that is listed but NOT authorised for capability invocation appears
	// ("" = verificationMethod only; no entry = assertionMethod)
	KeyUse  map[string]string `json:"KeyUse"`
	Defects []string          `json:"Defects"`
	VMKinds []string          `json:"VMKinds"`
}

var t0 = time.Date(2026, 1, 1, 0, 0, 0, 0, time.UTC)

func sigTime(sig int) time.Time { return t0.Add(time.Duration(sig) * time.Second) }

// ---- keys and identifiers -------------------------------------------------------------------------------

func detKey(seed string) txforge.Key {
	h := sha256.Sum256([]byte(seed))
	c := elliptic.P256()
	n1 := new(big.Int).Sub(c.Params().N, big.NewInt(1))
	d := new(big.Int).SetBytes(h[:])
	d.Mod(d, n1)
	d.Add(d, big.NewInt(1))
	priv := &ecdsa.PrivateKey{D: d}
	priv.Curve = c
	priv.X, priv.Y = c.ScalarBaseMult(d.Bytes())
	return txforge.Key{Priv: priv}
}

// jwkThumbprint is RFC 7638 for an EC public JWK given as a generic map (own implementation: the reference
// oracle must not depend on the code under test).
func jwkThumbprint(j map[string]any) ([]byte, bool) {
	kty, _ := j["kty"].(string)
	var members []string
	switch kty {
	case "EC":
		members = []string{"crv", "kty", "x", "y"}
	case "OKP":
		members = []string{"crv", "kty", "x"}
	case "RSA":
		members = []string{"e", "kty", "n"}
	default:
		return nil, false
	}
	enc := func(s string) string { b, _ := json.Marshal(s); return string(b) }
	canon := "{"
	for i, m := range members { // required members in lexicographic order
		v, ok := j[m].(string)
		if !ok {
			return nil, false
		}
		if i > 0 {
			canon += ","
		}
		canon += enc(m) + ":" + enc(v)
	}
	canon += "}"
	h := sha256.Sum256([]byte(canon))
	return h[:], true
}

const b58 = "123456789ABCDEFGHJKLMNPQRSTUVWXYZabcdefghijkmnopqrstuvwxyz"

func base58(b []byte) string {
	x := new(big.Int).SetBytes(b)
	var out []byte
	m := new(big.Int)
	r := big.NewInt(58)
	for x.Sign() > 0 {
		x.DivMod(x, r, m)
		out = append(out, b58[m.Int64()])
	}
	for _, c := range b {
		if c != 0 {
			break
		}
		out = append(out, '1')
	}
	for i, j := 0, len(out)-1; i < j; i, j = i+1, j-1 {
		out[i], out[j] = out[j], out[i]
	}
	return string(out)
}

func keyFragment(k txforge.Key) string {
	t, _ := jwkThumbprint(k.JWK())
	return base64.RawURLEncoding.EncodeToString(t)
}

func keyDID(k txforge.Key) string {
	t, _ := jwkThumbprint(k.JWK())
	return "did:nuts:" + base58(t)
}

type world struct {
	tb      tables
	keys    map[string]txforge.Key // key name -> key
	did     map[string]string      // DID name -> did:nuts:...
	didName map[string]string      // reverse
	fragKey map[string]string      // key id fragment -> key name
	thumbOf map[string]string      // key name -> hex thumbprint
	docs    map[string]*cdoc       // document name -> concrete document
}

type cdoc struct {
	name    string
	obj     map[string]any
	doc     did.Document
	payload []byte
	ph      hash.SHA256Hash
}

func newWorld(tb tables) *world {
	w := &world{tb: tb, keys: map[string]txforge.Key{}, did: map[string]string{}, didName: map[string]string{},
		fragKey: map[string]string{}, thumbOf: map[string]string{}, docs: map[string]*cdoc{}}
	// founding keys: generated, then assigned so that the string order of the real DIDs is the order `Rank`
	var founders []string // key names with a DID
	for k, d := range tb.Thumb {
		if d != "" {
			founders = append(founders, k)
		}
	}
	sort.Slice(founders, func(i, j int) bool { return tb.Rank[tb.Thumb[founders[i]]] < tb.Rank[tb.Thumb[founders[j]]] })
	cands := make([]txforge.Key, len(founders))
	for i := range founders {
		cands[i] = detKey(fmt.Sprintf("verif-didstore-founder-%d", i))
	}
	sort.Slice(cands, func(i, j int) bool { return keyDID(cands[i]) < keyDID(cands[j]) })
	for i, k := range founders {
		w.keys[k] = cands[i]
		w.did[tb.Thumb[k]] = keyDID(cands[i])
	}
	for k, d := range tb.Thumb {
		if d == "" {
			w.keys[k] = detKey("verif-didstore-key-" + k)
		}
	}
	for n, d := range w.did {
		w.didName[d] = n
	}
	for n, k := range w.keys {
		w.fragKey[keyFragment(k)] = n
		t, _ := jwkThumbprint(k.JWK())
		w.thumbOf[n] = hex.EncodeToString(t)
	}
	return w
}

// ---- documents ------------------------------------------------------------------------------------------

func (w *world) vmObj(didStr, key string) map[string]any {
	k := w.keys[key]
	return map[string]any{"id": didStr + "#" + keyFragment(k), "type": "JsonWebKey2020", "controller": didStr, "publicKeyJwk": k.JWK()}
}

func svcObj(didStr string, s svc) map[string]any {
	return map[string]any{"id": didStr + "#" + s.ID, "type": "type-" + s.ID, "serviceEndpoint": "https://example.com/" + s.Val}
}

// docObj renders an abstract document as the JSON object a Nuts node would publish.
func (w *world) docObj(a adoc) map[string]any {
	didStr := w.did[a.ID]
	o := map[string]any{
		"@context": []any{"https://www.w3.org/ns/did/v1", "https://w3c-ccg.github.io/lds-jws2020/contexts/lds-jws2020-v1.json"},
		"id":       didStr,
	}
	keys := append([]string{}, a.Keys...)
	sort.Strings(keys)
	inCI := map[string]bool{}
	for _, k := range a.CapInv {
		inCI[k] = true
	}
	var vms []any
	rels := map[string][]any{}
	for _, k := range keys {
		vm := w.vmObj(didStr, k)
		vms = append(vms, vm)
		// a key authorised for capability invocation is also an assertion key (as a Nuts node publishes it); a key that is
		// merely listed appears under the relationship the model names for it, or under none at all
		use, named := w.tb.KeyUse[k]
		if inCI[k] || !named {
			use = "assertionMethod"
		}
		if use != "" {
			rels[use] = append(rels[use], vm["id"])
		}
	}
	if len(vms) > 0 {
		o["verificationMethod"] = vms
	}
	for r, l := range rels {
		o[r] = l
	}
	ci := append([]string{}, a.CapInv...)
	sort.Strings(ci)
	var cis []any
	for _, k := range ci {
		cis = append(cis, didStr+"#"+keyFragment(w.keys[k]))
	}
	if len(cis) > 0 {
		o["capabilityInvocation"] = cis
	}
	if len(a.Ctrl) > 0 {
		var cs []any
		for _, c := range a.Ctrl {
			cs = append(cs, w.did[c])
		}
		o["controller"] = cs
	}
	ss := append([]svc{}, a.Svcs...)
	sort.Slice(ss, func(i, j int) bool { return ss[i].ID < ss[j].ID })
	var svcs []any
	for _, s := range ss {
		svcs = append(svcs, svcObj(didStr, s))
	}
	if len(svcs) > 0 {
		o["service"] = svcs
	}
	return o
}

func (w *world) concrete(name string) (*cdoc, error) {
	if c, ok := w.docs[name]; ok {
		return c, nil
	}
	a, ok := w.tb.Docs[name]
	if !ok {
		return nil, fmt.Errorf("unknown document %s", name)
	}
	obj := w.docObj(a)
	raw, _ := json.Marshal(obj)
	d, err := did.ParseDocument(string(raw))
	if err != nil {
		return nil, fmt.Errorf("document %s does not parse: %w", name, err)
	}
	// what a node publishes is the go-did serialisation
	payload, err := json.Marshal(*d)
	if err != nil {
		return nil, err
	}
	c := &cdoc{name: name, obj: obj, doc: *d, payload: payload, ph: hash.SHA256Sum(payload)}
	w.docs[name] = c
	return c, nil
}

// abstractDoc maps a real document back to the vocabulary of the model.
type absDoc struct {
	ID     string   `json:"id"`
	Keys   []string `json:"keys"`
	CapInv []string `json:"capInv"`
	Ctrl   []string `json:"ctrl"`
	Svcs   []svc    `json:"svcs"`
}

func (w *world) keyName(frag string) string {
	if n, ok := w.fragKey[frag]; ok {
		return n
	}
	return "?" + frag
}

func (w *world) abstract(d *did.Document) absDoc {
	a := absDoc{ID: w.didName[d.ID.String()], Keys: []string{}, CapInv: []string{}, Ctrl: []string{}, Svcs: []svc{}}
	for _, vm := range d.VerificationMethod {
		if vm != nil {
			a.Keys = append(a.Keys, w.keyName(vm.ID.Fragment))
		}
	}
	for _, r := range d.CapabilityInvocation {
		if r.VerificationMethod != nil {
			a.CapInv = append(a.CapInv, w.keyName(r.ID.Fragment))
		}
	}
	for _, c := range d.Controller {
		n, ok := w.didName[c.String()]
		if !ok {
			n = "?" + c.String()
		}
		a.Ctrl = append(a.Ctrl, n)
	}
	for _, s := range d.Service {
		val := ""
		var ep string
		if err := s.UnmarshalServiceEndpoint(&ep); err == nil {
			val = strings.TrimPrefix(ep, "https://example.com/")
		}
		a.Svcs = append(a.Svcs, svc{ID: s.ID.Fragment, Val: val})
	}
	sort.Strings(a.Keys)
	sort.Strings(a.CapInv)
	sort.Slice(a.Svcs, func(i, j int) bool { return a.Svcs[i].ID < a.Svcs[j].ID })
	return a
}

func sortedCopy(s []string) []string {
	o := append([]string{}, s...)
	sort.Strings(o)
	return o
}

// sameContent compares a real document (abstracted) with the document predicted by the deterministic model;
// controllers as a SET (their order in a merged document follows Go map iteration), and for a merge of more than
// two branches only the service ids (which branch wins an id follows map iteration, too). The exact nondeterministic
// outcomes are checked by trace validation against the descriptive model.
func sameContent(real absDoc, model adoc, branches int) bool {
	ms := append([]svc{}, model.Svcs...)
	sort.Slice(ms, func(i, j int) bool { return ms[i].ID < ms[j].ID })
	rs := real.Svcs
	if len(ms) != len(rs) {
		return false
	}
	for i := range ms {
		if ms[i].ID != rs[i].ID || (branches <= 2 && ms[i].Val != rs[i].Val) {
			return false
		}
	}
	eq := func(a, b []string) bool { return strings.Join(sortedCopy(a), ",") == strings.Join(sortedCopy(b), ",") }
	return eq(real.Keys, model.Keys) && eq(real.CapInv, model.CapInv) && eq(real.Ctrl, model.Ctrl)
}

// ---- store events ---------------------------------------------------------------------------------------

// storeRef: the first byte is the tie-break rank `rr` of the model, so that event.before orders equal
// (clock, signing time) pairs exactly as the model does.
func storeRef(name string, rr int) hash.SHA256Hash {
	h := sha256.Sum256([]byte("verif-didstore-ref-" + name))
	h[0] = byte(rr)
	return hash.FromSlice(h[:])
}

// ---- signed network transactions (ambassador) -----------------------------------------------------------

type ctx struct {
	name    string
	df      string
	a       atx
	raw     []byte
	tx      dag.Transaction
	payload []byte
	signer  string // key name that really signed
}

type forge struct {
	w    *world
	refs map[string]hash.SHA256Hash // transaction name -> ref of its well-formed variant
	made map[string]*ctx
}

func newForge(w *world) *forge {
	return &forge{w: w, refs: map[string]hash.SHA256Hash{}, made: map[string]*ctx{}}
}

func (f *forge) get(name, df string) (*ctx, error) {
	id := name + "/" + df
	if c, ok := f.made[id]; ok {
		return c, nil
	}
	a, ok := f.w.tb.T[name]
	if !ok {
		return nil, fmt.Errorf("unknown transaction %s", name)
	}
	var prevs []string
	for _, p := range a.Prevs {
		pc, err := f.get(p, "none")
		if err != nil {
			return nil, err
		}
		prevs = append(prevs, pc.tx.Ref().String())
	}
	cd, err := f.w.concrete(a.Doc)
	if err != nil {
		return nil, err
	}
	payload := cd.payload
	if df != "none" {
		payload, err = f.w.defective(cd, df)
		if err != nil {
			return nil, err
		}
	}
	ph := sha256.Sum256(payload)
	key := f.w.keys[a.Key]
	h := txforge.TxHeaders(key, prevs, a.Lc, sigTime(a.Sig).Unix(), "application/did+json")
	if a.Kind != "create" {
		delete(h, "jwk")
		h["kid"] = f.w.did[a.KidDid] + "#" + keyFragment(f.w.keys[a.KidKey])
	}
	raw := txforge.Compact(h, []byte(hex.EncodeToString(ph[:])), key)
	tx, err := dag.ParseTransaction(raw)
	if err != nil {
		return nil, fmt.Errorf("forged transaction %s does not parse: %w", name, err)
	}
	c := &ctx{name: name, df: df, a: a, raw: raw, tx: tx, payload: payload, signer: a.Key}
	f.made[id] = c
	if df == "none" {
		f.refs[name] = tx.Ref()
	}
	return c, nil
}

// ---- defect classes of documents ------------------------------------------------------------------------

func deepCopy(o map[string]any) map[string]any {
	b, _ := json.Marshal(o)
	var out map[string]any
	_ = json.Unmarshal(b, &out)
	return out
}

func replaceRefs(o map[string]any, old, new string) {
	for _, rel := range []string{"assertionMethod", "capabilityInvocation", "authentication", "keyAgreement", "capabilityDelegation"} {
		if l, ok := o[rel].([]any); ok {
			for i, e := range l {
				if s, ok := e.(string); ok && s == old {
					l[i] = new
				}
			}
		}
	}
}


// ---- kinds of verification methods (type x key material) -------------------------------------------------

var keyMaterialMembers = []string{"publicKeyJwk", "publicKeyBase58", "publicKeyMultibase"}
var relationships = []string{"assertionMethod", "capabilityInvocation", "authentication", "keyAgreement", "capabilityDelegation"}

var (
	edPub   = ed25519.NewKeyFromSeed(func() []byte { h := sha256.Sum256([]byte("verif-didstore-ed25519")); return h[:] }()).Public().(ed25519.PublicKey)
	rsaOnce sync.Once
	rsaJWK  map[string]any
)

func okpJWK(raw []byte) map[string]any {
	return map[string]any{"kty": "OKP", "crv": "Ed25519", "x": base64.RawURLEncoding.EncodeToString(raw)}
}

func someRSAJWK() map[string]any {
	rsaOnce.Do(func() {
		k, err := rsa.GenerateKey(rand.Reader, 2048)
		if err != nil {
			panic(err)
		}
		rsaJWK = map[string]any{"kty": "RSA", "n": base64.RawURLEncoding.EncodeToString(k.N.Bytes()),
			"e": base64.RawURLEncoding.EncodeToString(big.NewInt(int64(k.E)).Bytes())}
	})
	return deepCopy(rsaJWK)
}

// retype turns a JsonWebKey2020/EC method into a method of the given kind; the id stays "DID#thumbprint of the key".
func retype(vm map[string]any, didStr, kind string) error {
	typ, material := kind, "jwk"
	if i := strings.Index(kind, ":"); i >= 0 {
		typ, material = kind[:i], kind[i+1:]
	}
	ec, _ := vm["publicKeyJwk"].(map[string]any)
	var asJWK map[string]any
	for _, m := range keyMaterialMembers {
		delete(vm, m)
	}
	switch {
	case material == "base58":
		vm["publicKeyBase58"] = base58(edPub)
		asJWK = okpJWK(edPub)
	case material == "multibase":
		vm["publicKeyMultibase"] = "z" + base58(edPub)
		asJWK = okpJWK(edPub)
	case material == "okp" || (material == "jwk" && strings.HasPrefix(typ, "Ed25519")):
		asJWK = okpJWK(edPub)
		vm["publicKeyJwk"] = okpJWK(edPub)
	case material == "rsa" || (material == "jwk" && strings.HasPrefix(typ, "Rsa")):
		asJWK = someRSAJWK()
		vm["publicKeyJwk"] = deepCopy(asJWK)
	case material == "jwk":
		if ec == nil {
			return fmt.Errorf("method without an EC JWK cannot become %s", kind)
		}
		asJWK = ec
		vm["publicKeyJwk"] = ec
	default:
		return fmt.Errorf("unknown kind of verification method %q", kind)
	}
	vm["type"] = typ
	t, ok := jwkThumbprint(asJWK)
	if !ok {
		return fmt.Errorf("no thumbprint for kind %s", kind)
	}
	vm["id"] = didStr + "#" + base64.RawURLEncoding.EncodeToString(t)
	return nil
}

func unbase58(s string) ([]byte, bool) {
	x := new(big.Int)
	for _, c := range s {
		i := strings.IndexRune(b58, c)
		if i < 0 {
			return nil, false
		}
		x.Mul(x, big.NewInt(58))
		x.Add(x, big.NewInt(int64(i)))
	}
	out := x.Bytes()
	for _, c := range s {
		if c != '1' {
			break
		}
		out = append([]byte{0}, out...)
	}
	return out, true
}

// publicKeyAsJWK: the public key of a verification method, whatever representation its type uses, as a JWK
// (reference reading; nil = no usable key material). More than one representation is not a well-formed method.
func publicKeyAsJWK(m map[string]any) map[string]any {
	n := 0
	for _, k := range keyMaterialMembers {
		if _, ok := m[k]; ok {
			n++
		}
	}
	if n != 1 {
		return nil
	}
	if j, ok := m["publicKeyJwk"].(map[string]any); ok {
		return j
	}
	var raw []byte
	var ok bool
	if b, is := m["publicKeyBase58"].(string); is {
		raw, ok = unbase58(b)
	} else if mb, is := m["publicKeyMultibase"].(string); is && strings.HasPrefix(mb, "z") {
		raw, ok = unbase58(mb[1:])
		if ok && len(raw) == 34 && raw[0] == 0xed && raw[1] == 0x01 { // multicodec ed25519-pub
			raw = raw[2:]
		}
	}
	if !ok || len(raw) != 32 {
		return nil
	}
	return okpJWK(raw)
}

// defective returns the bytes of the document with exactly one defect of class df.
func (w *world) defective(cd *cdoc, df string) ([]byte, error) {
	o := deepCopy(cd.obj)
	didStr := o["id"].(string)
	other := w.did["B"]
	if other == didStr || other == "" {
		other = w.did["A"]
	}
	if other == "" || other == didStr {
		other = "did:nuts:" + base58([]byte("some other identifier........"))
	}
	// every carrier gets a key and a service to break
	if _, ok := o["verificationMethod"]; !ok {
		vm := w.vmObj(didStr, "k2")
		o["verificationMethod"] = []any{vm}
		o["assertionMethod"] = []any{vm["id"]}
	}
	if _, ok := o["service"]; !ok {
		o["service"] = []any{svcObj(didStr, svc{"s9", "q"})}
	}
	vms := o["verificationMethod"].([]any)
	vm0 := vms[0].(map[string]any)
	id0 := vm0["id"].(string)
	// "<class>@<kind>": the defect is applied to a verification method of that kind (type x key material) whose id IS
	// the thumbprint of its key; "ok@<kind>" is the well-formed document with such a method
	if i := strings.Index(df, "@"); i >= 0 {
		kind := df[i+1:]
		df = df[:i]
		if err := retype(vm0, didStr, kind); err != nil {
			return nil, err
		}
		replaceRefs(o, id0, vm0["id"].(string))
		id0 = vm0["id"].(string)
		if df == "ok" {
			return json.Marshal(o)
		}
	}
	frag0 := id0[strings.Index(id0, "#")+1:]
	svcs := o["service"].([]any)
	s0 := svcs[0].(map[string]any)
	k3 := w.keys["k3"]
	switch df {
	case "vm-id-no-fragment":
		vm0["id"] = didStr
		replaceRefs(o, id0, didStr)
	case "vm-id-foreign-prefix":
		vm0["id"] = other + "#" + frag0
		replaceRefs(o, id0, other+"#"+frag0)
	case "vm-id-duplicate":
		o["verificationMethod"] = append(vms, deepCopy(vm0))
	case "vm-id-not-thumbprint":
		vm0["id"] = didStr + "#key-1"
		replaceRefs(o, id0, didStr+"#key-1")
	case "vm-id-extended-did":
		// the id belongs to ANOTHER DID, one that merely starts with the document's DID
		vm0["id"] = didStr + "x#" + frag0
		replaceRefs(o, id0, didStr+"x#"+frag0)
	case "vm-id-kid-not-thumbprint":
		// the fragment is not the key thumbprint, but the JWK announces that fragment as its own "kid"
		vm0["id"] = didStr + "#key-1"
		replaceRefs(o, id0, didStr+"#key-1")
		if j, ok := vm0["publicKeyJwk"].(map[string]any); ok {
			j["kid"] = "key-1"
		}
	case "vm-null":
		// a null entry and nothing that refers to a verification method
		o["verificationMethod"] = []any{nil}
		for _, rel := range relationships {
			delete(o, rel)
		}
	case "vm-null-referenced":
		// a null entry while the relationships still refer to verification methods
		o["verificationMethod"] = []any{nil}
		if _, ok := o["assertionMethod"]; !ok {
			o["assertionMethod"] = []any{id0}
		}
	case "vm-no-key":
		for _, m := range keyMaterialMembers {
			delete(vm0, m)
		}
	case "vm-no-type":
		delete(vm0, "type")
	case "vm-no-controller":
		delete(vm0, "controller")
	case "svc-id-no-fragment":
		s0["id"] = didStr
	case "svc-id-foreign-prefix":
		s0["id"] = other + "#s9"
	case "svc-id-extended-did":
		s0["id"] = didStr + "x#s9"
	case "svc-id-did-with-path":
		s0["id"] = didStr + "/some/path#s9"
	case "svc-id-duplicate":
		dup := deepCopy(s0)
		dup["type"] = "type-other"
		o["service"] = append(svcs, dup)
	case "svc-type-duplicate":
		dup := deepCopy(s0)
		dup["id"] = didStr + "#s8"
		o["service"] = append(svcs, dup)
	case "svc-no-type":
		delete(s0, "type")
	case "svc-no-endpoint":
		delete(s0, "serviceEndpoint")
	case "no-context":
		o["@context"] = []any{"https://example.com/some-other-context"}
	case "capinv-embedded-foreign-id":
		ci, _ := o["capabilityInvocation"].([]any)
		o["capabilityInvocation"] = append(ci, map[string]any{"id": other + "#" + keyFragment(k3), "type": "JsonWebKey2020", "controller": didStr, "publicKeyJwk": k3.JWK()})
	case "capinv-embedded-not-thumbprint":
		ci, _ := o["capabilityInvocation"].([]any)
		o["capabilityInvocation"] = append(ci, map[string]any{"id": didStr + "#key-9", "type": "JsonWebKey2020", "controller": didStr, "publicKeyJwk": k3.JWK()})
	case "capinv-unresolvable-ref":
		ci, _ := o["capabilityInvocation"].([]any)
		o["capabilityInvocation"] = append(ci, didStr+"#does-not-exist")
	case "not-json":
		b, _ := json.Marshal(o)
		return b[:len(b)/2], nil
	default:
		return nil, fmt.Errorf("unknown defect class %s", df)
	}
	return json.Marshal(o)
}

// refWellFormed is the reference reading of "well-formed per DID-core and the Nuts method rules": entry ids prefixed
// by the DID and unique, key ids equal to key thumbprints, at most one service per type (generic JSON, no go-did).
func refWellFormed(payload []byte) (bool, string) {
	var o map[string]any
	if err := json.Unmarshal(payload, &o); err != nil {
		return false, "not json"
	}
	id, ok := o["id"].(string)
	if !ok || !strings.HasPrefix(id, "did:nuts:") || strings.ContainsAny(id, "#?/") {
		return false, "id"
	}
	hasCtx := false
	switch c := o["@context"].(type) {
	case string:
		hasCtx = c == "https://www.w3.org/ns/did/v1"
	case []any:
		for _, e := range c {
			if s, ok := e.(string); ok && s == "https://www.w3.org/ns/did/v1" {
				hasCtx = true
			}
		}
	}
	if !hasCtx {
		return false, "context"
	}
	seen := map[string]bool{}
	checkVM := func(e any) (bool, string) {
		m, ok := e.(map[string]any)
		if !ok {
			return false, "verification method is not an object"
		}
		vid, ok := m["id"].(string)
		if !ok || !strings.HasPrefix(vid, id+"#") || len(vid) == len(id)+1 {
			return false, "verification method id without DID prefix / fragment"
		}
		if seen[vid] {
			return false, "duplicate verification method id"
		}
		seen[vid] = true
		if s, _ := m["type"].(string); strings.TrimSpace(s) == "" {
			return false, "verification method without type"
		}
		if s, _ := m["controller"].(string); strings.TrimSpace(s) == "" {
			return false, "verification method without controller"
		}
		// every verification method, whatever its type: the key is named after its RFC 7638 thumbprint; the key is taken from
		// the representation the type carries (publicKeyJwk: EC / OKP / RSA; publicKeyBase58, publicKeyMultibase: Ed25519)
		j := publicKeyAsJWK(m)
		if j == nil {
			return false, "verification method without (unambiguous) key material"
		}
		t, ok := jwkThumbprint(j)
		if !ok || base64.RawURLEncoding.EncodeToString(t) != vid[len(id)+1:] {
			return false, "key id is not the key thumbprint"
		}
		return true, ""
	}
	if v, present := o["verificationMethod"]; present {
		l, ok := v.([]any)
		if !ok {
			return false, "verificationMethod is not a list"
		}
		for _, e := range l {
			if ok, why := checkVM(e); !ok {
				return false, why
			}
		}
	}
	for _, rel := range []string{"assertionMethod", "capabilityInvocation", "authentication", "keyAgreement", "capabilityDelegation"} {
		v, present := o[rel]
		if !present {
			continue
		}
		l, ok := v.([]any)
		if !ok {
			return false, rel + " is not a list"
		}
		for _, e := range l {
			switch x := e.(type) {
			case string:
				ref := x
				if strings.HasPrefix(ref, "#") {
					ref = id + ref
				}
				if !seen[ref] {
					return false, rel + " refers to an unknown verification method"
				}
			default:
				// embedded method: an entry of the document like any other
				sv := seen
				seen = map[string]bool{}
				for k := range sv {
					seen[k] = true
				}
				ok, why := checkVM(x)
				seen = sv
				if !ok {
					return false, "embedded " + rel + ": " + why
				}
			}
		}
	}
	if v, present := o["service"]; present {
		l, ok := v.([]any)
		if !ok {
			return false, "service is not a list"
		}
		ids, types := map[string]bool{}, map[string]bool{}
		for _, e := range l {
			m, ok := e.(map[string]any)
			if !ok {
				return false, "service is not an object"
			}
			sid, ok := m["id"].(string)
			if !ok || !strings.HasPrefix(sid, id+"#") || len(sid) == len(id)+1 {
				return false, "service id without DID prefix / fragment"
			}
			if ids[sid] {
				return false, "duplicate service id"
			}
			ids[sid] = true
			st, _ := m["type"].(string)
			if strings.TrimSpace(st) == "" {
				return false, "service without type"
			}
			if types[st] {
				return false, "more than one service per type"
			}
			types[st] = true
			if m["serviceEndpoint"] == nil {
				return false, "service without endpoint"
			}
		}
	}
	return true, ""
}
