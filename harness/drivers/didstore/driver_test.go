// Driver for DidStore.tla (C10, C09): replays TLC behaviours on the real didstore over real bbolt and on the real
// ambassador callback (with the real DAG signature verifier and key resolver stack in front of it).
package didstoredrv

import (
	"bufio"
	"context"
	"crypto/sha256"
	"encoding/hex"
	"encoding/json"
	"errors"
	"fmt"
	"io"
	"os"
	"path/filepath"
	"runtime/debug"
	"sort"
	"strings"
	"testing"
	"time"

	"github.com/nuts-foundation/go-did/did"
	"github.com/nuts-foundation/go-stoabs"
	"github.com/nuts-foundation/go-stoabs/bbolt"
	"github.com/nuts-foundation/nuts-node/core"
	"github.com/nuts-foundation/nuts-node/crypto/hash"
	"github.com/nuts-foundation/nuts-node/network"
	"github.com/nuts-foundation/nuts-node/network/dag"
	"github.com/nuts-foundation/nuts-node/storage"
	"github.com/nuts-foundation/nuts-node/vdr/didnuts"
	"github.com/nuts-foundation/nuts-node/vdr/didnuts/didstore"
	"github.com/nuts-foundation/nuts-node/vdr/resolver"
	"github.com/sirupsen/logrus"
)

// ---- input / output -------------------------------------------------------------------------------------

type obs struct {
	Nver       int      `json:"nver"`
	Conflicted bool     `json:"conflicted"`
	Deact      bool     `json:"deact"`
	CC         int      `json:"cc"`
	DC         int      `json:"dc"`
	Doc        adoc     `json:"doc"`
	Merged     bool     `json:"merged"`
	Src        []string `json:"src"`
}

type step struct {
	A   string `json:"a"`
	E   string `json:"e,omitempty"`
	T   string `json:"t,omitempty"`
	Df  string `json:"df,omitempty"`
	Res string `json:"res,omitempty"`
	Exp *obs   `json:"exp,omitempty"`
}

type probe struct {
	T    string `json:"t"`
	Df   string `json:"df"`
	Res  string `json:"res"`  // verdict of the model
	Auth bool   `json:"auth"` // RefAuthorised of the model
}

type script struct {
	ID     string  `json:"id"`
	Sc     string  `json:"sc,omitempty"`
	Steps  []step  `json:"steps"`
	Probes []probe `json:"probes,omitempty"`
}

type input struct {
	Mode    string   `json:"mode"` // "store" | "ambassador"
	Tables  tables   `json:"tables"`
	K       int      `json:"k"`
	DIDs    []string `json:"dids"`
	Scripts []script `json:"scripts"`
	// Mutate (binding demonstration only): "trace-cc" corrupts one logged field
	Mutate string `json:"mutate,omitempty"`
}

type violation struct {
	Kind   string `json:"kind"`
	Field  string `json:"field,omitempty"`
	Defect string `json:"defect,omitempty"`
	Tx     string `json:"tx,omitempty"`
	Detail string `json:"detail"`
	Run    int    `json:"run"`
	Step   int    `json:"step"`
}

type runInfo struct {
	Final string   `json:"final"` // fingerprint of the full projection after the last step
	Steps []string `json:"steps"` // fingerprint of the light projection after every step
}

type result struct {
	ID          string                 `json:"id"`
	Sc          string                 `json:"sc,omitempty"`
	Runs        []runInfo              `json:"runs,omitempty"`
	Projections map[string]*projection `json:"projections,omitempty"` // final fingerprint -> projection
	Light       map[string]*projection `json:"light,omitempty"`       // step fingerprint -> light projection
	Violations  []violation            `json:"violations"`
	Drift       []string               `json:"drift"`
	Error       string                 `json:"error,omitempty"`
	Traces      [][]map[string]any     `json:"traces"`
	Checks      int                    `json:"checks"`
	Receives    int                    `json:"receives,omitempty"`
	Verdicts    map[string]int         `json:"verdicts,omitempty"` // "<tx>/<defect class>/<real verdict>" -> count
}

// ---- real store -----------------------------------------------------------------------------------------

type node struct {
	db       stoabs.KVStore
	path     string
	store    didstore.Store
	amb      didnuts.Ambassador
	verifier dag.Verifier
}

type fakeNet struct{ network.Transactions }

func (fakeNet) DiscoverServices(did.DID) {}

var storeSeq int

func newNode(dir string) (*node, error) {
	storeSeq++
	p := filepath.Join(dir, fmt.Sprintf("store-%d.db", storeSeq))
	db, err := bbolt.CreateBBoltStore(p, stoabs.WithNoSync())
	if err != nil {
		return nil, err
	}
	st := didstore.New(&storage.StaticKVStoreProvider{Store: db})
	if err := st.(core.Configurable).Configure(core.ServerConfig{}); err != nil {
		return nil, err
	}
	n := &node{db: db, path: p, store: st}
	n.amb = didnuts.NewAmbassador(fakeNet{}, st, nil)
	n.verifier = dag.NewTransactionSignatureVerifier(dag.SourceTXKeyResolver{Resolver: didnuts.Resolver{Store: st}})
	return n, nil
}

func (n *node) close() {
	done := make(chan struct{})
	go func() {
		_ = n.db.Close(context.Background())
		close(done)
	}()
	select {
	case <-done:
	case <-time.After(3 * time.Second): // a transaction that died by panic still holds the lock: leave the store behind
	}
	_ = os.Remove(n.path)
}

// ---- projection of the observable state -----------------------------------------------------------------

type answer struct {
	Err      string   `json:"err,omitempty"`
	Doc      string   `json:"doc,omitempty"`
	Hash     string   `json:"hash,omitempty"`
	Deact    bool     `json:"deact,omitempty"`
	Created  string   `json:"created,omitempty"`
	Updated  string   `json:"updated,omitempty"`
	PrevHash string   `json:"prevHash,omitempty"`
	Src      []string `json:"src,omitempty"`
}

type projection struct {
	Answers    map[string]string `json:"answers"` // query label -> key into Table
	Table      map[string]answer `json:"table"`
	CC         uint              `json:"conflictedCount"`
	DC         uint              `json:"documentCount"`
	Conflicted map[string]string `json:"conflicted"` // DID name -> key into Table
	Iterate    map[string]string `json:"iterate"`
	History    map[string]string `json:"history"` // DID name -> digest of HistorySinceVersion(0)
	Nver       map[string]int    `json:"nver"`
}

func (p *projection) fingerprint() string {
	b, _ := json.Marshal(struct {
		A  map[string]string
		CC uint
		DC uint
		C  map[string]string
		I  map[string]string
		H  map[string]string
	}{p.Answers, p.CC, p.DC, p.Conflicted, p.Iterate, p.History})
	h := sha256.Sum256(b)
	return hex.EncodeToString(h[:12])
}

type namer struct {
	w       *world
	refName map[hash.SHA256Hash]string
	phName  map[hash.SHA256Hash]string
}

func (nm *namer) ref(h hash.SHA256Hash) string {
	if n, ok := nm.refName[h]; ok {
		return n
	}
	return "ref:" + h.String()[:12]
}

func (nm *namer) hash(h hash.SHA256Hash) string {
	if n, ok := nm.phName[h]; ok {
		return n
	}
	return "h:" + h.String()[:16]
}

func errClass(err error) string {
	switch {
	case err == nil:
		return ""
	case errors.Is(err, resolver.ErrNotFound):
		return "notfound"
	case errors.Is(err, resolver.ErrDeactivated):
		return "deactivated"
	case errors.Is(err, resolver.ErrNoActiveController):
		return "noactivecontroller"
	default:
		return "other:" + err.Error()
	}
}

func (nm *namer) answer(doc *did.Document, md *resolver.DocumentMetadata, err error) answer {
	if err != nil {
		return answer{Err: errClass(err)}
	}
	b, _ := json.Marshal(doc)
	a := answer{Doc: string(b), Hash: nm.hash(md.Hash), Deact: md.Deactivated, Created: md.Created.UTC().Format(time.RFC3339)}
	if md.Updated != nil {
		a.Updated = md.Updated.UTC().Format(time.RFC3339)
	}
	if md.PreviousHash != nil {
		a.PrevHash = nm.hash(*md.PreviousHash)
	}
	for _, s := range md.SourceTransactions {
		a.Src = append(a.Src, nm.ref(s))
	}
	sort.Strings(a.Src) // the order of the list is not an answer the property talks about
	return a
}

func (p *projection) put(label string, a answer) {
	b, _ := json.Marshal(a)
	h := sha256.Sum256(b)
	k := hex.EncodeToString(h[:8])
	p.Table[k] = a
	p.Answers[label] = k
}

type queryPlan struct {
	dids   []string                   // DID names
	refs   map[string]hash.SHA256Hash // name -> ref, queried as source transaction
	hashes map[string]hash.SHA256Hash // name -> hash, queried as document hash (closed under the answers when full)
	times  []int
	full   bool
}

func (n *node) project(nm *namer, q queryPlan) *projection {
	p := &projection{Answers: map[string]string{}, Table: map[string]answer{}, Conflicted: map[string]string{}, Iterate: map[string]string{},
		History: map[string]string{}, Nver: map[string]int{}}
	st := n.store
	for _, dn := range q.dids {
		id := did.MustParseDID(nm.w.did[dn])
		res := func(label string, md *resolver.ResolveMetadata) (*resolver.DocumentMetadata, error) {
			d, m, err := st.Resolve(id, md)
			p.put(dn+"|"+label, nm.answer(d, m, err))
			return m, err
		}
		_, _ = res("nil", nil)
		_, _ = res("empty", &resolver.ResolveMetadata{})
		if lm, err := res("allow", &resolver.ResolveMetadata{AllowDeactivated: true}); err == nil && !q.full {
			// keep the versions below the latest one at hand (table only, not an answer that is compared): a differing
			// previousHash can then be traced to the version that differs
			for i := 0; i < 8 && lm != nil && lm.PreviousHash != nil; i++ {
				h := *lm.PreviousHash
				d2, m2, e2 := st.Resolve(id, &resolver.ResolveMetadata{Hash: &h, AllowDeactivated: true})
				if e2 != nil {
					break
				}
				a := nm.answer(d2, m2, nil)
				b, _ := json.Marshal(a)
				hh := sha256.Sum256(b)
				p.Table["aux:"+hex.EncodeToString(hh[:8])] = a
				if m2.PreviousHash != nil && m2.PreviousHash.Equals(h) {
					break
				}
				lm = m2
			}
		}
		for _, tm := range q.times {
			t := sigTime(tm)
			_, _ = res(fmt.Sprintf("time:%d", tm), &resolver.ResolveMetadata{ResolveTime: &t})
			_, _ = res(fmt.Sprintf("time+allow:%d", tm), &resolver.ResolveMetadata{ResolveTime: &t, AllowDeactivated: true})
		}
		for _, rn := range sortedKeys(q.refs) {
			r := q.refs[rn]
			_, _ = res("src:"+rn, &resolver.ResolveMetadata{SourceTransaction: &r})
			_, _ = res("src+allow:"+rn, &resolver.ResolveMetadata{SourceTransaction: &r, AllowDeactivated: true})
		}
		todo := map[string]hash.SHA256Hash{}
		for k, v := range q.hashes {
			todo[k] = v
		}
		done := map[hash.SHA256Hash]bool{}
		for len(todo) > 0 {
			next := map[string]hash.SHA256Hash{}
			for _, hn := range sortedKeys(todo) {
				h := todo[hn]
				if done[h] {
					continue
				}
				done[h] = true
				_, _ = res("hash:"+hn, &resolver.ResolveMetadata{Hash: &h})
				m, err := res("hash+allow:"+hn, &resolver.ResolveMetadata{Hash: &h, AllowDeactivated: true})
				if err == nil && q.full && m.PreviousHash != nil && !done[*m.PreviousHash] {
					next[nm.hash(*m.PreviousHash)] = *m.PreviousHash
				}
			}
			todo = next
		}
		if q.full {
			// hashes of merged versions are only known from the answers: follow latest -> previous
			if _, m, err := st.Resolve(id, &resolver.ResolveMetadata{AllowDeactivated: true}); err == nil {
				for i := 0; i < 12 && m != nil; i++ {
					h := m.Hash
					if done[h] {
						if m.PreviousHash == nil || done[*m.PreviousHash] {
							break
						}
						h = *m.PreviousHash
					}
					done[h] = true
					_, _ = res("hash:"+nm.hash(h), &resolver.ResolveMetadata{Hash: &h})
					var err error
					m, err = res("hash+allow:"+nm.hash(h), &resolver.ResolveMetadata{Hash: &h, AllowDeactivated: true})
					if err != nil {
						break
					}
				}
			}
		}
		hist, err := st.HistorySinceVersion(id, 0)
		if err == nil {
			hh := sha256.New()
			for _, h := range hist {
				hh.Write(h.Raw)
				hh.Write([]byte(h.Updated.UTC().Format(time.RFC3339) + "|" + h.Created.UTC().Format(time.RFC3339) + fmt.Sprint(h.Version)))
			}
			p.History[dn] = hex.EncodeToString(hh.Sum(nil)[:8])
			p.Nver[dn] = len(hist)
		} else {
			p.History[dn] = "err:" + err.Error()
		}
	}
	p.CC, _ = st.ConflictedCount()
	p.DC, _ = st.DocumentCount()
	_ = st.Conflicted(func(d did.Document, md resolver.DocumentMetadata) error {
		b, _ := json.Marshal(nm.answer(&d, &md, nil))
		h := sha256.Sum256(b)
		k := hex.EncodeToString(h[:8])
		p.Table[k] = nm.answer(&d, &md, nil)
		p.Conflicted[nm.didLabel(d.ID.String())] = k
		return nil
	})
	_ = st.Iterate(func(d did.Document, md resolver.DocumentMetadata) error {
		b, _ := json.Marshal(nm.answer(&d, &md, nil))
		h := sha256.Sum256(b)
		k := hex.EncodeToString(h[:8])
		p.Table[k] = nm.answer(&d, &md, nil)
		p.Iterate[nm.didLabel(d.ID.String())] = k
		return nil
	})
	return p
}

func (nm *namer) didLabel(s string) string {
	if n, ok := nm.w.didName[s]; ok {
		return n
	}
	return s
}

func sortedKeys[V any](m map[string]V) []string {
	out := make([]string, 0, len(m))
	for k := range m {
		out = append(out, k)
	}
	sort.Strings(out)
	return out
}

// ---- reference definitions over the tables ---------------------------------------------------------------

func isDeact(a adoc) bool { return len(a.Ctrl) == 0 && len(a.CapInv) == 0 }

// heads: arrived events of the DID that no other arrived event of the DID refers to
func (w *world) heads(d string, arrived map[string]bool) []string {
	referred := map[string]bool{}
	for e := range arrived {
		if w.tb.T[e].Did == d {
			for _, p := range w.tb.T[e].Prevs {
				referred[p] = true
			}
		}
	}
	var out []string
	for e := range arrived {
		if w.tb.T[e].Did == d && !referred[e] {
			out = append(out, e)
		}
	}
	sort.Strings(out)
	return out
}

func (w *world) sortedEvents(d string, arrived map[string]bool) []string {
	var l []string
	for e := range arrived {
		if w.tb.T[e].Did == d {
			l = append(l, e)
		}
	}
	sort.Slice(l, func(i, j int) bool {
		a, b := w.tb.T[l[i]], w.tb.T[l[j]]
		if a.Lc != b.Lc {
			return a.Lc < b.Lc
		}
		if a.Sig != b.Sig {
			return a.Sig < b.Sig
		}
		return a.RR < b.RR
	})
	return l
}

func union(w *world, evs []string, f func(adoc) []string) []string {
	m := map[string]bool{}
	for _, e := range evs {
		for _, x := range f(w.tb.Docs[w.tb.T[e].Doc]) {
			m[x] = true
		}
	}
	return sortedKeys(m)
}

// ---- store mode (C10) -----------------------------------------------------------------------------------

type storeRunner struct {
	w     *world
	in    input
	dir   string
	nm    *namer
	maxT  int
	times []int
}

func (sr *storeRunner) plan(sc scen, full bool) queryPlan {
	q := queryPlan{dids: sr.in.DIDs, refs: map[string]hash.SHA256Hash{}, hashes: map[string]hash.SHA256Hash{}, full: full}
	if full {
		q.times = sr.times
		for _, e := range sc.Ev {
			a := sr.w.tb.T[e]
			q.refs[e] = storeRef(e, a.RR)
			cd, _ := sr.w.concrete(a.Doc)
			q.hashes[a.Doc] = cd.ph
		}
	}
	return q
}

func (sr *storeRunner) run(sc script) result {
	res := result{ID: sc.ID, Sc: sc.Sc, Violations: []violation{}, Drift: []string{}, Projections: map[string]*projection{}, Light: map[string]*projection{}}
	scn, ok := sr.w.tb.Scen[sc.Sc]
	if !ok {
		res.Error = "unknown scenario " + sc.Sc
		return res
	}
	k := sr.in.K
	if k < 1 {
		k = 1
	}
	for run := 0; run < k; run++ {
		ri, trace, err := sr.once(sc, scn, run, &res)
		if err != nil {
			res.Error = err.Error()
			return res
		}
		res.Runs = append(res.Runs, ri)
		if run == 0 {
			res.Traces = [][]map[string]any{trace}
		}
	}
	return res
}

func (sr *storeRunner) once(sc script, scn scen, run int, res *result) (runInfo, []map[string]any, error) {
	w := sr.w
	n, err := newNode(sr.dir)
	if err != nil {
		return runInfo{}, nil, err
	}
	defer n.close()
	ri := runInfo{}
	trace := []map[string]any{{"ev": "scenario", "sc": sc.Sc}}
	arrived := map[string]bool{}
	deactSeen := map[string]bool{}
	viol := func(stepNo int, kind, field, detail string) {
		res.Violations = append(res.Violations, violation{Kind: kind, Field: field, Detail: detail, Run: run, Step: stepNo})
	}
	for i, s := range sc.Steps {
		a, ok := w.tb.T[s.E]
		if !ok {
			return ri, nil, fmt.Errorf("unknown event %s", s.E)
		}
		cd, err := w.concrete(a.Doc)
		if err != nil {
			return ri, nil, err
		}
		var prevs []hash.SHA256Hash
		for _, p := range a.Prevs {
			prevs = append(prevs, storeRef(p, w.tb.T[p].RR))
		}
		tx := didstore.Transaction{Clock: uint32(a.Lc), PayloadHash: cd.ph, Previous: prevs, Ref: storeRef(s.E, a.RR), SigningTime: sigTime(a.Sig)}
		if err := n.store.Add(cd.doc, tx); err != nil {
			return ri, nil, fmt.Errorf("store.Add(%s) failed: %w", s.E, err)
		}
		arrived[s.E] = true
		// --- the property statement on the real observables, after every Add
		lp := n.project(sr.nm, sr.plan(scn, false))
		key := lp.fingerprint()
		ri.Steps = append(ri.Steps, key)
		if _, ok := res.Light[key]; !ok {
			res.Light[key] = lp
		}
		nConf, nDocs := 0, 0
		confSet := map[string]bool{}
		for _, dn := range sr.in.DIDs {
			la := lp.Table[lp.Answers[dn+"|allow"]]
			ln := lp.Table[lp.Answers[dn+"|nil"]]
			evs := w.sortedEvents(dn, arrived)
			res.Checks++
			if len(evs) == 0 {
				if la.Err != "notfound" {
					viol(i, "phantom-document", "", fmt.Sprintf("DID %s resolves although no transaction for it arrived: %+v", dn, la))
				}
				continue
			}
			if la.Err != "" {
				viol(i, "unresolvable", "", fmt.Sprintf("DID %s does not resolve (allowDeactivated) after %v: %s", dn, evs, la.Err))
				continue
			}
			nDocs++
			hd := w.heads(dn, arrived)
			// the statement speaks about parallel updates and joins of histories that are there: while a referenced
			// transaction of the DID is still missing only "same answer for every order" is demanded (pairwise oracle)
			closed := true
			for _, e := range evs {
				for _, p := range w.tb.T[e].Prevs {
					if w.tb.T[p].Did == dn && !arrived[p] {
						closed = false
					}
				}
			}
			if !closed {
				hd = la.Src
			}
			if strings.Join(la.Src, ",") != strings.Join(hd, ",") {
				viol(i, "heads", "sources", fmt.Sprintf("DID %s: source transactions %v, open branches %v", dn, la.Src, hd))
			}
			if len(la.Src) > 1 {
				nConf++
				confSet[dn] = true
			}
			var real did.Document
			_ = json.Unmarshal([]byte(la.Doc), &real)
			ra := w.abstract(&real)
			if len(hd) == 1 {
				hc, _ := w.concrete(w.tb.T[hd[0]].Doc)
				want, _ := json.Marshal(hc.doc)
				if la.Doc != string(want) || la.Hash != sr.nm.hash(hc.ph) {
					viol(i, "heads", "document", fmt.Sprintf("DID %s: single open branch %s but the latest version is not its document (hash %s)", dn, hd[0], la.Hash))
				}
			} else {
				uk := union(w, hd, func(a adoc) []string { return a.Keys })
				uc := union(w, hd, func(a adoc) []string { return a.CapInv })
				ut := union(w, hd, func(a adoc) []string { return a.Ctrl })
				us := union(w, hd, func(a adoc) []string {
					var o []string
					for _, s := range a.Svcs {
						o = append(o, s.ID)
					}
					return o
				})
				var rs []string
				for _, s := range ra.Svcs {
					rs = append(rs, s.ID)
				}
				j := func(x []string) string { return strings.Join(sortedCopy(x), ",") }
				if j(ra.Keys) != j(uk) || j(ra.CapInv) != j(uc) || j(ra.Ctrl) != j(ut) || j(rs) != j(us) {
					viol(i, "merge-content", "", fmt.Sprintf("DID %s: merged document %+v is not the union of the branches %v", dn, ra, hd))
				}
			}
			anyDeact := false
			for _, e := range evs {
				anyDeact = anyDeact || isDeact(w.tb.Docs[w.tb.T[e].Doc])
			}
			if la.Deact != anyDeact {
				viol(i, "deactivated-flag", "", fmt.Sprintf("DID %s: deactivated=%v but the arrived transactions %v say %v", dn, la.Deact, evs, anyDeact))
			}
			if (ln.Err == "deactivated") != la.Deact {
				viol(i, "deactivated-flag", "resolve", fmt.Sprintf("DID %s: latest version deactivated=%v, Resolve(nil) answers %q", dn, la.Deact, ln.Err))
			}
			if deactSeen[dn] && ln.Err != "deactivated" {
				viol(i, "reactivated", "", fmt.Sprintf("DID %s resolved as deactivated before and resolves as %q after %s arrived", dn, ln.Err, s.E))
			}
			if ln.Err == "deactivated" {
				deactSeen[dn] = true
			}
		}
		res.Checks += 3
		if int(lp.CC) != nConf {
			viol(i, "counter", "conflictedCount", fmt.Sprintf("ConflictedCount()=%d but %d DIDs are conflicted (arrival order %v)", lp.CC, nConf, order(sc.Steps[:i+1])))
		}
		if int(lp.DC) != nDocs {
			viol(i, "counter", "documentCount", fmt.Sprintf("DocumentCount()=%d but %d DIDs have a document", lp.DC, nDocs))
		}
		if strings.Join(sortedKeys(lp.Conflicted), ",") != strings.Join(sortedKeys(confSet), ",") {
			viol(i, "conflicted-iterator", "", fmt.Sprintf("Conflicted() lists %v, conflicted are %v", sortedKeys(lp.Conflicted), sortedKeys(confSet)))
		}
		// --- conformance with the prediction of the model (drift, never a verdict) + trace event
		dn := a.Did
		la := lp.Table[lp.Answers[dn+"|allow"]]
		var real did.Document
		_ = json.Unmarshal([]byte(la.Doc), &real)
		ra := w.abstract(&real)
		cc := int(lp.CC)
		if sr.in.Mutate == "trace-cc" && i == len(sc.Steps)-1 {
			cc += 1
		}
		ev := map[string]any{"ev": "add", "e": s.E, "nver": lp.Nver[dn], "conflicted": lp.Conflicted[dn] != "", "deact": la.Deact,
			"cc": cc, "dc": int(lp.DC), "doc": ra, "src": la.Src, "merged": len(la.Src) > 1}
		trace = append(trace, ev)
		if run == 0 && s.Exp != nil {
			x := s.Exp
			if x.Nver != lp.Nver[dn] || x.Conflicted != (lp.Conflicted[dn] != "") || x.Deact != la.Deact || x.CC != int(lp.CC) || x.DC != int(lp.DC) ||
				!sameContent(ra, x.Doc, len(la.Src)) || strings.Join(sortedCopy(x.Src), ",") != strings.Join(la.Src, ",") {
				res.Drift = append(res.Drift, fmt.Sprintf("step %d Add(%s): model predicts %+v, store shows nver=%d conflicted=%v deact=%v cc=%d dc=%d doc=%+v src=%v",
					i, s.E, *x, lp.Nver[dn], lp.Conflicted[dn] != "", la.Deact, lp.CC, lp.DC, ra, la.Src))
			}
		}
	}
	// --- final: the full resolvable history
	fp := n.project(sr.nm, sr.plan(scn, true))
	ri.Final = fp.fingerprint()
	if _, ok := res.Projections[ri.Final]; !ok {
		res.Projections[ri.Final] = fp
	}
	// resolving at a time at/after a deactivation in force must not yield an active document
	for _, dn := range sr.in.DIDs {
		evs := w.sortedEvents(dn, arrived)
		if len(evs) == 0 {
			continue
		}
		created := w.tb.T[evs[0]].Sig
		for _, tm := range sr.times {
			inForce := -1
			for j, e := range evs {
				if w.tb.T[e].Sig <= tm && created <= tm {
					inForce = j
				}
			}
			if inForce < 0 {
				continue
			}
			deact := false
			for j := 0; j <= inForce; j++ {
				deact = deact || isDeact(w.tb.Docs[w.tb.T[evs[j]].Doc])
			}
			res.Checks++
			a := fp.Table[fp.Answers[fmt.Sprintf("%s|time:%d", dn, tm)]]
			if deact && a.Err == "" {
				viol(len(sc.Steps)-1, "deactivated-resolves-active", "time", fmt.Sprintf("DID %s: the version in force at t=%d (%s) is deactivated, Resolve(ResolveTime=t) returns the active document %s",
					dn, tm, evs[inForce], a.Hash))
				break
			}
		}
	}
	return ri, trace, nil
}

func order(steps []step) []string {
	var o []string
	for _, s := range steps {
		o = append(o, s.E+s.T)
	}
	return o
}

// ---- ambassador mode (C09) ------------------------------------------------------------------------------

type ambRunner struct {
	w        *world
	in       input
	dir      string
	f        *forge
	nm       *namer
	maxT     int
	sigTimes []int // signing times of the transactions of the DIDs in play
	hist     []*hev // the transactions accepted so far (what they published): the reference history
}

// ---- reference history: the versions of a DID as DEFINED by the accepted transactions (RefDown / RefHeads / RefDeact of
// DidStore.tla). Nothing here reads the store: which versions exist, in which order, what they contain and whether they are
// deactivated follows from the published documents, the prevs and the lamport clocks of the accepted transactions alone.

type hev struct {
	did   string
	lc    uint32
	sig   time.Time
	ref   hash.SHA256Hash
	prevs []hash.SHA256Hash
	doc   *did.Document
}

// refBefore: the causal order as far as the lamport clock tells it, then signing time, then ref (RFC 006)
func refBefore(a, b *hev) bool {
	if a.lc != b.lc {
		return a.lc < b.lc
	}
	if !a.sig.Equal(b.sig) {
		return a.sig.Before(b.sig)
	}
	return a.ref.Compare(b.ref) < 0
}

func (ar *ambRunner) record(c *ctx) {
	var d did.Document
	if err := json.Unmarshal(c.payload, &d); err != nil {
		return
	}
	ar.hist = append(ar.hist, &hev{did: d.ID.String(), lc: c.tx.Clock(), sig: c.tx.SigningTime(), ref: c.tx.Ref(), prevs: c.tx.Previous(), doc: &d})
}

func (ar *ambRunner) eventsOf(didStr string) []*hev {
	var out []*hev
	for _, h := range ar.hist {
		if h.did == didStr {
			out = append(out, h)
		}
	}
	return out
}

func refLast(evs []*hev) *hev {
	var m *hev
	for _, e := range evs {
		if m == nil || refBefore(m, e) {
			m = e
		}
	}
	return m
}

// refVersion: the version "at e" = the transactions of the DID up to e; open branches = those no other one of them refers to
type refVersion struct {
	at    *hev
	heads []*hev
	deact bool // a deactivation is among the transactions the version consists of (also on a branch that is merged in)
}

func (ar *ambRunner) refVersionAt(e *hev) refVersion {
	var down []*hev
	for _, h := range ar.eventsOf(e.did) {
		if h == e || refBefore(h, e) {
			down = append(down, h)
		}
	}
	v := refVersion{at: e}
	for _, h := range down {
		if len(h.doc.Controller) == 0 && len(h.doc.CapabilityInvocation) == 0 {
			v.deact = true
		}
		open := true
		for _, f := range down {
			if intersects(f.prevs, []hash.SHA256Hash{h.ref}) {
				open = false
				break
			}
		}
		if open {
			v.heads = append(v.heads, h)
		}
	}
	return v
}

func (v refVersion) hasSource(P []hash.SHA256Hash) bool {
	for _, h := range v.heads {
		if intersects([]hash.SHA256Hash{h.ref}, P) {
			return true
		}
	}
	return false
}

func (v refVersion) lists(thumb string) bool {
	for _, h := range v.heads {
		for _, t := range capInvThumbs(h.doc) {
			if t == thumb {
				return true
			}
		}
	}
	return false
}

func (v refVersion) controllers() map[string]bool {
	out := map[string]bool{}
	for _, h := range v.heads {
		for _, c := range h.doc.Controller {
			out[c.String()] = true
		}
	}
	return out
}

// refAuthorised: the property statement evaluated on the reference history (state BEFORE the transaction): a creation must carry
// the founding key; an update must be signed by a key listed for capabilityInvocation by a controller of a version it succeeds
// (a version that has one of its prevs as source transaction; the latest one if there is none). A deactivated DID is nobody's
// controller, not its own either; of another controller the versions the transaction refers to and the one in force at the
// signing time count.
func (ar *ambRunner) refAuthorised(c *ctx) (bool, string) {
	signer := ar.w.thumbOf[c.signer]
	var o map[string]any
	if err := json.Unmarshal(c.payload, &o); err != nil {
		return false, "payload is not JSON"
	}
	ids, _ := o["id"].(string)
	if _, err := did.ParseDID(ids); err != nil {
		return false, "no DID in payload"
	}
	if c.tx.SigningKey() != nil {
		t, _ := jwkThumbprint(ar.w.keys[c.signer].JWK())
		if "did:nuts:"+base58(t) == ids {
			return true, "creation by the founding key"
		}
		return false, "embedded key is not the founding key of " + ids
	}
	P := c.tx.Previous()
	H := ar.eventsOf(ids)
	if len(H) == 0 {
		return false, "no version to succeed"
	}
	var succ []refVersion
	for _, e := range H {
		if v := ar.refVersionAt(e); v.hasSource(P) {
			succ = append(succ, v)
		}
	}
	if len(succ) == 0 {
		succ = []refVersion{ar.refVersionAt(refLast(H))}
	}
	why := "signing key is not a capabilityInvocation key of any controller of the succeeded version"
	for _, v := range succ {
		ctrl := v.controllers()
		if len(ctrl) == 0 || ctrl[ids] {
			if v.lists(signer) {
				if !v.deact {
					return true, "own capabilityInvocation key of the succeeded version"
				}
				why = "the succeeded version is deactivated (a deactivation is among the transactions it consists of): its own keys authorise nothing"
			}
		}
		for cs := range ctrl {
			if cs == ids {
				continue
			}
			Hc := ar.eventsOf(cs)
			var known []refVersion
			var old []*hev
			for _, w := range Hc {
				if wv := ar.refVersionAt(w); wv.hasSource(P) {
					known = append(known, wv)
				}
				if !w.sig.After(c.tx.SigningTime()) {
					old = append(old, w)
				}
			}
			if len(old) > 0 {
				known = append(known, ar.refVersionAt(refLast(old)))
			}
			for _, wv := range known {
				if wv.lists(signer) {
					if !wv.deact {
						return true, "capabilityInvocation key of controller " + ar.nm.didLabel(cs)
					}
					why = "controller " + ar.nm.didLabel(cs) + " is deactivated in the version referred to / in force: its keys authorise nothing"
				}
			}
		}
	}
	return false, why
}

type snap struct {
	fp   string
	auth map[string]string // DID name -> sorted thumbprints of the keys that may change it
	proj *projection
}

func capInvThumbs(d *did.Document) []string {
	var out []string
	for _, r := range d.CapabilityInvocation {
		if r.VerificationMethod == nil || r.PublicKeyJwk == nil {
			continue
		}
		if t, ok := jwkThumbprint(r.PublicKeyJwk); ok {
			out = append(out, hex.EncodeToString(t))
		}
	}
	return out
}

func selfControlled(d *did.Document) bool {
	if len(d.Controller) == 0 {
		return true
	}
	for _, c := range d.Controller {
		if c.Equals(d.ID) {
			return true
		}
	}
	return false
}

// authKeys: reference reading of "the keys authorised for the DID" over the real documents: capabilityInvocation keys
// of the controllers (itself and/or the listed ones, if resolvable and active) of the latest version
func (ar *ambRunner) authKeys(n *node, dn string) string {
	id := did.MustParseDID(ar.w.did[dn])
	d, _, err := n.store.Resolve(id, &resolver.ResolveMetadata{AllowDeactivated: true})
	if err != nil {
		return ""
	}
	set := map[string]bool{}
	if selfControlled(d) {
		for _, t := range capInvThumbs(d) {
			set[t] = true
		}
	}
	for _, c := range d.Controller {
		if c.Equals(d.ID) {
			continue
		}
		cd, _, err := n.store.Resolve(c, nil)
		if err != nil {
			continue
		}
		for _, t := range capInvThumbs(cd) {
			set[t] = true
		}
	}
	return strings.Join(sortedKeys(set), ",")
}

func (ar *ambRunner) snapshot(n *node, refs map[string]hash.SHA256Hash, hashes map[string]hash.SHA256Hash, tms []int) snap {
	q := queryPlan{dids: ar.in.DIDs, refs: refs, hashes: hashes, times: tms}
	p := n.project(ar.nm, q)
	s := snap{fp: p.fingerprint(), auth: map[string]string{}, proj: p}
	for _, dn := range ar.in.DIDs {
		s.auth[dn] = ar.authKeys(n, dn)
	}
	return s
}

func intersects(a []hash.SHA256Hash, b []hash.SHA256Hash) bool {
	for _, x := range a {
		for _, y := range b {
			if x.Equals(y) {
				return true
			}
		}
	}
	return false
}

// receive runs receiveNow under a watchdog: code that panicked inside a store transaction may leave the store locked
func receive(n *node, c *ctx) (verdict string, stage string, detail string) {
	type out struct{ v, s, d string }
	ch := make(chan out, 1)
	go func() {
		v, s, d := receiveNow(n, c)
		ch <- out{v, s, d}
	}()
	select {
	case o := <-ch:
		return o.v, o.s, o.d
	case <-time.After(30 * time.Second):
		panic(fmt.Sprintf("receive(%s/%s) blocked for 30 s", c.name, c.df))
	}
}

// receiveNow: what a node does with a transaction + payload from the network: DAG signature verifier, then the vdr subscriber
func receiveNow(n *node, c *ctx) (verdict string, stage string, detail string) {
	defer func() {
		if r := recover(); r != nil {
			verdict, detail = "panic", fmt.Sprintf("%v @ %s", r, panicSite(string(debug.Stack())))
		}
	}()
	stage = "signature"
	if err := n.verifier(nil, c.tx); err != nil {
		return "rejected", stage, err.Error()
	}
	stage = "ambassador"
	if err := didnuts.VerifCallback(n.amb, c.tx, c.payload); err != nil {
		return "rejected", stage, err.Error()
	}
	return "accepted", stage, ""
}

func panicSite(stack string) string {
	lines := strings.Split(stack, "\n")
	for i, l := range lines {
		if strings.HasPrefix(l, "panic(") {
			for j := i + 2; j < len(lines)-1; j += 2 {
				if strings.Contains(lines[j], "nuts-node/") || strings.Contains(lines[j], "go-did") {
					fn := lines[j]
					if k := strings.LastIndex(fn, "("); k > 0 {
						fn = fn[:k]
					}
					if k := strings.LastIndex(fn, "/"); k >= 0 {
						fn = fn[k+1:]
					}
					return fn
				}
			}
		}
	}
	return "?"
}

func (ar *ambRunner) run(sc script) (res result) {
	res = result{ID: sc.ID, Violations: []violation{}, Drift: []string{}, Verdicts: map[string]int{}}
	defer func() {
		if r := recover(); r != nil {
			res.Error = fmt.Sprintf("driver panic: %v\n%s", r, debug.Stack())
		}
	}()
	w := ar.w
	var n *node
	var trace []map[string]any
	var accepted []hash.SHA256Hash
	refs := map[string]hash.SHA256Hash{}
	var cur snap
	viol := func(v violation) { res.Violations = append(res.Violations, v) }

	// one receive with every oracle of C09
	do := func(stepNo int, tname, df, modelRes string, modelAuth *bool, exp *obs) (string, error) {
		c, err := ar.f.get(tname, df)
		if err != nil {
			return "", err
		}
		// cheap whole-store snapshot (every DID: latest answers, digest of the complete published history, counters,
		// authorised keys) + the candidate's own footprint (resolvable by its ref / its payload hash / its signing time)
		label := tname + "/" + df
		ar.nm.refName[c.tx.Ref()] = label
		cdids := []string{c.a.Did}
		if c.a.KidDid != c.a.Did {
			cdids = append(cdids, c.a.KidDid)
		}
		candView := func() *projection {
			return n.project(ar.nm, queryPlan{dids: cdids, refs: map[string]hash.SHA256Hash{label: c.tx.Ref()},
				hashes: map[string]hash.SHA256Hash{label: c.tx.PayloadHash()}, times: []int{c.a.Sig}})
		}
		if cur.proj == nil {
			cur = ar.snapshot(n, nil, nil, []int{ar.maxT})
		}
		before := cur
		cvBefore := candView()
		// "ok@<kind>": the well-formed document with a verification method of another kind (no prediction by the model)
		variant := strings.HasPrefix(df, "ok@")
		auth, why := true, "not evaluated for defective documents"
		if df == "none" || variant {
			auth, why = ar.refAuthorised(c)
		}
		wf, wfWhy := refWellFormed(c.payload)
		if wf != (df == "none" || variant) {
			return "", fmt.Errorf("self-test: defect class %s on %s is classified well-formed=%v (%s) by the reference", df, tname, wf, wfWhy)
		}
		verdict, stage, detail := receive(n, c)
		res.Receives++
		res.Verdicts[tname+"/"+df+"/"+verdict]++
		after := ar.snapshot(n, nil, nil, []int{ar.maxT})
		cvAfter := candView()
		cur = after
		res.Checks += 3
		switch verdict {
		case "accepted":
			if !wf {
				viol(violation{Kind: "malformed-accepted", Defect: df, Tx: tname, Step: stepNo,
					Detail: fmt.Sprintf("document with defect %q (%s) carried by %s became resolvable", df, wfWhy, tname)})
			}
			if !auth {
				viol(violation{Kind: "unauthorised-accepted", Tx: tname, Defect: df, Step: stepNo,
					Detail: fmt.Sprintf("%s accepted although: %s (history %v)", tname, why, order(sc.Steps))})
			}
			accepted = append(accepted, c.tx.Ref())
			refs[label] = c.tx.Ref()
			ar.record(c)
		case "panic":
			viol(violation{Kind: "panic", Defect: df, Tx: tname, Step: stepNo, Detail: detail})
			fallthrough
		default:
			if before.fp != after.fp || cvBefore.fingerprint() != cvAfter.fingerprint() {
				viol(violation{Kind: "rejected-changed-state", Field: "resolvable", Tx: tname, Defect: df, Step: stepNo,
					Detail: fmt.Sprintf("%s (%s) was %s at stage %s (%s) but the resolvable state changed: %s %s", tname, df, verdict, stage, detail,
						diffProj(before.proj, after.proj), diffProj(cvBefore, cvAfter))})
			}
			for _, dn := range ar.in.DIDs {
				if before.auth[dn] != after.auth[dn] {
					viol(violation{Kind: "rejected-changed-state", Field: "authorised-keys", Tx: tname, Defect: df, Step: stepNo,
						Detail: fmt.Sprintf("%s (%s) was %s but the keys authorised for %s changed from [%s] to [%s]", tname, df, verdict, dn, before.auth[dn], after.auth[dn])})
				}
			}
		}
		// conformance with the model (drift only)
		if modelRes != "" && modelRes != verdict {
			res.Drift = append(res.Drift, fmt.Sprintf("%s/%s after %v: model %s, code %s at %s (%s)", tname, df, order(sc.Steps), modelRes, verdict, stage, detail))
		}
		if modelAuth != nil && *modelAuth != auth && df == "none" {
			res.Drift = append(res.Drift, fmt.Sprintf("%s after %v: RefAuthorised model=%v real documents=%v (%s)", tname, order(sc.Steps), *modelAuth, auth, why))
		}
		ev := map[string]any{"ev": "recv", "t": tname, "df": df, "res": verdict}
		if verdict == "accepted" {
			dn := c.a.Did
			la := after.proj.Table[after.proj.Answers[dn+"|allow"]]
			var real did.Document
			_ = json.Unmarshal([]byte(la.Doc), &real)
			ra := w.abstract(&real)
			var src []string
			for _, s := range la.Src {
				src = append(src, strings.TrimSuffix(s, "/none"))
			}
			ev["nver"], ev["conflicted"], ev["deact"] = after.proj.Nver[dn], after.proj.Conflicted[dn] != "", la.Deact
			ev["cc"], ev["dc"], ev["doc"], ev["src"], ev["merged"] = int(after.proj.CC), int(after.proj.DC), ra, src, len(la.Src) > 1
			if exp != nil && df == "none" {
				if exp.Nver != after.proj.Nver[dn] || exp.Conflicted != (after.proj.Conflicted[dn] != "") || exp.Deact != la.Deact ||
					exp.CC != int(after.proj.CC) || exp.DC != int(after.proj.DC) || !sameContent(ra, exp.Doc, len(la.Src)) ||
					strings.Join(sortedCopy(exp.Src), ",") != strings.Join(sortedCopy(src), ",") {
					res.Drift = append(res.Drift, fmt.Sprintf("%s: model predicts %+v, store shows nver=%d conflicted=%v deact=%v cc=%d dc=%d doc=%+v src=%v", tname, *exp,
						after.proj.Nver[dn], after.proj.Conflicted[dn] != "", la.Deact, after.proj.CC, after.proj.DC, ra, src))
				}
			}
		}
		if !variant {
			trace = append(trace, ev)
		}
		return verdict, nil
	}

	replay := func(check bool) error {
		if n != nil {
			n.close()
		}
		var err error
		n, err = newNode(ar.dir)
		if err != nil {
			return err
		}
		accepted = nil
		ar.hist = nil
		cur = snap{}
		for k := range refs {
			delete(refs, k)
		}
		if trace != nil {
			res.Traces = append(res.Traces, trace)
		}
		trace = []map[string]any{}
		for i, s := range sc.Steps {
			if check {
				v, err := do(i, s.T, s.Df, s.Res, nil, s.Exp)
				if err != nil {
					return err
				}
				if v != "accepted" {
					return fmt.Errorf("path step %d (%s) was %s by the code: the witness path of the model cannot be replayed", i, s.T, v)
				}
			} else {
				c, err := ar.f.get(s.T, s.Df)
				if err != nil {
					return err
				}
				v, _, d := receive(n, c)
				if v != "accepted" {
					return fmt.Errorf("path step %d (%s) was %s (%s) on re-execution", i, s.T, v, d)
				}
				accepted = append(accepted, c.tx.Ref())
				refs[s.T+"/"+s.Df] = c.tx.Ref()
				ar.record(c)
				trace = append(trace, map[string]any{"ev": "recv", "t": s.T, "df": s.Df, "res": "accepted", "quiet": true})
			}
		}
		return nil
	}
	defer func() {
		if n != nil {
			n.close()
		}
	}()
	if err := replay(true); err != nil {
		res.Error = err.Error()
		return res
	}
	for j, p := range sc.Probes {
		auth := p.Auth
		v, err := do(len(sc.Steps)+j, p.T, p.Df, p.Res, &auth, nil)
		if err != nil {
			res.Error = err.Error()
			return res
		}
		if (v == "accepted" || v == "panic") && j < len(sc.Probes)-1 {
			// the probe changed the state (or died somewhere inside): back to the state of the path on a fresh store
			if err := replay(false); err != nil {
				res.Error = err.Error()
				return res
			}
		}
	}
	res.Traces = append(res.Traces, trace)
	return res
}

func diffProj(a, b *projection) string {
	var out []string
	for _, k := range sortedKeys(a.Answers) {
		if a.Answers[k] != b.Answers[k] {
			out = append(out, k)
		}
	}
	if a.CC != b.CC || a.DC != b.DC {
		out = append(out, fmt.Sprintf("counts %d/%d -> %d/%d", a.CC, a.DC, b.CC, b.DC))
	}
	for _, k := range sortedKeys(b.History) {
		if a.History[k] != b.History[k] {
			out = append(out, "history of "+k)
		}
	}
	if len(out) > 6 {
		out = out[:6]
	}
	return strings.Join(out, "; ")
}

// ---- entry point ----------------------------------------------------------------------------------------

func TestDriver(t *testing.T) {
	inPath, outPath := os.Getenv("VERIF_IN"), os.Getenv("VERIF_OUT")
	if inPath == "" {
		t.Skip("VERIF_IN not set")
	}
	logrus.SetLevel(logrus.PanicLevel)
	logrus.SetOutput(io.Discard)
	raw, err := os.ReadFile(inPath)
	if err != nil {
		t.Fatal(err)
	}
	var in input
	if err := json.Unmarshal(raw, &in); err != nil {
		t.Fatal(err)
	}
	w := newWorld(in.Tables)
	nm := &namer{w: w, refName: map[hash.SHA256Hash]string{}, phName: map[hash.SHA256Hash]string{}}
	maxT := 0
	for name, a := range in.Tables.T {
		if a.Sig > maxT {
			maxT = a.Sig
		}
		nm.refName[storeRef(name, a.RR)] = name
	}
	for name := range in.Tables.Docs {
		cd, err := w.concrete(name)
		if err != nil {
			t.Fatal(err)
		}
		if _, dup := nm.phName[cd.ph]; !dup || name < nm.phName[cd.ph] {
			nm.phName[cd.ph] = name
		}
	}
	out, err := os.Create(outPath)
	if err != nil {
		t.Fatal(err)
	}
	defer out.Close()
	bw := bufio.NewWriter(out)
	defer bw.Flush()
	enc := json.NewEncoder(bw)
	dir := t.TempDir()
	switch in.Mode {
	case "store":
		sr := &storeRunner{w: w, in: in, dir: dir, nm: nm}
		for _, sc := range in.Scripts {
			mt := 0
			for _, e := range in.Tables.Scen[sc.Sc].Ev {
				if in.Tables.T[e].Sig > mt {
					mt = in.Tables.T[e].Sig
				}
			}
			sr.times = nil
			for tm := 0; tm <= mt+1; tm++ {
				sr.times = append(sr.times, tm)
			}
			res := sr.run(sc)
			if err := enc.Encode(res); err != nil {
				t.Fatal(err)
			}
		}
	case "ambassador":
		for _, sc := range in.Scripts {
			// refs of really signed transactions are fresh per forge: one forge per script keeps names and refs aligned
			ar := &ambRunner{w: w, in: in, dir: dir, f: newForge(w), nm: &namer{w: w, refName: map[hash.SHA256Hash]string{}, phName: nm.phName}, maxT: maxT + 1}
			inPlay := map[string]bool{}
			for _, d := range in.DIDs {
				inPlay[d] = true
			}
			ts := map[int]bool{}
			for _, a := range in.Tables.T {
				if inPlay[a.Did] && a.Kind != "" && a.RR == 0 {
					ts[a.Sig] = true
				}
			}
			for tm := range ts {
				ar.sigTimes = append(ar.sigTimes, tm)
			}
			sort.Ints(ar.sigTimes)
			res := ar.run(sc)
			if err := enc.Encode(res); err != nil {
				t.Fatal(err)
			}
		}
	default:
		t.Fatalf("unknown mode %q", in.Mode)
	}
}
