// Driver for Jose.tla (C17): ONE generator of hostile variants of a valid signed token, applied uniformly to the real
// entry points of every signed-token consumer of the node.
package jose

import (
	"bufio"
	"context"
	"crypto"
	"crypto/rand"
	"crypto/sha256"
	"crypto/x509"
	"crypto/x509/pkix"
	"encoding/hex"
	"encoding/json"
	"errors"
	"fmt"
	"io"
	"math/big"
	"net/http"
	"net/http/httptest"
	"net/url"
	"os"
	"sort"
	"strings"
	"testing"
	"time"

	"github.com/labstack/echo/v4"
	"github.com/lestrrat-go/jwx/v2/jwk"
	ssi "github.com/nuts-foundation/go-did"
	"github.com/nuts-foundation/go-did/did"
	"github.com/nuts-foundation/go-did/vc"
	"github.com/nuts-foundation/nuts-node/auth"
	iamclient "github.com/nuts-foundation/nuts-node/auth/client/iam"
	"github.com/nuts-foundation/nuts-node/auth/api/iam"
	"github.com/nuts-foundation/nuts-node/auth/oauth"
	"github.com/nuts-foundation/nuts-node/core"
	"github.com/nuts-foundation/nuts-node/crypto/dpop"
	"github.com/nuts-foundation/nuts-node/crypto/hash"
	"github.com/nuts-foundation/nuts-node/http/tokenV2"
	"github.com/nuts-foundation/nuts-node/jsonld"
	"github.com/nuts-foundation/nuts-node/network/dag"
	"github.com/nuts-foundation/nuts-node/vcr/credential"
	"github.com/nuts-foundation/nuts-node/vcr/revocation"
	"github.com/nuts-foundation/nuts-node/vcr/signature"
	"github.com/nuts-foundation/nuts-node/vcr/signature/proof"
	"github.com/nuts-foundation/nuts-node/vcr/verifier"
	"github.com/nuts-foundation/nuts-node/vdr/resolver"
	"github.com/sirupsen/logrus"
	"golang.org/x/crypto/ssh"

	"verifharness/txforge"
)

type caseIn struct {
	ID       string `json:"id"`
	Consumer string `json:"consumer"`
	Fam      string `json:"fam"`
	Variant  string `json:"variant"`
}

type input struct {
	Cases  []caseIn `json:"cases"`
	Stride int      `json:"stride"` // sweep variants: every Stride-th character position, starting at Offset
	Offset int      `json:"offset"`
}

type realisation struct {
	Name     string `json:"name"`
	Accepted bool   `json:"accepted"`
	Err      string `json:"err,omitempty"`
	Token    string `json:"token,omitempty"`
}

type result struct {
	ID    string        `json:"id"`
	NA    string        `json:"na,omitempty"` // the variant does not exist for this consumer / key family
	Real  []realisation `json:"real"`
	Error string        `json:"error,omitempty"`
}

var fams = []string{"p256", "p384", "p521", "ed25519", "rsa"}

const (
	legitDID    = "did:web:example.com:iam:123"
	extDID      = "did:web:example.com:iam:1234" // hostile party whose DID EXTENDS the legitimate DID as a string
	preDID      = "did:web:example.com:iam:12"   // hostile party whose DID is a proper PREFIX of the legitimate DID
	nutsLegit   = "did:nuts:Legit123"
	nutsExt     = "did:nuts:Legit1234"
	nutsPre     = "did:nuts:Legit12"
	otherDID    = "did:web:other.example"
	attackerDID = "did:web:attacker.example"
	subjectDID  = "did:web:subject.example"
	audience    = "verif-audience"
	clientID    = "https://legit.example/oauth2/legit"
)

// ------------------------------------------------------------------------------------------------ world

type world struct {
	t        *testing.T
	legit    map[string]txforge.AnyKey
	other    map[string]txforge.AnyKey
	attacker map[string]txforge.AnyKey
	ext      map[string]txforge.AnyKey
	pre      map[string]txforge.AnyKey
	docs     map[string]*did.Document
	verifier verifier.Verifier
	jsonld   jsonld.JSONLD
	jar      iam.JAR
	api      tokenV2.Middleware
	certs    map[string]string
	ldCache  map[string]*ldBase
	stride   int
	offset   int
}

type scriptedDIDResolver struct{ docs map[string]*did.Document }

func (s scriptedDIDResolver) Resolve(id did.DID, _ *resolver.ResolveMetadata) (*did.Document, *resolver.DocumentMetadata, error) {
	d, ok := s.docs[id.String()]
	if !ok {
		return nil, nil, resolver.ErrNotFound
	}
	return d, &resolver.DocumentMetadata{}, nil
}

type scriptedNutsResolver struct{ keys map[string]crypto.PublicKey }

func (s scriptedNutsResolver) ResolvePublicKey(kid string, _ []hash.SHA256Hash) (crypto.PublicKey, error) {
	k, ok := s.keys[kid]
	if !ok {
		return nil, resolver.ErrKeyNotFound
	}
	return k, nil
}

type noStore struct{}

func (noStore) Diagnostics() []core.DiagnosticResult { return nil }
func (noStore) GetRevocations(ssi.URI) ([]*credential.Revocation, error) {
	return nil, verifier.ErrNotFound
}
func (noStore) StoreRevocation(credential.Revocation) error { return nil }
func (noStore) Close() error                                { return nil }

type fakeAuth struct {
	auth.AuthenticationServices
	client iamclient.Client
}

func (f fakeAuth) IAMClient() iamclient.Client { return f.client }

type fakeIAMClient struct {
	iamclient.Client
	cfg map[string]*oauth.OpenIDConfiguration
}

func (f fakeIAMClient) OpenIDConfiguration(_ context.Context, issuer string) (*oauth.OpenIDConfiguration, error) {
	c, ok := f.cfg[issuer]
	if !ok {
		return nil, errors.New("unknown client")
	}
	return c, nil
}

func kidOf(d, fam string) string { return d + "#" + fam }

// fragKid: a key id of the attacker whose fragment is the legitimate key id
func fragKid(fam string) string { return attackerDID + "#" + legitDID + "-" + fam }

// keyMembers: extra members a published / embedded JWK may carry besides the key material (RFC 7517 alg, use, key_ops)
var keyMembers = map[string]map[string]any{
	"algRS256": {"alg": "RS256"}, "algRS384": {"alg": "RS384"}, "algRS512": {"alg": "RS512"},
	"algPS256": {"alg": "PS256"}, "algPS384": {"alg": "PS384"}, "algPS512": {"alg": "PS512"},
	"algES256": {"alg": "ES256"}, "algES384": {"alg": "ES384"}, "algES512": {"alg": "ES512"}, "algEdDSA": {"alg": "EdDSA"},
	"useenc": {"use": "enc"}, "opsenc": {"key_ops": []string{"encrypt", "wrapKey"}},
	"algRSA-OAEP-256": {"alg": "RSA-OAEP-256"}, "algECDH-ES": {"alg": "ECDH-ES"},
}

func memberKid(d, fam, name string) string { return d + "#" + fam + "-" + name }

func buildDoc(d string, keys map[string]txforge.AnyKey) *did.Document {
	id := did.MustParseDID(d)
	doc := &did.Document{ID: id, Context: []interface{}{did.DIDContextV1URI()}}
	for _, f := range fams {
		vm, err := did.NewVerificationMethod(did.MustParseDIDURL(kidOf(d, f)), ssi.JsonWebKey2020, id, keys[f].Public())
		if err != nil {
			panic(err)
		}
		doc.AddAssertionMethod(vm)
		doc.AddAuthenticationMethod(vm)
		// the same key published once more per member set (the JWK of the verification method carries alg / use / key_ops)
		for name, members := range keyMembers {
			vm2, err := did.NewVerificationMethod(did.MustParseDIDURL(memberKid(d, f, name)), ssi.JsonWebKey2020, id, keys[f].Public())
			if err != nil {
				panic(err)
			}
			for k, v := range members {
				vm2.PublicKeyJwk[k] = v
			}
			doc.AddAssertionMethod(vm2)
			doc.AddAuthenticationMethod(vm2)
		}
	}
	return doc
}

func sshKid(k txforge.AnyKey) string {
	sp, err := ssh.NewPublicKey(k.Public())
	if err != nil {
		panic(err)
	}
	return ssh.FingerprintSHA256(sp)
}

func authorizedLine(k txforge.AnyKey, user string) string {
	sp, _ := ssh.NewPublicKey(k.Public())
	return strings.TrimSpace(string(ssh.MarshalAuthorizedKey(sp))) + " " + user
}

func newWorld(t *testing.T) *world {
	w := &world{t: t, legit: map[string]txforge.AnyKey{}, other: map[string]txforge.AnyKey{}, attacker: map[string]txforge.AnyKey{},
		ext: map[string]txforge.AnyKey{}, pre: map[string]txforge.AnyKey{},
		docs: map[string]*did.Document{}, certs: map[string]string{}, ldCache: map[string]*ldBase{}}
	for _, f := range fams {
		w.legit[f], w.other[f], w.attacker[f] = txforge.NewAnyKey(f), txforge.NewAnyKey(f), txforge.NewAnyKey(f)
		if f == "rsa" { // RSA key generation is slow; the lookalike parties share the attacker's RSA key
			w.ext[f], w.pre[f] = w.attacker[f], w.attacker[f]
		} else {
			w.ext[f], w.pre[f] = txforge.NewAnyKey(f), txforge.NewAnyKey(f)
		}
	}
	w.docs[legitDID] = buildDoc(legitDID, w.legit)
	w.docs[otherDID] = buildDoc(otherDID, w.other)
	w.docs[attackerDID] = buildDoc(attackerDID, w.attacker)
	w.docs[extDID] = buildDoc(extDID, w.ext)
	w.docs[preDID] = buildDoc(preDID, w.pre)
	// the attacker also publishes its keys under fragments that CONTAIN the legitimate DID
	for _, f := range fams {
		vm, err := did.NewVerificationMethod(did.MustParseDIDURL(fragKid(f)), ssi.JsonWebKey2020, did.MustParseDID(attackerDID), w.attacker[f].Public())
		if err != nil {
			t.Fatal(err)
		}
		w.docs[attackerDID].AddAssertionMethod(vm)
		w.docs[attackerDID].AddAuthenticationMethod(vm)
	}
	w.docs[subjectDID] = buildDoc(subjectDID, w.other)
	didResolver := scriptedDIDResolver{w.docs}
	keyResolver := resolver.DIDKeyResolver{Resolver: didResolver}
	w.jsonld = jsonld.NewTestJSONLDManager(t)
	w.verifier = verifier.NewVerifier(noStore{}, didResolver, keyResolver, w.jsonld, nil, revocation.NewStatusList2021(nil, nil, ""))
	// JAR: the client's published key set (OpenID configuration) holds the legit keys under their kids
	set := jwk.NewSet()
	for _, f := range fams {
		k, err := jwk.FromRaw(w.legit[f].Public())
		if err != nil {
			t.Fatal(err)
		}
		_ = k.Set(jwk.KeyIDKey, kidOf(legitDID, f))
		_ = set.AddKey(k)
		for name, members := range keyMembers {
			m := w.legit[f].PublicJWK()
			for a, b := range members {
				m[a] = b
			}
			m["kid"] = memberKid(legitDID, f, name)
			raw, _ := json.Marshal(m)
			if k2, err := jwk.ParseKey(raw); err == nil {
				_ = set.AddKey(k2)
			}
		}
	}
	w.jar = iam.VerifNewJAR(fakeAuth{client: fakeIAMClient{cfg: map[string]*oauth.OpenIDConfiguration{clientID: {Issuer: clientID, Subject: clientID, JWKs: set}}}}, nil, keyResolver)
	// API tokens: authorised keys = legit + other party
	lines := []string{}
	for _, f := range fams {
		lines = append(lines, authorizedLine(w.legit[f], "legit@verif"), authorizedLine(w.other[f], "other@verif"))
	}
	api, err := tokenV2.New(nil, audience, []byte(strings.Join(lines, "\n")+"\n"))
	if err != nil {
		t.Fatal(err)
	}
	w.api = api
	return w
}

func (w *world) selfSigned(k txforge.AnyKey) string {
	id := k.Thumbprint()
	if c, ok := w.certs[id]; ok {
		return c
	}
	tpl := &x509.Certificate{SerialNumber: big.NewInt(1), Subject: pkix.Name{CommonName: "attacker"},
		NotBefore: time.Now().Add(-time.Hour), NotAfter: time.Now().Add(time.Hour)}
	der, err := x509.CreateCertificate(rand.Reader, tpl, tpl, k.Public(), k.Priv)
	if err != nil {
		panic(err)
	}
	w.certs[id] = txforge.StdB64(der)
	return w.certs[id]
}

// ------------------------------------------------------------------------------------------------ base tokens

// base describes the valid token of one consumer for one key family, in a form every variant can be derived from.
type base struct {
	consumer string
	fam      string
	hdr      map[string]any // protected header of the valid token
	payload  []byte         // JWS payload (detached: the bytes that are signed after "<header>.")
	detached bool
	alg      string
	kidName  string // name of the header that carries the key id ("" = the token has none)
	hasJWK   bool   // the valid token carries its verification key in the jwk header (DPoP, DAG transaction with new key)
	legit    txforge.AnyKey
	attacker txforge.AnyKey
	otherKid string // key id of another (honest) party known to the consumer
	attKid   string // key id under which the attacker's own key is known to the consumer ("" = unknown)
	padPayload func(n int) []byte // payload with n semantically irrelevant extra bytes (nil = not possible)
	// hostile parties whose key id resembles the legitimate one (ext: DID extends the legitimate DID as a string, pre: DID is a
	// proper prefix of it, frag: the fragment contains the legitimate DID); all are resolvable by the consumer
	look map[string]lookalike
}

type lookalike struct {
	kid string
	key txforge.AnyKey
}

func (w *world) didLookalikes(fam string) map[string]lookalike {
	return map[string]lookalike{"ext": {kidOf(extDID, fam), w.ext[fam]}, "pre": {kidOf(preDID, fam), w.pre[fam]}, "frag": {fragKid(fam), w.attacker[fam]}}
}

func algFor(consumer string, k txforge.AnyKey) string {
	if k.Kind == "rsa" && consumer == "apitoken" {
		return "PS512"
	}
	return k.DefaultAlg()
}

func uuid4() string {
	b := make([]byte, 16)
	_, _ = rand.Read(b)
	b[6] = (b[6] & 0x0f) | 0x40
	b[8] = (b[8] & 0x3f) | 0x80
	return fmt.Sprintf("%x-%x-%x-%x-%x", b[0:4], b[4:6], b[6:8], b[8:10], b[10:])
}

func jsonPad(claims map[string]any) func(int) []byte {
	return func(n int) []byte {
		b, _ := json.Marshal(claims)
		return append(b, []byte(strings.Repeat(" ", n))...)
	}
}

func (w *world) baseFor(consumer, fam string) (*base, error) {
	now := time.Now().Unix()
	b := &base{consumer: consumer, fam: fam, legit: w.legit[fam], attacker: w.attacker[fam], kidName: "kid"}
	b.alg = algFor(consumer, b.legit)
	switch consumer {
	case "vcjwt":
		claims := map[string]any{"iss": legitDID, "sub": subjectDID, "jti": legitDID + "#vc-" + uuid4(), "nbf": now - 60, "exp": now + 3600,
			"vc": map[string]any{"@context": []string{"https://www.w3.org/2018/credentials/v1"}, "type": []string{"VerifiableCredential"},
				"credentialSubject": map[string]any{"id": subjectDID}}}
		b.hdr = map[string]any{"alg": b.alg, "typ": "JWT", "kid": kidOf(legitDID, fam)}
		b.padPayload = jsonPad(claims)
		b.otherKid, b.attKid = kidOf(otherDID, fam), kidOf(attackerDID, fam)
		b.look = w.didLookalikes(fam)
	case "vpjwt":
		claims := map[string]any{"iss": legitDID, "sub": legitDID, "jti": legitDID + "#vp-" + uuid4(), "nbf": now - 60, "exp": now + 3600,
			"aud": "did:web:verifier.example", "nonce": uuid4(),
			"vp":  map[string]any{"@context": []string{"https://www.w3.org/2018/credentials/v1"}, "type": []string{"VerifiablePresentation"}}}
		b.hdr = map[string]any{"alg": b.alg, "typ": "JWT", "kid": kidOf(legitDID, fam)}
		b.padPayload = jsonPad(claims)
		b.otherKid, b.attKid = kidOf(otherDID, fam), kidOf(attackerDID, fam)
		b.look = w.didLookalikes(fam)
	case "jar":
		claims := map[string]any{"iss": legitDID, "client_id": clientID, "aud": "https://node.example/oauth2/verifier", "response_type": "code",
			"scope": "test", "state": uuid4(), "nonce": uuid4(), "iat": now - 60, "exp": now + 600}
		b.hdr = map[string]any{"alg": b.alg, "typ": "JWT", "kid": kidOf(legitDID, fam)}
		b.padPayload = jsonPad(claims)
		b.otherKid, b.attKid = kidOf(otherDID, fam), kidOf(attackerDID, fam)
		b.look = w.didLookalikes(fam)
	case "dpop":
		claims := map[string]any{"htm": "POST", "htu": "https://node.example/oauth2/verifier/token", "jti": uuid4(), "iat": now - 5}
		jw := b.legit.PublicJWK()
		b.hdr = map[string]any{"alg": b.alg, "typ": "dpop+jwt", "jwk": jw}
		b.padPayload = jsonPad(claims)
		b.kidName, b.hasJWK = "", true
	case "apitoken":
		claims := map[string]any{"iss": "legit@verif", "sub": "verif-subject", "aud": audience, "jti": uuid4(), "iat": now - 60, "nbf": now - 60, "exp": now + 3600}
		b.hdr = map[string]any{"alg": b.alg, "typ": "JWT", "kid": sshKid(b.legit)}
		b.padPayload = jsonPad(claims)
		b.otherKid, b.attKid = sshKid(w.other[fam]), ""
	case "dagtx-jwk", "dagtx-kid":
		h := sha256.Sum256([]byte("verif payload " + uuid4()))
		b.payload = []byte(hex.EncodeToString(h[:]))
		b.hdr = map[string]any{"alg": b.alg, "cty": "application/x-verif", "crit": []string{"sigt", "ver", "prevs", "lc"}, "sigt": now - 5, "ver": 2,
			"prevs": []string{}, "lc": 0}
		if consumer == "dagtx-jwk" {
			b.hdr["jwk"] = b.legit.PublicJWK()
			b.kidName, b.hasJWK = "", true
		} else {
			b.hdr["kid"] = kidOf(nutsLegit, fam)
			b.otherKid, b.attKid = kidOf("did:nuts:other", fam), kidOf("did:nuts:attacker", fam)
			b.look = map[string]lookalike{"ext": {kidOf(nutsExt, fam), w.ext[fam]}, "pre": {kidOf(nutsPre, fam), w.pre[fam]},
				"frag": {"did:nuts:attacker#" + nutsLegit + "-" + fam, w.attacker[fam]}}
		}
	case "ldproof":
		lb, err := w.ldBaseFor(fam)
		if err != nil {
			return nil, err
		}
		b.hdr = map[string]any{"alg": b.alg, "b64": false, "crit": []string{"b64"}}
		b.payload = lb.tbs
		b.detached = true
		b.kidName = "" // the key id is proof.verificationMethod, which is part of the signed data
		b.look = w.didLookalikes(fam)
	default:
		return nil, fmt.Errorf("unknown consumer %s", consumer)
	}
	if b.payload == nil {
		b.payload = b.padPayload(0)
	}
	return b, nil
}

// ------------------------------------------------------------------------------------------------ JSON-LD

type ldBase struct {
	doc    map[string]any // signed document incl. proof (proof.jws produced by the capturing suite)
	tbs    []byte
	header string
}

type captureSuite struct {
	signature.JSONWebSignature2020
	key txforge.AnyKey
	alg string // algorithm the signature is really made with ("" = the one that fits the key)
	tbs []byte
}

func (s *captureSuite) Sign(_ context.Context, doc []byte, _ string) ([]byte, error) {
	s.tbs = append([]byte{}, doc...)
	alg := s.alg
	if alg == "" {
		alg = s.key.DefaultAlg()
	}
	hdr := txforge.Header(map[string]any{"alg": s.key.DefaultAlg(), "b64": false, "crit": []string{"b64"}})
	hseg := txforge.B64(hdr)
	sig := s.key.SignAlg(alg, append([]byte(hseg+"."), doc...))
	return []byte(hseg + ".." + txforge.B64(sig)), nil
}

func (w *world) ldBaseFor(fam string) (*ldBase, error) {
	if lb, ok := w.ldCache[fam]; ok {
		return lb, nil
	}
	lb, err := w.ldSign(w.legit[fam], kidOf(legitDID, fam))
	if err != nil {
		return nil, err
	}
	w.ldCache[fam] = lb
	return lb, nil
}

// ldSign issues a credential IN THE NAME OF the legitimate issuer, with a genuine proof made by key under verification method vm.
func (w *world) ldSign(key txforge.AnyKey, vm string) (*ldBase, error) { return w.ldSignAlg(key, vm, "") }

func (w *world) ldSignAlg(key txforge.AnyKey, vm string, alg string) (*ldBase, error) {
	doc := proof.Document{
		"@context":          []any{"https://www.w3.org/2018/credentials/v1"},
		"type":              []any{"VerifiableCredential"},
		"id":                legitDID + "#ld-" + uuid4(),
		"issuer":            legitDID,
		"issuanceDate":      time.Now().Add(-time.Minute).UTC().Format(time.RFC3339),
		"credentialSubject": map[string]any{"id": subjectDID},
	}
	suite := &captureSuite{JSONWebSignature2020: signature.JSONWebSignature2020{ContextLoader: w.jsonld.DocumentLoader()}, key: key, alg: alg}
	ldp := proof.NewLDProof(proof.ProofOptions{Created: time.Now().Add(-time.Minute)})
	signed, err := ldp.Sign(context.Background(), doc, suite, vm)
	if err != nil {
		return nil, err
	}
	raw, _ := json.Marshal(signed)
	m := map[string]any{}
	_ = json.Unmarshal(raw, &m)
	return &ldBase{doc: m, tbs: suite.tbs}, nil
}

// ------------------------------------------------------------------------------------------------ forging

type forged struct {
	name string
	jws  string
	// consumers whose signed content is not inside the JWS (JSON-LD): alter the document / key reference instead
	alterDoc bool
	vm       string
	doc      map[string]any // a complete, genuinely signed document to use instead of the valid one
}

func clone(m map[string]any) map[string]any {
	out := map[string]any{}
	for k, v := range m {
		out[k] = v
	}
	return out
}

func (b *base) signingInput(hseg string, payload []byte) []byte {
	if b.detached {
		return append([]byte(hseg+"."), payload...)
	}
	return []byte(hseg + "." + txforge.B64(payload))
}

func (b *base) assemble(hseg string, payload []byte, sig []byte) string {
	if b.detached {
		return hseg + ".." + txforge.B64(sig)
	}
	return hseg + "." + txforge.B64(payload) + "." + txforge.B64(sig)
}

func (b *base) signed(h map[string]any, payload []byte, key txforge.AnyKey, alg string) string {
	hseg := txforge.B64(txforge.Header(h))
	return b.assemble(hseg, payload, key.SignAlg(alg, b.signingInput(hseg, payload)))
}

func (b *base) valid() string { return b.signed(b.hdr, b.payload, b.legit, b.alg) }

func group(kind string) string {
	switch kind {
	case "p256", "p384", "p521":
		return "ec"
	}
	return kind
}

// siblingAlgs: other algorithms of the same family, with the key kind an attacker would use for them.
func siblingAlgs(b *base) [][2]string {
	switch group(b.fam) {
	case "ec":
		out := [][2]string{}
		for _, p := range [][2]string{{"ES256", "p256"}, {"ES384", "p384"}, {"ES512", "p521"}} {
			if p[0] != b.alg {
				out = append(out, p)
			}
		}
		return out
	case "rsa":
		out := [][2]string{}
		for _, a := range []string{"PS256", "PS384", "PS512", "RS256", "RS512"} {
			if a != b.alg {
				out = append(out, [2]string{a, "rsa"})
			}
		}
		return out
	}
	return nil
}

var errNA = errors.New("n/a")

func (w *world) forge(b *base, variant string) ([]forged, error) {
	valid := b.valid()
	segs := strings.Split(valid, ".")
	hseg, sseg := segs[0], segs[2]
	withHdr := func(mod func(h map[string]any)) map[string]any { h := clone(b.hdr); mod(h); return h }
	keepSig := func(h map[string]any, payload []byte) string { // new header/payload text, original signature
		hs := txforge.B64(txforge.Header(h))
		if b.detached {
			return hs + ".." + sseg
		}
		return hs + "." + txforge.B64(payload) + "." + sseg
	}
	injected := func(name string, mod func(h map[string]any)) ([]forged, error) {
		return []forged{{name: name, jws: b.signed(withHdr(mod), b.payload, b.attacker, b.alg)}}, nil
	}
	switch variant {
	case "valid":
		return []forged{{name: "valid", jws: valid}}, nil
	case "alg-none":
		out := []forged{}
		for _, sp := range []string{"none", "None", "NONE"} {
			h := withHdr(func(h map[string]any) { h["alg"] = sp })
			hs := txforge.B64(txforge.Header(h))
			if b.detached {
				out = append(out, forged{name: sp + "-empty-sig", jws: hs + ".."}, forged{name: sp + "-old-sig", jws: hs + ".." + sseg})
			} else {
				out = append(out, forged{name: sp + "-empty-sig", jws: hs + "." + segs[1] + "."}, forged{name: sp + "-old-sig", jws: hs + "." + segs[1] + "." + sseg})
			}
		}
		return out, nil
	case "alg-hmac-pubkey":
		out := []forged{}
		for _, alg := range []string{"HS256", "HS384", "HS512"} {
			h := withHdr(func(h map[string]any) { h["alg"] = alg })
			hs := txforge.B64(txforge.Header(h))
			encs := b.legit.PublicEncodings()
			names := []string{}
			for n := range encs {
				names = append(names, n)
			}
			sort.Strings(names)
			for _, n := range names {
				out = append(out, forged{name: alg + "-" + n, jws: b.assemble(hs, b.payload, txforge.MAC(alg, encs[n], b.signingInput(hs, b.payload)))})
			}
		}
		return out, nil
	case "alg-other-family":
		out := []forged{}
		for _, f := range []string{"p256", "ed25519", "rsa"} {
			if group(f) == group(b.fam) {
				continue
			}
			algs := []string{w.attacker[f].DefaultAlg()}
			if f == "rsa" {
				algs = append(algs, "RS256", "PS512")
			}
			for _, alg := range algs {
				h := withHdr(func(h map[string]any) { h["alg"] = alg })
				out = append(out, forged{name: alg + "-by-attacker-" + f, jws: b.signed(h, b.payload, w.attacker[f], alg)})
			}
		}
		return out, nil
	case "alg-sibling":
		out := []forged{}
		for _, p := range siblingAlgs(b) {
			h := withHdr(func(h map[string]any) { h["alg"] = p[0] })
			out = append(out, forged{name: p[0] + "-by-attacker-" + p[1], jws: b.signed(h, b.payload, w.attacker[p[1]], p[0])})
		}
		if len(out) == 0 {
			return nil, errNA
		}
		return out, nil
	case "alg-label-only":
		out := []forged{}
		labels := []string{"ES256", "ES384", "PS256", "EdDSA", "RS256"}
		for _, l := range labels {
			if l != b.alg {
				out = append(out, forged{name: "label-" + l, jws: keepSig(withHdr(func(h map[string]any) { h["alg"] = l }), b.payload)})
			}
		}
		return out, nil
	case "legit-alg-mismatch":
		// only the holder of the legitimate key can make these: the signature is genuine, the algorithm does not fit the key
		// (ES384 label + SHA-384 with a P-256 key, ...) or is a deprecated one of the same family (RS256)
		out := []forged{}
		switch group(b.fam) {
		case "ec":
			for _, p := range siblingAlgs(b) {
				h := withHdr(func(h map[string]any) { h["alg"] = p[0] })
				out = append(out, forged{name: p[0] + "-by-legit-" + b.fam, jws: b.signed(h, b.payload, b.legit, p[0])})
			}
		case "rsa":
			for _, a := range []string{"RS256", "RS384"} {
				h := withHdr(func(h map[string]any) { h["alg"] = a })
				out = append(out, forged{name: a + "-by-legit-rsa", jws: b.signed(h, b.payload, b.legit, a)})
			}
		default:
			return nil, errNA
		}
		return out, nil
	case "hdr-dup-alg-mismatch-signed":
		// the header object names the algorithm twice: the one that fits the key and the one the (genuine) signature is made
		// with; whichever member a parser keeps, the algorithm really used does not fit the key
		if group(b.fam) != "ec" {
			return nil, errNA
		}
		out := []forged{}
		for _, p := range siblingAlgs(b) {
			rest := txforge.Header(withHdr(func(h map[string]any) { delete(h, "alg") }))
			for _, order := range [][2]string{{b.alg, p[0]}, {p[0], b.alg}} {
				raw := fmt.Sprintf(`{"alg":%q,"alg":%q,%s`, order[0], order[1], rest[1:])
				hs := txforge.B64([]byte(raw))
				out = append(out, forged{name: "alg-" + order[0] + "+" + order[1] + "-sig-" + p[0] + "-by-legit-" + b.fam,
					jws: b.assemble(hs, b.payload, b.legit.SignAlg(p[0], b.signingInput(hs, b.payload)))})
			}
		}
		return out, nil
	case "legit-alg-sibling-fit":
		// genuine signature by the legitimate RSA key with another algorithm of the family that fits the key
		if group(b.fam) != "rsa" {
			return nil, errNA
		}
		out := []forged{}
		for _, a := range []string{"PS256", "PS384", "PS512"} {
			if a == b.alg || (b.consumer == "apitoken" && a == "PS512") {
				continue
			}
			h := withHdr(func(h map[string]any) { h["alg"] = a })
			out = append(out, forged{name: a + "-by-legit-rsa", jws: b.signed(h, b.payload, b.legit, a)})
		}
		return out, nil
	case "sigs-0":
		return []forged{{name: "general-no-signature", jws: txforge.GeneralEmpty(valid)}}, nil
	case "sigs-2-legit-first", "sigs-2-attacker-first":
		ah := clone(b.hdr)
		if b.kidName != "" && b.attKid != "" {
			ah[b.kidName] = b.attKid
		}
		if b.hasJWK {
			ah["jwk"] = b.attacker.PublicJWK()
		}
		att := b.signed(ah, b.payload, b.attacker, b.alg)
		if variant == "sigs-2-legit-first" {
			return []forged{{name: "general-legit-attacker", jws: txforge.GeneralOf(valid, att)}}, nil
		}
		return []forged{{name: "general-attacker-legit", jws: txforge.GeneralOf(att, valid)}}, nil
	case "flattened":
		return []forged{{name: "flattened", jws: txforge.FlattenedOf(valid)}}, nil
	case "general-1":
		return []forged{{name: "general-one-signature", jws: txforge.GeneralOf(valid)}}, nil
	case "inject-jwk":
		return injected("jwk-of-attacker", func(h map[string]any) { h["jwk"] = b.attacker.PublicJWK() })
	case "inject-jku":
		return injected("jku", func(h map[string]any) { h["jku"] = "https://attacker.example/jwks.json" })
	case "inject-x5u":
		return injected("x5u", func(h map[string]any) { h["x5u"] = "https://attacker.example/cert.pem" })
	case "inject-x5c":
		return injected("x5c", func(h map[string]any) { h["x5c"] = []string{w.selfSigned(b.attacker)} })
	case "embedded-private-key":
		return injected("private-jwk-of-attacker", func(h map[string]any) { h["jwk"] = b.attacker.PrivateJWK() })
	case "keyalg-disallowed-signed", "keyalg-other-allowed-signed", "hdr-badlabel-keyalg-fit", "key-members-contradict-signing":
		// the verification key (embedded jwk, or the JWK published in the DID document / client key set) carries members of its
		// own; the signature is always a REAL signature by the legitimate key, made with the stated algorithm
		type kv struct{ name, member, hdrAlg, sigAlg string }
		var list []kv
		g := group(b.fam)
		switch variant {
		case "keyalg-disallowed-signed": // header: allowed alg; key says (and the signature uses) an alg that is not allowed / does not fit
			if g == "rsa" {
				for _, a := range []string{"RS256", "RS384", "RS512"} {
					list = append(list, kv{"hdr-" + b.alg + "-key+sig-" + a, "alg" + a, b.alg, a})
				}
			} else if g == "ec" {
				for _, p := range siblingAlgs(b) {
					list = append(list, kv{"hdr-" + b.alg + "-key+sig-" + p[0], "alg" + p[0], b.alg, p[0]})
				}
			}
		case "keyalg-other-allowed-signed": // header and key name different ALLOWED algorithms of the family, signature by the key's
			if g == "rsa" {
				for _, a := range []string{"PS256", "PS384", "PS512"} {
					if a != b.alg {
						list = append(list, kv{"hdr-" + b.alg + "-key+sig-" + a, "alg" + a, b.alg, a})
					}
				}
			}
		case "hdr-badlabel-keyalg-fit": // mirror: header names an alg that is not allowed, the key an allowed one
			if g == "rsa" {
				list = append(list, kv{"hdr-RS256-key-" + b.alg + "-sig-" + b.alg, "alg" + b.alg, "RS256", b.alg},
					kv{"hdr-RS256-key-" + b.alg + "-sig-RS256", "alg" + b.alg, "RS256", "RS256"})
			} else {
				list = append(list, kv{"hdr-ES256K-key-" + b.alg + "-sig-" + b.alg, "alg" + b.alg, "ES256K", b.alg})
			}
		default: // genuine signature with the fitting algorithm; the key's members say it is not a signature key
			enc := "algECDH-ES"
			if g == "rsa" {
				enc = "algRSA-OAEP-256"
			}
			for _, m := range []string{"useenc", "opsenc", enc} {
				list = append(list, kv{"key-" + m, m, b.alg, b.alg})
			}
			if g != "ed25519" {
				other := map[string]string{"ec": "algEdDSA", "rsa": "algES256"}[g]
				list = append(list, kv{"key-" + other + "-of-another-key-type", other, b.alg, b.alg})
			}
		}
		if len(list) == 0 {
			return nil, errNA
		}
		out := []forged{}
		for _, e := range list {
			switch {
			case b.hasJWK:
				h := withHdr(func(h map[string]any) {
					j := b.legit.PublicJWK()
					for k, v := range keyMembers[e.member] {
						j[k] = v
					}
					h["jwk"] = j
					h["alg"] = e.hdrAlg
				})
				out = append(out, forged{name: e.name, jws: b.signed(h, b.payload, b.legit, e.sigAlg)})
			case b.consumer == "ldproof":
				lb, err := w.ldSignAlg(b.legit, memberKid(legitDID, b.fam, e.member), e.sigAlg)
				if err != nil {
					return nil, err
				}
				out = append(out, forged{name: e.name, jws: lb.doc["proof"].(map[string]any)["jws"].(string), doc: lb.doc})
			case b.consumer == "vcjwt" || b.consumer == "vpjwt" || b.consumer == "jar":
				h := withHdr(func(h map[string]any) { h["kid"] = memberKid(legitDID, b.fam, e.member); h["alg"] = e.hdrAlg })
				out = append(out, forged{name: e.name, jws: b.signed(h, b.payload, b.legit, e.sigAlg)})
			default:
				return nil, errNA
			}
		}
		return out, nil
	case "own-private-key-embedded":
		if !b.hasJWK {
			return nil, errNA
		}
		return []forged{{name: "private-jwk-of-signer", jws: b.signed(withHdr(func(h map[string]any) { h["jwk"] = b.legit.PrivateJWK() }), b.payload, b.legit, b.alg)}}, nil
	case "kid-other-party":
		if b.consumer == "ldproof" {
			return []forged{{name: "verificationMethod-of-other-party", jws: valid, vm: kidOf(otherDID, b.fam)}}, nil
		}
		if b.kidName == "" {
			return nil, errNA
		}
		return []forged{{name: "kid-of-other-party-old-sig", jws: keepSig(withHdr(func(h map[string]any) { h[b.kidName] = b.otherKid }), b.payload)}}, nil
	case "kid-lookalike-ext-resigned", "kid-lookalike-pre-resigned", "kid-lookalike-frag-resigned":
		la, ok := b.look[strings.Split(variant, "-")[2]]
		if !ok {
			return nil, errNA
		}
		if b.consumer == "ldproof" {
			lb, err := w.ldSign(la.key, la.kid)
			if err != nil {
				return nil, err
			}
			return []forged{{name: "genuine-proof-by-" + la.kid, jws: lb.doc["proof"].(map[string]any)["jws"].(string), doc: lb.doc}}, nil
		}
		return []forged{{name: "resigned-with-kid-" + la.kid, jws: b.signed(withHdr(func(h map[string]any) { h[b.kidName] = la.kid }), b.payload, la.key, b.alg)}}, nil
	case "kid-attacker-resigned":
		if b.consumer == "ldproof" {
			lb, err := w.ldSign(b.attacker, kidOf(attackerDID, b.fam))
			if err != nil {
				return nil, err
			}
			return []forged{{name: "genuine-proof-by-attacker", jws: lb.doc["proof"].(map[string]any)["jws"].(string), doc: lb.doc},
				{name: "verificationMethod-of-attacker-old-tbs", jws: b.signed(b.hdr, b.payload, b.attacker, b.alg), vm: kidOf(attackerDID, b.fam)}}, nil
		}
		if b.kidName == "" || b.attKid == "" {
			return nil, errNA
		}
		return injected("kid-of-attacker-resigned", func(h map[string]any) { h[b.kidName] = b.attKid })
	case "key-swapped":
		return injected("resigned-by-attacker", func(h map[string]any) {})
	case "protected-altered":
		out := []forged{{name: "member-added", jws: keepSig(withHdr(func(h map[string]any) { h["vx"] = 1 }), b.payload)}}
		hb := txforge.Header(b.hdr)
		spaced := txforge.B64(append([]byte("{ "), hb[1:]...))
		if b.detached {
			out = append(out, forged{name: "whitespace-in-header", jws: spaced + ".." + sseg})
		} else {
			out = append(out, forged{name: "whitespace-in-header", jws: spaced + "." + segs[1] + "." + sseg})
		}
		return out, nil
	case "payload-altered":
		if b.detached {
			return []forged{{name: "document-altered", jws: valid, alterDoc: true}}, nil
		}
		out := []forged{}
		if b.padPayload != nil {
			out = append(out, forged{name: "whitespace-appended", jws: hseg + "." + txforge.B64(b.padPayload(1)) + "." + sseg})
			p2 := []byte(strings.Replace(string(b.payload), "verif", "verjf", 1))
			if string(p2) != string(b.payload) {
				out = append(out, forged{name: "claim-changed", jws: hseg + "." + txforge.B64(p2) + "." + sseg})
			}
		} else {
			p2 := append([]byte{}, b.payload...)
			if p2[0] == 'a' {
				p2[0] = 'b'
			} else {
				p2[0] = 'a'
			}
			out = append(out, forged{name: "payload-hash-changed", jws: hseg + "." + txforge.B64(p2) + "." + sseg})
		}
		return out, nil
	case "sig-altered":
		raw := txforge.DecodeSeg(sseg)
		flip := append([]byte{}, raw...)
		flip[len(flip)/2] ^= 1
		return []forged{{name: "bit-flipped", jws: txforge.ReplaceSeg(valid, 2, txforge.B64(flip))},
			{name: "truncated", jws: txforge.ReplaceSeg(valid, 2, txforge.B64(raw[:len(raw)-1]))},
			{name: "empty", jws: txforge.ReplaceSeg(valid, 2, "")}}, nil
	case "sweep-h", "sweep-p", "sweep-s":
		seg := map[byte]int{'h': 0, 'p': 1, 's': 2}[variant[len(variant)-1]]
		if seg == 1 && b.detached {
			return nil, errNA
		}
		const alphabet = "ABCDEFGHIJKLMNOPQRSTUVWXYZabcdefghijklmnopqrstuvwxyz0123456789-_"
		out := []forged{}
		text := segs[seg]
		for pos := w.offset % w.stride; pos < len(text); pos += w.stride {
			idx := strings.IndexByte(alphabet, text[pos])
			mut := text[:pos] + string(alphabet[idx^32]) + text[pos+1:] // the top bit of a sextet is always a used bit
			out = append(out, forged{name: fmt.Sprintf("pos-%d", pos), jws: txforge.ReplaceSeg(valid, seg, mut)})
		}
		return out, nil
	case "extra-segment":
		return []forged{{name: "empty-4th-segment", jws: valid + "."}, {name: "4th-segment", jws: valid + ".AAAA"},
			{name: "5-segments", jws: valid + ".AAAA.AAAA"}}, nil
	case "pad-h", "pad-p", "pad-s", "noncanon-h", "noncanon-p", "noncanon-s", "stdalpha-s":
		seg := map[byte]int{'h': 0, 'p': 1, 's': 2}[variant[len(variant)-1]]
		if seg == 1 && b.detached {
			return nil, errNA
		}
		// find a legitimately signed carrier whose segment can be re-encoded (length not a multiple of 4 / contains - or _):
		// semantically irrelevant filler in the header / payload changes lengths and (also for deterministic Ed25519) the signature
		for n := 0; n < 12; n++ {
			h, p := b.hdr, b.payload
			if (seg == 0 || seg == 2) && n > 0 {
				h = withHdr(func(h map[string]any) { h["vf"] = strings.Repeat("a", n) })
			}
			if seg == 1 && n > 0 {
				if b.padPayload == nil {
					break
				}
				p = b.padPayload(n)
			}
			carrier := b.signed(h, p, b.legit, b.alg)
			var out string
			var ok bool
			switch {
			case strings.HasPrefix(variant, "pad-"):
				out, ok = txforge.Padded(carrier, seg)
			case strings.HasPrefix(variant, "noncanon-"):
				out, ok = txforge.NonCanonical(carrier, seg)
			default:
				out, ok = txforge.StdAlphabet(carrier, seg)
			}
			if ok {
				return []forged{{name: "carrier", jws: carrier}, {name: variant, jws: out}}, nil
			}
			if seg == 2 && variant != "stdalpha-s" {
				break // the signature length does not depend on the filler
			}
		}
		return nil, errNA
	}
	return nil, fmt.Errorf("unknown variant %s", variant)
}

// ------------------------------------------------------------------------------------------------ consumers

func (w *world) consume(b *base, f forged) error {
	switch b.consumer {
	case "vcjwt":
		cred, err := vc.ParseVerifiableCredential(f.jws)
		if err != nil {
			return fmt.Errorf("parse: %w", err)
		}
		return w.verifier.Verify(*cred, true, true, nil)
	case "vpjwt":
		vp, err := vc.ParseVerifiablePresentation(f.jws)
		if err != nil {
			return fmt.Errorf("parse: %w", err)
		}
		_, err = w.verifier.VerifyVP(*vp, true, true, nil)
		return err
	case "jar":
		_, err := w.jar.Parse(context.Background(), oauth.AuthorizationServerMetadata{}, url.Values{"request": {f.jws}, "client_id": {clientID}})
		if err != nil {
			var oe oauth.OAuth2Error
			if errors.As(err, &oe) && oe.InternalError != nil {
				return fmt.Errorf("%s: %w", oe.Description, oe.InternalError)
			}
		}
		return err
	case "dpop":
		p, err := dpop.Parse(f.jws)
		if err != nil {
			return err
		}
		ok, err := p.Match(b.legit.Thumbprint(), "POST", "https://node.example/oauth2/verifier/token")
		if err != nil {
			return err
		}
		if !ok {
			return errors.New("no match")
		}
		return nil
	case "apitoken":
		e := echo.New()
		req := httptest.NewRequest(http.MethodGet, "/internal/x", nil)
		req.Header.Set("Authorization", "Bearer "+f.jws)
		rec := httptest.NewRecorder()
		c := e.NewContext(req, rec)
		ran := false
		err := w.api.Handler(func(echo.Context) error { ran = true; return nil })(c)
		if ran {
			return nil
		}
		if err == nil {
			err = errors.New("handler not called")
		}
		return err
	case "dagtx-jwk", "dagtx-kid":
		tx, err := dag.ParseTransaction([]byte(f.jws))
		if err != nil {
			return err
		}
		keys := map[string]crypto.PublicKey{}
		for _, fam := range fams {
			keys[kidOf(nutsLegit, fam)] = w.legit[fam].Public()
			keys[kidOf("did:nuts:other", fam)] = w.other[fam].Public()
			keys[kidOf("did:nuts:attacker", fam)] = w.attacker[fam].Public()
			keys[kidOf(nutsExt, fam)] = w.ext[fam].Public()
			keys[kidOf(nutsPre, fam)] = w.pre[fam].Public()
			keys["did:nuts:attacker#"+nutsLegit+"-"+fam] = w.attacker[fam].Public()
		}
		return dag.NewTransactionSignatureVerifier(scriptedNutsResolver{keys})(nil, tx)
	case "ldproof":
		src := w.ldCache[b.fam].doc
		if f.doc != nil {
			src = f.doc
		}
		raw, _ := json.Marshal(src)
		doc := map[string]any{}
		_ = json.Unmarshal(raw, &doc)
		pr := doc["proof"].(map[string]any)
		pr["jws"] = f.jws
		if f.vm != "" {
			pr["verificationMethod"] = f.vm
		}
		if f.alterDoc {
			doc["credentialSubject"] = map[string]any{"id": attackerDID}
		}
		text, _ := json.Marshal(doc)
		cred, err := vc.ParseVerifiableCredential(string(text))
		if err != nil {
			return fmt.Errorf("parse: %w", err)
		}
		return w.verifier.Verify(*cred, true, true, nil)
	}
	return errors.New("unknown consumer")
}

func short(s string) string {
	if len(s) > 260 {
		return s[:200] + "..." + s[len(s)-50:]
	}
	return s
}

func (w *world) run(c caseIn) (res result) {
	res.ID = c.ID
	res.Real = []realisation{}
	defer func() {
		if r := recover(); r != nil {
			res.Error = fmt.Sprint("panic in driver or consumer: ", r)
		}
	}()
	b, err := w.baseFor(c.Consumer, c.Fam)
	if err != nil {
		res.Error = err.Error()
		return
	}
	fs, err := w.forge(b, c.Variant)
	if errors.Is(err, errNA) {
		res.NA = "variant does not exist for this consumer/key family"
		return
	}
	if err != nil {
		res.Error = err.Error()
		return
	}
	for _, f := range fs {
		r := realisation{Name: f.name, Token: short(f.jws)}
		func() {
			defer func() {
				if p := recover(); p != nil {
					r.Err = fmt.Sprint("PANIC: ", p)
				}
			}()
			if err := w.consume(b, f); err != nil {
				r.Err = err.Error()
				if len(r.Err) > 300 {
					r.Err = r.Err[:300]
				}
			} else {
				r.Accepted = true
			}
		}()
		if len(res.Real) >= 3 && !r.Accepted {
			r.Token = ""
		}
		res.Real = append(res.Real, r)
	}
	return
}

func TestDriver(t *testing.T) {
	inPath, outPath := os.Getenv("VERIF_IN"), os.Getenv("VERIF_OUT")
	if inPath == "" {
		t.Skip("VERIF_IN not set")
	}
	logrus.SetLevel(logrus.PanicLevel)
	logrus.SetOutput(io.Discard)
	raw, err := os.ReadFile(inPath)
	if err != nil {
		t.Fatal(err)
	}
	var in input
	if err := json.Unmarshal(raw, &in); err != nil {
		t.Fatal(err)
	}
	w := newWorld(t)
	w.stride, w.offset = in.Stride, in.Offset
	if w.stride <= 0 {
		w.stride = 1
	}
	out, err := os.Create(outPath)
	if err != nil {
		t.Fatal(err)
	}
	defer out.Close()
	bw := bufio.NewWriter(out)
	defer bw.Flush()
	enc := json.NewEncoder(bw)
	for _, c := range in.Cases {
		if err := enc.Encode(w.run(c)); err != nil {
			t.Fatal(err)
		}
	}
}
