// World of the Nuts.tla driver (X09): 2-3 REAL in-process node stacks. Every node is
//   real network.Network (real dag.State on bbolt, real transport/v2 protocol, real persistent dag notifiers)
//   + real did store (bbolt, behind a write-fault seam)
//   + real did:nuts ambassador (subscribed through Network.Subscribe with persistency, as vdr.Module does)
//   + real didnuts.Manager (create / update / deactivate through Network.CreateTransaction) + real key store.
// Mocks only at the outer seams: the gRPC connections between the nodes (a deterministic simulator that captures
// every envelope and calls the real handlers), NATS (no REPROCESS stream) and the SQL database of the key references.
package nuts

import (
	"context"
	"errors"
	"fmt"
	"path/filepath"
	"sync"
	"testing"
	"time"

	"github.com/nats-io/nats.go"
	"github.com/nuts-foundation/go-did/did"
	"github.com/nuts-foundation/go-stoabs"
	"github.com/nuts-foundation/go-stoabs/bbolt"
	"github.com/nuts-foundation/nuts-node/core"
	nutsCrypto "github.com/nuts-foundation/nuts-node/crypto"
	"github.com/nuts-foundation/nuts-node/crypto/hash"
	"github.com/nuts-foundation/nuts-node/events"
	"github.com/nuts-foundation/nuts-node/network"
	"github.com/nuts-foundation/nuts-node/network/dag"
	"github.com/nuts-foundation/nuts-node/network/transport"
	"github.com/nuts-foundation/nuts-node/network/transport/grpc"
	v2 "github.com/nuts-foundation/nuts-node/network/transport/v2"
	"github.com/nuts-foundation/nuts-node/storage"
	"github.com/nuts-foundation/nuts-node/storage/orm"
	"github.com/nuts-foundation/nuts-node/vdr/didnuts"
	"github.com/nuts-foundation/nuts-node/vdr/didnuts/didstore"
	"github.com/nuts-foundation/nuts-node/vdr/resolver"
	grpcLib "google.golang.org/grpc"
	"gorm.io/gorm"
)

// ------------------------------------------------------------------------------------ outer seams

// NATS: the network engine publishes every payload event; nothing listens.
type fakeJS struct {
	nats.JetStreamContext
	done chan struct{}
}

func (j *fakeJS) PublishAsync(string, []byte, ...nats.PubOpt) (nats.PubAckFuture, error) {
	return nil, nil
}
func (j *fakeJS) PublishAsyncComplete() <-chan struct{} { return j.done }

type fakeEvents struct{ js *fakeJS }

func newFakeEvents() *fakeEvents {
	c := make(chan struct{})
	close(c)
	return &fakeEvents{js: &fakeJS{done: c}}
}
func (f *fakeEvents) GetStream(string) events.Stream { return nil }
func (f *fakeEvents) Pool() events.ConnectionPool    { return f }
func (f *fakeEvents) Acquire(context.Context) (events.Conn, nats.JetStreamContext, error) {
	return nil, f.js, nil
}
func (f *fakeEvents) Shutdown() {}

// the ambassador's REPROCESS subscription is not part of this model: its Acquire fails AFTER the "vdr" subscriber was registered
type noEvents struct{}
type noPool struct{}

func (noEvents) GetStream(string) events.Stream { return nil }
func (noEvents) Pool() events.ConnectionPool    { return noPool{} }
func (noPool) Acquire(context.Context) (events.Conn, nats.JetStreamContext, error) {
	return nil, nil, errors.New("no NATS in this harness")
}
func (noPool) Shutdown() {}

// write-fault seam below the did store: the next `armed` write transactions fail with a database error
type faultKV struct {
	stoabs.KVStore
	mu    sync.Mutex
	armed int
	hits  int
}

var errInjected = errors.New("verif: injected did store write failure")

func (f *faultKV) Write(ctx context.Context, fn func(stoabs.WriteTx) error, opts ...stoabs.TxOption) error {
	f.mu.Lock()
	hit := f.armed > 0
	if hit {
		f.armed--
		f.hits++
	}
	f.mu.Unlock()
	if hit {
		return stoabs.DatabaseError(errInjected)
	}
	return f.KVStore.Write(ctx, fn, opts...)
}

func (f *faultKV) arm(k int) {
	f.mu.Lock()
	f.armed = k
	f.mu.Unlock()
}

func (f *faultKV) pending() int {
	f.mu.Lock()
	defer f.mu.Unlock()
	return f.armed
}

// simulated connections: Send only queues; the simulator's goroutine moves the queue into the network
type fakeConn struct {
	grpc.Connection
	sim       *sim
	owner, to string
	peer      transport.Peer
}

func (c *fakeConn) Send(_ grpc.Protocol, envelope interface{}, _ bool) error {
	c.sim.inMu.Lock()
	c.sim.inbox = append(c.sim.inbox, &inflight{from: c.owner, to: c.to, env: envelope.(*v2.Envelope)})
	c.sim.inMu.Unlock()
	return nil
}
func (c *fakeConn) Peer() transport.Peer  { return c.peer }
func (c *fakeConn) IsConnected() bool     { return true }
func (c *fakeConn) IsAuthenticated() bool { return c.peer.Authenticated }

type connList struct {
	mu    sync.Mutex
	conns []*fakeConn
}

func (l *connList) snapshot() []*fakeConn {
	l.mu.Lock()
	defer l.mu.Unlock()
	return append([]*fakeConn{}, l.conns...)
}
func match(c *fakeConn, query []grpc.Predicate) bool {
	for _, q := range query {
		if !q.Match(c) {
			return false
		}
	}
	return true
}
func (l *connList) Get(query ...grpc.Predicate) grpc.Connection {
	for _, c := range l.snapshot() {
		if match(c, query) {
			return c
		}
	}
	return nil
}
func (l *connList) All() []grpc.Connection {
	var out []grpc.Connection
	for _, c := range l.snapshot() {
		out = append(out, c)
	}
	return out
}
func (l *connList) AllMatching(query ...grpc.Predicate) []grpc.Connection {
	var out []grpc.Connection
	for _, c := range l.snapshot() {
		if match(c, query) {
			out = append(out, c)
		}
	}
	return out
}

type registrar struct{}

func (registrar) RegisterService(*grpcLib.ServiceDesc, interface{}) {}

// connMgr stands in for the gRPC connection manager: Start registers the protocols exactly as
// grpcConnectionManager.Start does.
type connMgr struct {
	n         *network.Network
	list      *connList
	observers []transport.StreamStateObserverFunc
}

func (m *connMgr) Connect(string, did.DID, *time.Duration) {}
func (m *connMgr) Peers() []transport.Peer {
	var out []transport.Peer
	for _, c := range m.list.snapshot() {
		out = append(out, c.peer)
	}
	return out
}
func (m *connMgr) Contacts() []transport.Contact { return nil }
func (m *connMgr) RegisterObserver(cb transport.StreamStateObserverFunc) {
	m.observers = append(m.observers, cb)
}
func (m *connMgr) Start() error {
	for _, p := range network.VerifProtocols(m.n) {
		p.(grpc.Protocol).Register(registrar{}, func(grpcLib.ServerStream) error { return nil }, m.list, m)
	}
	return nil
}
func (m *connMgr) Stop()                                {}
func (m *connMgr) Diagnostics() []core.DiagnosticResult { return nil }

func (m *connMgr) setPeer(c *fakeConn, state transport.StreamState) {
	m.list.mu.Lock()
	kept := m.list.conns[:0:0]
	for _, x := range m.list.conns {
		if x.to != c.to {
			kept = append(kept, x)
		}
	}
	if state == transport.StateConnected {
		kept = append(kept, c)
	}
	m.list.conns = kept
	m.list.mu.Unlock()
	for _, p := range network.VerifProtocols(m.n) {
		for _, o := range m.observers {
			o(c.peer, state, p)
		}
	}
}

// ------------------------------------------------------------------- decorated network.Transactions

// netDeco is what the ambassador and the manager get as their network client: the REAL engine; only Subscribe is
// decorated so that every call of the ambassador's receiver (first delivery, in-process retry, start-up replay) and
// its answer are recorded.
type netDeco struct {
	network.Transactions
	n *node
}

func (d *netDeco) Subscribe(name string, recv dag.ReceiverFn, opts ...network.SubscriberOption) error {
	wrapped := func(ev dag.Event) (bool, error) {
		ok, err := recv(ev)
		d.n.onHandle(name, ev, ok, err)
		return ok, err
	}
	return d.Transactions.Subscribe(name, wrapped, opts...)
}

// ---------------------------------------------------------------------------------------------- node

// identity of a node that outlives its incarnations (and, to save time, the scripts of one driver process)
type identity struct {
	keys *nutsCrypto.Crypto
	db   *gorm.DB
}

type node struct {
	s        *sim
	name     string
	dir      string
	id       *identity
	up       bool
	starting bool
	fault    *faultKV
	dagDB    stoabs.KVStore
	didDB    stoabs.KVStore
	net      *network.Network
	client   *netDeco
	store    didstore.Store
	amb      didnuts.Ambassador
	mgr      *didnuts.Manager
	cm       *connMgr
	proto    transport.Protocol
	armed    int // write failures that stay armed across a restart
}

func (n *node) open() error {
	var err error
	if n.dagDB, err = bbolt.CreateBBoltStore(filepath.Join(n.dir, "dag.db"), stoabs.WithNoSync()); err != nil {
		return err
	}
	if n.didDB, err = bbolt.CreateBBoltStore(filepath.Join(n.dir, "dids.db"), stoabs.WithNoSync()); err != nil {
		return err
	}
	n.fault = &faultKV{KVStore: n.didDB, armed: n.armed}
	n.store = didstore.New(&storage.StaticKVStoreProvider{Store: n.fault})
	if err = n.store.(core.Configurable).Configure(core.ServerConfig{}); err != nil {
		return err
	}
	cfg := network.DefaultConfig()
	cfg.GrpcAddr = ""
	cfg.EnableDiscovery = false
	cfg.ProtocolV2 = v2.Config{GossipInterval: 3600 * 1000, DiagnosticsInterval: 0, PayloadRetryDelay: time.Hour}
	n.net = network.NewNetworkInstance(cfg, n.store, n.id.keys, newFakeEvents(), &storage.StaticKVStoreProvider{Store: n.dagDB}, nil)
	n.cm = &connMgr{n: n.net, list: &connList{}}
	network.VerifSetConnectionManager(n.net, n.cm)
	sc := core.NewServerConfig()
	sc.Strictmode = false
	sc.Datadir = n.dir
	if err = n.net.Configure(*sc); err != nil {
		return err
	}
	n.client = &netDeco{Transactions: n.net, n: n}
	// wired as vdr.Module.Configure / Start do
	n.amb = didnuts.NewAmbassador(n.client, n.store, noEvents{})
	_ = n.amb.Configure()
	_ = n.amb.Start() // registers the "vdr" subscriber; the REPROCESS part fails (no NATS) and is not modelled
	n.mgr = didnuts.NewManager(n.id.keys, n.client, n.store, &didnuts.Resolver{Store: n.store}, n.id.db)
	n.starting = true
	err = n.net.Start() // state.Start: the persistent notifiers replay the jobs left on their shelves
	n.starting = false
	if err != nil {
		return err
	}
	ps := network.VerifProtocols(n.net)
	if len(ps) != 1 || ps[0].Version() != 2 {
		return fmt.Errorf("expected exactly the v2 protocol, got %d protocols", len(ps))
	}
	n.proto = ps[0]
	n.up = true
	return nil
}

func (n *node) close() {
	if !n.up {
		return
	}
	n.up = false
	n.armed = n.fault.pending()
	_ = n.net.Shutdown()
	_ = n.dagDB.Close(context.Background())
	_ = n.didDB.Close(context.Background())
}

func (n *node) hasTx(ref hash.SHA256Hash) bool {
	tx, err := n.net.GetTransaction(ref)
	return err == nil && tx != nil
}

func (n *node) resolve(id did.DID, md *resolver.ResolveMetadata) (*did.Document, *resolver.DocumentMetadata, error) {
	return n.store.Resolve(id, md)
}

// ------------------------------------------------------------------------------------- identities

var (
	idMu       sync.Mutex
	identities = map[string]*identity{}
)

func identityOf(t *testing.T, name string) *identity {
	idMu.Lock()
	defer idMu.Unlock()
	if id, ok := identities[name]; ok {
		return id
	}
	db := orm.NewTestDatabase(t)
	id := &identity{keys: nutsCrypto.NewDatabaseCryptoInstance(db), db: db}
	identities[name] = id
	return id
}
