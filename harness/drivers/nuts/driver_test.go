// Driver for Nuts.tla (X09): the end-to-end composition
//   subject operation on a node (real didnuts.Manager -> real Network.CreateTransaction) -> that node's DAG
//   -> gossip / set reconciliation of the real v2 protocol over simulated connections -> the peers' DAGs
//   -> their persistent "vdr" subscriber (real dag notifier -> real ambassador) -> their did stores -> Resolve.
// A script is a behaviour of Nuts.tla (environment choices only). Every run records one event per spec action and an
// observation of every running node after every step; a self-contained oracle evaluates E1..E4 on the observations.
package nuts

import (
	"bufio"
	"context"
	"encoding/json"
	"errors"
	"fmt"
	"io"
	"os"
	"path/filepath"
	"sort"
	"strings"
	"sync"
	"testing"
	"time"

	ssi "github.com/nuts-foundation/go-did"
	"github.com/nuts-foundation/go-did/did"
	"github.com/nuts-foundation/nuts-node/audit"
	"github.com/nuts-foundation/nuts-node/crypto/hash"
	"github.com/nuts-foundation/nuts-node/network"
	"github.com/nuts-foundation/nuts-node/network/dag"
	"github.com/nuts-foundation/nuts-node/network/transport"
	v2 "github.com/nuts-foundation/nuts-node/network/transport/v2"
	"github.com/nuts-foundation/nuts-node/storage/orm"
	"github.com/nuts-foundation/nuts-node/vdr/didnuts"
	"github.com/nuts-foundation/nuts-node/vdr/resolver"
	"github.com/sirupsen/logrus"
)

// ------------------------------------------------------------------------------------------ input

type step map[string]any

func (s step) str(k string) string { v, _ := s[k].(string); return v }
func (s step) num(k string) int {
	if f, ok := s[k].(float64); ok {
		return int(f)
	}
	return 0
}
func (s step) boolean(k string) bool { v, _ := s[k].(bool); return v }

type script struct {
	ID      string `json:"id"`
	Steps   []step `json:"steps"`
	Corrupt string `json:"corrupt,omitempty"` // binding demonstration: falsify one recorded field
}

type input struct {
	Nodes   []string `json:"nodes"`
	Owners  []string `json:"owners"`
	Rogue   string   `json:"rogue"`
	Scripts []script `json:"scripts"`
}

type violation struct {
	Prop   string `json:"prop"`
	Kind   string `json:"kind"`
	Cause  string `json:"cause"`
	Detail string `json:"detail"`
	Step   int    `json:"step"`
}

type result struct {
	ID         string           `json:"id"`
	Violations []violation      `json:"violations"`
	Drift      []string         `json:"drift"`
	Error      string           `json:"error,omitempty"`
	Trace      []map[string]any `json:"trace"`
	Stats      map[string]int   `json:"stats"`
	Checks     int              `json:"checks"`
}

// ---------------------------------------------------------------------------------- transactions

type atx struct {
	id      int
	ref     hash.SHA256Hash
	tx      dag.Transaction
	kind    string
	by      string
	key     string
	docprev []int
	dprev   []int
	content []string
	deact   bool
	auth    bool
	acked   bool
	head    int
	ord     int
	blind   bool // created on a node that had a deactivation of X on its DAG which its did store had not applied, or on top of a version merged with a deactivation
}

type inflight struct {
	from, to string
	env      *v2.Envelope
}

type rawHandle struct {
	node string
	ref  hash.SHA256Hash
	mode string
	res  string
	err  string
}

type sim struct {
	t      *testing.T
	in     input
	dir    string
	res    *result
	nodes  map[string]*node
	order  []string
	inMu   sync.Mutex
	inbox  []*inflight
	net    []*inflight
	hMu    sync.Mutex
	raw    []rawHandle
	called map[string]map[hash.SHA256Hash]bool // node -> refs whose handler was called in an earlier call
	replay map[string]map[hash.SHA256Hash]bool // node -> refs replayed during the current start
	imm    map[string]bool                     // node/ref -> the notifier's immediate retry attempt is still to come
	last   map[string]map[hash.SHA256Hash]string
	txs    []*atx // by id; 0 = genesis (creation of the rogue DID Y)
	byRef  map[hash.SHA256Hash]*atx
	x      did.DID // the subject DID under test
	y      did.DID
	yKid   string
	keyOf  map[string]string // kid -> abstract key name
	step   int
	t0     int64
	tracing bool
	wasDeact map[string]bool // E4: the node has answered "deactivated"
	from   string             // peer of the exchange that is running
}

func (s *sim) viol(prop, kind, detail string) {
	for _, v := range s.res.Violations {
		if v.Prop == prop && v.Kind == kind {
			return
		}
	}
	s.res.Violations = append(s.res.Violations, violation{prop, kind, "", detail, s.step})
}

func (s *sim) drift(f string, a ...any) {
	if len(s.res.Drift) < 20 {
		s.res.Drift = append(s.res.Drift, fmt.Sprintf("step %d: ", s.step)+fmt.Sprintf(f, a...))
	}
}

func (s *sim) emit(ev map[string]any) {
	if s.tracing {
		s.res.Trace = append(s.res.Trace, ev)
	}
}

// onHandle is called by the decorated Subscribe after every call of the ambassador's receiver.
func (n *node) onHandle(name string, ev dag.Event, ok bool, err error) {
	if name != "vdr" {
		return
	}
	s := n.s
	s.hMu.Lock()
	defer s.hMu.Unlock()
	res := "ok"
	if err != nil || !ok {
		res = "retry"
		if errors.As(err, new(dag.EventFatal)) {
			res = "fatal"
		}
	}
	mode := "first"
	key := n.name + "/" + ev.Hash.String()
	switch {
	case !s.called[n.name][ev.Hash]:
		mode = "first"
	case n.starting && !s.replay[n.name][ev.Hash]:
		mode = "replay"
	default:
		mode = "retry"
	}
	s.called[n.name][ev.Hash] = true
	if n.starting {
		s.replay[n.name][ev.Hash] = true
	}
	if mode == "retry" {
		delete(s.imm, key)
	} else if res == "retry" {
		s.imm[key] = true // the notifier starts its retry goroutine, whose first attempt follows at once
	}
	s.last[n.name][ev.Hash] = res
	text := ""
	if err != nil {
		text = err.Error()
	}
	s.raw = append(s.raw, rawHandle{n.name, ev.Hash, mode, res, text})
}

// settle waits for the immediate retry attempts that are under way.
func (s *sim) settle() {
	deadline := time.Now().Add(4 * time.Second)
	for {
		s.hMu.Lock()
		k := len(s.imm)
		s.hMu.Unlock()
		if k == 0 {
			return
		}
		if time.Now().After(deadline) {
			s.drift("an immediate retry attempt did not come within 4 s")
			s.hMu.Lock()
			s.imm = map[string]bool{}
			s.hMu.Unlock()
			return
		}
		time.Sleep(200 * time.Microsecond)
	}
}

// flush turns the recorded receiver calls into trace events. The calls for `own` (the transaction an operation just
// created, on the creating node) are returned instead: they are part of the operation's event.
func (s *sim) flush(ownNode string, own hash.SHA256Hash) []rawHandle {
	s.hMu.Lock()
	raw := s.raw
	s.raw = nil
	s.hMu.Unlock()
	var mine []rawHandle
	for _, h := range raw {
		if h.node == ownNode && h.ref.Equals(own) && h.mode == "first" {
			mine = append(mine, h)
			continue
		}
		t := s.byRef[h.ref]
		if t == nil {
			if s.tracing {
				s.drift("receiver of %s called for a transaction nobody created (%s)", h.node, h.ref.String()[:8])
			}
			continue
		}
		if t.id == 0 {
			continue
		}
		s.res.Stats["handle-"+h.mode+"-"+h.res]++
		s.emit(map[string]any{"ev": "handle", "n": h.node, "t": t.id, "mode": h.mode, "res": h.res, "from": s.from, "err": h.err})
	}
	return mine
}

// ---------------------------------------------------------------------------------------- set-up

func newSim(t *testing.T, in input, res *result) (*sim, error) {
	s := &sim{t: t, in: in, dir: t.TempDir(), res: res, nodes: map[string]*node{}, called: map[string]map[hash.SHA256Hash]bool{},
		replay: map[string]map[hash.SHA256Hash]bool{}, imm: map[string]bool{}, last: map[string]map[hash.SHA256Hash]string{},
		byRef: map[hash.SHA256Hash]*atx{}, keyOf: map[string]string{}, wasDeact: map[string]bool{}, t0: time.Now().Unix() - 5}
	for _, name := range in.Nodes {
		n := &node{s: s, name: name, dir: filepath.Join(s.dir, name), id: identityOf(t, name)}
		if err := os.MkdirAll(n.dir, 0o755); err != nil {
			return nil, err
		}
		s.called[name] = map[hash.SHA256Hash]bool{}
		s.replay[name] = map[hash.SHA256Hash]bool{}
		s.last[name] = map[hash.SHA256Hash]string{}
		s.nodes[name] = n
		s.order = append(s.order, name)
		if err := n.open(); err != nil {
			return nil, fmt.Errorf("node %s: %w", name, err)
		}
	}
	for _, a := range s.order {
		for _, b := range s.order {
			if a != b {
				s.link(a, b)
			}
		}
	}
	// genesis: the rogue party's own DID Y is created on its node (root of the DAG) and reaches every node
	g := s.nodes[in.Rogue]
	ctx := audit.TestContext()
	sqlDoc, err := g.mgr.NewDocument(ctx, 0)
	if err != nil {
		return nil, err
	}
	if err := g.mgr.Commit(ctx, orm.DIDChangeLog{Type: orm.DIDChangeCreated, DIDDocumentVersion: *sqlDoc}); err != nil {
		return nil, fmt.Errorf("genesis: %w", err)
	}
	s.y = did.MustParseDID(sqlDoc.DID.ID)
	s.yKid = sqlDoc.VerificationMethods[0].ID
	s.keyOf[s.yKid] = "KY"
	_, meta, err := g.resolve(s.y, nil)
	if err != nil {
		// created through the real manager and acknowledged, but the creating node itself does not resolve it: that is E3
		s.viol("X09", "acknowledged-update-lost", fmt.Sprintf("set-up: the DID created on node %s (Commit returned nil) is not resolvable on that very node: %v", in.Rogue, err))
		return s, fmt.Errorf("genesis not resolvable on its own node: %w", err)
	}
	gtx, err := g.net.GetTransaction(meta.SourceTransactions[0])
	if err != nil {
		return nil, err
	}
	t0 := &atx{id: 0, ref: gtx.Ref(), tx: gtx, kind: "genesis", by: in.Rogue, key: "KY", auth: true}
	s.txs = append(s.txs, t0)
	s.byRef[t0.ref] = t0
	for _, p := range s.order {
		if p != in.Rogue {
			s.exchange(in.Rogue, p, nil, 0, false)
			if !s.nodes[p].hasTx(t0.ref) {
				// the REAL protocol between two healthy, connected nodes did not transfer one transaction: that is E1
				s.viol("X09", "no-convergence", fmt.Sprintf("set-up: node %s never obtained the root transaction of node %s (3 complete gossip exchanges)", p, in.Rogue))
				return s, fmt.Errorf("set-up: node %s did not obtain the genesis transaction", p)
			}
		}
	}
	s.settle()
	s.flush("", hash.EmptyHash())
	s.tracing = true
	return s, nil
}

func (s *sim) link(a, b string) {
	n := s.nodes[a]
	c := &fakeConn{sim: s, owner: a, to: b, peer: transport.Peer{ID: transport.PeerID(b), Address: b + ":5555"}}
	n.cm.setPeer(c, transport.StateConnected)
}

func (s *sim) unlink(a, b string) {
	n := s.nodes[a]
	c := &fakeConn{sim: s, owner: a, to: b, peer: transport.Peer{ID: transport.PeerID(b), Address: b + ":5555"}}
	n.cm.setPeer(c, transport.StateDisconnected)
}

func (s *sim) connOf(owner, to string) *fakeConn {
	for _, c := range s.nodes[owner].cm.list.snapshot() {
		if c.to == to {
			return c
		}
	}
	return nil
}

func (s *sim) close() {
	for _, n := range s.nodes {
		n.close()
	}
}

// ------------------------------------------------------------------------------ simulated network

func (s *sim) pump() {
	s.inMu.Lock()
	in := s.inbox
	s.inbox = nil
	s.inMu.Unlock()
	for _, m := range in {
		if _, diag := m.env.Message.(*v2.Envelope_DiagnosticsBroadcast); diag {
			continue
		}
		s.net = append(s.net, m)
	}
}

func (s *sim) deliver(m *inflight) {
	n := s.nodes[m.to]
	if n == nil || !n.up {
		return
	}
	conn := s.connOf(m.to, m.from)
	if conn == nil {
		return
	}
	func() {
		defer func() {
			if r := recover(); r != nil {
				s.viol("X09", "panic", fmt.Sprintf("handler on %s panicked: %v", m.to, r))
			}
		}()
		_ = v2.VerifHandleSync(n.proto, conn, m.env)
	}()
	s.res.Stats["delivered"]++
	s.pump()
}

// only keeps, of a TransactionList, the one transaction the step is about (the rest of the list is lost)
func filterList(e *v2.Envelope, only hash.SHA256Hash) *v2.Envelope {
	l, ok := e.Message.(*v2.Envelope_TransactionList)
	if !ok {
		return e
	}
	var keep []*v2.Transaction
	for _, t := range l.TransactionList.Transactions {
		if tx, err := dag.ParseTransaction(t.Data); err == nil && tx.Ref().Equals(only) {
			keep = append(keep, t)
		}
	}
	return &v2.Envelope{Message: &v2.Envelope_TransactionList{TransactionList: &v2.TransactionList{
		ConversationID: l.TransactionList.ConversationID, TotalMessages: l.TransactionList.TotalMessages,
		MessageNumber: l.TransactionList.MessageNumber, Transactions: keep}}}
}

// exchange lets p learn from q through the real protocol: q's gossip tick, then every message between the two is
// delivered in order until they fall silent; open conversations time out afterwards. only: just that transaction of
// the lists arrives; loseAt: the k-th message of the exchange is lost; dup: every message to p is delivered twice.
func (s *sim) exchange(q, p string, only *hash.SHA256Hash, loseAt int, dup bool) {
	Q, P := s.nodes[q], s.nodes[p]
	if !Q.up || !P.up {
		return
	}
	s.pump()
	s.net = nil
	s.from = q
	count := 0
	for round := 0; round < 3; round++ {
		if c := s.connOf(q, p); c != nil {
			v2.VerifGossipTick(Q.proto, c.peer)
		}
		s.pump()
		for i := 0; len(s.net) > 0 && i < 60; i++ {
			m := s.net[0]
			s.net = s.net[1:]
			if !((m.from == q && m.to == p) || (m.from == p && m.to == q)) {
				continue
			}
			count++
			if count == loseAt {
				s.res.Stats["lost"]++
				continue
			}
			if only != nil && m.to == p {
				m = &inflight{from: m.from, to: m.to, env: filterList(m.env, *only)}
			}
			s.deliver(m)
			if dup && m.to == p {
				s.res.Stats["duplicated"]++
				s.deliver(m)
			}
		}
		for _, n := range []*node{P, Q} {
			v2.VerifExpire(n.proto, func(v2.VerifConversation) bool { return true })
		}
		s.pump()
		s.net = nil
		if loseAt > 0 || (only != nil && P.hasTx(*only)) {
			break
		}
		if only == nil && s.sameDag(Q, P) {
			break
		}
	}
	s.settle()
	s.flush("", hash.EmptyHash())
	s.from = ""
}

func (s *sim) sameDag(q, p *node) bool {
	for _, t := range s.txs {
		if q.hasTx(t.ref) && !p.hasTx(t.ref) {
			return false
		}
	}
	return true
}

// --------------------------------------------------------------------------------- abstraction

func (s *sim) elements(doc *did.Document) []string {
	out := []string{}
	for _, vm := range doc.VerificationMethod {
		k := s.keyOf[vm.ID.String()]
		if k == "" {
			k = "?" + vm.ID.Fragment
		}
		out = append(out, k)
	}
	for _, svc := range doc.Service {
		out = append(out, svc.Type)
	}
	sort.Strings(out)
	return out
}

func (s *sim) capInv(doc *did.Document) map[string]bool {
	out := map[string]bool{}
	for _, r := range doc.CapabilityInvocation {
		out[r.ID.String()] = true
	}
	return out
}

func (s *sim) ids(refs []hash.SHA256Hash) []int {
	out := []int{}
	for _, r := range refs {
		if t := s.byRef[r]; t != nil {
			out = append(out, t.id)
		} else {
			out = append(out, -1)
		}
	}
	sort.Ints(out)
	return out
}

// register enters a transaction a node has just created into the table (reference notions computed from the REAL
// transaction and payload, independently of the model).
func (s *sim) register(n *node, tx dag.Transaction, kind string) *atx {
	payload, _ := n.net.GetTransactionPayload(tx.Ref())
	var doc did.Document
	_ = json.Unmarshal(payload, &doc)
	t := &atx{id: len(s.txs), ref: tx.Ref(), tx: tx, kind: kind, by: n.name, content: s.elements(&doc), docprev: []int{}, dprev: []int{}}
	t.deact = len(doc.Controller) == 0 && len(doc.CapabilityInvocation) == 0
	kid := tx.SigningKeyID()
	if tx.SigningKey() != nil {
		kid = tx.SigningKey().KeyID()
	}
	t.key = s.keyOf[kid]
	if t.key == "" {
		t.key = "?"
	}
	signer := kid
	t.ord = int(tx.SigningTime().Unix()-s.t0)*65536 + int(tx.Ref().Slice()[0])*256 + int(tx.Ref().Slice()[1])
	for i, r := range tx.Previous() {
		p := s.byRef[r]
		if p == nil {
			continue
		}
		if i == 0 {
			t.head = p.id
		}
		t.dprev = append(t.dprev, p.id)
		if p.id > 0 {
			t.docprev = append(t.docprev, p.id)
			// authorised: the signing key is a capability invocation key of a version the transaction builds on
			pp, _ := n.net.GetTransactionPayload(r)
			var pd did.Document
			if json.Unmarshal(pp, &pd) == nil && s.capInv(&pd)[signer] {
				t.auth = true
			}
		}
	}
	if kind == "create" {
		t.auth = true
	}
	sort.Ints(t.dprev)
	sort.Ints(t.docprev)
	s.txs = append(s.txs, t)
	s.byRef[t.ref] = t
	return t
}

// ------------------------------------------------------------------------------------ operations

func (s *sim) current(n *node) (*did.Document, *resolver.DocumentMetadata, error) {
	if s.x.Empty() {
		return nil, nil, resolver.ErrNotFound
	}
	return n.resolve(s.x, &resolver.ResolveMetadata{AllowDeactivated: true})
}

// latestTx finds the transaction the node created last (head of its DAG after a successful operation).
func (s *sim) newTx(n *node, before map[hash.SHA256Hash]bool) dag.Transaction {
	var found dag.Transaction
	txs, _ := network.VerifState(n.net).FindBetweenLC(context.Background(), 0, dag.MaxLamportClock)
	for _, tx := range txs {
		if !before[tx.Ref()] && s.byRef[tx.Ref()] == nil {
			found = tx
		}
	}
	return found
}

func (s *sim) op(st step) {
	n := s.nodes[st.str("n")]
	kind := st.str("kind")
	ctx := audit.TestContext()
	if n == nil || !n.up {
		s.drift("operation on a node that is not running")
		return
	}
	before := map[hash.SHA256Hash]bool{}
	txs, _ := network.VerifState(n.net).FindBetweenLC(context.Background(), 0, dag.MaxLamportClock)
	for _, tx := range txs {
		before[tx.Ref()] = true
	}
	var err error
	extra := map[string]any{}
	switch kind {
	case "create":
		var sqlDoc *orm.DidDocument
		if sqlDoc, err = n.mgr.NewDocument(ctx, 0); err == nil {
			s.keyOf[sqlDoc.VerificationMethods[0].ID] = "K" + n.name
			if err = n.mgr.Commit(ctx, orm.DIDChangeLog{Type: orm.DIDChangeCreated, DIDDocumentVersion: *sqlDoc}); err == nil {
				s.x = did.MustParseDID(sqlDoc.DID.ID)
			}
		}
	case "addkey":
		m := s.nodes[st.str("m")]
		extra["m"] = st.str("m")
		var doc *did.Document
		if doc, _, err = s.current(n); err == nil {
			var vm *did.VerificationMethod
			if vm, err = didnuts.CreateNewVerificationMethodForDID(ctx, s.x, m.id.keys); err == nil {
				s.keyOf[vm.ID.String()] = "K" + m.name
				next := *doc
				next.AddAssertionMethod(vm)
				next.AddCapabilityInvocation(vm)
				err = n.mgr.Update(ctx, s.x, next)
			}
		}
	case "service":
		var doc *did.Document
		if doc, _, err = s.current(n); err == nil {
			next := *doc
			next.Service = append(append([]did.Service{}, doc.Service...), did.Service{
				ID: ssi.MustParseURI(s.x.String() + "#svc-" + strings.ToLower(n.name)), Type: "S" + n.name,
				ServiceEndpoint: "https://" + strings.ToLower(n.name) + ".example.com/x"})
			err = n.mgr.Update(ctx, s.x, next)
		}
	case "deactivate":
		err = n.mgr.Deactivate(ctx, s.x)
	case "forge":
		// the rogue party (holder of the key of ITS OWN DID Y) publishes a new version of X
		var doc *did.Document
		var meta *resolver.DocumentMetadata
		if doc, meta, err = s.current(n); err == nil {
			next := *doc
			next.Service = append(append([]did.Service{}, doc.Service...), did.Service{
				ID: ssi.MustParseURI(s.x.String() + "#evil"), Type: "evil", ServiceEndpoint: "https://evil.example.com/x"})
			payload, _ := json.Marshal(next)
			prevs := append(append([]hash.SHA256Hash{}, meta.SourceTransactions...), s.txs[0].ref)
			_, err = n.net.CreateTransaction(ctx, network.TransactionTemplate(didnuts.DIDDocumentType, payload, s.yKid).WithAdditionalPrevs(prevs))
		}
	case "react":
		// a key holder publishes a fresh version with its key on top of a deactivated document (no manager would)
		var doc *did.Document
		var meta *resolver.DocumentMetadata
		if doc, meta, err = s.current(n); err == nil {
			var kid string
			for _, vm := range doc.VerificationMethod {
				if s.keyOf[vm.ID.String()] == "K"+n.name {
					kid = vm.ID.String()
				}
			}
			if kid == "" {
				err = errors.New("no key of this node in the document")
			} else {
				next := did.Document{Context: doc.Context, ID: s.x}
				for _, vm := range doc.VerificationMethod {
					if vm.ID.String() == kid {
						next.AddAssertionMethod(vm)
						next.AddCapabilityInvocation(vm)
					}
				}
				payload, _ := json.Marshal(next)
				_, err = n.net.CreateTransaction(ctx, network.TransactionTemplate(didnuts.DIDDocumentType, payload, kid).WithAdditionalPrevs(meta.SourceTransactions))
			}
		}
	default:
		s.drift("unknown operation %s", kind)
		return
	}
	s.settle()
	tx := s.newTx(n, before)
	if tx == nil {
		s.flush("", hash.EmptyHash())
		text := ""
		if err != nil {
			text = err.Error()
		}
		s.res.Stats["opfail-"+kind]++
		s.emit(map[string]any{"ev": "opfail", "n": n.name, "kind": kind, "err": text})
		return
	}
	t := s.register(n, tx, kind)
	t.acked = err == nil && kind != "forge" && kind != "react"
	self := "none"
	for _, h := range s.flush(n.name, t.ref) {
		self = h.res
	}
	s.res.Stats["op-"+kind]++
	// classification for the known findings: the operation was made next to a deactivation the node's did store did not show
	view := s.observe(n)
	for _, d := range s.txs[1:] {
		if d.deact && d.id != t.id && has(view.Dag, d.id) && !has(t.docprev, d.id) {
			t.blind = true // a deactivation is on the creator's DAG but the new version does not build on it
		}
		if d.deact && d.id != t.id && has(t.dprev, d.id) && kind != "react" {
			t.blind = true // builds on a deactivation (as DAG head, or merged into the version it continues)
		}
	}
	if kind == "deactivate" {
		for _, u := range s.txs[1:] {
			if u.id != t.id && has(view.Dag, u.id) && !has(view.Applied, u.id) && u.auth {
				t.blind = true
			}
		}
	}
	ev := map[string]any{"ev": "op", "n": n.name, "kind": kind, "t": t.id, "key": t.key, "docprev": t.docprev, "dprev": t.dprev, "head": t.head, "ord": t.ord, "lc": int(tx.Clock()),
		"content": t.content, "deact": t.deact, "acked": t.acked, "self": self, "auth": t.auth}
	for k, v := range extra {
		ev[k] = v
	}
	if err != nil {
		ev["err"] = err.Error()
	}
	s.emit(ev)
}

func (s *sim) stop(name string) {
	n := s.nodes[name]
	if n == nil || !n.up {
		return
	}
	s.settle()
	for _, p := range s.order {
		if p != name && s.nodes[p].up {
			s.unlink(p, name)
		}
	}
	n.close()
	s.hMu.Lock()
	for k := range s.imm {
		if strings.HasPrefix(k, name+"/") {
			delete(s.imm, k)
		}
	}
	s.hMu.Unlock()
	s.flush("", hash.EmptyHash())
	s.emit(map[string]any{"ev": "stop", "n": name})
}

func (s *sim) start(name string) {
	n := s.nodes[name]
	if n == nil || n.up {
		return
	}
	s.hMu.Lock()
	s.replay[name] = map[hash.SHA256Hash]bool{}
	s.hMu.Unlock()
	s.emit(map[string]any{"ev": "start", "n": name})
	if err := n.open(); err != nil {
		s.res.Error = fmt.Sprintf("restart of %s: %v", name, err)
		return
	}
	for _, p := range s.order {
		if p != name && s.nodes[p].up {
			s.link(name, p)
			s.link(p, name)
		}
	}
	s.settle()
	s.flush("", hash.EmptyHash())
	s.emit(map[string]any{"ev": "started", "n": name})
}

// -------------------------------------------------------------------------- observation + oracle

type view struct {
	Dag     []int    `json:"dag"`
	Applied []int    `json:"applied"`
	Found   bool     `json:"found"`
	Deact   bool     `json:"deact"`
	Active  bool     `json:"active"` // Resolve(X, nil) succeeds
	Doc     []string `json:"doc"`
	Src     []int    `json:"src"`
	raw     string
	meta    string
}

func (s *sim) observe(n *node) view {
	v := view{Dag: []int{}, Applied: []int{}, Doc: []string{}, Src: []int{}}
	for _, t := range s.txs {
		if n.hasTx(t.ref) {
			v.Dag = append(v.Dag, t.id)
		}
		if t.id > 0 && !s.x.Empty() {
			ref := t.ref
			if _, _, err := n.resolve(s.x, &resolver.ResolveMetadata{AllowDeactivated: true, SourceTransaction: &ref}); err == nil {
				v.Applied = append(v.Applied, t.id)
			}
		}
	}
	doc, meta, err := s.current(n)
	if err == nil {
		v.Found = true
		v.Deact = meta.Deactivated
		v.Doc = s.elements(doc)
		v.Src = s.ids(meta.SourceTransactions)
		b, _ := json.Marshal(doc)
		v.raw = string(b)
		srcs := []string{}
		for _, r := range meta.SourceTransactions {
			srcs = append(srcs, r.String())
		}
		sort.Strings(srcs)
		v.meta = fmt.Sprintf("hash=%s deact=%v created=%d updated=%v src=%v", meta.Hash, meta.Deactivated, meta.Created.Unix(), meta.Updated != nil && !meta.Updated.IsZero(), srcs)
		_, _, aerr := n.resolve(s.x, nil)
		v.Active = aerr == nil
	}
	return v
}

func has(xs []int, x int) bool {
	for _, y := range xs {
		if x == y {
			return true
		}
	}
	return false
}

// obs records what every running node shows and evaluates the step-wise statements (E2, E4) on it.
func (s *sim) obs() map[string]view {
	views := map[string]view{}
	ev := map[string]any{"ev": "obs"}
	nodes := map[string]any{}
	for _, name := range s.order {
		n := s.nodes[name]
		if !n.up {
			continue
		}
		v := s.observe(n)
		views[name] = v
		nodes[name] = v
		s.res.Checks++
		// E2: nothing resolvable that is not on the node's DAG, nothing that was not authorised
		for _, id := range v.Applied {
			if !has(v.Dag, id) {
				s.viol("X09", "resolves-version-not-on-dag", fmt.Sprintf("node %s resolves a version made by transaction t%d which is not on its DAG", name, id))
			}
			if !s.txs[id].auth {
				s.viol("X09", "unauthorised-version-resolvable", fmt.Sprintf("node %s resolves the version of transaction t%d (%s by %s, key %s), which no capability invocation key of the document it builds on signed", name, id, s.txs[id].kind, s.txs[id].by, s.txs[id].key))
			}
		}
		for _, id := range v.Src {
			if id < 0 || !has(v.Dag, id) {
				s.viol("X09", "resolves-version-not-on-dag", fmt.Sprintf("node %s: the resolved document names a source transaction that is not on its DAG", name))
			}
		}
		// E4: deactivated stays deactivated
		if v.Found && !v.Active {
			s.wasDeact[name] = true
		}
		if s.wasDeact[name] && v.Found && v.Active {
			s.viol("X09", "reactivated", fmt.Sprintf("node %s resolves the DID as active (%v) after it had resolved it as deactivated", name, v.Doc))
		}
		if v.Found && v.Active == v.Deact {
			s.viol("X09", "deactivated-flag-disagrees", fmt.Sprintf("node %s: metadata.Deactivated=%v but Resolve without AllowDeactivated %v", name, v.Deact, map[bool]string{true: "succeeds", false: "fails"}[v.Active]))
		}
	}
	ev["nodes"] = nodes
	s.emit(ev)
	return views
}

// fold is the reference: the canonical document of a set of transactions (the did store's algorithm as specified in
// DidStore.tla: events in (clock, signing time, ref) order; a version whose source transactions the next event does
// not name as previous is merged into it; deactivation is sticky).
func (s *sim) fold(set []*atx) ([]string, bool, []int) {
	sort.Slice(set, func(i, j int) bool {
		a, b := set[i].tx, set[j].tx
		if a.Clock() != b.Clock() {
			return a.Clock() < b.Clock()
		}
		if !a.SigningTime().Equal(b.SigningTime()) {
			return a.SigningTime().Before(b.SigningTime())
		}
		return a.Ref().Compare(b.Ref()) < 0
	})
	src := map[int]bool{}
	doc := map[string]bool{}
	deact := false
	for _, e := range set {
		un := []int{}
		for id := range src {
			if !has(e.dprev, id) {
				un = append(un, id)
			}
		}
		doc = map[string]bool{}
		for _, c := range e.content {
			doc[c] = true
		}
		for _, u := range un {
			for _, c := range s.txs[u].content {
				doc[c] = true
			}
		}
		src = map[int]bool{e.id: true}
		for _, u := range un {
			src[u] = true
		}
		deact = deact || e.deact
	}
	var d []string
	for c := range doc {
		d = append(d, c)
	}
	sort.Strings(d)
	var sr []int
	for id := range src {
		sr = append(sr, id)
	}
	sort.Ints(sr)
	return d, deact, sr
}

// ------------------------------------------------------------------------------------ fair suffix

func (s *sim) pendingJobs(name string) bool {
	s.hMu.Lock()
	defer s.hMu.Unlock()
	for _, r := range s.last[name] {
		if r == "retry" {
			return true
		}
	}
	return false
}

func (s *sim) suffix() {
	s.emit(map[string]any{"ev": "suffix"})
	for _, name := range s.order {
		n := s.nodes[name]
		if n.up && n.fault.pending() > 0 {
			n.fault.arm(0)
			s.emit(map[string]any{"ev": "arm", "n": name, "k": 0})
		}
		n.armed = 0
	}
	for _, name := range s.order {
		if !s.nodes[name].up {
			s.start(name)
			s.obs()
		}
	}
	for round := 0; round < 5; round++ {
		for _, q := range s.order {
			for _, p := range s.order {
				if p != q {
					s.exchange(q, p, nil, 0, false)
				}
			}
		}
		s.obs()
		// a job that waits for its back-off timer: the start-up replay of the notifier is the same code path
		again := false
		for _, name := range s.order {
			if s.pendingJobs(name) {
				again = true
				s.stop(name)
				s.start(name)
				s.obs()
			}
		}
		done := !again
		for _, q := range s.order {
			for _, p := range s.order {
				if !s.sameDag(s.nodes[q], s.nodes[p]) {
					done = false
				}
			}
		}
		if done {
			break
		}
	}
}

func (s *sim) final() {
	views := s.obs()
	var authSet []*atx
	for _, t := range s.txs[1:] {
		if t.auth {
			authSet = append(authSet, t)
		}
	}
	wantDoc, wantDeact, wantSrc := s.fold(authSet)
	var first *view
	firstName := ""
	for _, name := range s.order {
		v := views[name]
		// E3: every acknowledged operation is resolvable everywhere
		for _, t := range s.txs[1:] {
			if t.acked && !has(v.Applied, t.id) {
				s.viol("X09", "acknowledged-update-lost", fmt.Sprintf("t%d (%s on %s) was acknowledged to its caller but node %s does not resolve its version after the fair suffix (on its DAG: %v)", t.id, t.kind, t.by, name, has(v.Dag, t.id)))
			}
			if t.auth && !has(v.Dag, t.id) {
				s.viol("X09", "no-convergence", fmt.Sprintf("node %s never obtained t%d", name, t.id))
			}
		}
		// E1: same document and metadata everywhere, equal to the canonical fold of all published transactions
		if len(authSet) > 0 {
			if !v.Found {
				s.viol("X09", "no-convergence", fmt.Sprintf("node %s does not resolve the DID at all", name))
				continue
			}
			if fmt.Sprint(v.Doc) != fmt.Sprint(wantDoc) || v.Deact != wantDeact || fmt.Sprint(v.Src) != fmt.Sprint(wantSrc) {
				s.viol("X09", "not-the-canonical-document", fmt.Sprintf("node %s resolves %v deactivated=%v sources=%v; the canonical fold of the published transactions is %v deactivated=%v sources=%v", name, v.Doc, v.Deact, v.Src, wantDoc, wantDeact, wantSrc))
			}
			if first == nil {
				vv := v
				first, firstName = &vv, name
			} else if v.raw != first.raw || v.meta != first.meta {
				s.viol("X09", "nodes-disagree", fmt.Sprintf("%s and %s resolve different documents / metadata:\n%s | %s\n%s | %s", firstName, name, first.raw, first.meta, v.raw, v.meta))
			}
		}
	}
}

// --------------------------------------------------------------------------------------------- main

func (s *sim) run(sc script) {
	for i, st := range sc.Steps {
		s.step = i
		if s.res.Error != "" {
			return
		}
		switch st.str("a") {
		case "Op":
			s.op(st)
		case "Admit":
			id := st.num("t")
			p, q := st.str("p"), st.str("q")
			if id <= 0 || id >= len(s.txs) {
				s.drift("Admit of a transaction that does not exist here (t%d)", id)
				continue
			}
			if s.nodes[p].up && s.nodes[p].hasTx(s.txs[id].ref) {
				continue
			}
			ref := s.txs[id].ref
			s.exchange(q, p, &ref, 0, st.boolean("dup"))
		case "Sync":
			s.exchange(st.str("q"), st.str("p"), nil, 0, st.boolean("dup"))
		case "Lost":
			s.exchange(st.str("q"), st.str("p"), nil, 1+st.num("k"), false)
		case "Arm":
			n := s.nodes[st.str("n")]
			if n.up {
				n.fault.arm(st.num("k"))
				s.emit(map[string]any{"ev": "arm", "n": n.name, "k": st.num("k")})
			}
		case "Stop":
			s.stop(st.str("n"))
		case "Start":
			s.start(st.str("n"))
		case "Retry", "Replay", "Timer":
			s.settle()
			s.flush("", hash.EmptyHash())
			continue
		default:
			s.drift("unknown step %v", st)
			continue
		}
		s.obs()
	}
	s.step = len(sc.Steps)
	s.suffix()
	s.final()
	// the two open findings need a deactivation that is concurrent with (or unseen by the did store of the creator of) another version
	cause := ""
	for _, t := range s.txs[1:] {
		if t.blind {
			cause = "deactivation-concurrent-or-unapplied"
		}
	}
	for _, d := range s.txs[1:] {
		for _, u := range s.txs[1:] {
			if d.deact && u.id != d.id && !s.ancestor(d.id, u.id) && !s.ancestor(u.id, d.id) {
				cause = "deactivation-concurrent-or-unapplied"
			}
		}
	}
	for i := range s.res.Violations {
		switch s.res.Violations[i].Kind {
		case "acknowledged-update-lost", "nodes-disagree", "not-the-canonical-document", "no-convergence":
			s.res.Violations[i].Cause = cause
		}
	}
}

// ancestor: a is reachable from b through previous-transaction references
func (s *sim) ancestor(a, b int) bool {
	if a == b {
		return true
	}
	for _, p := range s.txs[b].dprev {
		if p > 0 && p < b && s.ancestor(a, p) {
			return true
		}
	}
	return false
}

func corrupt(res *result, how string) {
	if how == "" {
		return
	}
	for i, ev := range res.Trace {
		switch {
		case how == "handle-res" && ev["ev"] == "handle" && ev["res"] == "ok":
			res.Trace[i]["res"] = "fatal"
			return
		case how == "obs-doc" && ev["ev"] == "obs" && i > len(res.Trace)/2:
			for name, v := range ev["nodes"].(map[string]any) {
				vv := v.(view)
				if vv.Found {
					vv.Doc = append(append([]string{}, vv.Doc...), "evil")
					ev["nodes"].(map[string]any)[name] = vv
					return
				}
			}
		case how == "op-key" && ev["ev"] == "op" && ev["kind"] != "create":
			res.Trace[i]["key"] = "KY"
			return
		}
	}
}

func runOne(t *testing.T, in input, sc script) *result {
	res := &result{ID: sc.ID, Violations: []violation{}, Drift: []string{}, Trace: []map[string]any{}, Stats: map[string]int{}}
	done := make(chan struct{})
	go func() {
		defer close(done)
		s, err := newSim(t, in, res)
		if s != nil {
			defer s.close()
		}
		if err != nil {
			res.Error = err.Error()
			return
		}
		s.run(sc)
		corrupt(res, sc.Corrupt)
	}()
	select {
	case <-done:
	case <-time.After(90 * time.Second):
		return &result{ID: sc.ID, Error: "script timed out (a lock hand-over of go-stoabs can deadlock under CPU starvation)", Violations: []violation{}, Drift: []string{}, Trace: []map[string]any{}, Stats: map[string]int{}}
	}
	return res
}

func TestDriver(t *testing.T) {
	inPath, outPath := os.Getenv("VERIF_IN"), os.Getenv("VERIF_OUT")
	if inPath == "" {
		t.Skip("VERIF_IN not set")
	}
	logrus.SetLevel(logrus.PanicLevel)
	logrus.SetOutput(io.Discard)
	raw, err := os.ReadFile(inPath)
	if err != nil {
		t.Fatal(err)
	}
	var in input
	if err := json.Unmarshal(raw, &in); err != nil {
		t.Fatal(err)
	}
	out, err := os.Create(outPath)
	if err != nil {
		t.Fatal(err)
	}
	defer out.Close()
	bw := bufio.NewWriter(out)
	defer bw.Flush()
	enc := json.NewEncoder(bw)
	for _, sc := range in.Scripts {
		res := runOne(t, in, sc)
		if err := enc.Encode(res); err != nil {
			t.Fatal(err)
		}
		bw.Flush()
	}
}
