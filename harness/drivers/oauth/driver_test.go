// Package oauthdrv replays behaviours of spec/OAuth.tla on a whole in-process Nuts node (C02).
//
// The harness is the OAuth2 client / wallet: it owns did:jwk identities, issues credentials (own did:jwk issuer, and an
// issuer subject on the node for revocable StatusList2021 credentials), builds presentations in both proof formats with
// the defect flags of the behaviour, posts them to /oauth2/{subject}/token (vp_token-bearer and authorization_code) and
// /oauth2/{subject}/response, starts authorization-code sessions at the real /authorize endpoint (signed request object,
// PKCE), introspects the tokens through both introspection endpoints and evaluates the statement of C02 on what the node
// answered:
//   - a token for a request with a defect flag, a replayed presentation or a reused nonce/code is a violation;
//   - "active" for a token the node did not issue or that has expired is a violation;
//   - iss, client_id, scope, cnf, iat/exp and the claims of an active answer must be the ones established at issuance,
//     and no top-level member of the answer may carry a credential-derived value.
//
// Token expiry (15 min) is realised by moving the timestamps of the stored token back ("Age"); the presentation validity
// and nonce windows run in real time ("Tick").  One event per request is recorded for trace validation against
// spec/TraceOAuth.tla.  Nothing here decides what the node SHOULD answer for drift purposes: the expected answers come
// with the behaviour (fields res/stage of a step) and only produce DRIFT notes.
package oauthdrv

import (
	"bufio"
	"bytes"
	"context"
	"crypto"
	"crypto/ecdsa"
	"crypto/elliptic"
	"crypto/rand"
	"crypto/sha256"
	"encoding/base64"
	"encoding/json"
	"errors"
	"fmt"
	"io"
	"net/http"
	"net/url"
	"os"
	"path/filepath"
	"sort"
	"strings"
	"sync"
	"testing"
	"time"

	"github.com/google/uuid"
	"github.com/lestrrat-go/jwx/v2/jwa"
	"github.com/lestrrat-go/jwx/v2/jwk"
	"github.com/nuts-foundation/go-did/did"
	"github.com/nuts-foundation/go-did/vc"
	"github.com/nuts-foundation/nuts-node/audit"
	"github.com/nuts-foundation/nuts-node/core"
	nutsCrypto "github.com/nuts-foundation/nuts-node/crypto"
	"github.com/nuts-foundation/nuts-node/crypto/dpop"
	"github.com/nuts-foundation/nuts-node/jsonld"
	"github.com/nuts-foundation/nuts-node/storage"
	"github.com/nuts-foundation/nuts-node/test/node"
	"github.com/nuts-foundation/nuts-node/vcr"
	"github.com/nuts-foundation/nuts-node/vcr/holder"
	"github.com/nuts-foundation/nuts-node/vcr/pe"
	"github.com/nuts-foundation/nuts-node/vcr/signature"
	"github.com/nuts-foundation/nuts-node/vcr/signature/proof"
	"github.com/nuts-foundation/nuts-node/vdr/didjwk"
	"github.com/nuts-foundation/nuts-node/vdr/resolver"
	"github.com/piprate/json-gold/ld"
	"github.com/sirupsen/logrus"
)

// ------------------------------------------------------------------------------------------ input / output

type input struct {
	Mode     string                     `json:"mode"`      // "run" | "discover"
	Policy   map[string]json.RawMessage `json:"policy"`    // scope -> wallet owner mapping (written to the policy directory)
	Scripts  []script                   `json:"scripts"`   //
	Unit     float64                    `json:"unit"`      // seconds per Tick (5)
	TokenTTL int                        `json:"token_ttl"` // Age units per token lifetime
	Members  []string                   `json:"members"`   // top-level members the override scopes cover
	Mutant   string                     `json:"mutant"`    // binding demonstration: corrupt one observed field
}

type script struct {
	ID       string `json:"id"`
	Steps    []step `json:"steps"`
	Realtime bool   `json:"realtime"`
}

type step struct {
	A      string   `json:"a"`
	P      string   `json:"p"`
	D      []string `json:"d"`
	N      string   `json:"n"`
	Fmt    string   `json:"fmt"`
	Fut    int      `json:"fut"`
	Def    string   `json:"def"`
	Dpop   string   `json:"dpop"`
	Client string   `json:"client"`
	S      string   `json:"s"`
	T      string   `json:"t"`
	Tok    string   `json:"tok"`
	Res    string   `json:"res"`
	Stage  string   `json:"stage"`
	// concretisation chosen by the check (seeded)
	// the envelope: number of presentations, position (1..) of the one with the mapped credentials, position of the one
	// that carries the per-presentation defects; class of the audience of that presentation
	NVP   int            `json:"nvp"`
	Main  int            `json:"main"`
	Pos   int            `json:"pos"`
	AudV  string         `json:"audv"`
	VCFmt string         `json:"vcfmt"`
	Var   map[string]int `json:"var"`
	Ext   bool           `json:"ext"`
	PD2   bool           `json:"pd2"`
	// follow-up of an authorization request the node accepted for a scope nothing is configured for: the definition the
	// node itself asks for (fetched from presentation_definition_uri)
	defOverride *pe.PresentationDefinition
	// "badnonce" realised with the nonce of another live session instead of a nonce of nobody
	foreignNonce string
}

type violation struct {
	Prop   string                 `json:"prop"`
	Kind   string                 `json:"kind"`
	Sig    map[string]interface{} `json:"sig"`
	Detail string                 `json:"detail"`
	Step   int                    `json:"step"`
}

type result struct {
	ID         string                   `json:"id"`
	Error      string                   `json:"error,omitempty"`
	Violations []violation              `json:"violations"`
	Drift      []string                 `json:"drift"`
	Trace      []map[string]interface{} `json:"trace"`
	Observed   []map[string]interface{} `json:"observed"`
	Checks     int                      `json:"checks"`
	CleanOK    int                      `json:"clean_issued"`
	CleanFail  int                      `json:"clean_rejected"`
	Skipped    string                   `json:"skipped,omitempty"` // real-time script that missed its schedule (loaded machine): not judged
	Members    []string                 `json:"members,omitempty"`
}

// ------------------------------------------------------------------------------------------ world

type ident struct {
	key jwk.Key
	did did.DID
	kid string
}

func newIdent() *ident {
	k, err := nutsCrypto.GenerateJWK()
	if err != nil {
		panic(err)
	}
	pub, _ := k.PublicKey()
	pj, _ := json.Marshal(pub)
	d := did.MustParseDID("did:jwk:" + base64.RawStdEncoding.EncodeToString(pj))
	_ = k.Set(jwk.KeyIDKey, d.String()+"#0")
	return &ident{key: k, did: d, kid: d.String() + "#0"}
}

func (i *ident) signer() nutsCrypto.JWTSigner { return nutsCrypto.MemoryJWTSigner{Key: i.key} }

// withKid returns a signer that signs with this identity's key but claims the key id of another one ("wrong key")
func (i *ident) signerAs(kid string) nutsCrypto.JWTSigner {
	var raw interface{}
	_ = i.key.Raw(&raw)
	k2, _ := jwk.FromRaw(raw)
	_ = k2.Set(jwk.KeyIDKey, kid)
	_ = k2.Set(jwk.AlgorithmKey, jwa.ES256)
	return nutsCrypto.MemoryJWTSigner{Key: k2}
}

type dpopKey struct {
	priv *ecdsa.PrivateKey
	jkt  string
}

func newDPoPKey() *dpopKey {
	p, _ := ecdsa.GenerateKey(elliptic.P256(), rand.Reader)
	j, _ := jwk.FromRaw(p.Public())
	tp, _ := j.Thumbprint(crypto.SHA256)
	return &dpopKey{priv: p, jkt: base64.RawURLEncoding.EncodeToString(tp)}
}

type world struct {
	in       input
	internal string
	public   string
	system   *core.System
	http     *http.Client
	loader   ld.DocumentLoader
	sessions storage.SessionDatabase
	keyRes   resolver.KeyResolver
	ctx      context.Context

	h1, h2, hi *ident
	dk         map[string]*dpopKey
	issuerDID  string            // issuer subject on the node (did:web)
	clientDID  map[string]string // client subject -> did:web
	clientKid  map[string]string
	keyStore   nutsCrypto.KeyStore
	defs       map[string]pe.WalletOwnerMapping
	credMu     sync.Mutex
	creds      map[string]vc.VerifiableCredential
	orgName    string
	orgCity    string
	empName    string
	unit       time.Duration
	ageShift   time.Duration
	memberList []string
}

const (
	asSubject    = "as"
	otherSubject = "other"
	issuerSubj   = "issuer"
)

func (w *world) asURL() string               { return w.public + "/oauth2/" + asSubject }
func (w *world) clientID(c string) string    { return w.public + "/oauth2/" + clientSubject(c) }
func clientSubject(c string) string          { return "client-" + c }
func (w *world) s2sClientID(c string) string { return "https://client.example/oauth2/" + c }

func newWorld(t *testing.T, in input) *world {
	w := &world{in: in, dk: map[string]*dpopKey{}, creds: map[string]vc.VerifiableCredential{}, defs: map[string]pe.WalletOwnerMapping{},
		clientDID: map[string]string{}, clientKid: map[string]string{}}
	w.unit = time.Duration(in.Unit * float64(time.Second))
	if w.unit == 0 {
		w.unit = 5 * time.Second
	}
	ttl := in.TokenTTL
	if ttl <= 0 {
		ttl = 2
	}
	w.ageShift = time.Duration(900/ttl+1) * time.Second
	pdir := t.TempDir()
	pol, _ := json.Marshal(in.Policy)
	if err := os.WriteFile(filepath.Join(pdir, "verif.json"), pol, 0o644); err != nil {
		t.Fatal(err)
	}
	for scope, raw := range in.Policy {
		var m pe.WalletOwnerMapping
		if err := json.Unmarshal(raw, &m); err != nil {
			t.Fatalf("policy %s: %v", scope, err)
		}
		w.defs[scope] = m
	}
	w.internal, w.public, w.system = node.StartServer(t, func(_, _ string) {
		t.Setenv("NUTS_DIDMETHODS", "web")
		t.Setenv("NUTS_POLICY_DIRECTORY", pdir)
		t.Setenv("NUTS_AUTH_AUTHORIZATIONENDPOINT_ENABLED", "true")
		t.Setenv("NUTS_VERBOSITY", "panic")
		t.Setenv("NUTS_HTTP_LOG", "nothing")
		t.Setenv("NUTS_INTERNALRATELIMITER", "false")
	})
	w.http = &http.Client{Timeout: 20 * time.Second, CheckRedirect: func(*http.Request, []*http.Request) error { return http.ErrUseLastResponse }}
	w.loader = w.system.FindEngineByName("jsonld").(jsonld.JSONLD).DocumentLoader()
	w.sessions = w.system.FindEngineByName("storage").(storage.Engine).GetSessionDatabase()
	w.keyStore = w.system.FindEngineByName("crypto").(nutsCrypto.KeyStore)
	w.keyRes = resolver.DIDKeyResolver{Resolver: didjwk.NewResolver()}
	w.ctx = audit.TestContext()
	w.h1, w.h2, w.hi = newIdent(), newIdent(), newIdent()
	w.dk["k1"], w.dk["k2"] = newDPoPKey(), newDPoPKey()
	w.orgName, w.orgCity, w.empName = "ORG-"+uuid.NewString()[:8], "CITY-"+uuid.NewString()[:8], "EMP-"+uuid.NewString()[:8]
	// tenants whose ids extend this server's id / are a prefix of it (audience classes "extends", "prefix")
	for _, s := range []string{asSubject, otherSubject, asSubject + "2", asSubject + "-east", asSubject[:1], issuerSubj, clientSubject("c1"), clientSubject("c2")} {
		d, kid := w.createSubject(t, s)
		if s == issuerSubj {
			w.issuerDID = d
		}
		if strings.HasPrefix(s, "client-") {
			w.clientDID[s], w.clientKid[s] = d, kid
		}
	}
	return w
}

func (w *world) createSubject(t *testing.T, subject string) (string, string) {
	body, _ := json.Marshal(map[string]string{"subject": subject})
	resp, err := w.http.Post(w.internal+"/internal/vdr/v2/subject", "application/json", bytes.NewReader(body))
	if err != nil {
		t.Fatal(err)
	}
	defer resp.Body.Close()
	raw, _ := io.ReadAll(resp.Body)
	if resp.StatusCode != 200 {
		t.Fatalf("create subject %s: %d %s", subject, resp.StatusCode, raw)
	}
	var out struct {
		Documents []struct {
			ID              string        `json:"id"`
			AssertionMethod []interface{} `json:"assertionMethod"`
		} `json:"documents"`
	}
	if err := json.Unmarshal(raw, &out); err != nil || len(out.Documents) == 0 {
		t.Fatalf("create subject %s: %v %s", subject, err, raw)
	}
	kid := ""
	if len(out.Documents[0].AssertionMethod) > 0 {
		switch v := out.Documents[0].AssertionMethod[0].(type) {
		case string:
			kid = v
		case map[string]interface{}:
			kid, _ = v["id"].(string)
		}
	}
	return out.Documents[0].ID, kid
}

// ------------------------------------------------------------------------------------------ credentials

var vcContexts = []interface{}{"https://www.w3.org/2018/credentials/v1", "https://nuts.nl/credentials/v1"}

// harnessVC issues a credential with the harness' own did:jwk issuer. mutate may alter the JSON before signing.
func (w *world) harnessVC(format string, typ string, subject map[string]interface{}, issued time.Time, expires *time.Time) (vc.VerifiableCredential, error) {
	id := w.hi.did.String() + "#" + uuid.NewString()
	if format == "jwt" {
		claims := map[string]interface{}{
			"iss": w.hi.did.String(), "sub": subject["id"], "jti": id, "nbf": issued.Unix(),
			"vc": map[string]interface{}{"@context": vcContexts, "type": []string{"VerifiableCredential", typ}, "credentialSubject": subject},
		}
		if expires != nil {
			claims["exp"] = expires.Unix()
		}
		tok, err := w.hi.signer().SignJWT(w.ctx, claims, map[string]interface{}{"typ": "JWT"}, w.hi.kid)
		if err != nil {
			return vc.VerifiableCredential{}, err
		}
		c, err := vc.ParseVerifiableCredential(tok)
		if err != nil {
			return vc.VerifiableCredential{}, err
		}
		return *c, nil
	}
	doc := map[string]interface{}{
		"@context": vcContexts, "id": id, "type": []interface{}{"VerifiableCredential", typ}, "issuer": w.hi.did.String(),
		"issuanceDate": issued.UTC().Format(time.RFC3339), "credentialSubject": subject,
	}
	if expires != nil {
		doc["expirationDate"] = expires.UTC().Format(time.RFC3339)
	}
	signed, err := proof.NewLDProof(proof.ProofOptions{Created: issued}).Sign(w.ctx, doc,
		signature.JSONWebSignature2020{ContextLoader: w.loader, Signer: w.hi.signer()}, w.hi.kid)
	if err != nil {
		return vc.VerifiableCredential{}, err
	}
	raw, _ := json.Marshal(signed)
	c, err := vc.ParseVerifiableCredential(string(raw))
	if err != nil {
		return vc.VerifiableCredential{}, err
	}
	return *c, nil
}

func (w *world) orgSubject(h *ident, city bool) map[string]interface{} {
	org := map[string]interface{}{"name": w.orgName}
	if city {
		org["city"] = w.orgCity
	}
	return map[string]interface{}{"id": h.did.String(), "organization": org}
}

func (w *world) empSubject(h *ident) map[string]interface{} {
	return map[string]interface{}{"id": h.did.String(), "name": w.empName, "roleName": "nurse"}
}

// nodeVC lets the issuer subject on the node issue a revocable credential (StatusList2021) and optionally revokes it.
func (w *world) nodeVC(format string, h *ident, revoke bool, typ string) (vc.VerifiableCredential, error) {
	f := "ldp_vc"
	if format == "jwt" {
		f = "jwt_vc"
	}
	var subject interface{} = w.orgSubject(h, true)
	if typ == "NutsEmployeeCredential" {
		subject = w.empSubject(h)
	}
	body, _ := json.Marshal(map[string]interface{}{
		"type": typ, "issuer": w.issuerDID, "credentialSubject": subject,
		"withStatusList2021Revocation": true, "format": f,
	})
	resp, err := w.http.Post(w.internal+"/internal/vcr/v2/issuer/vc", "application/json", bytes.NewReader(body))
	if err != nil {
		return vc.VerifiableCredential{}, err
	}
	defer resp.Body.Close()
	raw, _ := io.ReadAll(resp.Body)
	if resp.StatusCode != 200 {
		return vc.VerifiableCredential{}, fmt.Errorf("issue VC on node: %d %s", resp.StatusCode, raw)
	}
	var c vc.VerifiableCredential
	if err := json.Unmarshal(raw, &c); err != nil {
		return c, err
	}
	if revoke {
		// (the REST call DELETE /internal/vcr/v2/issuer/vc/{id} needs a doubly escaped did:web id; the engine is called directly)
		if _, err := w.system.FindEngineByName("vcr").(vcr.VCR).Issuer().Revoke(w.ctx, *c.ID); err != nil {
			return c, fmt.Errorf("revoke VC on node: %w", err)
		}
	}
	return c, nil
}

// tamperVC alters a credential after it was signed. variant 0: a claim, variant 1: the signature bytes.
func tamperVC(c vc.VerifiableCredential, variant int) (vc.VerifiableCredential, error) {
	raw := c.Raw()
	if c.Format() == vc.JWTCredentialProofFormat {
		parts := strings.Split(raw, ".")
		if variant == 0 {
			pl, _ := base64.RawURLEncoding.DecodeString(parts[1])
			pl = bytes.Replace(pl, []byte("ORG-"), []byte("0RG-"), 1)
			pl = bytes.Replace(pl, []byte("EMP-"), []byte("3MP-"), 1)
			parts[1] = base64.RawURLEncoding.EncodeToString(pl)
		} else {
			parts[2] = flipB64(parts[2])
		}
		r, err := vc.ParseVerifiableCredential(strings.Join(parts, "."))
		if err != nil {
			return c, err
		}
		return *r, nil
	}
	var m map[string]interface{}
	if err := json.Unmarshal([]byte(raw), &m); err != nil {
		return c, err
	}
	if variant == 0 {
		cs := m["credentialSubject"].(map[string]interface{})
		if org, ok := cs["organization"].(map[string]interface{}); ok {
			org["name"] = "0RG-tampered"
		} else {
			cs["name"] = "3MP-tampered"
		}
	} else {
		pr := firstProof(m)
		pr["jws"] = flipJWS(pr["jws"].(string))
	}
	b, _ := json.Marshal(m)
	r, err := vc.ParseVerifiableCredential(string(b))
	if err != nil {
		return c, err
	}
	return *r, nil
}

func firstProof(m map[string]interface{}) map[string]interface{} {
	switch p := m["proof"].(type) {
	case map[string]interface{}:
		return p
	case []interface{}:
		return p[0].(map[string]interface{})
	}
	return nil
}

func flipB64(s string) string {
	b, _ := base64.RawURLEncoding.DecodeString(s)
	b[len(b)/2] ^= 0x55
	return base64.RawURLEncoding.EncodeToString(b)
}

// detached JWS: header..signature
func flipJWS(s string) string {
	i := strings.LastIndex(s, ".")
	return s[:i+1] + flipB64(s[i+1:])
}

// cred returns (cached) credentials by kind.
func (w *world) cred(kind, format string, h *ident, variant int) (vc.VerifiableCredential, error) {
	hn := "h1"
	if h == w.h2 {
		hn = "h2"
	}
	key := fmt.Sprintf("%s/%s/%s/%d", kind, format, hn, variant)
	w.credMu.Lock()
	defer w.credMu.Unlock()
	if c, ok := w.creds[key]; ok {
		return c, nil
	}
	now := time.Now()
	past := now.Add(-time.Hour)
	var c vc.VerifiableCredential
	var err error
	// "emp+<defect>": the defect on a NutsEmployeeCredential instead of the organization credential
	typ, subject := "NutsOrganizationCredential", w.orgSubject(h, true)
	if strings.HasPrefix(kind, "emp+") {
		kind, typ, subject = strings.TrimPrefix(kind, "emp+"), "NutsEmployeeCredential", w.empSubject(h)
	}
	switch kind {
	case "org":
		c, err = w.harnessVC(format, "NutsOrganizationCredential", w.orgSubject(h, true), past, nil)
	case "org_nocity":
		c, err = w.harnessVC(format, "NutsOrganizationCredential", w.orgSubject(h, false), past, nil)
	case "emp":
		c, err = w.harnessVC(format, "NutsEmployeeCredential", w.empSubject(h), past, nil)
	case "expired":
		if variant == 0 {
			e := now.Add(-30 * time.Minute)
			c, err = w.harnessVC(format, typ, subject, past, &e)
		} else { // not valid yet
			c, err = w.harnessVC(format, typ, subject, now.Add(time.Hour), nil)
		}
	case "vcsig":
		var base vc.VerifiableCredential
		base, err = w.harnessVC(format, typ, subject, past, nil)
		if err == nil {
			c, err = tamperVC(base, variant)
		}
	case "node":
		c, err = w.nodeVC(format, h, false, typ)
	case "revoked":
		c, err = w.nodeVC(format, h, true, typ)
	default:
		err = fmt.Errorf("unknown credential kind %s", kind)
	}
	if err != nil {
		return c, fmt.Errorf("credential %s: %w", key, err)
	}
	w.creds[key] = c
	return c, nil
}

// ------------------------------------------------------------------------------------------ presentations

type vpSpec struct {
	signer    *ident // whose key signs
	claimedAs *ident // whose key id / holder is claimed (== signer unless "wrong key")
	holder    *ident // holder property
	creds     []vc.VerifiableCredential
	format    string // "ldp" | "jwt"
	created   time.Time
	expires   *time.Time
	nonce     *string
	audience  *string
	extra     map[string]interface{} // additional JWT claims (an array of audiences)
	flipSig   bool
}

func (w *world) buildVP(s vpSpec) (string, error) {
	var signer nutsCrypto.JWTSigner = s.signer.signer()
	signerDID := s.signer.did
	if s.claimedAs != nil && s.claimedAs != s.signer {
		signer = s.signer.signerAs(s.claimedAs.kid)
		signerDID = s.claimedAs.did
	}
	wallet := holder.NewMemoryWallet(w.loader, w.keyRes, signer, nil)
	format := holder.JSONLDPresentationFormat
	if s.format == "jwt" {
		format = holder.JWTPresentationFormat
	}
	hu := s.holder.did.URI()
	opts := holder.PresentationOptions{Format: format, Holder: &hu, ProofOptions: proof.ProofOptions{
		Created: s.created, Expires: s.expires, Nonce: s.nonce, Challenge: s.nonce, Domain: s.audience, ProofPurpose: "authentication",
		AdditionalProperties: s.extra}}
	vp, err := wallet.BuildPresentation(w.ctx, s.creds, opts, &signerDID, false)
	if err != nil {
		return "", err
	}
	raw := vp.Raw()
	if s.flipSig {
		if s.format == "jwt" {
			parts := strings.Split(raw, ".")
			parts[2] = flipB64(parts[2])
			raw = strings.Join(parts, ".")
		} else {
			var m map[string]interface{}
			_ = json.Unmarshal([]byte(raw), &m)
			pr := firstProof(m)
			pr["jws"] = flipJWS(pr["jws"].(string))
			b, _ := json.Marshal(m)
			raw = string(b)
		}
	}
	return raw, nil
}

func vcFormatName(c vc.VerifiableCredential) string {
	if c.Format() == vc.JWTCredentialProofFormat {
		return "jwt_vc"
	}
	return "ldp_vc"
}

// submissionFor builds the presentation submission for credentials that are presented in the order of the
// definition's input descriptors (the harness' own reference construction of a valid descriptor map).
func submissionFor(def pe.PresentationDefinition, creds []vc.VerifiableCredential) map[string]interface{} {
	var dm []interface{}
	for i, d := range def.InputDescriptors {
		if i >= len(creds) {
			break
		}
		path := fmt.Sprintf("$.verifiableCredential[%d]", i)
		if len(creds) == 1 {
			path = "$.verifiableCredential"
		}
		dm = append(dm, map[string]interface{}{"id": d.Id, "format": vcFormatName(creds[i]), "path": path})
	}
	return map[string]interface{}{"id": uuid.NewString(), "definition_id": def.Id, "descriptor_map": dm}
}

func nestSubmission(sub map[string]interface{}, vpFormat string, index int) {
	// (pe.ParseEnvelope decodes the JWT presentations of a JSON array into objects: in an array envelope also a JWT
	// presentation has to be designated ldp_vp, jwt_vp is refused there)
	f := "ldp_vp"
	_ = vpFormat
	dm := sub["descriptor_map"].([]interface{})
	for i, e := range dm {
		m := e.(map[string]interface{})
		dm[i] = map[string]interface{}{"id": m["id"], "format": f, "path": fmt.Sprintf("$[%d]", index),
			"path_nested": map[string]interface{}{"id": m["id"], "format": m["format"], "path": m["path"]}}
	}
}

func has(d []string, f string) bool {
	for _, x := range d {
		if x == f {
			return true
		}
	}
	return false
}

func (s step) variant(flag string, n int) int {
	if s.Var == nil || n <= 0 {
		return 0
	}
	return s.Var[flag] % n
}

// presentation is everything the harness sends for one token / response request
type presentation struct {
	defID      string // id of the presentation definition the submission fulfils (when the request has no defect)
	envelope   string
	submission string
	scope      string
	expected   map[string]interface{} // claims a clean request establishes
	vps        int
	nonce      string
	created    time.Time
}

// multiScopes: the "multiscope" class. A scope parameter is a space-delimited list (RFC 6749 3.3); the node is configured
// with one definition per scope VALUE, so for a list of values no definition is configured - whatever one submission
// fulfils. {template of the scope string ("%s" = the scope of the baseline request), scope value the submission fulfils}
var multiScopes = []struct{ tmpl, fulfils string }{
	{"emp %s", "base"}, {"%s emp", "base"}, {"%s emp", "emp"}, {"emp %s", "emp"},
	{"%s nope-unknown", "base"}, {"nope-unknown %s", "base"}, {"%s\temp", "base"}, {"emp  %s", "base"},
}

// scopeOf returns the scope string a step asks for and the definition the submission fulfils
func (w *world) scopeOf(st step) (string, pe.PresentationDefinition, error) {
	scope := "s1"
	owner := pe.WalletOwnerOrganization
	switch {
	case st.Def != "" && st.Def != "plain":
		scope = "ovr_" + st.Def
	case has(st.D, "partial") && !has(st.D, "multiscope"):
		scope = "dual"
		if st.variant("partial", 2) == 1 && !has(st.D, "vcsig") && !has(st.D, "revoked") && !has(st.D, "expired") {
			owner = pe.WalletOwnerUser // only the user definition is fulfilled (credential defects are realised on the organization credential)
		}
	case st.PD2:
		scope = "s2"
	}
	if st.defOverride != nil {
		return scope, *st.defOverride, nil
	}
	requested, fulfils := scope, scope
	if has(st.D, "multiscope") {
		ms := multiScopes[st.variant("multiscope", len(multiScopes))]
		requested = fmt.Sprintf(ms.tmpl, scope)
		if ms.fulfils == "emp" && !has(st.D, "vcsig") && !has(st.D, "revoked") && !has(st.D, "expired") {
			fulfils = "emp"
		}
	}
	m, ok := w.defs[fulfils]
	if !ok {
		return requested, pe.PresentationDefinition{}, fmt.Errorf("no policy for scope %s", fulfils)
	}
	def, ok := m[owner]
	if !ok {
		return requested, def, fmt.Errorf("scope %s has no %s definition", fulfils, owner)
	}
	return requested, def, nil
}

// buildPresentation realises the defect flags of a step on a valid baseline. flow: "s2s" | "code".
func (w *world) buildPresentation(st step, flow string, nonce string, audience string, created time.Time) (*presentation, error) {
	d := st.D
	vcfmt := st.VCFmt
	if vcfmt == "" {
		vcfmt = st.Fmt
	}
	scope, def, err := w.scopeOf(st)
	if err != nil {
		return nil, err
	}
	p := &presentation{scope: scope, defID: def.Id, expected: map[string]interface{}{}, vps: 1, nonce: nonce}
	h := w.h1
	// --- credentials, in the order of the input descriptors
	var kinds []string
	for _, idesc := range def.InputDescriptors {
		switch idesc.Id {
		case "d_org":
			kinds = append(kinds, "org")
		case "d_emp":
			kinds = append(kinds, "emp")
		default:
			return nil, fmt.Errorf("unknown input descriptor %s", idesc.Id)
		}
	}
	// --- the envelope: nvp presentations of the holder; the one at position `main` carries the credentials the submission
	// maps, the one at position `pos` carries the per-presentation defects of this request, the others are valid fillers
	nvp, main, pos := st.NVP, st.Main, st.Pos
	if nvp < 1 {
		nvp, main, pos = 1, 1, 1
	}
	if main < 1 || main > nvp || pos < 1 || pos > nvp {
		return nil, fmt.Errorf("bad envelope shape %d/%d/%d", nvp, main, pos)
	}
	onMain := pos == main
	credDefect, credVariant := "", 0
	switch {
	case has(d, "vcsig"):
		credDefect, credVariant = "vcsig", st.variant("vcsig", 2)
	case has(d, "revoked"):
		credDefect = "revoked"
	case has(d, "expired"):
		credDefect, credVariant = "expired", st.variant("expired", 2)
	}
	typed := func(base, defect string) string {
		if base == "emp" {
			return "emp+" + defect
		}
		return defect
	}
	defectIdx := 0
	for i, k := range kinds {
		if k == "org" {
			defectIdx = i
		}
	}
	var creds []vc.VerifiableCredential
	for i, k := range kinds {
		kind, variant := k, 0
		switch {
		case onMain && credDefect != "" && i == defectIdx:
			kind, variant = typed(k, credDefect), credVariant
		case k == "org" && st.variant("issuer", 2) == 1 && len(d) == 0:
			kind = "node" // valid credential of the issuer subject on the node (StatusList2021 entry, not revoked)
		}
		c, err := w.cred(kind, vcfmt, h, variant)
		if err != nil {
			return nil, err
		}
		creds = append(creds, c)
	}
	baseline := make([]vc.VerifiableCredential, len(creds))
	for i, k := range kinds {
		baseline[i], err = w.cred(k, vcfmt, h, 0)
		if err != nil {
			return nil, err
		}
	}
	sub := submissionFor(def, baseline)
	// claims a clean request establishes: every constraint field with an id
	for _, idesc := range def.InputDescriptors {
		if idesc.Constraints == nil {
			continue
		}
		for _, f := range idesc.Constraints.Fields {
			if f.Id == nil {
				continue
			}
			switch {
			case strings.HasSuffix(f.Path[0], "organization.name"):
				p.expected[*f.Id] = w.orgName
			case strings.HasSuffix(f.Path[0], "organization.city"):
				p.expected[*f.Id] = w.orgCity
			case strings.HasSuffix(f.Path[0], "credentialSubject.name"):
				p.expected[*f.Id] = w.empName
			case strings.HasSuffix(f.Path[0], "roleName"):
				p.expected[*f.Id] = "nurse"
			}
		}
	}
	if has(d, "unfulfilled") {
		uv := st.variant("unfulfilled", 3)
		if uv == 1 && has(d, "forgedmap") {
			// credentials of swapped types and a descriptor map with swapped ids would add up to a VALID submission
			uv = 0
		}
		switch uv {
		case 0: // constraint field missing
			for i, k := range kinds {
				if k == "org" {
					creds[i], err = w.cred("org_nocity", vcfmt, h, 0)
				}
			}
			if !containsStr(kinds, "org") {
				creds = nil
			}
		case 1: // credential of another type in its place
			for i, k := range kinds {
				other := "emp"
				if k == "emp" {
					other = "org"
				}
				creds[i], err = w.cred(other, vcfmt, h, 0)
			}
		case 2: // no credential at all
			creds = nil
		}
		if err != nil {
			return nil, err
		}
	}
	if has(d, "forgedmap") {
		dm := sub["descriptor_map"].([]interface{})
		switch st.variant("forgedmap", 3) {
		case 0: // path that selects nothing
			dm[0].(map[string]interface{})["path"] = "$.verifiableCredential[7]"
		case 1: // a decoy credential is put where the map points to
			decoy, err := w.cred("emp", vcfmt, h, 0)
			if kinds[0] == "emp" {
				decoy, err = w.cred("org", vcfmt, h, 0)
			}
			if err != nil {
				return nil, err
			}
			creds = append([]vc.VerifiableCredential{decoy}, creds...)
			dm[0].(map[string]interface{})["path"] = "$.verifiableCredential[0]"
		case 2: // descriptor id of the entry replaced / permuted
			if len(dm) >= 2 {
				a, b := dm[0].(map[string]interface{}), dm[1].(map[string]interface{})
				a["id"], b["id"] = b["id"], a["id"]
			} else {
				dm[0].(map[string]interface{})["id"] = "d_forged"
			}
		}
	}
	if has(d, "foreigndef") {
		if st.variant("foreigndef", 2) == 0 {
			sub["definition_id"] = "pd-other"
		} else {
			sub["definition_id"] = "pd-" + uuid.NewString()[:6]
		}
	}
	// --- the presentations
	p.created = created
	good := created
	goodExp := good.Add(w.unit)
	if w.unit > 5*time.Second {
		goodExp = good.Add(5 * time.Second)
	}
	// a filler must not satisfy the definition on its own (the submission maps the credentials of `main`)
	fillerKind := "emp"
	if len(kinds) == 1 && kinds[0] == "emp" {
		fillerKind = "org"
	}
	fresh := func() *string { // vp_token-bearer burns the nonce of every presentation: each needs its own;
		n := nonce // the authorization response must carry the session's nonce in all presentations
		if flow == "s2s" {
			n = nutsCrypto.GenerateNonce()
		}
		return &n
	}
	specs := make([]vpSpec, nvp)
	for k := range specs {
		e := goodExp
		a := audience
		specs[k] = vpSpec{signer: h, holder: h, format: st.Fmt, created: good, expires: &e, nonce: fresh(), audience: &a}
		if k != main-1 && (st.variant("filler", 2) == 1 || (k == pos-1 && has(d, "signer"))) {
			c, err := w.cred(fillerKind, vcfmt, h, 0) // a filler may carry a valid credential nobody asked for
			if err != nil {
				return nil, err
			}
			specs[k].creds = []vc.VerifiableCredential{c}
		}
	}
	specs[main-1].creds = creds
	specs[main-1].nonce = &nonce
	if !onMain && credDefect != "" {
		c, err := w.cred(typed(fillerKind, credDefect), vcfmt, h, credVariant)
		if err != nil {
			return nil, err
		}
		specs[pos-1].creds = []vc.VerifiableCredential{c}
	}
	// --- per-presentation defects, on the presentation at position pos
	vs := &specs[pos-1]
	if has(d, "stale") {
		if st.variant("stale", 2) == 0 {
			vs.created = created.Add(-60 * time.Second)
		} else {
			vs.created = created.Add(60 * time.Second)
		}
		e := vs.created.Add(goodExp.Sub(good))
		vs.expires = &e
	}
	if has(d, "validity") {
		e2 := vs.created.Add(6 * time.Second)
		if st.variant("validity", 2) == 1 {
			e2 = vs.created.Add(time.Hour)
		}
		vs.expires = &e2
	}
	if has(d, "nodates") {
		vs.expires = nil
	}
	if has(d, "nononce") {
		vs.nonce = nil
		if st.variant("nononce", 2) == 1 {
			e := ""
			vs.nonce = &e
		}
	}
	if has(d, "badnonce") {
		n2 := nutsCrypto.GenerateNonce()
		if st.foreignNonce != "" {
			n2 = st.foreignNonce
		}
		vs.nonce = &n2
	}
	audv := st.AudV
	if audv == "" {
		audv = "exact"
		if has(d, "aud") {
			audv = wrongAuds[st.variant("aud", len(wrongAuds))]
		}
	}
	vs.audience, vs.extra = w.audienceOf(audv, audience, st.Fmt == "jwt", st.variant("audalt", 2))
	if has(d, "signer") {
		// the presentation is signed by h2, its credentials are about h1
		vs.signer, vs.holder = w.h2, w.h2
		if st.variant("signer", 2) == 1 {
			vs.holder = w.h1
		}
	}
	if has(d, "vpsig") {
		if st.variant("vpsig", 2) == 0 {
			vs.flipSig = true
		} else { // signed with another key under the holder's key id
			vs.signer, vs.claimedAs = w.h2, h
			if has(d, "signer") {
				vs.signer, vs.claimedAs = w.h1, w.h2
			}
		}
	}
	var raws []string
	for k := range specs {
		raw, err := w.buildVP(specs[k])
		if err != nil {
			return nil, fmt.Errorf("build VP %d: %w", k+1, err)
		}
		raws = append(raws, raw)
	}
	if has(d, "mixed") {
		// one more presentation, of another subject, in the same envelope
		c2, err := w.cred("org", vcfmt, w.h2, 0)
		if err != nil {
			return nil, err
		}
		e2 := goodExp
		a2 := audience
		raw2, err := w.buildVP(vpSpec{signer: w.h2, holder: w.h2, creds: []vc.VerifiableCredential{c2}, format: st.Fmt, created: good,
			expires: &e2, nonce: fresh(), audience: &a2})
		if err != nil {
			return nil, err
		}
		raws = append(raws, raw2)
	}
	p.vps = len(raws)
	if len(raws) == 1 {
		p.envelope = raws[0]
	} else {
		entries := make([]string, len(raws))
		for k, raw := range raws {
			entries[k] = jsonEntry(raw)
		}
		p.envelope = "[" + strings.Join(entries, ",") + "]"
		nestSubmission(sub, st.Fmt, main-1)
	}
	sj, _ := json.Marshal(sub)
	p.submission = string(sj)
	if has(d, "scope") {
		p.scope = "nope-" + uuid.NewString()[:4]
	}
	return p, nil
}

// the classes of a wrong audience (spec: AllWrongAuds)
var wrongAuds = []string{"missing", "unrelated", "other_tenant", "extends", "prefix", "array_without"}

// audienceOf realises an audience class for a presentation that should be addressed to `here` (<node>/oauth2/<subject>).
// JSON-LD proofs have one domain: the array classes fall back to the single value of the same verdict.
func (w *world) audienceOf(class string, here string, jwt bool, alt int) (*string, map[string]interface{}) {
	one := func(v string) (*string, map[string]interface{}) { return &v, nil }
	other := w.public + "/oauth2/" + otherSubject
	extends := here + "2"
	if alt == 1 {
		extends = here + "-east"
	}
	switch class {
	case "exact":
		return one(here)
	case "array_with":
		if jwt {
			return &here, map[string]interface{}{"aud": []string{other, here}}
		}
		return one(here)
	case "missing":
		return nil, nil
	case "unrelated":
		if alt == 1 {
			return one("https://evil.example/oauth2/" + asSubject)
		}
		return one("did:web:evil.example:iam:" + asSubject)
	case "other_tenant":
		return one(other)
	case "extends":
		return one(extends)
	case "prefix":
		return one(here[:len(here)-1])
	case "array_without":
		if jwt {
			return &other, map[string]interface{}{"aud": []string{other, extends}}
		}
		return one(extends)
	case "slash":
		return one(here + "/")
	case "path":
		return one(here + "/token")
	case "query":
		return one(here + "?x=1")
	case "hostcase":
		return one(strings.Replace(here, "://localhost", "://LOCALHOST", 1))
	}
	panic("unknown audience class " + class)
}

func jsonEntry(raw string) string {
	if strings.HasPrefix(raw, "{") {
		return raw
	}
	b, _ := json.Marshal(raw)
	return string(b)
}

func removeStr(l []string, s string) []string {
	var out []string
	for _, x := range l {
		if x != s {
			out = append(out, x)
		}
	}
	return out
}

func containsStr(l []string, s string) bool {
	for _, x := range l {
		if x == s {
			return true
		}
	}
	return false
}

// dpopHeader builds the DPoP proof header for a token request. bad: 0 none, 1 garbage, 2 broken signature
func (w *world) dpopHeader(key string, bad int, variant int) string {
	if bad > 0 && variant == 0 {
		return "not-a-dpop-proof"
	}
	k := w.dk[key]
	if k == nil {
		if bad == 0 {
			return ""
		}
		k = w.dk["k1"]
	}
	req, _ := http.NewRequest(http.MethodPost, w.asURL()+"/token", nil)
	pr := dpop.New(*req)
	s, err := pr.Sign("harness#"+key, k.priv, jwa.ES256)
	if err != nil {
		panic(err)
	}
	if bad > 0 {
		parts := strings.Split(s, ".")
		parts[2] = flipB64(parts[2])
		s = strings.Join(parts, ".")
	}
	return s
}

// ------------------------------------------------------------------------------------------ HTTP

type reply struct {
	status int
	body   []byte
	json   map[string]interface{}
	loc    *url.URL
}

func (w *world) post(target string, form url.Values, headers map[string]string) (*reply, error) {
	req, _ := http.NewRequest(http.MethodPost, target, strings.NewReader(form.Encode()))
	req.Header.Set("Content-Type", "application/x-www-form-urlencoded")
	req.Header.Set("Accept", "application/json")
	for k, v := range headers {
		req.Header.Set(k, v)
	}
	return w.do(req)
}

func (w *world) do(req *http.Request) (*reply, error) {
	resp, err := w.http.Do(req)
	if err != nil {
		return nil, err
	}
	defer resp.Body.Close()
	b, _ := io.ReadAll(resp.Body)
	r := &reply{status: resp.StatusCode, body: b}
	_ = json.Unmarshal(b, &r.json)
	if l := resp.Header.Get("Location"); l != "" {
		r.loc, _ = url.Parse(l)
	}
	return r, nil
}

// outcome of a token / response request
type outcome struct {
	scope  string // scope member of the token response
	issued bool
	token  string
	code   string
	err    string // OAuth2 error code, "http-<status>" when there is none
	desc   string
}

func (r *reply) oauthError() (string, string) {
	if r.json != nil {
		if e, ok := r.json["error"].(string); ok {
			d, _ := r.json["error_description"].(string)
			return e, d
		}
	}
	if r.loc != nil && r.loc.Query().Get("error") != "" {
		return r.loc.Query().Get("error"), r.loc.Query().Get("error_description")
	}
	return fmt.Sprintf("http-%d", r.status), strings.TrimSpace(string(r.body[:min(len(r.body), 200)]))
}

func min(a, b int) int {
	if a < b {
		return a
	}
	return b
}

var stageByDescription = []struct{ frag, stage string }{
	{"missing creation or expiration date", "validity"},
	{"valid for too long", "validity"},
	{"not all presentations have the same credential subject", "signer"},
	{"signer is not credential subject", "signer"},
	{"presenter is credential subject", "signer"},
	{"not all VCs have the same credentialSubject", "signer"},
	{"audience/domain is missing or does not match", "audience"},
	{"unsupported scope", "scope"},
	{"being fulfilled is not required", "submission"},
	{"does not conform to presentation definition", "submission"},
	{"invalid/missing nonce", "nonce"},
	{"invalid or missing nonce", "nonce"},
	{"nonce has already been used", "replay"},
	{"DPoP header is invalid", "dpop"},
	{"contained credential(s) are invalid", "verify"},
	{"invalid or expired session", "nonce"},
	{"invalid nonce/state", "nonce"},
	{"incorrect tenant", "state"},
	{"missing code parameter", "param"},
	{"invalid authorization code", "grant"},
	{"client_id does not match", "client"},
	{"invalid code_verifier", "pkce"},
}

func stageOf(o outcome, issuedStage string) string {
	if o.issued || o.code != "" {
		return issuedStage
	}
	for _, s := range stageByDescription {
		if strings.Contains(o.desc, s.frag) {
			return s.stage
		}
	}
	return "?"
}

// ------------------------------------------------------------------------------------------ script execution

type tokenRec struct {
	satisfied []string // scope values whose configured definitions the presentations of a clean request fulfil
	id        string
	token     string
	flow      string
	iss       string
	client    string
	scope     string
	cnf       string // jkt or ""
	cnfKey    string
	def       string
	claims    map[string]interface{}
	issuedAt  time.Time // the request left the harness
	recvAt    time.Time // the answer arrived
	shift     time.Duration
	vps       int
	defID     string
	clean     bool
}

type sessRec struct {
	authDefects                                                                 []string                   // defect flags of the authorization request the node accepted nevertheless
	pd                                                                          *pe.PresentationDefinition // (then:) the definition the node asks the wallet for
	pdURI                                                                       string
	id, client, def, verifier, state, nonce, responseURI, audience, scope, code string
	usedCode                                                                    bool
}

type runner struct {
	w        *world
	sc       script
	res      *result
	nonces   map[string]string
	pres     map[string]*sentReq
	lastPres *sentReq
	tokens   map[string]*tokenRec
	sess     map[string]*sessRec
	issuedBy map[string]time.Time // real nonce -> time a token was issued for it
	t0       time.Time
	now      int
	extra    int
}

type sentReq struct {
	sentAt   time.Time
	recvAt   time.Time
	id       string
	form     url.Values
	headers  map[string]string
	p        *presentation
	st       step
	accepted bool
	nonceID  string
}

func (r *runner) violate(i int, kind string, sig map[string]interface{}, detail string) {
	sig["kind"] = kind
	r.res.Violations = append(r.res.Violations, violation{Prop: "C02", Kind: kind, Sig: sig, Detail: detail, Step: i})
}

func (r *runner) drift(f string, a ...interface{}) {
	if len(r.res.Drift) < 50 {
		r.res.Drift = append(r.res.Drift, fmt.Sprintf(f, a...))
	}
}

// Real-time scripts: every request of model time m is sent at t0 + m*unit + rtOffset.  With unit = 6 s and the node's
// constants (validity 5 s, skew 5 s, nonce kept 15 s) every comparison the node makes has a margin of >= 1.5 s, and the
// discrete model (VPWindow = Skew = 1, NonceTTL = 3) is exactly the abstraction of these schedules.
const rtOffset = 2500 * time.Millisecond
const rtTolerance = 1100 * time.Millisecond

var errLate = errors.New("schedule missed")
var errStop = errors.New("script ends here")

func (r *runner) waitFor() {
	if !r.sc.Realtime {
		return
	}
	if d := time.Until(r.scheduled()); d > 0 {
		time.Sleep(d)
	}
}

func (r *runner) scheduled() time.Time {
	return r.t0.Add(time.Duration(r.now)*r.w.unit + rtOffset)
}

// onTime is called right before / after a request is sent
func (r *runner) onTime(i int) error {
	if !r.sc.Realtime {
		return nil
	}
	if late := time.Since(r.scheduled()); late > rtTolerance {
		r.res.Skipped = fmt.Sprintf("step %d was %.1fs behind its schedule", i, late.Seconds())
		return errLate
	}
	return nil
}

func sortedD(d []string) []string {
	c := append([]string{}, d...)
	sort.Strings(c)
	return c
}

func (r *runner) nonceBurnt(n string) bool {
	if n == "" {
		return false
	}
	return r.w.sessions.GetStore(15*time.Second, "s2s", "nonce").Exists(n)
}

func (r *runner) sendToken(sr *sentReq) (outcome, error) {
	sr.sentAt = time.Now()
	rep, err := r.w.post(r.w.asURL()+"/token", sr.form, sr.headers)
	sr.recvAt = time.Now()
	if err != nil {
		return outcome{}, err
	}
	var o outcome
	if rep.status == 200 && rep.json != nil {
		if at, ok := rep.json["access_token"].(string); ok && at != "" {
			o.issued, o.token = true, at
			o.scope, _ = rep.json["scope"].(string)
			return o, nil
		}
	}
	o.err, o.desc = rep.oauthError()
	return o, nil
}

func (r *runner) recordToken(i int, st step, sr *sentReq, o outcome, flow string, client, scope, dpopKey, def string, p *presentation, clean bool) string {
	// tokens are named in the order the node issued them (the model does the same)
	id := fmt.Sprintf("t%d", len(r.tokens)+1)
	if st.Tok != "" && st.Tok != id {
		r.drift("step %d: the model names this token %s, the node issued its token number %d", i, st.Tok, len(r.tokens)+1)
	}
	tr := &tokenRec{id: id, token: o.token, flow: flow, iss: r.w.asURL(), client: client, scope: scope, def: def,
		issuedAt: sr.sentAt, recvAt: sr.recvAt, clean: clean}
	if p != nil {
		tr.claims, tr.vps = p.expected, p.vps
	}
	if k := r.w.dk[dpopKey]; k != nil {
		tr.cnf, tr.cnfKey = k.jkt, dpopKey
	}
	// The scope the token stands for is what the token response says (the requested string when it says nothing). For a
	// request without defect flag every scope VALUE of it must be a configured scope all of whose definitions the
	// submission fulfils - the node may grant less than was asked for, never more than was checked.
	if o.scope != "" {
		if o.scope != scope {
			r.drift("step %d: scope %q requested, token response says %q", i, scope, o.scope)
		}
		tr.scope = o.scope
	}
	if p != nil {
		for v, m := range r.w.defs {
			all := len(m) > 0
			for _, def := range m {
				all = all && def.Id == p.defID
			}
			if all {
				tr.satisfied = append(tr.satisfied, v)
			}
		}
		sort.Strings(tr.satisfied)
		if clean {
			if bad := notSatisfied(tr.scope, tr.satisfied); len(bad) > 0 {
				tr.clean = false
				r.violate(i, "issued-with-defect", map[string]interface{}{"flow": flow, "defect": "scope-not-fulfilled"},
					fmt.Sprintf("token for scope %q: the submission fulfils definition %s (configured for %v); nothing fulfils the definition(s) of %v",
						tr.scope, p.defID, tr.satisfied, bad))
			}
		}
	}
	r.tokens[id] = tr
	return id
}

func (r *runner) stepS2S(i int, st step, replay bool) error {
	w := r.w
	var sr *sentReq
	if replay {
		sr = r.pres[st.P]
		if sr == nil {
			sr = r.lastPres
		}
		if sr == nil {
			return fmt.Errorf("replay of unknown presentation %s", st.P)
		}
		r.waitFor()
	} else {
		r.waitFor()
		n, ok := r.nonces[st.N]
		if !ok {
			n = nutsCrypto.GenerateNonce()
			r.nonces[st.N] = n
		}
		created := time.Now().Add(-200 * time.Millisecond)
		if r.sc.Realtime {
			created = r.t0.Add(time.Duration(r.now+st.Fut) * w.unit)
		}
		p, err := w.buildPresentation(st, "s2s", n, w.asURL(), created)
		if err != nil {
			return err
		}
		form := url.Values{"grant_type": {"vp_token-bearer"}, "assertion": {p.envelope}, "presentation_submission": {p.submission},
			"scope": {p.scope}, "client_id": {w.s2sClientID(st.Client)}}
		headers := map[string]string{}
		bad := 0
		if has(st.D, "baddpop") {
			bad = 1
		}
		if hdr := w.dpopHeader(st.Dpop, bad, st.variant("baddpop", 2)); hdr != "" {
			headers["DPoP"] = hdr
		}
		sr = &sentReq{id: st.P, form: form, headers: headers, p: p, st: st, nonceID: st.N}
		r.pres[st.P] = sr
		r.lastPres = sr
	}
	if err := r.onTime(i); err != nil {
		return err
	}
	o, err := r.sendToken(sr)
	if err != nil {
		return err
	}
	if err := r.onTime(i); err != nil {
		return err
	}
	d := sortedD(sr.st.D)
	nonceVal := sr.p.nonce
	nvp, main, pos, audv := shapeOf(sr.st)
	if has(d, "nononce") && main == pos {
		nonceVal = ""
	}
	tokID := "none"
	clean := len(d) == 0 && !(replay && sr.accepted)
	r.res.Checks++
	if o.issued {
		// --- C02: a token only for a request without defect
		switch {
		case len(d) > 0:
			r.violate(i, "issued-with-defect", map[string]interface{}{"flow": "s2s", "defect": strings.Join(d, "+")},
				fmt.Sprintf("vp_token-bearer request with defects %v (variants %v, vp %s, vc %s; %d presentation(s), credentials in #%d, defect on #%d, audience class %q) was answered with an access token",
					d, sr.st.Var, sr.st.Fmt, sr.st.VCFmt, nvp, main, pos, audv))
		case replay && sr.accepted:
			r.violate(i, "issued-with-defect", map[string]interface{}{"flow": "s2s", "defect": "replay", "fmt": sr.st.Fmt, "postdated": sr.st.Fut > 0},
				fmt.Sprintf("the identical presentation (format %s, created %+d units from first use) was accepted a second time %.1fs after its first acceptance",
					sr.st.Fmt, sr.st.Fut, time.Since(r.issuedBy[nonceVal]).Seconds()))
		default:
			if t1, seen := r.issuedBy[nonceVal]; seen && time.Since(t1) < 10*time.Second {
				r.violate(i, "issued-with-defect", map[string]interface{}{"flow": "s2s", "defect": "nonce-reuse"},
					fmt.Sprintf("a second token was issued for a nonce that was accepted %.1fs before", time.Since(t1).Seconds()))
				clean = false
			}
		}
		sr.accepted = true
		r.issuedBy[nonceVal] = time.Now()
		tokID = r.recordToken(i, st, sr, o, "s2s", w.s2sClientID(sr.st.Client), sr.p.scope, dpopKeyOf(sr.st), sr.st.Def, sr.p, clean)
		if clean {
			r.res.CleanOK++
		}
	} else if clean && st.Res == "issued" {
		r.res.CleanFail++
		r.drift("step %d: clean vp_token-bearer request rejected: %s %s", i, o.err, o.desc)
	}
	ev := map[string]interface{}{"ev": "s2s", "p": sr.id, "d": d, "n": sr.nonceID, "fmt": sr.st.Fmt, "fut": sr.st.Fut, "def": orPlain(sr.st.Def),
		"dpop": orNone(sr.st.Dpop), "client": sr.st.Client, "res": resOf(o), "stage": stageOf(o, "issue"), "tok": tokID,
		"burnt": r.nonceBurnt(nonceVal), "nvp": nvp, "main": main, "pos": pos, "audv": audv}
	if replay {
		ev["ev"] = "s2sreplay"
	}
	r.res.Trace = append(r.res.Trace, ev)
	r.observe(i, st, map[string]interface{}{"issued": o.issued, "error": o.err, "description": o.desc, "tok": tokID})
	if st.Res != "" && resOf(o) != st.Res && !(o.issued && !clean) {
		r.drift("step %d %s %v: model %s/%s, node %s (%s)", i, st.A, d, st.Res, st.Stage, resOf(o), o.desc)
	}
	return nil
}

// shapeOf: the envelope shape and audience class of a step, with the defaults buildPresentation uses
func shapeOf(st step) (int, int, int, string) {
	nvp, main, pos := st.NVP, st.Main, st.Pos
	if nvp < 1 {
		nvp, main, pos = 1, 1, 1
	}
	audv := st.AudV
	if audv == "" {
		audv = "exact"
		if has(st.D, "aud") {
			audv = wrongAuds[st.variant("aud", len(wrongAuds))]
		}
	}
	return nvp, main, pos, audv
}

func dpopKeyOf(st step) string {
	if has(st.D, "baddpop") {
		return ""
	}
	return st.Dpop
}

func orPlain(s string) string {
	if s == "" {
		return "plain"
	}
	return s
}
func orNone(s string) string {
	if s == "" {
		return "none"
	}
	return s
}

func resOf(o outcome) string {
	if o.issued {
		return "issued"
	}
	if o.code != "" {
		return "code"
	}
	return o.err
}

func (r *runner) observe(i int, st step, m map[string]interface{}) {
	if len(r.res.Observed) < 12 {
		m["step"], m["a"] = i, st.A
		r.res.Observed = append(r.res.Observed, m)
	}
}

// notSatisfied returns the values of a scope string that are not among the satisfied scope values
func notSatisfied(scope string, satisfied []string) []string {
	var bad []string
	for _, v := range strings.Fields(scope) {
		if !containsStr(satisfied, v) {
			bad = append(bad, v)
		}
	}
	return bad
}

// --- authorization code flow

func b64json(seg string) map[string]interface{} {
	b, err := base64.RawURLEncoding.DecodeString(seg)
	if err != nil {
		return nil
	}
	var m map[string]interface{}
	_ = json.Unmarshal(b, &m)
	return m
}

// authorize starts an authorization-code session at the real authorization endpoint (signed request object, PKCE) and
// plays the wallet's first move: it fetches the verifier's request object (nonce, state, response_uri).
func (r *runner) authorize(i int, st step) (*sessRec, error) {
	w := r.w
	cs := clientSubject(st.Client)
	verifier := nutsCrypto.GenerateNonce()
	sum := sha256.Sum256([]byte(verifier))
	scope := "s1"
	if st.Def != "" && st.Def != "plain" {
		scope = "ovr_" + st.Def
	} else if st.PD2 {
		scope = "s2"
	}
	if has(st.D, "multiscope") {
		scope = fmt.Sprintf(multiScopes[st.variant("multiscope", len(multiScopes))].tmpl, scope)
	}
	if has(st.D, "scope") {
		scope = "nope-" + uuid.NewString()[:4]
	}
	claims := map[string]interface{}{
		"iss": w.clientDID[cs], "client_id": w.clientID(st.Client), "aud": w.asURL(), "response_type": "code",
		"redirect_uri": w.clientID(st.Client) + "/callback", "scope": scope, "state": "cs-" + uuid.NewString()[:8],
		"nonce": nutsCrypto.GenerateNonce(), "code_challenge": base64.RawURLEncoding.EncodeToString(sum[:]), "code_challenge_method": "S256",
	}
	jar, err := w.keyStore.SignJWT(w.ctx, claims, nil, w.clientKid[cs])
	if err != nil {
		return nil, fmt.Errorf("sign request object: %w", err)
	}
	q := url.Values{"client_id": {w.clientID(st.Client)}, "request": {jar}}
	req, _ := http.NewRequest(http.MethodGet, w.asURL()+"/authorize?"+q.Encode(), nil)
	req.Header.Set("Accept", "application/json")
	rep, err := w.do(req)
	if err != nil {
		return nil, err
	}
	s := &sessRec{id: st.S, client: st.Client, def: st.Def, verifier: verifier, scope: scope}
	ok := false
	if rep.status == http.StatusFound && rep.loc != nil && rep.loc.Query().Get("request_uri") != "" {
		// the wallet side: fetch the verifier's request object
		req2, _ := http.NewRequest(http.MethodGet, rep.loc.Query().Get("request_uri"), nil)
		rep2, err := w.do(req2)
		if err != nil {
			return nil, err
		}
		parts := strings.Split(strings.TrimSpace(string(rep2.body)), ".")
		if rep2.status == 200 && len(parts) == 3 {
			ro := b64json(parts[1])
			s.state, _ = ro["state"].(string)
			s.nonce, _ = ro["nonce"].(string)
			s.responseURI, _ = ro["response_uri"].(string)
			s.audience, _ = ro["client_id"].(string)
			s.pdURI, _ = ro["presentation_definition_uri"].(string)
			ok = s.state != "" && s.nonce != "" && s.responseURI != ""
		}
		if !ok {
			r.drift("step %d: request object not usable: %d %s", i, rep2.status, string(rep2.body[:min(len(rep2.body), 200)]))
		}
	} else if len(st.D) > 0 {
		return nil, nil // refused, as it should be
	} else {
		e, dsc := rep.oauthError()
		r.drift("step %d: authorization request refused: %d %s %s", i, rep.status, e, dsc)
	}
	if !ok {
		return nil, fmt.Errorf("authorization request of a valid client was not accepted (status %d)", rep.status)
	}
	return s, nil
}

func (r *runner) stepAuthorize(i int, st step) error {
	s, err := r.authorize(i, st)
	if err != nil {
		return err
	}
	d := sortedD(st.D)
	r.res.Checks++
	if s == nil {
		r.res.Trace = append(r.res.Trace, map[string]interface{}{"ev": "authorize", "s": "none", "client": st.Client, "def": orPlain(st.Def), "d": d, "res": "refused"})
		return nil
	}
	// sessions are named in the order the node opened them (the model does the same)
	s.id = fmt.Sprintf("s%d", len(r.sess)+1)
	if st.S != "" && st.S != "none" && st.S != s.id {
		r.drift("step %d: the model names this session %s, it is session number %d of the node", i, st.S, len(r.sess)+1)
	}
	r.sess[s.id] = s
	r.res.Trace = append(r.res.Trace, map[string]interface{}{"ev": "authorize", "s": s.id, "client": st.Client, "def": orPlain(st.Def), "d": d, "res": "ok"})
	if len(d) == 0 {
		return nil
	}
	// The node opened a session for a scope string nothing is configured for. The session is only the intermediate
	// artefact: the harness plays the flow to its end with a valid response for the definition the node asks for and a
	// valid token request - a token is the violation of C02. The rest of the script is not meaningful any more.
	r.drift("step %d: authorization request with defects %v (scope %q) accepted", i, d, s.scope)
	s.authDefects = d
	if s.pdURI != "" {
		req, _ := http.NewRequest(http.MethodGet, s.pdURI, nil)
		req.Header.Set("Accept", "application/json")
		if rep, err := r.w.do(req); err == nil && rep.status == 200 {
			var pd pe.PresentationDefinition
			if json.Unmarshal(rep.body, &pd) == nil && pd.Id != "" {
				s.pd = &pd
			}
		}
	}
	if err := r.stepAuthzResponse(i, step{A: "AuthzResponse", S: s.id, Fmt: "ldp", VCFmt: "ldp", Res: "code"}); err != nil {
		return err
	}
	if s.code != "" {
		if err := r.stepCodeToken(i, step{A: "CodeToken", S: s.id, Dpop: "none"}); err != nil {
			return err
		}
	}
	return errStop
}

func (r *runner) stepAuthzResponse(i int, st step) error {
	w := r.w
	s := r.sess[st.S]
	if s == nil {
		return fmt.Errorf("unknown session %s", st.S)
	}
	st.Def = s.def
	st.PD2 = s.scope == "s2"
	st.defOverride = s.pd
	nonce := s.nonce
	dOrig := st.D
	if has(st.D, "badnonce") && st.variant("badnonce", 2) == 1 {
		// not a nonce of nobody, but the nonce of another live session of the same client
		side, err := r.authorize(i, step{Client: s.client, Def: s.def, PD2: st.PD2, S: "side"})
		if err != nil {
			return err
		}
		st.foreignNonce = side.nonce
	}
	p, err := w.buildPresentation(st, "code", nonce, s.audience, time.Now().Add(-200*time.Millisecond))
	st.D = dOrig
	if err != nil {
		return err
	}
	state := s.state
	if has(st.D, "state") {
		state = nutsCrypto.GenerateNonce()
	}
	target := s.responseURI
	if has(st.D, "tenant") {
		target = w.public + "/oauth2/" + otherSubject + "/response"
	}
	rep, err := w.post(target, url.Values{"vp_token": {p.envelope}, "presentation_submission": {p.submission}, "state": {state}}, nil)
	if err != nil {
		return err
	}
	var o outcome
	if rep.status == 200 && rep.json != nil {
		if ru, ok := rep.json["redirect_uri"].(string); ok {
			if u, err := url.Parse(ru); err == nil {
				if c := u.Query().Get("code"); c != "" {
					o.code = c
				} else if e := u.Query().Get("error"); e != "" {
					o.err, o.desc = e, u.Query().Get("error_description")
				}
			}
		}
	}
	if o.code == "" && o.err == "" {
		o.err, o.desc = rep.oauthError()
	}
	d := sortedD(st.D)
	nvp, main, pos, audv := shapeOf(st)
	r.res.Checks++
	if o.code != "" {
		if s.code != "" {
			r.drift("step %d: a second authorization code for one session", i)
		}
		s.code = o.code
		s.usedCode = false
		sessDefects(r, s.id, d, p, fmt.Sprintf("response: vp %s, vc %s, variants %v; %d presentation(s), credentials in #%d, defect on #%d, audience class %q",
			st.Fmt, st.VCFmt, st.Var, nvp, main, pos, audv))
		if len(d) > 0 {
			// The code is only the intermediate artefact. The harness redeems it at once with a valid token request:
			// a token for it is the violation of C02. The rest of the script is not meaningful any more.
			r.drift("step %d: authorization code issued for a response with defects %v", i, d)
			r.res.Trace = append(r.res.Trace, map[string]interface{}{"ev": "authzresp", "s": st.S, "d": d, "fmt": st.Fmt, "res": "code", "stage": "code",
				"nvp": nvp, "main": main, "pos": pos, "audv": audv})
			if err := r.stepCodeToken(i, step{A: "CodeToken", S: st.S, Dpop: "none"}); err != nil {
				return err
			}
			return errStop
		}
	} else if len(d) == 0 && st.Res == "code" {
		r.res.CleanFail++
		r.drift("step %d: clean authorization response rejected: %s %s", i, o.err, o.desc)
	}
	r.res.Trace = append(r.res.Trace, map[string]interface{}{"ev": "authzresp", "s": st.S, "d": d, "fmt": st.Fmt, "res": resOf(o), "stage": stageOf(o, "code"),
		"nvp": nvp, "main": main, "pos": pos, "audv": audv})
	r.observe(i, st, map[string]interface{}{"code": o.code != "", "error": o.err, "description": o.desc})
	if st.Res != "" && resOf(o) != st.Res && !(o.code != "" && len(d) > 0) {
		r.drift("step %d %s %v: model %s/%s, node %s (%s)", i, st.A, d, st.Res, st.Stage, resOf(o), o.desc)
	}
	return nil
}

var sessInfo = struct {
	sync.Mutex
	m map[*runner]map[string]*sessIssue
}{m: map[*runner]map[string]*sessIssue{}}

type sessIssue struct {
	info    string
	defects []string
	p       *presentation
}

func sessNote(si *sessIssue) string {
	if si == nil {
		return ""
	}
	return si.info
}

func sessDefects(r *runner, sid string, d []string, p *presentation, info string) {
	sessInfo.Lock()
	defer sessInfo.Unlock()
	if sessInfo.m[r] == nil {
		sessInfo.m[r] = map[string]*sessIssue{}
	}
	sessInfo.m[r][sid] = &sessIssue{defects: d, p: p, info: info}
}

func (r *runner) stepCodeToken(i int, st step) error {
	w := r.w
	s := r.sess[st.S]
	if s == nil {
		return fmt.Errorf("unknown session %s", st.S)
	}
	code := s.code
	if code == "" || has(st.D, "code") {
		code = nutsCrypto.GenerateNonce()
	}
	form := url.Values{"grant_type": {"authorization_code"}, "code": {code}, "code_verifier": {s.verifier}, "client_id": {w.clientID(s.client)},
		"redirect_uri": {w.clientID(s.client) + "/callback"}}
	if has(st.D, "nocode") {
		form.Del("code")
	}
	if has(st.D, "client") {
		other := "c2"
		if s.client == "c2" {
			other = "c1"
		}
		form.Set("client_id", w.clientID(other))
	}
	if has(st.D, "verifier") {
		form.Set("code_verifier", nutsCrypto.GenerateNonce())
	}
	headers := map[string]string{}
	bad := 0
	if has(st.D, "baddpop") {
		bad = 1
	}
	if hdr := w.dpopHeader(st.Dpop, bad, st.variant("baddpop", 2)); hdr != "" {
		headers["DPoP"] = hdr
	}
	sr := &sentReq{form: form, headers: headers, st: st}
	o, err := r.sendToken(sr)
	if err != nil {
		return err
	}
	d := sortedD(st.D)
	sessInfo.Lock()
	si := sessInfo.m[r][s.id]
	sessInfo.Unlock()
	tokID := "none"
	r.res.Checks++
	if o.issued {
		var all []string
		all = append(all, d...)
		if si != nil {
			for _, x := range si.defects {
				all = append(all, "response:"+x)
			}
		}
		for _, x := range s.authDefects {
			all = append(all, "authorize:"+x)
		}
		if s.code == "" {
			all = append(all, "no-code-issued")
		}
		if s.usedCode && !has(st.D, "code") {
			all = append(all, "code-reuse")
		}
		sort.Strings(all)
		if len(all) > 0 {
			r.violate(i, "issued-with-defect", map[string]interface{}{"flow": "code", "defect": strings.Join(all, "+")},
				fmt.Sprintf("authorization_code token request with defects %v was answered with an access token (%s)", all, sessNote(si)))
		}
		var p *presentation
		if si != nil {
			p = si.p
		}
		tokID = r.recordToken(i, st, sr, o, "code", w.clientID(s.client), s.scope, dpopKeyOf(st), s.def, p, len(all) == 0)
		if len(all) == 0 {
			r.res.CleanOK++
		}
	} else if len(d) == 0 && st.Res == "issued" {
		r.res.CleanFail++
		r.drift("step %d: clean authorization_code token request rejected: %s %s", i, o.err, o.desc)
	}
	if !has(st.D, "code") && !has(st.D, "nocode") && s.code != "" {
		s.usedCode = true
	}
	r.res.Trace = append(r.res.Trace, map[string]interface{}{"ev": "codetoken", "s": st.S, "d": d, "dpop": orNone(st.Dpop), "res": resOf(o),
		"stage": stageOf(o, "issue"), "tok": tokID})
	r.observe(i, st, map[string]interface{}{"issued": o.issued, "error": o.err, "description": o.desc, "tok": tokID})
	if st.Res != "" && resOf(o) != st.Res && !o.issued {
		r.drift("step %d %s %v: model %s/%s, node %s (%s)", i, st.A, d, st.Res, st.Stage, resOf(o), o.desc)
	}
	return nil
}

// --- introspection

// standard members of an RFC 7662 answer plus the confirmation claim (RFC 7800 / 9449)
var rfc7662 = []string{"active", "scope", "client_id", "username", "token_type", "exp", "iat", "nbf", "sub", "aud", "iss", "jti", "cnf"}

func (r *runner) introspect(token string, ext bool) (*reply, error) {
	ep := "/internal/auth/v2/accesstoken/introspect"
	if ext {
		ep += "_extended"
	}
	return r.w.post(r.w.internal+ep, url.Values{"token": {token}}, nil)
}

func jsonEq(a, b interface{}) bool {
	ja, _ := json.Marshal(a)
	jb, _ := json.Marshal(b)
	return bytes.Equal(ja, jb)
}

func (r *runner) stepIntrospect(i int, st step) error {
	w := r.w
	tr := r.tokens[st.T]
	token := nutsCrypto.GenerateNonce()
	if tr != nil {
		token = tr.token
	}
	rep, err := r.introspect(token, st.Ext)
	if err != nil {
		return err
	}
	r.res.Checks++
	ev := map[string]interface{}{"ev": "introspect", "t": st.T, "ext": st.Ext, "over": []string{}, "over_est": []string{}, "claims": []string{}, "nclaims": "all",
		"iss": "std", "client": "std", "scope": "std", "cnf": "std", "other": []string{}}
	if tr == nil {
		ev["t"] = "bogus"
	}
	active, _ := rep.json["active"].(bool)
	if w.in.Mutant == "always-active" {
		active = true
	}
	switch {
	case rep.status != 200:
		ev["res"] = "error"
	case active:
		ev["res"] = "active"
	default:
		ev["res"] = "inactive"
		if a, present := rep.json["active"]; present {
			if _, isBool := a.(bool); !isBool {
				ev["res"] = "active" // judged below: "active" is not a boolean any more
				active = true
			}
		}
	}
	r.observe(i, st, map[string]interface{}{"status": rep.status, "answer": truncJSON(rep.json), "token": st.T})
	if !active {
		if rep.status == 200 && tr != nil && tr.shift < 900*time.Second {
			r.drift("step %d: unexpired token %s reported inactive", i, tr.id)
		}
		r.res.Trace = append(r.res.Trace, ev)
		return nil
	}
	// --- active: only for a token this node issued and that has not expired ...
	if tr == nil {
		r.violate(i, "active-not-issued", map[string]interface{}{}, "a token this node never issued is reported active")
		r.res.Trace = append(r.res.Trace, ev)
		return nil
	}
	if tr.shift >= 900*time.Second {
		r.violate(i, "active-after-expiry", map[string]interface{}{}, fmt.Sprintf("token %s is reported active %s after its issuance", tr.id, tr.shift))
	}
	// --- ... with the values established at issuance
	a := rep.json
	std := map[string]interface{}{"active": true, "iss": tr.iss, "client_id": tr.client, "scope": tr.scope}
	if tr.cnf != "" {
		std["cnf"] = map[string]interface{}{"jkt": tr.cnf}
	}
	credValues := []interface{}{w.orgName, w.orgCity, w.empName}
	isCred := func(v interface{}) bool {
		for _, c := range credValues {
			if jsonEq(v, c) {
				return true
			}
		}
		return false
	}
	var over []string
	abstract := map[string]string{}
	for m, want := range std {
		got, present := a[m]
		switch {
		case present && jsonEq(got, want):
			abstract[m] = "std"
		case present && isCred(got) && tr.def == m:
			over = append(over, m)
			abstract[m] = "cred"
		default:
			abstract[m] = "other"
			r.violate(i, "introspection-mismatch", map[string]interface{}{"member": m},
				fmt.Sprintf("token %s: member %s is %s, issuance established %s", tr.id, m, js(got), js(want)))
		}
	}
	if tr.cnf == "" {
		if got, present := a["cnf"]; present {
			if isCred(got) && tr.def == "cnf" {
				over = append(over, "cnf")
				abstract["cnf"] = "cred"
			} else {
				abstract["cnf"] = "other"
				r.violate(i, "introspection-mismatch", map[string]interface{}{"member": "cnf"},
					fmt.Sprintf("token %s was issued without key binding, introspection reports cnf=%s", tr.id, js(got)))
			}
		} else {
			abstract["cnf"] = "std"
		}
	}
	// iat / exp
	iat, iok := a["iat"].(float64)
	exp, eok := a["exp"].(float64)
	// the node stamped the token between the moment the request left and the moment the answer arrived
	iatLo, iatHi := tr.issuedAt.Add(-tr.shift).Unix()-2, tr.recvAt.Add(-tr.shift).Unix()+2
	for _, m := range []string{"iat", "exp"} {
		if v, present := a[m]; present && isCred(v) && tr.def == m {
			over = append(over, m)
		}
	}
	if !containsStr(over, "iat") && !containsStr(over, "exp") {
		if !iok || !eok || exp-iat != 900 || iat < float64(iatLo) || iat > float64(iatHi) {
			r.violate(i, "introspection-mismatch", map[string]interface{}{"member": "iat/exp"},
				fmt.Sprintf("token %s: iat=%v exp=%v, issued between %d and %d with a validity of 900s", tr.id, a["iat"], a["exp"], iatLo, iatHi))
		}
	}
	// every other top-level member: a typed member of the answer must never carry a credential-derived value;
	// everything else must be exactly the claims established at issuance
	claimsOK := true
	var claimNames []string
	for m, got := range a {
		if _, isStd := std[m]; isStd || m == "iat" || m == "exp" || m == "cnf" {
			continue
		}
		typed := containsStr(w.memberList, m) || containsStr(rfc7662, m)
		want, isClaim := tr.claims[m]
		switch {
		case typed && isCred(got):
			over = append(over, m)
		case typed:
			// vps, presentation_definitions, presentation_submissions of the extended answer: what issuance stored
			if !st.Ext && m != "aud" {
				r.drift("step %d: member %s in the non-extended answer", i, m)
			}
		case isClaim && jsonEq(got, want):
			claimNames = append(claimNames, m)
		default:
			claimsOK = false
			r.violate(i, "introspection-mismatch", map[string]interface{}{"member": "claim:" + m},
				fmt.Sprintf("token %s: claim %s=%s, issuance established %s", tr.id, m, js(got), js(want)))
		}
	}
	var missing []string
	for m := range tr.claims {
		if _, present := a[m]; !present && !containsStr(w.memberList, m) && !containsStr(rfc7662, m) {
			missing = append(missing, m)
		}
	}
	if len(missing) > 0 {
		claimsOK = false
		ev["nclaims"] = "dropped"
		sort.Strings(missing)
		endpoint := "introspect"
		if st.Ext {
			endpoint = "introspect_extended"
		}
		r.violate(i, "introspection-claims-missing", map[string]interface{}{"endpoint": endpoint},
			fmt.Sprintf("token %s: the claims %v established at issuance are missing from the answer of %s", tr.id, missing, endpoint))
	}
	if st.Ext {
		if vps, ok := a["vps"].([]interface{}); !containsStr(over, "vps") && (!ok || len(vps) != tr.vps) {
			r.violate(i, "introspection-mismatch", map[string]interface{}{"member": "vps"}, fmt.Sprintf("token %s: %d presentations at issuance, vps=%s", tr.id, tr.vps, js(a["vps"])[:min(len(js(a["vps"])), 200)]))
		}
	}
	sort.Strings(over)
	overEst := []string{}
	for _, m := range over {
		established := containsStr([]string{"active", "iss", "client_id", "scope", "iat", "exp"}, m) || (m == "cnf" && tr.cnf != "") ||
			(st.Ext && containsStr([]string{"vps", "presentation_definitions", "presentation_submissions"}, m))
		kind := "claim-injects-standard-member"
		if established {
			kind = "claim-overrides-standard-member"
			overEst = append(overEst, m)
		}
		r.violate(i, kind, map[string]interface{}{"member": m},
			fmt.Sprintf("token %s (definition field id %q): introspection member %s = %s is the credential-derived value", tr.id, tr.def, m, js(a[m])))
	}
	_ = claimsOK
	sort.Strings(claimNames)
	if over == nil {
		over = []string{}
	}
	if claimNames == nil {
		claimNames = []string{}
	}
	ev["over"], ev["over_est"], ev["claims"] = over, overEst, claimNames
	ev["iss"], ev["client"], ev["scope"], ev["cnf"] = abstract["iss"], abstract["client_id"], abstract["scope"], abstract["cnf"]
	r.res.Trace = append(r.res.Trace, ev)
	return nil
}

func js(v interface{}) string {
	b, _ := json.Marshal(v)
	return string(b)
}

func truncJSON(m map[string]interface{}) map[string]interface{} {
	out := map[string]interface{}{}
	for k, v := range m {
		s := js(v)
		if len(s) > 160 {
			out[k] = s[:160] + "..."
		} else {
			out[k] = v
		}
	}
	return out
}

// --- time

// stepAge lets 1/TokenTTL of the token lifetime pass for every token of this script: the stored timestamps move back
func (r *runner) stepAge(i int) error {
	store := r.w.sessions.GetStore(15*time.Minute, "serveraccesstoken")
	for _, tr := range r.tokens {
		var m map[string]interface{}
		if err := store.Get(tr.token, &m); err != nil {
			return fmt.Errorf("token %s not found in the session store: %w", tr.id, err)
		}
		for _, f := range []string{"issued_at", "expiration"} {
			s, ok := m[f].(string)
			if !ok {
				return fmt.Errorf("stored token has no %s", f)
			}
			ts, err := time.Parse(time.RFC3339Nano, s)
			if err != nil {
				return err
			}
			m[f] = ts.Add(-r.w.ageShift).Format(time.RFC3339Nano)
		}
		if err := store.Put(tr.token, m); err != nil {
			return err
		}
		tr.shift += r.w.ageShift
	}
	r.res.Trace = append(r.res.Trace, map[string]interface{}{"ev": "age"})
	return nil
}

func (w *world) runScript(sc script) (res result) {
	res = result{ID: sc.ID, Violations: []violation{}, Drift: []string{}, Trace: []map[string]interface{}{}, Observed: []map[string]interface{}{}}
	r := &runner{w: w, sc: sc, res: &res, nonces: map[string]string{}, pres: map[string]*sentReq{}, tokens: map[string]*tokenRec{},
		sess: map[string]*sessRec{}, issuedBy: map[string]time.Time{}, t0: time.Now()}
	defer func() {
		if p := recover(); p != nil {
			res.Error = fmt.Sprintf("panic: %v", p)
		}
		sessInfo.Lock()
		delete(sessInfo.m, r)
		sessInfo.Unlock()
	}()
	for i, st := range sc.Steps {
		var err error
		switch st.A {
		case "S2SToken":
			err = r.stepS2S(i, st, false)
		case "S2SReplay":
			err = r.stepS2S(i, st, true)
		case "Authorize":
			err = r.stepAuthorize(i, st)
		case "AuthzResponse":
			err = r.stepAuthzResponse(i, st)
		case "CodeToken":
			err = r.stepCodeToken(i, st)
		case "Introspect":
			err = r.stepIntrospect(i, st)
		case "Tick":
			r.now++
			res.Trace = append(res.Trace, map[string]interface{}{"ev": "tick"})
		case "Age":
			err = r.stepAge(i)
		default:
			err = fmt.Errorf("unknown action %s", st.A)
		}
		if err == errLate || err == errStop {
			return
		}
		if err != nil {
			res.Error = fmt.Sprintf("step %d (%s): %v", i, st.A, err)
			return
		}
	}
	return
}

// prewarm builds the credentials the real-time scripts use before their clocks start
func (w *world) prewarm(t *testing.T) {
	for _, f := range []string{"ldp", "jwt"} {
		for _, k := range []string{"org", "emp", "vcsig", "node"} {
			if _, err := w.cred(k, f, w.h1, 0); err != nil {
				t.Fatalf("prewarm: %v", err)
			}
		}
	}
}

// discover: which top-level members does an extended introspection answer have?
func (w *world) discover() result {
	res := w.runScript(script{ID: "discover", Steps: []step{
		{A: "S2SToken", P: "p1", N: "n1", Fmt: "ldp", Def: "plain", Dpop: "k1", Client: "c1", Tok: "t1", Res: "issued"},
	}})
	if res.Error != "" {
		return res
	}
	r := &runner{w: w}
	// the token string is not kept in the result: issue another one directly
	st := step{A: "S2SToken", Fmt: "jwt", Client: "c1", Dpop: "k1"}
	p, err := w.buildPresentation(st, "s2s", nutsCrypto.GenerateNonce(), w.asURL(), time.Now().Add(-200*time.Millisecond))
	if err != nil {
		res.Error = err.Error()
		return res
	}
	o, err := r.sendToken(&sentReq{form: url.Values{"grant_type": {"vp_token-bearer"}, "assertion": {p.envelope}, "presentation_submission": {p.submission},
		"scope": {p.scope}, "client_id": {w.s2sClientID("c1")}}, headers: map[string]string{"DPoP": w.dpopHeader("k1", 0, 0)}})
	if err != nil || !o.issued {
		res.Error = fmt.Sprintf("baseline request not accepted: %v %s %s", err, o.err, o.desc)
		return res
	}
	rep, err := r.introspect(o.token, true)
	if err != nil || rep.status != 200 {
		res.Error = fmt.Sprintf("baseline introspection failed: %v", err)
		return res
	}
	for k := range rep.json {
		if _, isClaim := p.expected[k]; isClaim {
			// a credential-derived claim of the baseline definition (the extended answer carries them since the repair of
			// C02-extclaims), not a member of the answer type
			continue
		}
		res.Members = append(res.Members, k)
	}
	sort.Strings(res.Members)
	return res
}

// ---------------------------------------------------------------------------------------------

func TestDriver(t *testing.T) {
	inPath, outPath := os.Getenv("VERIF_IN"), os.Getenv("VERIF_OUT")
	if inPath == "" {
		t.Skip("VERIF_IN not set")
	}
	logrus.SetLevel(logrus.PanicLevel)
	logrus.SetOutput(io.Discard)
	if os.Getenv("VERIF_DEBUG") == "" {
		// the node's audit logger writes to stderr
		if devnull, err := os.OpenFile(os.DevNull, os.O_WRONLY, 0); err == nil {
			os.Stderr = devnull
		}
	}
	raw, err := os.ReadFile(inPath)
	if err != nil {
		t.Fatal(err)
	}
	var in input
	if err := json.Unmarshal(raw, &in); err != nil {
		t.Fatal(err)
	}
	w := newWorld(t, in)
	w.memberList = in.Members
	out, err := os.Create(outPath)
	if err != nil {
		t.Fatal(err)
	}
	defer out.Close()
	bw := bufio.NewWriter(out)
	defer bw.Flush()
	enc := json.NewEncoder(bw)
	if in.Mode == "discover" {
		_ = enc.Encode(w.discover())
		return
	}
	// real-time scripts sleep most of the time: run them concurrently, the others one after the other
	var mu sync.Mutex
	var wg sync.WaitGroup
	nrt := 0
	for _, sc := range in.Scripts {
		if sc.Realtime {
			if nrt == 0 {
				w.prewarm(t)
			}
			nrt++
			wg.Add(1)
			go func(sc script, delay time.Duration) {
				defer wg.Done()
				time.Sleep(delay)
				res := w.runScript(sc)
				mu.Lock()
				_ = enc.Encode(res)
				mu.Unlock()
			}(sc, time.Duration(nrt)*60*time.Millisecond)
		}
	}
	for _, sc := range in.Scripts {
		if !sc.Realtime {
			res := w.runScript(sc)
			mu.Lock()
			_ = enc.Encode(res)
			mu.Unlock()
		}
	}
	wg.Wait()
}
