// World of the Subject.tla driver (C13): REAL didsubject.SqlManager + didweb.Manager + didnuts.Manager over a real sqlite
// database (migrations of the repository), a real didstore (bbolt), the real did:nuts ambassador and a real key store.
// Only the Nuts network is a scripted fake (network.Transactions); the method managers are decorated (interface seam
// didsubject.MethodManager) to record the commit protocol and to inject the scripted "process stops here".
package subject

import (
	"context"
	"errors"
	"fmt"
	"io"
	"os"
	"path/filepath"
	"sync"
	"testing"
	"time"

	"github.com/nats-io/nats.go"
	"github.com/nuts-foundation/go-did/did"
	"github.com/nuts-foundation/nuts-node/audit"
	"github.com/nuts-foundation/nuts-node/core"
	nutsCrypto "github.com/nuts-foundation/nuts-node/crypto"
	"github.com/nuts-foundation/nuts-node/crypto/hash"
	"github.com/nuts-foundation/nuts-node/events"
	"github.com/nuts-foundation/nuts-node/network"
	"github.com/nuts-foundation/nuts-node/network/dag"
	"github.com/nuts-foundation/nuts-node/storage"
	"github.com/nuts-foundation/nuts-node/storage/orm"
	"github.com/nuts-foundation/nuts-node/vdr/didnuts"
	"github.com/nuts-foundation/nuts-node/vdr/didnuts/didstore"
	"github.com/nuts-foundation/nuts-node/vdr/didsubject"
	"github.com/nuts-foundation/nuts-node/vdr/didweb"
	"github.com/nuts-foundation/nuts-node/vdr/resolver"
	"gorm.io/gorm"
)

// stopSentinel is what a scripted component panics with: "the process stops here".
type stopSentinel struct{ at string }

var errScriptedNetwork = errors.New("scripted: network refuses the transaction")

// ---------------------------------------------------------------------------------------------- fake network

type publishedDoc struct {
	DID     string
	Hash    hash.SHA256Hash
	Payload []byte
	Ref     hash.SHA256Hash
}

// fakeNet is the only scripted component: network.Transactions. A successful CreateTransaction builds and signs a real
// dag.Transaction with the real key store and hands it (with its payload) to the receiver the REAL ambassador
// registered with Subscribe, exactly as the DAG notifier would.
type fakeNet struct {
	network.Transactions // nil: any method the code starts to use shows up as a nil dereference (driver error)
	mu        sync.Mutex
	keys      nutsCrypto.KeyStore
	recv      dag.ReceiverFn
	txs       []dag.Transaction
	payloads  map[hash.SHA256Hash][]byte
	outcome   string // "ok" | "fail"
	published []publishedDoc
	calls     int
	recvErrs  []string
}

func (f *fakeNet) Subscribe(_ string, receiver dag.ReceiverFn, _ ...network.SubscriberOption) error {
	f.recv = receiver
	return nil
}
func (f *fakeNet) WithPersistency() network.SubscriberOption {
	return func() dag.NotifierOption { return dag.WithContext(context.Background()) }
}
func (f *fakeNet) DiscoverServices(_ did.DID) {}
func (f *fakeNet) Disabled() bool              { return false }
func (f *fakeNet) GetTransaction(ref hash.SHA256Hash) (dag.Transaction, error) {
	for _, tx := range f.txs {
		if tx.Ref().Equals(ref) {
			return tx, nil
		}
	}
	return nil, dag.ErrTransactionNotFound
}
func (f *fakeNet) GetTransactionPayload(ref hash.SHA256Hash) ([]byte, error) {
	tx, err := f.GetTransaction(ref)
	if err != nil {
		return nil, dag.ErrPayloadNotFound
	}
	return f.payloads[tx.PayloadHash()], nil
}

func (f *fakeNet) CreateTransaction(ctx context.Context, tpl network.Template) (dag.Transaction, error) {
	f.calls++
	outcome := f.outcome
	if a := curActor(); a != nil {
		outcome = a.net // concurrent requests: the answer is scripted per request
	}
	if outcome == "fail" {
		return nil, errScriptedNetwork
	}
	for _, prev := range tpl.AdditionalPrevs {
		if _, err := f.GetTransaction(prev); err != nil {
			return nil, fmt.Errorf("additional prev is unknown or missing payload (prev=%s)", prev)
		}
	}
	prevs := make([]hash.SHA256Hash, 0)
	if n := len(f.txs); n > 0 {
		prevs = append(prevs, f.txs[n-1].Ref())
	}
	prevs = append(prevs, tpl.AdditionalPrevs...)
	payloadHash := hash.SHA256Sum(tpl.Payload)
	unsigned, err := dag.NewTransaction(payloadHash, tpl.Type, prevs, nil, uint32(len(f.txs)))
	if err != nil {
		return nil, fmt.Errorf("unable to create new transaction: %w", err)
	}
	ts := time.Now()
	if !tpl.Timestamp.IsZero() {
		ts = tpl.Timestamp
	}
	tx, err := dag.NewTransactionSigner(f.keys, tpl.KID, tpl.PublicKey).Sign(ctx, unsigned, ts)
	if err != nil {
		return nil, fmt.Errorf("unable to sign newly created transaction: %w", err)
	}
	f.txs = append(f.txs, tx)
	f.payloads[payloadHash] = tpl.Payload
	var doc did.Document
	_ = doc.UnmarshalJSON(tpl.Payload)
	f.published = append(f.published, publishedDoc{DID: doc.ID.String(), Hash: payloadHash, Payload: tpl.Payload, Ref: tx.Ref()})
	if f.recv != nil {
		if _, err := f.recv(dag.Event{Type: dag.PayloadEventType, Hash: tx.Ref(), Transaction: tx, Payload: tpl.Payload}); err != nil {
			f.recvErrs = append(f.recvErrs, err.Error())
		}
	}
	return tx, nil
}

// stub of events.Event: the ambassador only needs it for the REPROCESS stream, which the scenarios do not use.
type noEvents struct{}
type noPool struct{}

func (noEvents) GetStream(string) events.Stream { return nil }
func (noEvents) Pool() events.ConnectionPool    { return noPool{} }
func (noPool) Acquire(context.Context) (events.Conn, nats.JetStreamContext, error) {
	return nil, nil, errors.New("no NATS in this harness")
}
func (noPool) Shutdown() {}

// ------------------------------------------------------------------------------------ decorated method manager

// deco decorates a real MethodManager: records Commit / IsCommitted and stops the process at the scripted boundary.
type deco struct {
	method string
	real   didsubject.MethodManager
	w      *world
}

func (d *deco) NewDocument(ctx context.Context, f orm.DIDKeyFlags) (*orm.DidDocument, error) {
	return d.real.NewDocument(ctx, f)
}
func (d *deco) NewVerificationMethod(ctx context.Context, c did.DID, f orm.DIDKeyFlags) (*did.VerificationMethod, error) {
	return d.real.NewVerificationMethod(ctx, c, f)
}
func (d *deco) Commit(ctx context.Context, ch orm.DIDChangeLog) error {
	if a := curActor(); a != nil {
		a.sched.At(a.name, "commit") // scheduling point of concurrent requests: before every MethodManager.Commit
	}
	return d.w.onCommit(d, ctx, ch)
}
func (d *deco) IsCommitted(ctx context.Context, ch orm.DIDChangeLog) (bool, error) {
	ok, err := d.real.IsCommitted(ctx, ch)
	d.w.onIsCommitted(d, ch, ok, err)
	return ok, err
}

// ------------------------------------------------------------------------------------------------------ world

type world struct {
	t     *testing.T
	dir   string
	eng   storage.Engine
	db    *gorm.DB
	keys  *nutsCrypto.Crypto
	store didstore.Store
	net   *fakeNet
	amb   didnuts.Ambassador
	mgr   *didsubject.SqlManager
	r     *runner
	obs   *didsubject.SqlManager // same database through the engine's own (ungated) handle: observations of the driver
	preVMs map[string]bool
	res   didsubject.Resolver
	ctx   context.Context
	order []string // insertion order of the method manager map (biases Go's map iteration)
	methods []string // configuration of the node: the enabled DID methods (didmethods), in preferred order

	// per operation
	cur *opRun
	// per sweep
	sweepCalls []map[string]any
	trace      []map[string]any
}

type opRun struct {
	stopAfter int // stop after this many CommitMethod calls have returned (0 = right after Tx1); -1 = never
	commits   []commitRec
	tx1Logged bool
	tx1Out    string
	op        string
	subject   string
	p         string // request goroutine (model: Procs); "" = the sequential driver goroutine (p1)
	finished  bool
	newIDs    []string
	keys      []string
	published bool
}

type commitRec struct {
	Method string `json:"m"`
	Res    string `json:"res"`
	Err    string `json:"err,omitempty"`
}

var templateOnce sync.Once
var templateDir string

func copyDir(src, dst string) error {
	return filepath.Walk(src, func(p string, info os.FileInfo, err error) error {
		if err != nil {
			return err
		}
		rel, _ := filepath.Rel(src, p)
		target := filepath.Join(dst, rel)
		if info.IsDir() {
			return os.MkdirAll(target, 0o755)
		}
		in, err := os.Open(p)
		if err != nil {
			return err
		}
		defer in.Close()
		out, err := os.Create(target)
		if err != nil {
			return err
		}
		defer out.Close()
		_, err = io.Copy(out, in)
		return err
	})
}

// quiet runs f with os.Stdout redirected to /dev/null (NewTestStorageEngineInDir prints a line per engine).
func quiet(f func()) {
	old := os.Stdout
	null, err := os.OpenFile(os.DevNull, os.O_WRONLY, 0)
	if err == nil {
		os.Stdout = null
		defer func() { os.Stdout = old; null.Close() }()
	}
	f()
}

// newWorld opens a storage engine on a copy of a migrated template directory (the repository's own migrations ran once
// per process through storage.NewTestStorageEngineInDir; re-opening a migrated database only checks the version table).
func newWorld(t *testing.T, base string, n int, methods []string) *world {
	templateOnce.Do(func() {
		templateDir = filepath.Join(base, "template")
		if err := os.MkdirAll(templateDir, 0o755); err != nil {
			t.Fatal(err)
		}
		quiet(func() {
			eng := storage.NewTestStorageEngineInDir(t, templateDir)
			_ = eng.Shutdown()
		})
	})
	dir := filepath.Join(base, fmt.Sprintf("w%06d", n))
	if err := copyDir(templateDir, dir); err != nil {
		t.Fatal(err)
	}
	w := &world{t: t, dir: dir, ctx: audit.TestContext(), order: []string{"nuts", "web"}, methods: methods}
	quiet(func() { w.eng = storage.NewTestStorageEngineInDir(t, dir) })
	w.db = w.eng.GetSQLDatabase()
	w.keys = nutsCrypto.NewDatabaseCryptoInstance(w.db)
	w.store = didstore.New(w.eng.GetProvider("vdr"))
	if err := w.store.(core.Configurable).Configure(core.ServerConfig{}); err != nil {
		t.Fatal(err)
	}
	w.net = &fakeNet{keys: w.keys, payloads: map[hash.SHA256Hash][]byte{}, outcome: "ok"}
	w.amb = didnuts.NewAmbassador(w.net, w.store, noEvents{})
	_ = w.amb.Start() // registers the real receiver with the fake network; the NATS part fails and is not needed
	if w.net.recv == nil {
		t.Fatal("ambassador did not subscribe to the network")
	}
	w.res = didsubject.Resolver{DB: w.db}
	w.restart()
	return w
}

func (w *world) close() {
	_ = w.eng.Shutdown()
	_ = os.RemoveAll(w.dir)
}

// restart = a new process on the same persistent state: new managers (wired as vdr.Module.Configure does).
func (w *world) restart() {
	router := &resolver.DIDResolverRouter{}
	nutsMgr := didnuts.NewManager(w.keys, w.net, w.store, router, w.db)
	router.Register(didnuts.MethodName, &didnuts.Resolver{Store: w.store})
	rootDID := did.MustParseDID("did:web:example.com")
	webMgr := didweb.NewManager(rootDID, "iam", w.keys, w.db)
	router.Register(didweb.MethodName, didsubject.Resolver{DB: w.db})
	// only the enabled methods get a method manager (vdr.Module.Configure: config.DIDMethods)
	all := map[string]didsubject.MethodManager{"nuts": nutsMgr, "web": webMgr}
	real := map[string]didsubject.MethodManager{}
	for _, m := range w.methods {
		real[m] = all[m]
	}
	mm := map[string]didsubject.MethodManager{}
	for _, m := range w.order {
		if real[m] != nil {
			mm[m] = &deco{method: m, real: real[m], w: w}
		}
	}
	// the SqlManager's own database handle is gated (scheduling points of concurrent requests, see conc_test.go)
	w.mgr = didsubject.New(w.gatedDB(), mm, w.keys, w.methods)
	w.obs = didsubject.New(w.db, real, w.keys, w.methods)
}

func (w *world) onCommit(d *deco, ctx context.Context, ch orm.DIDChangeLog) error {
	r := w.cur
	if a := curActor(); a != nil {
		r = a.run
		r.newIDs = append(r.newIDs, ch.DIDDocumentVersionID)
		// keys created by this request: verification methods of its version that no earlier version of the DID has
		var vms, earlier []string
		w.db.Table("did_document_to_verification_method").Where("did_document_id = ?", ch.DIDDocumentVersionID).Pluck("verification_method_id", &vms)
		w.db.Raw("SELECT j.verification_method_id FROM did_document_to_verification_method j JOIN did_document_version v ON v.id = j.did_document_id WHERE v.did = ? AND v.version < ?",
			ch.DIDDocumentVersion.DID.ID, ch.DIDDocumentVersion.Version).Scan(&earlier)
		old := map[string]bool{}
		for _, vm := range earlier {
			old[vm] = true
		}
		for _, vm := range vms {
			if !w.preVMs[vm] && !old[vm] {
				r.keys = append(r.keys, vm)
			}
		}
	}
	if r == nil {
		return d.real.Commit(ctx, ch)
	}
	pubBefore := len(w.net.published)
	defer func() {
		if len(w.net.published) > pubBefore {
			r.published = true
		}
	}()
	if !r.tx1Logged {
		w.logTx1(r, "changed")
	}
	if r.stopAfter == len(r.commits) {
		panic(stopSentinel{at: fmt.Sprintf("before-commit-%d", len(r.commits)+1)})
	}
	err := d.real.Commit(ctx, ch)
	rec := commitRec{Method: d.method, Res: "ok"}
	if err != nil {
		rec.Res, rec.Err = "fail", err.Error()
	}
	r.commits = append(r.commits, rec)
	ev := map[string]any{"ev": "commit", "m": d.method, "res": rec.Res, "p": r.proc()}
	if rec.Err != "" {
		ev["err"] = rec.Err
	}
	w.event(ev)
	if r.stopAfter == len(r.commits) {
		panic(stopSentinel{at: fmt.Sprintf("after-commit-%d", len(r.commits))})
	}
	return err
}

func (w *world) onIsCommitted(d *deco, ch orm.DIDChangeLog, ok bool, err error) {
	rec := map[string]any{"m": d.method, "did": ch.DID().String(), "type": ch.Type, "committed": ok}
	if err != nil {
		rec["err"] = err.Error()
	}
	w.sweepCalls = append(w.sweepCalls, rec)
}

func (r *opRun) proc() string {
	if r.p == "" {
		return "p1"
	}
	return r.p
}
