// Driver for Subject.tla (C13): replays TLC behaviours on the REAL didsubject.SqlManager (see world_test.go) and evaluates
// the property statement directly on the real observables (reference oracle below). One trace event per step for TLC.
package subject

import (
	"bufio"
	"encoding/json"
	"errors"
	"fmt"
	"io"
	"net/url"
	"os"
	"sort"
	"strings"
	"testing"
	"time"

	ssi "github.com/nuts-foundation/go-did"
	"github.com/nuts-foundation/go-did/did"
	"github.com/nuts-foundation/nuts-node/audit"
	"github.com/nuts-foundation/nuts-node/crypto/hash"
	"github.com/nuts-foundation/nuts-node/storage/orm"
	"github.com/nuts-foundation/nuts-node/vdr/didsubject"
	"github.com/nuts-foundation/nuts-node/vdr/resolver"
	"github.com/sirupsen/logrus"
)

// ------------------------------------------------------------------------------------------------ input/output

type step struct {
	A     string   `json:"a"`               // op | tick | sweep | conc
	Ops   []concOp `json:"ops,omitempty"`   // conc: the concurrent requests (per request goroutine p in order)
	Sched []string `json:"sched,omitempty"` // conc: schedule, one entry = "request p executes its next critical section"
	Op    string   `json:"op,omitempty"`    // create addSvc updSvc delSvc addKey deactivate
	S     string   `json:"s,omitempty"`     // subject
	Net   string   `json:"net,omitempty"`   // ok | fail : answer of the network to CreateTransaction during this op
	Stop  int      `json:"stop"`            // -1 no stop; k: the process stops after k CommitMethod calls returned (0 = right after Tx1)
	Order []string `json:"order,omitempty"` // method order of the behaviour (biases the Go map; checked, see OrderMiss)
	Retry bool     `json:"retry,omitempty"` // repetition of the operation that was hit by a fault (tail of the behaviour)
}

type script struct {
	ID    string `json:"id"`
	Steps []step `json:"steps"`
	// configuration of the node and input class of Create (Subject.tla: cfg)
	Methods []string `json:"methods,omitempty"` // enabled DID methods in preferred order; default web, nuts
	Naming  string   `json:"naming,omitempty"`  // given (SubjectCreationOption) | generated (no option) | legacy (NutsLegacyNamingOption); default given
}

type input struct {
	Subjects []string `json:"subjects"`
	Scripts  []script `json:"scripts"`
	Attempts int      `json:"attempts"` // attempts to realise the scripted method order (Go map iteration order is random)
	Mutate   string   `json:"mutate,omitempty"` // binding demonstration only: corrupt one recorded field
}

type violation struct {
	Prop    string `json:"prop"`
	Kind    string `json:"kind"`
	Site    string `json:"site"`  // observed circumstances that can explain the violation, "|"-separated (signature of known findings)
	Subject string `json:"subject,omitempty"`
	Detail  string `json:"detail"`
	Step    int    `json:"step"`
}

type result struct {
	ID         string           `json:"id"`
	Violations []violation      `json:"violations"`
	Drift      []string         `json:"drift"`
	Error      string           `json:"error,omitempty"`
	Trace      []map[string]any `json:"trace"`
	Checks     int              `json:"checks"`
	OrderMiss  int              `json:"order_miss"` // ops whose scripted method order was not realised (still a valid behaviour)
	Attempts   int              `json:"attempts"`
	Orders     []string         `json:"orders"`  // observed commit orders "op:cut:m1,m2"
	Outcomes   []string         `json:"outcomes"` // per op step: ok | err | stopped | reject | noop
}

// ---------------------------------------------------------------------------------------------------- snapshots

type didSnap struct {
	DID        string
	Method     string
	Versions   []int
	VersionIDs []string
	Hashes     []string // sha256 of raw per version
	LatestVMs  []string
	LatestSvc  string // none | a | a2 | other
	StoreFound bool   // did:nuts only: the didstore (what the network has) knows the DID
	StoreHash  string
	StoreDeact bool
	StoreVMs   []string
	PubCount   int
}

type subjSnap struct {
	DIDs []didSnap
}

type snap struct {
	Log      int
	Subjects map[string]subjSnap
}

var svcA = did.Service{Type: "tA", ServiceEndpoint: "https://a.example"}
var svcA2 = did.Service{Type: "tA", ServiceEndpoint: "https://a2.example"}

func svcName(doc *did.Document) string {
	if doc == nil || len(doc.Service) == 0 {
		return "none"
	}
	if len(doc.Service) == 1 {
		var ep string
		_ = doc.Service[0].UnmarshalServiceEndpoint(&ep)
		switch ep {
		case "https://a.example":
			return "a"
		case "https://a2.example":
			return "a2"
		}
	}
	return "other"
}

func (w *world) snapshot(subjects []string) snap {
	sn := snap{Subjects: map[string]subjSnap{}}
	var n int64
	w.db.Table("did_change_log").Count(&n)
	sn.Log = int(n)
	for _, s := range subjects {
		var ss subjSnap
		var dids []did.DID
		if name := w.r.realName(s); name != "" {
			var err error
			dids, err = w.obs.ListDIDs(w.ctx, name)
			if err != nil && !errors.Is(err, didsubject.ErrSubjectNotFound) {
				panic(fmt.Sprintf("ListDIDs: %v", err))
			}
		}
		for _, id := range dids {
			ds := didSnap{DID: id.String(), Method: id.Method, LatestSvc: "none"}
			var docs []orm.DidDocument
			w.db.Where("did = ?", id.String()).Order("version").Find(&docs)
			for _, d := range docs {
				ds.Versions = append(ds.Versions, d.Version)
				ds.VersionIDs = append(ds.VersionIDs, d.ID)
				ds.Hashes = append(ds.Hashes, hash.SHA256Sum([]byte(d.Raw)).String())
			}
			// the observable of the statement: what Resolve shows for the DID
			doc, _, rerr := w.res.Resolve(id, &resolver.ResolveMetadata{AllowDeactivated: true})
			if rerr == nil && doc != nil {
				for _, vm := range doc.VerificationMethod {
					ds.LatestVMs = append(ds.LatestVMs, vm.ID.String())
				}
				ds.LatestSvc = svcName(doc)
			}
			if id.Method == "nuts" {
				sd, sm, serr := w.store.Resolve(id, &resolver.ResolveMetadata{AllowDeactivated: true})
				if serr == nil {
					ds.StoreFound, ds.StoreHash, ds.StoreDeact = true, sm.Hash.String(), sm.Deactivated
					for _, vm := range sd.VerificationMethod {
						ds.StoreVMs = append(ds.StoreVMs, vm.ID.String())
					}
				}
				for _, p := range w.net.published {
					if p.DID == ds.DID {
						ds.PubCount++
					}
				}
			}
			ss.DIDs = append(ss.DIDs, ds)
		}
		sort.Slice(ss.DIDs, func(i, j int) bool { return ss.DIDs[i].DID < ss.DIDs[j].DID })
		sn.Subjects[s] = ss
	}
	return sn
}

func (ss subjSnap) byMethod(m string) []didSnap {
	var out []didSnap
	for _, d := range ss.DIDs {
		if d.Method == m {
			out = append(out, d)
		}
	}
	return out
}

func (ss subjSnap) hasDocs() bool {
	for _, d := range ss.DIDs {
		if len(d.Versions) > 0 {
			return true
		}
	}
	return false
}

func last[T any](xs []T) (T, bool) {
	var zero T
	if len(xs) == 0 {
		return zero, false
	}
	return xs[len(xs)-1], true
}

// projection of the state for trace validation (TraceSubject.tla compares it with the model state)
func (sn snap) project(subjects []string) map[string]any {
	st := map[string]any{}
	// service / key count are projected from the did:web document when the subject has one, else from did:nuts
	ref := "nuts"
	for _, s := range subjects {
		for _, d := range sn.Subjects[s].DIDs {
			if d.Method == "web" {
				ref = "web"
			}
		}
	}
	for _, s := range subjects {
		ss := sn.Subjects[s]
		p := map[string]any{"rows": len(ss.DIDs), "web": []int{}, "nuts": []int{}, "pub": 0, "svc": "none", "nkeys": 0}
		for _, d := range ss.DIDs {
			vs := d.Versions
			if vs == nil {
				vs = []int{}
			}
			p[d.Method] = vs
			if d.Method == "nuts" {
				p["pub"] = d.PubCount
			}
			if d.Method == ref {
				p["svc"] = d.LatestSvc
				p["nkeys"] = len(d.LatestVMs)
			}
		}
		st[s] = p
	}
	return st
}

// ------------------------------------------------------------------------------------------------------ runner

type opTrack struct {
	step       int
	op, s      string
	outcome    string // ok | err | stopped
	faulted    bool   // hit by an injected fault (scripted network failure or stop)
	newIDs     []string
	published  bool
	keys       []string
	resolved   string // "" | kept | abandoned | partial
	pendingAt  bool   // the subject had change-log rows when the operation started
	deactAt    bool   // the network document of the subject was deactivated when the operation started
}

type runner struct {
	w        *world
	in       input
	subjects []string
	res      *result
	stepNo   int
	tracks   []*opTrack
	// since the last clean quiescent point
	opOnPending map[string]bool
	concOnPending map[string]bool // a request's first transaction ran while another request on the subject was in flight
	liveRuns    []*opRun
	sweepAbort  string // cause of the last aborted sweep ("" = none)
	committed   map[string][]int // per DID: version list at the last quiescent point
	didsOf      map[string]map[string]string // per subject: method -> DID once documents were committed
	naming      string            // how Create names the subjects of this script
	names       map[string]string // model subject -> the subject name the real Create gave it (generated / legacy naming)
	creating    string              // model subject whose Create is in flight ("" = none) and the subject names before it
	namesBefore map[string][]did.DID
}

// created is what a successful Create returned: the subject name and the DIDs of the documents
type created struct {
	name string
	dids []string
}

// realName is the subject name of the real node for a subject of the model. With a given name that is the name itself;
// a generated / legacy name is known from the last Create of the subject ("" = there is none yet).
func (r *runner) realName(s string) string {
	if r.naming == "given" {
		return s
	}
	if r.creating == s {
		// the Create has not returned (yet): the subject is known only through the list of subjects
		if fresh := r.freshNames(); len(fresh) > 0 {
			return fresh[0]
		}
		return ""
	}
	return r.names[s]
}

// freshNames: the subject names that appeared since the Create in flight started
func (r *runner) freshNames() []string {
	var fresh []string
	for n := range r.subjectNames() {
		if _, ok := r.namesBefore[n]; !ok {
			fresh = append(fresh, n)
		}
	}
	sort.Strings(fresh)
	return fresh
}

// subjectNames lists every subject name the node knows (SqlManager.List) with its DIDs.
func (r *runner) subjectNames() map[string][]did.DID {
	all, err := r.w.obs.List(r.w.ctx)
	if err != nil {
		panic(fmt.Sprintf("List: %v", err))
	}
	return all
}

// ---- the statement "all its DIDs (one per enabled method)" / "a subject name maps to at most one set of DIDs" on the
// result of a successful Create: the subject name Create returned owns exactly the DIDs of the returned documents, one
// per enabled method
func (r *runner) checkCreated(s string, c *created, site string) {
	r.res.Checks++
	listed, err := r.w.obs.ListDIDs(r.w.ctx, c.name)
	if err != nil && !errors.Is(err, didsubject.ErrSubjectNotFound) {
		panic(fmt.Sprintf("ListDIDs: %v", err))
	}
	own := map[string]bool{}
	for _, id := range listed {
		own[id.String()] = true
	}
	perMethod := map[string]int{}
	for _, d := range c.dids {
		if id, err := did.ParseDID(d); err == nil {
			perMethod[id.Method]++
		}
		if !own[d] {
			owner := "no subject"
			for n, ids := range r.subjectNames() {
				for _, id := range ids {
					if id.String() == d {
						owner = "subject " + shortName(n)
					}
				}
			}
			r.violate("created-did-not-owned-by-returned-subject", site, s, fmt.Sprintf("Create returned subject %s with the document of %s, but that DID belongs to %s", shortName(c.name), shortName(d), owner))
		}
	}
	if len(listed) != len(c.dids) {
		r.violate("created-subject-owns-other-dids", site, s, fmt.Sprintf("Create returned %d documents, subject %s lists %d DIDs", len(c.dids), shortName(c.name), len(listed)))
	}
	for _, m := range r.w.methods {
		if perMethod[m] != 1 {
			r.violate("created-not-one-did-per-enabled-method", site, s, fmt.Sprintf("Create returned %d documents of enabled method %s", perMethod[m], m))
		}
	}
}

// ---- every subject name the node knows has one set of DIDs: exactly one DID per enabled method (evaluated when no
// operation is in flight: after a successful return and after a complete sweep)
func (r *runner) checkDIDSets(site string) {
	r.res.Checks++
	all := r.subjectNames()
	var names []string
	for n := range all {
		names = append(names, n)
	}
	sort.Strings(names)
	for _, n := range names {
		perMethod := map[string]int{}
		for _, id := range all[n] {
			perMethod[id.Method]++
		}
		model := ""
		for _, s := range r.subjects {
			if r.realName(s) == n {
				model = s
			}
		}
		for _, m := range r.w.methods {
			if perMethod[m] == 0 {
				r.violate("subject-lacks-did-of-enabled-method", site, model, fmt.Sprintf("subject %s has DIDs %v: none of enabled method %s", shortName(n), all[n], m))
			}
		}
	}
}

func shortName(n string) string {
	if len(n) > 24 {
		return n[:24] + "…"
	}
	return n
}



func (w *world) logTx1(r *opRun, out string) {
	r.tx1Logged = true
	r.tx1Out = out
	if cr := w.r; cr != nil && out == "changed" {
		// concurrent requests: this first transaction ran while another request on the subject was between its first and
		// its clean-up transaction
		for _, o := range cr.liveRuns {
			if o != r && o.subject == r.subject && o.tx1Out == "changed" && !o.finished {
				cr.concOnPending[r.subject] = true
			}
		}
	}
	w.event(map[string]any{"ev": "tx1", "op": r.op, "s": r.subject, "out": out, "p": r.proc()})
}


func (w *world) event(e map[string]any) {
	r := w.r
	sn := w.snapshot(r.subjects)
	e["st"] = sn.project(r.subjects)
	e["log"] = sn.Log
	r.res.Trace = append(r.res.Trace, e)
}

func (r *runner) violate(kind, site, subject, detail string) {
	r.res.Violations = append(r.res.Violations, violation{Prop: "C13", Kind: kind, Site: site, Subject: subject, Detail: detail, Step: r.stepNo})
}

func (r *runner) subjectLogRows(ss subjSnap) int {
	n := 0
	for _, d := range ss.DIDs {
		var c int64
		r.w.db.Raw("SELECT count(*) FROM did_change_log l JOIN did_document_version v ON v.id = l.did_document_version_id WHERE v.did = ?", d.DID).Scan(&c)
		n += int(c)
	}
	return n
}

// site: every observed circumstance that may explain a violation on the subject (used for the signature of known findings;
// tools/props/subject.py accepts a violation as known only if one (circumstance, kind) pair belongs to a known class)
func (r *runner) site(s string, ss subjSnap) string {
	var out []string
	// an aborted sweep explains what it left behind: subjects that still have change-log rows
	if r.sweepAbort != "" && r.subjectLogRows(ss) > 0 {
		out = append(out, "sweep-aborted:"+r.sweepAbort)
	}
	if len(ss.DIDs) > 0 && !ss.hasDocs() {
		out = append(out, "did-rows-without-documents")
	}
	if r.opOnPending[s] {
		out = append(out, "op-started-on-pending-change")
	}
	if r.concOnPending[s] {
		out = append(out, "concurrent-request-on-pending-change")
	}
	if len(out) == 0 {
		return "unexplained"
	}
	return strings.Join(out, "|")
}

func (r *runner) call(op, ms string) (*created, error) {
	w := r.w
	if op == "create" {
		opts := didsubject.DefaultCreationOptions()
		switch r.naming {
		case "given":
			opts = opts.With(didsubject.SubjectCreationOption{Subject: ms})
		case "legacy":
			opts = opts.With(didsubject.NutsLegacyNamingOption{})
		case "generated":
		default:
			panic("unknown naming " + r.naming)
		}
		docs, name, err := w.mgr.Create(w.ctx, opts)
		if err != nil {
			return nil, err
		}
		c := &created{name: name}
		for _, d := range docs {
			c.dids = append(c.dids, d.ID.String())
		}
		return c, nil
	}
	// the subject name a client of the node would use: the one Create returned
	s := r.realName(ms)
	if s == "" {
		s = "never-created-" + ms
	}
	switch op {
	case "addSvc":
		_, err := w.mgr.CreateService(w.ctx, s, svcA)
		return nil, err
	case "updSvc":
		_, err := w.mgr.UpdateService(w.ctx, s, ssi.URI{URL: urlWithFragment(didsubject.NewIDForService(svcA))}, svcA2)
		return nil, err
	case "delSvc":
		typ := "tA"
		frag := "none"
		if svcs, err := w.obs.FindServices(w.ctx, s, &typ); err == nil && len(svcs) > 0 {
			frag = svcs[0].ID.Fragment
		}
		return nil, w.mgr.DeleteService(w.ctx, s, ssi.URI{URL: urlWithFragment(frag)})
	case "addKey":
		_, err := w.mgr.AddVerificationMethod(w.ctx, s, orm.AssertionKeyUsage())
		return nil, err
	case "deactivate":
		return nil, w.mgr.Deactivate(w.ctx, s)
	}
	panic("unknown op " + op)
}

func (r *runner) doOp(st step) (orderMiss bool) {
	w := r.w
	if len(st.Order) == 2 {
		w.order = st.Order
	}
	w.restart() // a fresh manager (fresh method map, insertion order = scripted order)
	w.net.outcome = "ok"
	if st.Net == "fail" {
		w.net.outcome = "fail"
	}
	pre := w.snapshot(r.subjects)
	preSS := pre.Subjects[st.S]
	keysBefore := map[string]bool{}
	for _, k := range w.keys.List(w.ctx) {
		keysBefore[k] = true
	}
	pubBefore := len(w.net.published)
	tr := &opTrack{step: r.stepNo, op: st.Op, s: st.S, pendingAt: r.subjectLogRows(preSS) > 0}
	for _, d := range preSS.byMethod("nuts") {
		tr.deactAt = d.StoreFound && d.StoreDeact
	}
	if tr.pendingAt {
		r.opOnPending[st.S] = true
	}
	run := &opRun{stopAfter: st.Stop, op: st.Op, subject: st.S}
	w.cur = run
	var err error
	var made *created
	outc := ""
	if st.Op == "create" && r.naming != "given" {
		r.creating, r.namesBefore = st.S, r.subjectNames()
	}
	stopped := func() (rec any) {
		defer func() { rec = recover() }()
		made, err = r.call(st.Op, st.S)
		return nil
	}()
	w.cur = nil
	w.net.outcome = "ok"
	if r.creating != "" {
		if made != nil {
			r.names[st.S] = made.name
		} else if fresh := r.freshNames(); stopped != nil && len(fresh) > 0 {
			// the Create never returned: the subject is known to its client only through the list of subjects
			r.names[st.S] = fresh[0]
		} else {
			delete(r.names, st.S)
		}
		r.creating, r.namesBefore = "", nil
	}
	if stopped != nil {
		if _, ok := stopped.(stopSentinel); !ok {
			panic(stopped)
		}
		tr.outcome = "stopped"
		w.event(map[string]any{"ev": "stop", "p": "p1"})
		w.restart()
	} else if !run.tx1Logged {
		// no CommitMethod call: Tx1 was refused or changed nothing
		out := "noop"
		tr.outcome = "ok"
		if err != nil {
			out, tr.outcome = "reject", "err"
		}
		w.logTx1(run, out)
		outc = out
	} else {
		kind := "keep"
		tr.outcome = "ok"
		if err != nil {
			kind, tr.outcome = "abandon", "err"
		}
		w.event(map[string]any{"ev": "tx2", "kind": kind, "p": "p1"})
	}
	if outc == "" {
		outc = tr.outcome
	}
	r.res.Outcomes = append(r.res.Outcomes, outc)
	// was the scripted order realised? (matters only when the process stops between the two CommitMethod calls)
	if len(run.commits) > 0 {
		ms := []string{}
		for _, c := range run.commits {
			ms = append(ms, c.Method)
		}
		r.res.Orders = append(r.res.Orders, fmt.Sprintf("%s:%d:%s", st.Op, st.Stop, strings.Join(ms, ",")))
		if st.Stop == 1 && len(st.Order) == 2 && len(w.methods) == 2 && run.commits[0].Method != st.Order[0] {
			orderMiss = true
		}
	}
	post := w.snapshot(r.subjects)
	postSS := post.Subjects[st.S]
	tr.faulted = stopped != nil || (err != nil && strings.Contains(err.Error(), errScriptedNetwork.Error()))
	tr.published = len(w.net.published) > pubBefore
	for _, k := range w.keys.List(w.ctx) {
		if !keysBefore[k] {
			tr.keys = append(tr.keys, k)
		}
	}
	preIDs := map[string]bool{}
	for _, d := range preSS.DIDs {
		for _, id := range d.VersionIDs {
			preIDs[id] = true
		}
	}
	for _, d := range postSS.DIDs {
		for _, id := range d.VersionIDs {
			if !preIDs[id] {
				tr.newIDs = append(tr.newIDs, id)
			}
		}
	}
	if tr.outcome == "err" && len(tr.newIDs) == 0 {
		tr.resolved = "abandoned"
	}
	if tr.outcome == "ok" {
		tr.resolved = "kept"
	}
	r.tracks = append(r.tracks, tr)

	// ---- checkpoint A: an operation that reports success changed all DIDs together (and published), or none
	if tr.outcome == "ok" {
		r.res.Checks++
		moved, same := 0, 0
		for _, d := range postSS.DIDs {
			var before *didSnap
			for i := range preSS.DIDs {
				if preSS.DIDs[i].DID == d.DID {
					before = &preSS.DIDs[i]
				}
			}
			lp, okp := last(d.VersionIDs)
			if before == nil {
				if okp {
					moved++
				} else {
					same++
				}
				continue
			}
			lb, okb := last(before.VersionIDs)
			if okp == okb && lp == lb {
				same++
			} else {
				moved++
			}
		}
		if moved > 0 && same > 0 {
			r.violate("success-changed-some-dids-only", r.site(st.S, postSS), st.S, fmt.Sprintf("%s returned nil: %d DIDs have a new version, %d do not", st.Op, moved, same))
		}
		if moved > 0 {
			for _, d := range postSS.byMethod("nuts") {
				lh, _ := last(d.Hashes)
				if !d.StoreFound || d.StoreHash != lh {
					site := r.site(st.S, postSS)
					if tr.deactAt {
						site = "update-of-deactivated-subject|" + site
					}
					r.violate("success-but-unpublished", site, st.S, fmt.Sprintf("%s returned nil, did:web and the SQL did:nuts document have a new version, but the network still has another did:nuts document (found=%v)", st.Op, d.StoreFound))
				}
			}
		}
		if post.Log != pre.Log {
			r.violate("log-left-after-success", r.site(st.S, postSS), st.S, fmt.Sprintf("%s returned nil; change-log rows before=%d after=%d", st.Op, pre.Log, post.Log))
		}
		if made != nil {
			r.checkCreated(st.S, made, r.site(st.S, postSS))
		}
		r.checkDIDSets(r.site(st.S, postSS))
		if st.Op == "create" && len(postSS.DIDs) > 0 && postSS.hasDocs() {
			r.rememberDIDs(st.S, postSS)
		}
	}
	// ---- checkpoint C: the repeated attempt
	if st.Retry {
		r.res.Checks++
		var f *opTrack
		for _, t := range r.tracks[:len(r.tracks)-1] {
			if t.s == st.S && t.op == st.Op && t.faulted {
				f = t
			} else if f != nil && t.s == st.S && t.op == f.op && t.outcome == "ok" && len(t.newIDs) > 0 {
				f = nil // an earlier repetition already succeeded
			}
		}
		// demanded unless the sweep decided that the operation had been committed (then it took effect)
		demand := f != nil && f.resolved != "kept"
		if st.Op != "create" && len(preSS.DIDs) == 0 {
			demand = false // the subject itself was rolled back (its create was abandoned): nothing to update
		}
		if st.Op != "create" && st.Op != "deactivate" && tr.deactAt && errors.Is(err, resolver.ErrDeactivated) {
			demand = false // the subject is deactivated on the network: the update is refused for every DID, with or without the fault
		}
		if demand && tr.outcome != "ok" {
			r.violate("retry-fails", r.site(st.S, preSS), st.S, fmt.Sprintf("%s was hit by a fault at step %d (%s, now %s); after the rollback sweep its repetition fails: %v", st.Op, f.step, f.outcome, orDefault(f.resolved, "still pending"), err))
		}
	}
	return orderMiss
}

func urlWithFragment(frag string) url.URL { return url.URL{Fragment: frag} }

func orDefault(s, d string) string {
	if s == "" {
		return d
	}
	return s
}

func (r *runner) rememberDIDs(s string, ss subjSnap) {
	if r.didsOf[s] != nil {
		return
	}
	m := map[string]string{}
	for _, d := range ss.DIDs {
		m[d.Method] = d.DID
	}
	r.didsOf[s] = m
}

func (r *runner) tick() {
	r.w.db.Exec("UPDATE did_document_version SET updated_at = updated_at - 120")
	r.w.event(map[string]any{"ev": "tick"})
}

func (r *runner) sweep() {
	w := r.w
	// does this sweep consider every pending row? (the code: updated_at < now - 1 minute)
	var young int64
	w.db.Raw("SELECT count(*) FROM did_change_log l JOIN did_document_version v ON v.id = l.did_document_version_id WHERE v.updated_at >= ?", time.Now().Add(-time.Minute).Unix()).Scan(&young)
	var total int64
	w.db.Table("did_change_log").Count(&total)
	w.sweepCalls = nil
	w.mgr.Rollback(w.ctx)
	abort := ""
	for _, c := range w.sweepCalls {
		if e, ok := c["err"]; ok {
			cls := "other-error"
			if strings.Contains(fmt.Sprint(e), resolver.ErrNotFound.Error()) {
				cls = "not-found"
			}
			abort = fmt.Sprintf("iscommitted-%s:%s", cls, c["m"])
		}
	}
	w.event(map[string]any{"ev": "sweep", "aborted": abort != "", "calls": len(w.sweepCalls)})
	if total > 0 {
		r.sweepAbort = abort
	}
	if young == 0 {
		r.quiescent()
	}
}

// ---- checkpoint B: the statement "at the latest after the rollback sweep"
func (r *runner) quiescent() {
	w := r.w
	sn := w.snapshot(r.subjects)
	r.res.Checks++
	anySite := "unexplained"
	if r.sweepAbort != "" {
		anySite = "sweep-aborted:" + r.sweepAbort
	}
	if sn.Log != 0 {
		r.violate("log-left-after-sweep", anySite, "", fmt.Sprintf("%d change-log rows remain after a sweep that considered all of them", sn.Log))
	}
	r.checkDIDSets(anySite)
	// resolve the fate of every operation
	exists := map[string]bool{}
	var ids []string
	w.db.Table("did_document_version").Pluck("id", &ids)
	for _, id := range ids {
		exists[id] = true
	}
	publishedVMs := map[string]bool{}
	for _, p := range w.net.published {
		var doc did.Document
		if json.Unmarshal(p.Payload, &doc) == nil {
			for _, vm := range doc.VerificationMethod {
				publishedVMs[vm.ID.String()] = true
			}
		}
	}
	for _, s := range r.subjects {
		ss := sn.Subjects[s]
		site := r.site(s, ss)
		for _, d := range ss.DIDs {
			for _, vm := range d.LatestVMs {
				publishedVMs[vm] = true // did:web documents are published by being the latest version
			}
		}
		// all DIDs of the subject show the same version history, and the did:nuts one is what the network has
		if ss.hasDocs() {
			ref := fmt.Sprint(ss.DIDs[0].Versions)
			for _, d := range ss.DIDs {
				if fmt.Sprint(d.Versions) != ref {
					r.violate("dids-diverge-after-sweep", site, s, fmt.Sprintf("version lists differ: %s=%v %s=%s", d.Method, d.Versions, ss.DIDs[0].Method, ref))
				}
			}
			for _, d := range ss.byMethod("nuts") {
				lh, _ := last(d.Hashes)
				if !d.StoreFound {
					r.violate("unpublished-version-after-sweep", site, s, fmt.Sprintf("DIDs show version %v but the did:nuts document was never published", d.Versions))
				} else if d.StoreHash != lh {
					st := site
					if d.StoreDeact {
						st = "update-of-deactivated-subject|" + site
					}
					r.violate("unpublished-version-after-sweep", st, s, fmt.Sprintf("SQL did:nuts latest version %v differs from the document on the network", d.Versions))
				}
			}
		}
		for _, d := range ss.DIDs {
			// consecutive
			for i, v := range d.Versions {
				if v != i {
					r.violate("version-gap", site, s, fmt.Sprintf("%s versions %v", d.Method, d.Versions))
					break
				}
			}
			// only grow: what was committed at the previous quiescent point is still there
			if prev, ok := r.committed[d.DID]; ok {
				have := map[int]bool{}
				for _, v := range d.Versions {
					have[v] = true
				}
				for _, v := range prev {
					if !have[v] {
						r.violate("committed-version-lost", site, s, fmt.Sprintf("%s had %v, now %v", d.Method, prev, d.Versions))
						break
					}
				}
				if lp, ok := last(prev); ok {
					if ln, ok2 := last(d.Versions); !ok2 || ln < lp {
						r.violate("version-decreased", site, s, fmt.Sprintf("%s had %v, now %v", d.Method, prev, d.Versions))
					}
				}
			}
			r.committed[d.DID] = append([]int{}, d.Versions...)
		}
		// one DID set per subject
		perMethod := map[string]int{}
		for _, d := range ss.DIDs {
			perMethod[d.Method]++
			if known := r.didsOf[s]; known != nil && ss.hasDocs() && known[d.Method] != d.DID {
				r.violate("did-set-changed", site, s, fmt.Sprintf("subject had %s, now lists %s", known[d.Method], d.DID))
			}
		}
		for m, n := range perMethod {
			if n > 1 {
				r.violate("two-did-sets", site, s, fmt.Sprintf("%d DIDs of method %s", n, m))
			}
		}
	}
	for _, t := range r.tracks {
		if t.resolved == "" && len(t.newIDs) > 0 {
			present := 0
			for _, id := range t.newIDs {
				if exists[id] {
					present++
				}
			}
			site := r.site(t.s, sn.Subjects[t.s])
			switch {
			case present == len(t.newIDs):
				t.resolved = "kept"
				if r.sweepAbort != "" && r.subjectLogRows(sn.Subjects[t.s]) > 0 {
					t.resolved = "" // neither kept nor abandoned: still pending after the sweep
				}
			case present == 0:
				t.resolved = "abandoned"
			default:
				t.resolved = "partial"
				r.violate("partial-rollback", site, t.s, fmt.Sprintf("%s at step %d: %d of %d versions remain", t.op, t.step, present, len(t.newIDs)))
			}
			if t.resolved == "abandoned" && t.published {
				r.violate("abandoned-but-published", site, t.s, fmt.Sprintf("%s at step %d went out on the network, its versions were deleted by the sweep", t.op, t.step))
			}
		}
		if t.resolved == "abandoned" {
			for _, k := range t.keys {
				if publishedVMs[k] {
					r.violate("abandoned-key-published", r.site(t.s, sn.Subjects[t.s]), t.s, fmt.Sprintf("key %s was created by %s at step %d (abandoned) and is part of a published document", shortKey(k), t.op, t.step))
				}
			}
		}
	}
	if sn.Log == 0 {
		clean := true
		for _, v := range r.res.Violations {
			if v.Step == r.stepNo {
				clean = false
			}
		}
		if clean {
			r.opOnPending = map[string]bool{}
			r.concOnPending = map[string]bool{}
		}
	}
}

func shortKey(k string) string {
	if i := strings.Index(k, "#"); i >= 0 {
		return k[:12] + "…" + k[i:]
	}
	return k
}

func runScript(t *testing.T, base string, n int, in input, sc script) (res result) {
	res = result{ID: sc.ID, Violations: []violation{}, Drift: []string{}}
	methods, naming := sc.Methods, sc.Naming
	if len(methods) == 0 {
		methods = []string{"web", "nuts"}
	}
	if naming == "" {
		naming = "given"
	}
	r := &runner{in: in, subjects: in.Subjects, res: &res, opOnPending: map[string]bool{}, concOnPending: map[string]bool{}, committed: map[string][]int{}, didsOf: map[string]map[string]string{},
		naming: naming, names: map[string]string{}}
	w := newWorld(t, base, n, methods)
	defer w.close()
	r.w = w
	w.r = r
	res.Trace = append(res.Trace, map[string]any{"ev": "config", "methods": methods, "naming": naming})
	defer func() {
		if rec := recover(); rec != nil {
			res.Error = fmt.Sprintf("driver panic at step %d: %v", r.stepNo, rec)
		}
		if len(w.net.recvErrs) > 0 {
			res.Drift = append(res.Drift, "ambassador rejected a published transaction: "+w.net.recvErrs[0])
		}
	}()
	for i, st := range sc.Steps {
		r.stepNo = i
		switch st.A {
		case "op":
			if r.doOp(st) {
				res.OrderMiss++
			}
		case "conc":
			r.doConc(st)
		case "tick":
			r.tick()
		case "sweep":
			r.sweep()
		default:
			panic("unknown step " + st.A)
		}
	}
	if in.Mutate == "trace-version" && len(res.Trace) > 2 {
		// binding demonstration: corrupt one recorded field
		e := res.Trace[len(res.Trace)/2]
		st := e["st"].(map[string]any)[in.Subjects[0]].(map[string]any)
		st["web"] = append(append([]int{}, st["web"].([]int)...), 7)
	}
	return res
}

func TestDriver(t *testing.T) {
	inPath, outPath := os.Getenv("VERIF_IN"), os.Getenv("VERIF_OUT")
	if inPath == "" {
		t.Skip("VERIF_IN not set")
	}
	logrus.SetLevel(logrus.PanicLevel)
	logrus.SetOutput(io.Discard)
	oldErr := os.Stderr
	if null, err := os.OpenFile(os.DevNull, os.O_WRONLY, 0); err == nil {
		os.Stderr = null
		hook := audit.CaptureAuditLogs(t)
		os.Stderr = oldErr
		defer hook.Hook.Reset()
		go func() { // the capture hook keeps every entry: drop them regularly
			for range time.Tick(time.Second) {
				hook.Hook.Reset()
			}
		}()
	}
	raw, err := os.ReadFile(inPath)
	if err != nil {
		t.Fatal(err)
	}
	var in input
	if err := json.Unmarshal(raw, &in); err != nil {
		t.Fatal(err)
	}
	if in.Attempts <= 0 {
		in.Attempts = 6
	}
	out, err := os.Create(outPath)
	if err != nil {
		t.Fatal(err)
	}
	defer out.Close()
	bw := bufio.NewWriter(out)
	defer bw.Flush()
	enc := json.NewEncoder(bw)
	base := t.TempDir()
	n := 0
	for _, sc := range in.Scripts {
		var res result
		for a := 1; a <= in.Attempts; a++ {
			n++
			// watchdog: a script that hangs inside a library (seen once in ~14000 scripts on an overloaded machine: go-stoabs
			// lockWithCancel never returns) is abandoned with its world and reported as a harness error, never a verdict
			ch := make(chan result, 1)
			go func(n int) { ch <- runScript(t, base, n, in, sc) }(n)
			select {
			case res = <-ch:
			case <-time.After(120 * time.Second):
				res = result{ID: sc.ID, Violations: []violation{}, Drift: []string{}, Trace: []map[string]any{}, Error: "script abandoned after 120s (harness watchdog)"}
			}
			res.Attempts = a
			if res.OrderMiss == 0 || res.Error != "" {
				break
			}
		}
		if err := enc.Encode(res); err != nil {
			t.Fatal(err)
		}
	}
}
