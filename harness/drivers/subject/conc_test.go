// Concurrent request goroutines (C13: concurrent operations on one subject must leave one consistent set of DIDs and documents).
//
// Two (or more) subject operations run as real goroutines on the SAME SqlManager. They are scheduled cooperatively at the
// boundaries of the critical sections the real code exhibits on the SqlManager's own database handle: every SQL
// transaction (gate before BEGIN), every statement issued outside a transaction (gate before the statement) and every
// MethodManager.Commit call (gate before the call). Exactly one goroutine runs between two gates, so a schedule is a
// sequence of "let request p execute its next critical section". Nothing is gated INSIDE a transaction (sqlite test
// databases have a single connection: a goroutine parked inside a transaction would block everybody else).
package subject

import (
	"bytes"
	"context"
	"database/sql"
	"fmt"
	"runtime"
	"sort"
	"strconv"
	"strings"
	"sync"
	"time"

	"gorm.io/gorm"

	"verifharness/gate"
)

// ----------------------------------------------------------------------------------------- goroutine tagging

func goid() uint64 {
	var buf [64]byte
	b := buf[:runtime.Stack(buf[:], false)]
	b = bytes.TrimPrefix(b, []byte("goroutine "))
	if i := bytes.IndexByte(b, ' '); i > 0 {
		n, _ := strconv.ParseUint(string(b[:i]), 10, 64)
		return n
	}
	return 0
}

// actorRun is one request goroutine executing one subject operation under the scheduler.
type actorRun struct {
	name   string // scheduler name (unique per operation)
	p      string // request goroutine of the model (p1, p2)
	run    *opRun
	net    string
	sched  *gate.Sched
	txSeen int
	log0   int64
	err    error
	made   *created
	rec    any
	done   bool
	track  *opTrack
}

var actors sync.Map // goroutine id -> *actorRun

func curActor() *actorRun {
	if v, ok := actors.Load(goid()); ok {
		return v.(*actorRun)
	}
	return nil
}

// ------------------------------------------------------------------------------------------------ gated SQL

// gatedPool decorates the *sql.DB under the SqlManager's *gorm.DB (seam: gorm.ConnPool / gorm.ConnPoolBeginner).
type gatedPool struct {
	db *sql.DB
	w  *world
}

func (g *gatedPool) gate(point string) *actorRun {
	a := curActor()
	if a != nil {
		a.sched.At(a.name, point)
	}
	return a
}
func (g *gatedPool) PrepareContext(ctx context.Context, q string) (*sql.Stmt, error) {
	g.gate("stmt")
	return g.db.PrepareContext(ctx, q)
}
func (g *gatedPool) ExecContext(ctx context.Context, q string, args ...interface{}) (sql.Result, error) {
	g.gate("stmt")
	return g.db.ExecContext(ctx, q, args...)
}
func (g *gatedPool) QueryContext(ctx context.Context, q string, args ...interface{}) (*sql.Rows, error) {
	g.gate("stmt")
	return g.db.QueryContext(ctx, q, args...)
}
func (g *gatedPool) QueryRowContext(ctx context.Context, q string, args ...interface{}) *sql.Row {
	g.gate("stmt")
	return g.db.QueryRowContext(ctx, q, args...)
}
func (g *gatedPool) GetDBConn() (*sql.DB, error) { return g.db, nil }

// BeginTx implements gorm.ConnPoolBeginner.
func (g *gatedPool) BeginTx(ctx context.Context, opts *sql.TxOptions) (gorm.ConnPool, error) {
	a := g.gate("begin")
	first := false
	if a != nil {
		a.txSeen++
		first = a.txSeen == 1
		if first {
			g.w.db.Table("did_change_log").Count(&a.log0)
		}
	}
	tx, err := g.db.BeginTx(ctx, opts)
	if err != nil {
		return nil, err
	}
	return &gatedTx{Tx: tx, a: a, w: g.w, first: first, db: g.db}, nil
}

// gatedTx is the connection pool of one transaction (implements gorm.ConnPool and gorm.TxCommitter through *sql.Tx).
type gatedTx struct {
	*sql.Tx
	a     *actorRun
	w     *world
	db    *sql.DB
	first bool
	ended bool
}

func (t *gatedTx) GetDBConn() (*sql.DB, error) { return t.db, nil }
func (t *gatedTx) Commit() error {
	err := t.Tx.Commit()
	t.after(err == nil)
	return err
}
func (t *gatedTx) Rollback() error {
	err := t.Tx.Rollback()
	t.after(false)
	return err
}

// after: the first transaction of an operation is Tx1 of the model; its outcome is logged when it ends
func (t *gatedTx) after(committed bool) {
	if t.ended {
		return
	}
	t.ended = true
	if t.a == nil || !t.first || t.a.run.tx1Logged {
		return
	}
	out := "reject"
	if committed {
		var n int64
		t.w.db.Table("did_change_log").Count(&n)
		out = "noop"
		if n > t.a.log0 {
			out = "changed"
		}
	}
	t.w.logTx1(t.a.run, out)
}

// gatedDB returns a handle on the same database whose connection pool is gated (the engine's own handle stays untouched).
func (w *world) gatedDB() *gorm.DB {
	sqlDB, err := w.db.DB()
	if err != nil {
		w.t.Fatal(err)
	}
	g := w.db.Session(&gorm.Session{NewDB: true})
	st := &gorm.Statement{DB: g, ConnPool: &gatedPool{db: sqlDB, w: w}, Context: context.Background(), Clauses: g.Statement.Clauses, Vars: nil}
	g.Statement = st
	return g
}

// --------------------------------------------------------------------------------------------- conc step

type concOp struct {
	P   string `json:"p"`
	Op  string `json:"op"`
	S   string `json:"s"`
	Net string `json:"net"`
}

func (r *runner) doConc(st step) {
	w := r.w
	w.order = []string{"nuts", "web"}
	w.restart()
	pre := w.snapshot(r.subjects)
	preVMs := map[string]bool{}
	for _, ss := range pre.Subjects {
		if r.subjectLogRows(ss) > 0 {
			for _, o := range st.Ops {
				if sameSubject(ss, pre.Subjects[o.S]) {
					r.opOnPending[o.S] = true
				}
			}
		}
		for _, d := range ss.DIDs {
			for _, vm := range d.LatestVMs {
				preVMs[vm] = true
			}
		}
	}
	w.preVMs = preVMs
	r.liveRuns = nil
	sch := gate.New()
	sch.BlockedAfter = 10 * time.Second
	sch.GiveUp = 40 * time.Second
	queues := map[string][]concOp{}
	var procs []string
	for _, o := range st.Ops {
		if _, ok := queues[o.P]; !ok {
			procs = append(procs, o.P)
		}
		queues[o.P] = append(queues[o.P], o)
	}
	sort.Strings(procs)
	active := map[string]*actorRun{}
	var all []*actorRun
	nLaunched := 0

	finish := func(a *actorRun) {
		a.done = true
		a.run.finished = true
		if a.rec != nil {
			panic(a.rec)
		}
		tr := a.track
		tr.outcome = "ok"
		if a.err != nil {
			tr.outcome = "err"
		}
		outc := tr.outcome
		if !a.run.tx1Logged {
			out := "noop"
			if a.err != nil {
				out = "reject"
			}
			w.logTx1(a.run, out)
			outc = out
		} else if a.run.tx1Out == "changed" {
			kind := "keep"
			if a.err != nil {
				kind = "abandon"
			}
			w.event(map[string]any{"ev": "tx2", "kind": kind, "p": a.p})
		} else {
			outc = a.run.tx1Out
		}
		r.res.Outcomes = append(r.res.Outcomes, "conc:"+outc)
		tr.faulted = a.err != nil && strings.Contains(a.err.Error(), errScriptedNetwork.Error())
		tr.newIDs = a.run.newIDs
		tr.keys = a.run.keys
		tr.published = a.run.published
	}
	stepActor := func(a *actorRun) {
		if _, ok := sch.Await(a.name, sch.BlockedAfter); !ok {
			return // still inside a critical section (blocked, see below): this scheduling decision is skipped
		}
		pos, err := sch.Step(a.name, "", "go")
		if err != nil {
			panic(fmt.Sprintf("scheduler: %v", err))
		}
		if pos == "" {
			// blocked inside the code under test (e.g. on the single database connection held by a parked request):
			// bounded wait, the other requests go on
			r.res.Drift = append(r.res.Drift, fmt.Sprintf("request %s (%s) blocked inside a critical section", a.p, a.run.op))
			return
		}
		if pos == "done" {
			finish(a)
		}
	}
	launch := func(p string) *actorRun {
		o := queues[p][0]
		queues[p] = queues[p][1:]
		nLaunched++
		a := &actorRun{name: fmt.Sprintf("%s#%d", p, nLaunched), p: p, net: o.Net, sched: sch,
			run:   &opRun{stopAfter: -1, op: o.Op, subject: o.S, p: p},
			track: &opTrack{step: r.stepNo, op: o.Op, s: o.S}}
		r.tracks = append(r.tracks, a.track)
		r.liveRuns = append(r.liveRuns, a.run)
		all = append(all, a)
		active[p] = a
		sch.Go(a.name, func(_ context.Context) {
			id := goid()
			actors.Store(id, a)
			defer actors.Delete(id)
			defer func() {
				if rec := recover(); rec != nil {
					a.rec = rec
				}
			}()
			a.made, a.err = r.call(o.Op, o.S)
		})
		// prologue: up to the first critical section
		pos, err := sch.Step(a.name, "start", "go")
		if err != nil {
			panic(fmt.Sprintf("scheduler: %v", err))
		}
		if pos == "done" {
			finish(a)
		}
		return a
	}
	for _, p := range st.Sched {
		a := active[p]
		if a == nil || a.done {
			if len(queues[p]) == 0 {
				continue
			}
			a = launch(p)
			if a.done {
				continue
			}
		}
		stepActor(a)
	}
	// run everything that is left to completion, round robin
	deadline := time.Now().Add(120 * time.Second)
	for {
		busy := false
		for _, p := range procs {
			a := active[p]
			if (a == nil || a.done) && len(queues[p]) > 0 {
				a = launch(p)
			}
			if a != nil && !a.done {
				busy = true
				if at, ok := sch.Await(a.name, 10*time.Millisecond); ok {
					if at == "done" {
						finish(a)
					} else {
						stepActor(a)
					}
				}
			}
		}
		if !busy {
			break
		}
		if time.Now().After(deadline) {
			sch.Kill()
			panic("concurrent requests do not terminate (deadlock between two operations?)")
		}
	}

	// ---- checkpoint after concurrent requests: every request has returned
	post := w.snapshot(r.subjects)
	r.res.Checks++
	touched := map[string]bool{}
	anyFault := map[string]bool{}
	for _, a := range all {
		touched[a.run.subject] = true
		if a.track.faulted {
			anyFault[a.run.subject] = true
		}
		t := a.track
		if t.outcome == "ok" {
			t.resolved = "kept"
		} else if len(t.newIDs) == 0 {
			t.resolved = "abandoned"
		}
	}
	ids := map[string]bool{}
	for _, ss := range post.Subjects {
		for _, d := range ss.DIDs {
			for _, id := range d.VersionIDs {
				ids[id] = true
			}
		}
	}
	for _, a := range all {
		t := a.track
		present := 0
		for _, id := range t.newIDs {
			if ids[id] {
				present++
			}
		}
		site := r.site(t.s, post.Subjects[t.s])
		if t.outcome == "ok" && present != len(t.newIDs) {
			r.violate("successful-change-lost", site, t.s, fmt.Sprintf("%s (request %s) returned nil but %d of its %d document versions are gone", t.op, a.p, len(t.newIDs)-present, len(t.newIDs)))
		}
		if t.outcome == "err" {
			if present == 0 {
				t.resolved = "abandoned"
			} else if present != len(t.newIDs) {
				r.violate("partial-rollback", site, t.s, fmt.Sprintf("%s (request %s) failed: %d of %d versions remain", t.op, a.p, present, len(t.newIDs)))
			}
		}
	}
	for _, a := range all {
		if a.err == nil && a.made != nil {
			r.checkCreated(a.run.subject, a.made, r.site(a.run.subject, post.Subjects[a.run.subject]))
		}
	}
	for s := range touched {
		ss := post.Subjects[s]
		site := r.site(s, ss)
		r.checkDIDSets(site)
		perMethod := map[string]int{}
		for _, d := range ss.DIDs {
			perMethod[d.Method]++
		}
		for m, n := range perMethod {
			if n > 1 {
				r.violate("two-did-sets", site, s, fmt.Sprintf("after concurrent requests the subject has %d DIDs of method %s", n, m))
			}
		}
		if ss.hasDocs() {
			ref := fmt.Sprint(ss.DIDs[0].Versions)
			for _, d := range ss.DIDs {
				if fmt.Sprint(d.Versions) != ref {
					r.violate("dids-diverge-after-concurrent-requests", site, s, fmt.Sprintf("version lists differ: %s=%v %s=%s", d.Method, d.Versions, ss.DIDs[0].Method, ref))
				}
			}
		}
		// "published and no change records" right after the requests returned is demanded only when nothing was pending
		// before and no request was hit by a fault (otherwise: at the latest after the sweep, checked there)
		if !anyFault[s] && r.subjectLogRows(pre.Subjects[s]) == 0 {
			if ss.hasDocs() {
				for _, d := range ss.byMethod("nuts") {
					lh, _ := last(d.Hashes)
					if !d.StoreFound || d.StoreHash != lh {
						st2 := site
						if d.StoreFound && d.StoreDeact {
							st2 = "update-of-deactivated-subject|" + site
						}
						r.violate("success-but-unpublished", st2, s, fmt.Sprintf("all concurrent requests returned; DIDs show version %v but the network has another did:nuts document (found=%v)", d.Versions, d.StoreFound))
					}
				}
			}
			if r.subjectLogRows(ss) > r.subjectLogRows(pre.Subjects[s]) {
				r.violate("log-left-after-success", site, s, "change-log rows remain after all concurrent requests returned")
			}
		}
		if len(ss.DIDs) > 0 && ss.hasDocs() {
			r.rememberDIDs(s, ss)
		}
	}
}

func sameSubject(a, b subjSnap) bool {
	if len(a.DIDs) == 0 || len(b.DIDs) == 0 {
		return false
	}
	return a.DIDs[0].DID == b.DIDs[0].DID
}
