package oid4vci

import (
	"encoding/json"
	"fmt"
	ssi "github.com/nuts-foundation/go-did"
	"net/url"
	"strings"
	"time"
)

// The reference oracle: the property statements of X03 evaluated on what really happened on the wire, in the wallet
// node's credential store and in the issuer's session database. It does not use the specification's verdicts.

type tokEx struct {
	x         *exchange
	code      string
	flow      *flowRec
	ok        bool
	tok       string
	nonce     string
	expiresIn time.Duration
}

type nonceRec struct {
	flow *flowRec
	at   time.Duration
	life time.Duration
}

func formValue(body []byte, key string) string {
	v, err := url.ParseQuery(string(body))
	if err != nil {
		return ""
	}
	return v.Get(key)
}

func (r *run) judge() {
	w := r.w
	byCode := map[string]*flowRec{}
	for _, f := range r.flows {
		if f.code != "" {
			byCode[f.code] = f
		}
	}
	var toks []*tokEx
	byTok := map[string]*tokEx{}
	nonces := map[string]*nonceRec{}
	released := map[string][]*exchange{} // flow name -> successful credential exchanges
	proofSeen := map[string]*exchange{}
	proofSent := map[string]*exchange{} // proof JWT -> first credential request to the issuer that carried it
	nTokOK, nNonceOut, nPanic := 0, 0, 0
	for _, x := range w.net.log {
		u, _ := url.Parse(x.URL)
		if u.Host != hostIssuer {
			continue
		}
		if x.Panic != "" {
			nPanic++
			site := x.Panic
			if i := strings.Index(site, " <- "); i > 0 {
				site = site[:i]
			}
			if i := strings.Index(site, "\n"); i > 0 {
				site = site[:i]
			}
			where := "other"
			if strings.Contains(x.Panic, "validateProof") {
				where = "issuer.validateProof"
			} else if strings.Contains(x.Panic, "HandleAccessTokenRequest") {
				where = "issuer.HandleAccessTokenRequest"
			} else if strings.Contains(x.Panic, "HandleCredentialRequest") {
				where = "issuer.HandleCredentialRequest"
			}
			r.violate("handler-panic", map[string]interface{}{"site": where}, fmt.Sprintf("%s %s panicked: %s", x.Method, u.Path, x.Panic))
			continue
		}
		switch {
		case x.Method == "POST" && strings.HasSuffix(u.Path, "/token"):
			t := &tokEx{x: x, code: formValue(x.Body, "pre-authorized_code"), ok: x.Status == 200}
			t.flow = byCode[t.code]
			if t.ok {
				var m map[string]interface{}
				_ = json.Unmarshal(x.RespBody, &m)
				t.tok, _ = m["access_token"].(string)
				t.nonce, _ = m["c_nonce"].(string)
				t.expiresIn = nominalTTL
				if e, ok := m["expires_in"].(float64); ok && e > 0 {
					t.expiresIn = time.Duration(e) * time.Second
				}
				nTokOK++
				// R2: a token only for a pre-authorized code the issuer offered, still alive, not redeemed before
				if t.flow == nil {
					r.violate("token-for-unknown-code", map[string]interface{}{}, "token response for a pre-authorized code the issuer never offered")
				} else {
					if x.VNow >= t.flow.at+nominalTTL {
						r.violate("token-after-code-expiry", map[string]interface{}{}, fmt.Sprintf("code of %s redeemed %v after the offer", t.flow.name, x.VNow-t.flow.at))
					}
					for _, o := range toks {
						if o.ok && o.code == t.code {
							if t.x.Seq > o.x.End {
								r.violate("code-reused", map[string]interface{}{"pattern": "sequential"}, "the pre-authorized code of "+t.flow.name+" was redeemed a second time after the first redemption had completed")
							} else {
								r.violate("code-reused", map[string]interface{}{"pattern": "concurrent"}, "two overlapping token requests redeemed the pre-authorized code of "+t.flow.name)
							}
						}
					}
				}
				if t.tok != "" {
					byTok[t.tok] = t
				}
				if t.nonce != "" && t.flow != nil {
					nonces[t.nonce] = &nonceRec{flow: t.flow, at: x.VNow, life: nominalTTL}
					nNonceOut++
				}
			}
			toks = append(toks, t)
		case x.Method == "POST" && strings.HasSuffix(u.Path, "/openid4vci/credential"):
			var m map[string]interface{}
			_ = json.Unmarshal(x.RespBody, &m)
			auth := x.Header.Get("Authorization")
			bearer := ""
			if len(auth) > 7 {
				bearer = auth[7:]
			}
			t := byTok[bearer]
			if n, ok := m["c_nonce"].(string); ok && n != "" && x.Status != 200 {
				life := nominalTTL
				if e, ok := m["c_nonce_expires_in"].(float64); ok && e > 0 {
					life = time.Duration(e) * time.Second
				}
				if t != nil && t.flow != nil {
					nonces[n] = &nonceRec{flow: t.flow, at: x.VNow, life: life}
				}
				nNonceOut++
			}
			{
				var pr struct {
					Proof *struct {
						Jwt string `json:"jwt"`
					} `json:"proof"`
				}
				_ = json.Unmarshal(x.Body, &pr)
				if pr.Proof != nil && pr.Proof.Jwt != "" && proofSent[pr.Proof.Jwt] == nil {
					proofSent[pr.Proof.Jwt] = x
				}
			}
			if x.Status != 200 {
				continue
			}
			credMap, _ := m["credential"].(map[string]interface{})
			if credMap == nil {
				continue
			}
			r.res.Stats["releases"]++
			credID, _ := credMap["id"].(string)
			who := x.From // "NW" = the honest wallet's node, "A" = the attacker
			sig := func(extra map[string]interface{}) map[string]interface{} {
				if extra == nil {
					extra = map[string]interface{}{}
				}
				if who == "A" {
					extra["to"] = "attacker"
				} else {
					extra["to"] = "wallet"
				}
				return extra
			}
			// R1a: a valid access token obtained from the pre-authorized code of the offer
			if t == nil {
				r.violate("release-without-issued-token", sig(nil), "credential "+credID+" released to a request whose bearer token the token endpoint never handed out")
				continue
			}
			f := t.flow
			if f == nil {
				r.violate("release-token-without-offer", sig(nil), "credential released with a token that does not stem from an offered code")
				continue
			}
			released[f.name] = append(released[f.name], x)
			if x.VNow >= t.x.VNow+t.expiresIn {
				r.violate("release-after-expiry", sig(map[string]interface{}{"what": "access-token"}), fmt.Sprintf("access token used %v after it was issued (expires_in %v)", x.VNow-t.x.VNow, t.expiresIn))
			}
			if x.VNow >= f.at+nominalTTL {
				r.violate("release-after-expiry", sig(map[string]interface{}{"what": "offer"}), fmt.Sprintf("credential released %v after the offer", x.VNow-f.at))
			}
			// R1b: what is released is the credential that was offered with that code
			if credID != f.credID {
				r.violate("release-wrong-credential", sig(nil), fmt.Sprintf("token of the offer of %s released credential %s", f.credID, credID))
			} else if g := r.genuine[credID]; g != nil {
				b, _ := json.Marshal(credMap)
				if string(b) != string(g) {
					r.violate("release-altered-credential", sig(nil), "released credential differs from the issued one")
				}
			}
			// R1c: proof of possession by a key of the DID the offer was made for
			var cr struct {
				Def *struct {
					Type []interface{} `json:"type"`
				} `json:"credential_definition"`
				Proof *struct {
					Jwt string `json:"jwt"`
				} `json:"proof"`
			}
			_ = json.Unmarshal(x.Body, &cr)
			if cr.Proof == nil || cr.Proof.Jwt == "" {
				r.violate("release-without-proof", sig(nil), "credential released to a request without proof of possession")
				continue
			}
			rp := r.readJWT(cr.Proof.Jwt)
			if rp.kidDID != f.subj.id.String() || !rp.sigOK {
				r.violate("release-proof-not-by-subject", sig(map[string]interface{}{"signature_verifies": rp.sigOK, "signer": r.didName(rp.kidDID)}),
					fmt.Sprintf("credential for %s released on a proof with kid %s (signature verifies: %v)", f.subj.name, rp.kid, rp.sigOK))
			}
			if r.audName(rp.aud) != "I" {
				r.violate("release-wrong-audience", sig(nil), fmt.Sprintf("proof audience %v is not the issuer %s", rp.aud, w.I.identifier))
			}
			if rp.typ != "openid4vci-proof+jwt" {
				r.violate("release-wrong-proof-type", sig(nil), "proof typ header is "+rp.typ)
			}
			// R1d: over a c_nonce the issuer handed out for this very flow, still alive
			ns, isStr := rp.nonce.(string)
			if !isStr {
				r.violate("release-nonce-unknown", sig(nil), "proof without a string nonce accepted")
			} else if nr := nonces[ns]; nr == nil {
				r.violate("release-nonce-unknown", sig(nil), "proof over a nonce the issuer never handed out accepted")
			} else {
				if nr.flow != f {
					r.violate("release-nonce-of-other-flow", sig(nil), fmt.Sprintf("token of %s used with a c_nonce of %s", f.name, nr.flow.name))
				}
				if x.VNow >= nr.at+nr.life {
					r.violate("release-after-expiry", sig(map[string]interface{}{"what": "c_nonce"}), fmt.Sprintf("c_nonce used %v after it was handed out", x.VNow-nr.at))
				}
			}
			// R1e: the credential type asked for is the one offered
			if cr.Def == nil || typName(cr.Def.Type) != f.typ {
				r.violate("release-type-mismatch", sig(nil), "request for another credential type than the offered one was served")
			}
			// R4: the attacker obtains only credentials offered to him
			if who == "A" && f.subj != w.A {
				how, origin := "other", "attacker"
				if rp.kidDID == w.W.id.String() && rp.sigOK {
					// a proof the wallet made: did the wallet send it to THIS issuer in a request that was served (replay),
					// or did the attacker get it some other way (the wallet was made to sign it for him: relay)?
					how, origin = "replayed-wallet-proof", "relayed"
					if prev := proofSent[cr.Proof.Jwt]; prev != nil && prev != x && prev.From == "NW" {
						origin = "served-request"
					}
				}
				r.violate("credential-to-non-subject", map[string]interface{}{"how": how, "proof_audience": r.audName(rp.aud), "proof_origin": origin},
					fmt.Sprintf("the attacker obtained the credential offered to %s (token %v, proof kid %s)", f.subj.name, r.tokID[bearer], rp.kid))
			}
			// R3: a proof is honoured once
			if prev := proofSeen[cr.Proof.Jwt]; prev != nil {
				by := "same-party"
				if prev.From != x.From {
					by = "other-party"
				}
				r.violate("proof-replayed", map[string]interface{}{"by": by}, "the same proof JWT (same c_nonce) was honoured twice for "+f.name)
			}
			proofSeen[cr.Proof.Jwt] = x
		}
	}
	// R3: each offer yields at most one release
	for name, xs := range released {
		if len(xs) > 1 {
			r.violate("multiple-releases", map[string]interface{}{}, fmt.Sprintf("the credential of offer %s was released %d times", name, len(xs)))
		}
	}
	// R5: the honest wallet stores only credentials that verify, of the offered type, about the wallet DID
	for _, h := range r.holder {
		for _, id := range h.stored {
			r.res.Stats["stored"]++
			c, _ := w.NW.tc.VCR.Resolve(mustURI(id), nil)
			if c == nil {
				continue
			}
			if string(r.credJSON(c)) != string(r.genuine[id]) {
				r.violate("holder-stored-unverifiable", map[string]interface{}{}, "the wallet stored a credential whose content is not what its issuer signed: "+id)
			}
			if r.typOf[id] != h.offer.Typ {
				r.violate("holder-stored-unoffered-type", map[string]interface{}{}, fmt.Sprintf("offer of type %s ended with a stored credential of type %s", h.offer.Typ, r.typOf[id]))
			}
			if r.subjOf[id] != w.W.id.String() {
				via := "honest-issuer"
				if h.offer.Iss == "X" {
					via = "rogue-issuer"
				}
				r.violate("holder-stored-foreign-subject", map[string]interface{}{"via": via}, fmt.Sprintf("the wallet of %s stored credential %s whose subject is %s", w.W.id, id, r.didName(r.subjOf[id])))
			}
		}
	}
	// R7: nothing usable is left behind by a step that failed: every stored token / c_nonce was handed out in a response
	if nPanic == 0 {
		nTokSet, nNonSet := 0, 0
		for _, e := range w.NI.sess.eventsSince(0) {
			if e.Op == "set" && e.Hit {
				switch e.Class {
				case "openid4vci/accesstoken":
					nTokSet++
					if e.TTL <= 0 || e.TTL > nominalTTL {
						r.violate("entry-outlives-announced-expiry", map[string]interface{}{"what": "access-token"}, fmt.Sprintf("access token stored with life time %v", e.TTL))
					}
				case "openid4vci/c_nonce":
					nNonSet++
					if e.TTL <= 0 || e.TTL > nominalTTL {
						r.violate("entry-outlives-announced-expiry", map[string]interface{}{"what": "c_nonce"}, fmt.Sprintf("c_nonce stored with life time %v", e.TTL))
					}
				case "openid4vci/preauthcode", "openid4vci/flow":
					if e.TTL <= 0 || e.TTL > nominalTTL {
						r.violate("entry-outlives-announced-expiry", map[string]interface{}{"what": "offer"}, fmt.Sprintf("%s stored with life time %v", e.Class, e.TTL))
					}
				}
			}
		}
		// (only "more stored than handed out" is a defect; if the key layout of the store is not the known one nothing is claimed)
		if nTokSet > nTokOK {
			r.violate("orphan-access-token", map[string]interface{}{}, fmt.Sprintf("%d access tokens were stored but %d token responses were sent", nTokSet, nTokOK))
		}
		if nNonSet > nNonceOut {
			r.violate("orphan-c-nonce", map[string]interface{}{}, fmt.Sprintf("%d c_nonces were stored but %d were handed out", nNonSet, nNonceOut))
		}
	}
	r.res.Stats["token_responses"] = nTokOK
	r.res.Stats["exchanges"] = len(w.net.log)
	r.res.Stats["panics"] = nPanic
	if len(r.res.Violations) > 0 || r.sc.Mutant != "" {
		for _, x := range w.net.log {
			body := string(x.Body)
			if len(body) > 600 {
				body = body[:600] + "..."
			}
			resp := string(x.RespBody)
			if len(resp) > 300 {
				resp = resp[:300] + "..."
			}
			r.res.Exchanges = append(r.res.Exchanges, map[string]interface{}{"seq": x.Seq, "from": x.From, "method": x.Method, "url": x.URL[:minInt(len(x.URL), 200)],
				"authorization": x.Header.Get("Authorization"), "body": body, "status": x.Status, "response": resp, "vnow_s": x.VNow.Seconds(), "panic": x.Panic, "err": x.Err})
		}
	}
}

func minInt(a, b int) int {
	if a < b {
		return a
	}
	return b
}

func mustURI(s string) ssi.URI { return ssi.MustParseURI(s) }
