// X03 driver: replays behaviours of spec/Oid4vci.tla on the REAL issuer.OpenIDHandler / holder.OpenIDHandler (built by the
// real vcr through GetOpenIDIssuer / GetOpenIDHolder, reached through the real API wrappers) and judges the property
// statements on real observables: the HTTP exchanges seen on the in-memory network, the credentials the wallet node
// stored, and the primitive operations of the session database. It also emits the execution in the vocabulary of the
// specification so that TLC can validate it against spec/TraceOid4vci.tla.
package oid4vci

import (
	"bufio"
	"context"
	"encoding/base64"
	"encoding/json"
	"fmt"
	"io"
	"net/http"
	"net/url"
	"os"
	"runtime"
	"sort"
	"strings"
	"sync"
	"testing"
	"time"

	"github.com/lestrrat-go/jwx/v2/jwa"
	"github.com/lestrrat-go/jwx/v2/jws"
	ssi "github.com/nuts-foundation/go-did"
	"github.com/nuts-foundation/go-did/vc"
	"github.com/sirupsen/logrus"

	"verifharness/gate"
)

// ------------------------------------------------------------------------------------------ script format

type idT struct {
	F string `json:"f"`
	K int    `json:"k"`
}

func (i idT) key() string { return fmt.Sprintf("%s/%d", i.F, i.K) }
func (i idT) junk() bool  { return i.F == "junk" || i.F == "" || i.F == "none" }

type offerT struct {
	To    string `json:"to"`
	Iss   string `json:"iss"`
	Claim string `json:"claim"` // the credential_issuer the metadata served by Iss claims to be
	Code  string `json:"code"`
	Typ   string `json:"typ"`
}

type proofT struct {
	Kid string `json:"kid"`
	Sig bool   `json:"sig"`
	Aud string `json:"aud"`
	Typ bool   `json:"typ"`
	Non idT    `json:"non"`
}

type credT struct {
	F     string `json:"f"`
	Subj  string `json:"subj"`
	Typ   string `json:"typ"`
	Valid bool   `json:"valid"`
}

type stepT struct {
	A      string   `json:"a"`
	F      string   `json:"f,omitempty"`
	Subj   string   `json:"subj,omitempty"`
	O      *offerT  `json:"o,omitempty"`
	Again  bool     `json:"again,omitempty"`
	Abort  bool     `json:"abort,omitempty"`
	P      string   `json:"p,omitempty"`
	Code   string   `json:"code,omitempty"`
	Hit    bool     `json:"hit,omitempty"`
	Tok    *idT     `json:"tok,omitempty"`
	Non    *idT     `json:"non,omitempty"`
	Ok     bool     `json:"ok,omitempty"`
	Lost   bool     `json:"lost,omitempty"`
	Obs    bool     `json:"obs,omitempty"`
	Proof  *proofT  `json:"proof,omitempty"`
	Rtyp   string   `json:"rtyp,omitempty"`
	Out    string   `json:"out,omitempty"`
	Newnon *idT     `json:"newnon,omitempty"`
	Stores bool     `json:"stores,omitempty"`
	Shape  string   `json:"shape,omitempty"`
	Cred   *credT   `json:"cred,omitempty"`
	Otyp   string   `json:"otyp,omitempty"`
	Off    []string `json:"off,omitempty"`
}

type script struct {
	ID     string  `json:"id"`
	Steps  []stepT `json:"steps"`
	TTL    int     `json:"ttl"`    // life time of a session entry in model ticks (one Tick = 15 min / TTL)
	Mode   string  `json:"mode"`   // "" = replay | "honest" = unmanipulated end-to-end run
	Junk   string  `json:"junk"`   // "" = values the issuer never saw | "cross" = secrets of ANOTHER kind (code as token, token as nonce, ...)
	Mutant string  `json:"mutant"` // binding demonstration only: the driver corrupts what it reports ("log-release", "log-proof")
}

type input struct {
	Scripts []script `json:"scripts"`
}

type violation struct {
	Kind   string                 `json:"kind"`
	Sig    map[string]interface{} `json:"sig"`
	Detail string                 `json:"detail"`
}

type result struct {
	ID         string                   `json:"id"`
	Error      string                   `json:"error,omitempty"`
	Violations []violation              `json:"violations"`
	Drift      []string                 `json:"drift"`
	Trace      []map[string]interface{} `json:"trace"`
	Outcomes   []string                 `json:"outcomes"`
	Stats      map[string]int           `json:"stats"`
	Exchanges  []map[string]interface{} `json:"exchanges,omitempty"`
}

// ------------------------------------------------------------------------------------------ run state

type flowRec struct {
	name      string
	subj      *party
	typ       string
	cred      *vc.VerifiableCredential
	credID    string
	code      string
	offerJSON string
	uuid      string
	at        time.Duration
}

type wrun struct {
	offer    offerT
	status   int
	body     string
	done     bool
	tokX     *exchange // the token exchange of this run (set by the network hooks)
	credX    *exchange
	cands    []string // credential ids that could be stored by this run
	rogueTok bool
}

type run struct {
	w       *world
	sc      script
	res     *result
	sched   *gate.Sched
	mu      sync.Mutex
	actors  map[int64]string
	flows   map[string]*flowRec
	byUUID  map[string]*flowRec
	tokReal map[string]string
	nonReal map[string]string
	tokID   map[string]idT
	nonID   map[string]idT
	nTok    map[string]int
	nNon    map[string]int
	wProofs map[string]string // "<aud>|<nonce id>" -> JWT made by the honest wallet
	evIdx   int
	wcur    *wrun
	wpos    string
	apos    string
	aTokX   *exchange
	blocked map[string]bool
	// rogue issuer
	rogueNonce string
	rogueCred  []byte
	rogueProof string
	// credentials of this script that did not come out of a flow: id -> genuine JSON
	genuine map[string][]byte // credential id -> canonical JSON of the genuine credential
	subjOf  map[string]string // credential id -> subject DID
	typOf   map[string]string
	storedW map[string]bool // credential ids found in the wallet node's store so far
	holder  []holderObs
	nIssued int
	nCross  int
	nForge  int
}

type holderObs struct {
	offer  offerT
	stored []string
	status int
}

func (r *run) drift(f string, a ...interface{}) {
	if len(r.res.Drift) < 20 {
		r.res.Drift = append(r.res.Drift, fmt.Sprintf(f, a...))
	}
}

func (r *run) violate(kind string, sig map[string]interface{}, detail string) {
	sig["kind"] = kind
	for _, v := range r.res.Violations {
		if fmt.Sprint(v.Sig) == fmt.Sprint(sig) {
			return
		}
	}
	r.res.Violations = append(r.res.Violations, violation{Kind: kind, Sig: sig, Detail: detail})
}

func (r *run) emit(e map[string]interface{}) { r.res.Trace = append(r.res.Trace, e) }

func (r *run) actorOf(gid int64) string {
	r.mu.Lock()
	defer r.mu.Unlock()
	return r.actors[gid]
}

func (r *run) register(name string) {
	r.mu.Lock()
	r.actors[goid()] = name
	r.mu.Unlock()
}

var issueCounter int

// ------------------------------------------------------------------------------------------ naming of real values

// absorb reads the new operations of the issuer's session database and names the access tokens / c_nonces they
// create the way the specification does: (flow, k) = the k-th one stored for that flow.
func (r *run) absorb(curFlow *flowRec) (newToks, newNons []idT) {
	evs := r.w.NI.sess.eventsSince(r.evIdx)
	r.evIdx += len(evs)
	for _, e := range evs {
		if e.Op != "set" || !e.Hit {
			continue
		}
		switch e.Class {
		case "openid4vci/flow":
			if curFlow != nil && curFlow.uuid == "" {
				curFlow.uuid = e.Ref
				r.byUUID[e.Ref] = curFlow
			}
		case "openid4vci/preauthcode":
			var fid string
			_ = json.Unmarshal([]byte(e.Value), &fid)
			if f := r.byUUID[fid]; f != nil && f.code == "" {
				f.code = e.Ref
			}
		case "openid4vci/accesstoken", "openid4vci/c_nonce":
			var fid string
			_ = json.Unmarshal([]byte(e.Value), &fid)
			f := r.byUUID[fid]
			if f == nil {
				r.drift("reference %s stored for unknown flow %s", e.Class, fid)
				continue
			}
			if e.Class == "openid4vci/accesstoken" {
				r.nTok[f.name]++
				id := idT{f.name, r.nTok[f.name]}
				r.tokReal[id.key()], r.tokID[e.Ref] = e.Ref, id
				newToks = append(newToks, id)
			} else {
				r.nNon[f.name]++
				id := idT{f.name, r.nNon[f.name]}
				r.nonReal[id.key()], r.nonID[e.Ref] = e.Ref, id
				newNons = append(newNons, id)
			}
		}
	}
	return
}

// cross returns a real secret of one of the given kinds (rotating), or "" if none exists yet: a value that is valid
// somewhere else in the issuer's store is presented where the specification says "a value never handed out for this".
func (r *run) cross(kinds ...string) string {
	if r.sc.Junk != "cross" {
		return ""
	}
	var cands []string
	for _, k := range kinds {
		switch k {
		case "code":
			for _, n := range []string{"f1", "f2", "f3"} {
				if f := r.flows[n]; f != nil && f.code != "" {
					cands = append(cands, f.code)
				}
			}
		case "tok":
			for _, n := range []string{"f1/1", "f2/1", "f1/2"} {
				if v, ok := r.tokReal[n]; ok {
					cands = append(cands, v)
				}
			}
		case "non":
			for _, n := range []string{"f1/1", "f2/1", "f1/2"} {
				if v, ok := r.nonReal[n]; ok {
					cands = append(cands, v)
				}
			}
		case "flow":
			for _, n := range []string{"f1", "f2"} {
				if f := r.flows[n]; f != nil && f.uuid != "" {
					cands = append(cands, f.uuid)
				}
			}
		}
	}
	if len(cands) == 0 {
		return ""
	}
	r.nCross++
	return cands[r.nCross%len(cands)]
}

func (r *run) realTok(i *idT) string {
	if i == nil || i.junk() {
		if v := r.cross("code", "non", "flow"); v != "" {
			return v
		}
		return "junk-access-token"
	}
	if v, ok := r.tokReal[i.key()]; ok {
		return v
	}
	return ""
}

func (r *run) realNon(i idT) (string, bool) {
	if i.junk() {
		if v := r.cross("tok", "code", "flow"); v != "" {
			return v, true
		}
		return "junk-c-nonce", true
	}
	v, ok := r.nonReal[i.key()]
	return v, ok
}

func (r *run) audURL(a string) string {
	switch a {
	case "I":
		return r.w.I.identifier
	case "X":
		return r.w.rogueID
	}
	return "https://nowhere.x03.example"
}

func (r *run) audName(auds []string) string {
	for _, a := range auds {
		if a == r.w.I.identifier {
			return "I"
		}
	}
	for _, a := range auds {
		if a == r.w.rogueID {
			return "X"
		}
	}
	return "other"
}

func (r *run) didName(d string) string {
	switch d {
	case r.w.I.id.String():
		return "I"
	case r.w.W.id.String():
		return "W"
	case r.w.A.id.String():
		return "A"
	}
	return "other"
}

// definition returns the credential_definition the issuer puts into offers for credentials of the type.
func (r *run) definition(typ string) map[string]interface{} {
	return map[string]interface{}{
		"@context": []string{"https://www.w3.org/2018/credentials/v1", "https://w3c-ccg.github.io/lds-jws2020/contexts/lds-jws2020-v1.json", "https://nuts.nl/credentials/v1"},
		"type":     []string{typeURI[typ], "VerifiableCredential"},
	}
}

func typName(types []interface{}) string {
	for _, t := range types {
		for n, u := range typeURI {
			if t == u {
				return n
			}
		}
	}
	return "other"
}

// ------------------------------------------------------------------------------------------ independent JWT reading

type readProof struct {
	present bool
	kid     string
	kidDID  string
	typ     string
	aud     []string
	nonce   interface{}
	sigOK   bool
}

func b64json(seg string) map[string]interface{} {
	b, err := base64.RawURLEncoding.DecodeString(seg)
	if err != nil {
		return nil
	}
	var m map[string]interface{}
	if json.Unmarshal(b, &m) != nil {
		return nil
	}
	return m
}

// readJWT decodes a compact JWS by hand and verifies its signature with the key the driver knows for the kid.
func (r *run) readJWT(tok string) readProof {
	p := readProof{present: tok != ""}
	parts := strings.Split(tok, ".")
	if len(parts) != 3 {
		return p
	}
	h, c := b64json(parts[0]), b64json(parts[1])
	if h == nil || c == nil {
		return p
	}
	p.kid, _ = h["kid"].(string)
	p.typ, _ = h["typ"].(string)
	if i := strings.Index(p.kid, "#"); i >= 0 {
		p.kidDID = p.kid[:i]
	}
	switch a := c["aud"].(type) {
	case string:
		p.aud = []string{a}
	case []interface{}:
		for _, x := range a {
			if s, ok := x.(string); ok {
				p.aud = append(p.aud, s)
			}
		}
	}
	p.nonce = c["nonce"]
	for _, q := range []*party{r.w.I, r.w.W, r.w.A} {
		if q.kid == p.kid {
			_, err := jws.Verify([]byte(tok), jws.WithKey(jwa.ES256, q.pub))
			p.sigOK = err == nil
		}
	}
	return p
}

// ------------------------------------------------------------------------------------------ network hooks

func (r *run) install() {
	n := r.w.net
	n.pre = func(from string, req *http.Request, body []byte) *http.Response {
		path := req.URL.Path
		// the offer of the honest issuer to the honest wallet is captured: the network delivers it when the script says so
		if from == "NI" && req.URL.Host == hostWallet && strings.HasSuffix(path, "/openid4vci/credential_offer") && r.sc.Mode != "honest" {
			if cur := r.curOffer(); cur != nil {
				cur.offerJSON = req.URL.Query().Get("credential_offer")
			}
			return jsonResponse(200, map[string]string{"status": "credential_received"})
		}
		if from == "NW" && req.Method == "POST" && r.actorOf(goid()) == "W" && r.sc.Mode != "honest" {
			d := "go"
			if strings.HasSuffix(path, "/token") {
				d = r.sched.At("W", "tok")
			} else if strings.HasSuffix(path, "/openid4vci/credential") {
				d = r.sched.At("W", "cred")
			}
			if d == "dead" { // the script is over: a straggler must not reach the issuer
				return jsonResponse(503, map[string]string{"error": "script is over"})
			}
		}
		return nil
	}
	n.post = func(x *exchange, resp *http.Response) *http.Response {
		if x.From == "NW" && x.Method == "POST" && r.actorOf(goid()) == "W" && r.sc.Mode != "honest" {
			u, _ := url.Parse(x.URL)
			d := "go"
			if strings.HasSuffix(u.Path, "/token") {
				if r.wcur != nil {
					r.wcur.tokX = x
				}
				d = r.sched.At("W", "tokresp")
			} else if strings.HasSuffix(u.Path, "/openid4vci/credential") {
				if r.wcur != nil {
					r.wcur.credX = x
				}
				d = r.sched.At("W", "credresp")
			}
			if d == "lost" || d == "dead" {
				return nil
			}
		}
		return resp
	}
	n.rogue = r.rogueServe
	r.w.NI.sess.mu.Lock()
	r.w.NI.sess.gate = func(gid int64, op, class string) {
		if op == "delete" && class == "openid4vci/preauthcode" && r.sc.Mode != "honest" {
			if a := r.actorOf(gid); a != "" {
				r.sched.At(a, "del")
			}
		}
	}
	r.w.NI.sess.mu.Unlock()
}

var curOfferFlow *flowRec

func (r *run) curOffer() *flowRec { return curOfferFlow }

// rogueServe plays the attacker's wallet endpoint (host awallet) and his rogue issuer "X" (host rogue).
func (r *run) rogueServe(req *http.Request, body []byte) *http.Response {
	path := req.URL.Path
	switch req.URL.Host {
	case hostAWallet:
		switch {
		case strings.HasSuffix(path, "/.well-known/openid-credential-wallet"):
			return jsonResponse(200, map[string]string{"credential_offer_endpoint": r.w.A.identifier + "/openid4vci/credential_offer"})
		case strings.HasSuffix(path, "/openid4vci/credential_offer"):
			if cur := r.curOffer(); cur != nil {
				cur.offerJSON = req.URL.Query().Get("credential_offer")
			}
			return jsonResponse(200, map[string]string{"status": "credential_received"})
		}
	case hostRogue:
		switch {
		case strings.HasSuffix(path, "/.well-known/openid-credential-issuer"):
			claim := r.w.rogueID
			if r.wcur != nil && r.wcur.offer.Claim == "I" {
				claim = r.w.I.identifier // the rogue issuer's metadata claims to be the honest issuer
			}
			return jsonResponse(200, map[string]interface{}{"credential_issuer": claim, "credential_endpoint": r.w.rogueID + "/openid4vci/credential",
				"credentials_supported": []interface{}{}})
		case strings.HasSuffix(path, "/.well-known/oauth-authorization-server"):
			return jsonResponse(200, map[string]interface{}{"issuer": r.w.rogueID, "token_endpoint": r.w.rogueID + "/token"})
		case strings.HasSuffix(path, "/token"):
			return jsonResponse(200, map[string]interface{}{"access_token": "rogue-access-token", "c_nonce": r.rogueNonce, "expires_in": 900, "token_type": "bearer"})
		case strings.HasSuffix(path, "/openid4vci/credential"):
			var cr struct {
				Proof *struct {
					Jwt string `json:"jwt"`
				} `json:"proof"`
			}
			_ = json.Unmarshal(body, &cr)
			if cr.Proof != nil {
				r.rogueProof = cr.Proof.Jwt
			}
			if r.rogueCred == nil {
				return jsonResponse(500, map[string]string{"error": "server_error"})
			}
			var m map[string]interface{}
			_ = json.Unmarshal(r.rogueCred, &m)
			return jsonResponse(200, map[string]interface{}{"format": "ldp_vc", "credential": m})
		}
	}
	return nil
}

// ------------------------------------------------------------------------------------------ scheduler helpers

// move releases the actor from gate `expect` and waits for its next position. "" = blocked inside the code.
func (r *run) move(actor, expect, directive string) (string, error) {
	pos, err := r.sched.Step(actor, expect, directive)
	if err != nil {
		return pos, err
	}
	if pos == "" {
		// under load a step can take longer than BlockedAfter: give it more time before calling it blocked
		if p2, ok := r.sched.Await(actor, 3*time.Second); ok {
			return p2, nil
		}
		r.blocked[actor] = true
	}
	return pos, nil
}

// ------------------------------------------------------------------------------------------ steps

func (r *run) credJSON(c *vc.VerifiableCredential) []byte {
	b, _ := json.Marshal(c)
	var m interface{}
	_ = json.Unmarshal(b, &m)
	out, _ := json.Marshal(m)
	return out
}

func (r *run) noteCred(c *vc.VerifiableCredential, typ string) {
	id := c.ID.String()
	r.genuine[id] = r.credJSON(c)
	s, _ := c.SubjectDID()
	if s != nil {
		r.subjOf[id] = s.String()
	}
	r.typOf[id] = typ
}

func (r *run) stepOffer(st stepT) {
	subj := r.w.partyByName(st.Subj)
	f := &flowRec{name: st.F, subj: subj, typ: "T1", at: r.w.NI.sess.vnow()}
	r.flows[st.F] = f
	curOfferFlow = f
	issueCounter++
	c, err := r.w.issue(subj, "T1", issueCounter, true)
	curOfferFlow = nil
	if err != nil || c == nil {
		r.res.Error = fmt.Sprintf("issuer could not issue/offer: %v", err)
		return
	}
	f.cred, f.credID = c, c.ID.String()
	r.noteCred(c, "T1")
	r.absorb(f)
	if f.offerJSON != "" {
		var o struct {
			Grants map[string]map[string]interface{} `json:"grants"`
		}
		_ = json.Unmarshal([]byte(f.offerJSON), &o)
		for _, g := range o.Grants {
			if c, ok := g["pre-authorized_code"].(string); ok {
				if f.code != "" && f.code != c {
					r.drift("code in the offer differs from the stored reference")
				}
				f.code = c
			}
		}
	}
	if f.code == "" || f.uuid == "" {
		r.res.Error = "no offer / flow observed for " + st.F
		return
	}
	r.emit(map[string]interface{}{"ev": "offer", "f": st.F, "subj": st.Subj})
	r.res.Outcomes = append(r.res.Outcomes, "offer:"+st.Subj)
}

func (r *run) realCode(c string) string {
	if f := r.flows[c]; f != nil && f.code != "" {
		return f.code
	}
	if v := r.cross("tok", "non", "flow"); v != "" {
		return v
	}
	return "junk-pre-authorized-code"
}

func (r *run) offerJSON(o offerT) string {
	if o.Iss == "I" && o.Typ == "T1" {
		if f := r.flows[o.Code]; f != nil && f.subj == r.w.W && f.offerJSON != "" {
			return f.offerJSON // the issuer's own offer, verbatim
		}
	}
	m := map[string]interface{}{
		"credential_issuer": r.audURL(o.Iss),
		"credentials":       []interface{}{map[string]interface{}{"format": "ldp_vc", "credential_definition": r.definition(o.Typ)}},
		"grants": map[string]interface{}{"urn:ietf:params:oauth:grant-type:pre-authorized_code": map[string]interface{}{
			"pre-authorized_code": r.realCode(o.Code)}},
	}
	b, _ := json.Marshal(m)
	return string(b)
}

func (r *run) stepRecv(st stepT) {
	if r.wcur != nil && !r.wcur.done {
		r.drift("Recv while the wallet is busy")
		return
	}
	wr := &wrun{offer: *st.O}
	r.wcur = wr
	oj := r.offerJSON(*st.O)
	r.sched.Go("W", func(ctx context.Context) {
		r.register("W")
		target := r.w.W.identifier + "/openid4vci/credential_offer?credential_offer=" + url.QueryEscape(oj)
		req, _ := http.NewRequest("GET", target, nil)
		resp, err := (&client{net: r.w.net, from: "net"}).Do(req)
		if err == nil {
			b, _ := io.ReadAll(resp.Body)
			wr.status, wr.body = resp.StatusCode, string(b)
		} else {
			wr.status, wr.body = -1, err.Error()
		}
		wr.done = true
	})
	pos, err := r.move("W", "start", "go")
	if err != nil {
		r.res.Error = "Recv: " + err.Error()
		return
	}
	r.wpos = pos
	r.emit(map[string]interface{}{"ev": "recv", "o": st.O, "again": st.Again, "abort": pos == "done"})
	if pos == "done" {
		r.finishW("recv")
	}
	if (pos == "done") != st.Abort {
		r.drift("Recv: model abort=%v real position %q", st.Abort, pos)
	}
}

// finishW is called when the wallet's handler has returned: what did it store?
func (r *run) finishW(where string) {
	wr := r.wcur
	var stored []string
	ids := make([]string, 0, len(r.genuine))
	for id := range r.genuine {
		ids = append(ids, id)
	}
	sort.Strings(ids)
	for _, id := range ids {
		if r.storedW[id] {
			continue
		}
		u := ssi.MustParseURI(id)
		if c, _ := r.w.NW.tc.VCR.Resolve(u, nil); c != nil {
			r.storedW[id] = true
			stored = append(stored, id)
		}
	}
	r.holder = append(r.holder, holderObs{offer: wr.offer, stored: stored, status: wr.status})
	r.res.Outcomes = append(r.res.Outcomes, fmt.Sprintf("wallet:%s:%d:stored=%d", where, wr.status, len(stored)))
	r.wpos = "idle"
}

func (r *run) storedNow() int {
	if len(r.holder) == 0 {
		return 0
	}
	return len(r.holder[len(r.holder)-1].stored)
}

func (r *run) stepTokBegin(st stepT) {
	n0 := len(r.tokID)
	switch st.P {
	case "W":
		if r.wpos != "tok" {
			r.drift("TokBegin(W): wallet is at %q", r.wpos)
			return
		}
		pos, err := r.move("W", "tok", "go")
		if err != nil {
			r.res.Error = "TokBegin(W): " + err.Error()
			return
		}
		r.wpos = pos
	case "A":
		code := r.realCode(st.Code)
		r.aTokX = nil
		r.sched.Go("A", func(ctx context.Context) {
			r.register("A")
			form := url.Values{"grant_type": {"urn:ietf:params:oauth:grant-type:pre-authorized_code"}, "pre-authorized_code": {code}}
			req, _ := http.NewRequest("POST", r.w.I.identifier+"/token", strings.NewReader(form.Encode()))
			req.Header.Set("Content-Type", "application/x-www-form-urlencoded")
			resp, err := (&client{net: r.w.net, from: "A"}).Do(req)
			if err == nil {
				_, _ = io.Copy(io.Discard, resp.Body)
			}
		})
		pos, err := r.move("A", "start", "go")
		if err != nil {
			r.res.Error = "TokBegin(A): " + err.Error()
			return
		}
		r.apos = pos
	}
	toks, nons := r.absorb(nil)
	hit := len(r.tokID) > n0
	e := map[string]interface{}{"ev": "tokbegin", "p": st.P, "code": st.Code, "hit": hit, "tok": idT{"junk", 0}, "non": idT{"junk", 0}}
	if len(toks) > 0 {
		e["tok"] = toks[0]
	}
	if len(nons) > 0 {
		e["non"] = nons[0]
	}
	r.emit(e)
	if hit != st.Hit {
		r.drift("TokBegin(%s,%s): model hit=%v real hit=%v", st.P, st.Code, st.Hit, hit)
	}
}

func (r *run) stepTokEnd(st stepT) {
	var x *exchange
	switch st.P {
	case "W":
		if r.wpos == "del" {
			pos, err := r.move("W", "del", "go")
			if err != nil {
				r.res.Error = "TokEnd(W): " + err.Error()
				return
			}
			r.wpos = pos
		}
		if r.wpos != "tokresp" {
			r.drift("TokEnd(W): wallet is at %q", r.wpos)
			return
		}
		x = r.wcur.tokX
		d := "go"
		if st.Lost {
			d = "lost"
		}
		pos, err := r.move("W", "tokresp", d)
		if err != nil {
			r.res.Error = "TokEnd(W): " + err.Error()
			return
		}
		r.wpos = pos
	case "A":
		if r.apos == "del" {
			pos, err := r.move("A", "del", "go")
			if err != nil {
				r.res.Error = "TokEnd(A): " + err.Error()
				return
			}
			r.apos = pos
		}
		if r.apos != "done" {
			if p, ok := r.sched.Await("A", 3*time.Second); ok {
				r.apos = p
			}
		}
		if r.apos != "done" {
			r.drift("TokEnd(A): attacker request is at %q", r.apos)
			return
		}
		for i := len(r.w.net.log) - 1; i >= 0; i-- {
			if y := r.w.net.log[i]; y.From == "A" && strings.HasSuffix(y.URL, "/token") {
				x = y
				break
			}
		}
		r.apos = "idle"
	}
	r.absorb(nil)
	ok := x != nil && x.Status == 200
	r.emit(map[string]interface{}{"ev": "tokend", "p": st.P, "ok": ok, "lost": st.Lost})
	r.res.Outcomes = append(r.res.Outcomes, fmt.Sprintf("token:%s:%v", st.P, ok))
	if ok != st.Ok {
		r.drift("TokEnd(%s): model ok=%v real ok=%v", st.P, st.Ok, ok)
	}
	if st.P == "W" && r.wpos == "done" {
		r.finishW("token")
	}
}

// classify maps the response of the credential endpoint to the outcome classes of the specification.
func (r *run) classify(x *exchange) (string, string) {
	if x == nil {
		return "none", ""
	}
	if x.Panic != "" {
		return "panic", ""
	}
	var m map[string]interface{}
	_ = json.Unmarshal(x.RespBody, &m)
	if x.Status == 200 {
		if _, ok := m["credential"]; ok {
			return "released", ""
		}
		return "ok-without-credential", ""
	}
	code, _ := m["error"].(string)
	nonce, _ := m["c_nonce"].(string)
	switch {
	case code == "invalid_proof" && nonce != "":
		return "invalid_proof_n", nonce
	case code == "invalid_proof", code == "invalid_token", code == "invalid_request", code == "server_error":
		return code, nonce
	}
	return fmt.Sprintf("%d:%s", x.Status, code), nonce
}

// describe renders a credential request in the vocabulary of the specification, from the bytes on the wire.
func (r *run) describe(x *exchange) (idT, proofT, string) {
	tok := idT{"junk", 0}
	auth := x.Header.Get("Authorization")
	if len(auth) > 7 {
		if i, ok := r.tokID[auth[7:]]; ok {
			tok = i
		}
	}
	var cr struct {
		Def *struct {
			Type []interface{} `json:"type"`
		} `json:"credential_definition"`
		Proof *struct {
			Jwt  string `json:"jwt"`
			Type string `json:"proof_type"`
		} `json:"proof"`
	}
	_ = json.Unmarshal(x.Body, &cr)
	rtyp := "other"
	if cr.Def != nil {
		rtyp = typName(cr.Def.Type)
	}
	p := proofT{Kid: "none", Aud: "none", Non: idT{"junk", 0}}
	if cr.Proof != nil {
		rp := r.readJWT(cr.Proof.Jwt)
		p.Kid, p.Sig, p.Aud, p.Typ = r.didName(rp.kidDID), rp.sigOK, r.audName(rp.aud), rp.typ == "openid4vci-proof+jwt"
		switch n := rp.nonce.(type) {
		case string:
			if i, ok := r.nonID[n]; ok {
				p.Non = i
			}
		case nil:
		default:
			p.Non = idT{"nonstr", 0}
		}
	}
	return tok, p, rtyp
}

func (r *run) emitCred(ev string, x *exchange, extra map[string]interface{}) string {
	out, nonce := r.classify(x)
	tok, p, rtyp := r.describe(x)
	nn := idT{"junk", 0}
	if nonce != "" {
		if i, ok := r.nonID[nonce]; ok {
			nn = i
		}
	}
	e := map[string]interface{}{"ev": ev, "tok": tok, "proof": p, "rtyp": rtyp, "out": out, "newnon": nn}
	for k, v := range extra {
		e[k] = v
	}
	if r.sc.Mutant == "log-release" && out == "invalid_proof_n" {
		e["out"] = "released" // binding demonstration: the trace claims a release the specification does not allow
	}
	if r.sc.Mutant == "log-proof" && out == "released" {
		p.Aud = "X"
		e["proof"] = p
	}
	r.emit(e)
	return out
}

func (r *run) stepWCred(st stepT) {
	if r.wpos != "cred" {
		r.drift("WCred: wallet is at %q", r.wpos)
		return
	}
	pos, err := r.move("W", "cred", "go")
	if err != nil {
		r.res.Error = "WCred: " + err.Error()
		return
	}
	if pos != "credresp" {
		r.drift("WCred: wallet went to %q", pos)
		r.wpos = pos
		return
	}
	r.absorb(nil)
	x := r.wcur.credX
	d := "go"
	if st.Lost {
		d = "lost"
	}
	pos, err = r.move("W", "credresp", d)
	if err != nil {
		r.res.Error = "WCred: " + err.Error()
		return
	}
	r.wpos = pos
	if pos != "done" {
		r.drift("WCred: wallet did not finish (%q)", pos)
		return
	}
	// remember the proof the wallet made (the attacker may learn it)
	r.keepWProof(x)
	r.finishW("cred")
	out := r.emitCred("wcred", x, map[string]interface{}{"lost": st.Lost, "stores": r.storedNow() > 0})
	r.res.Outcomes = append(r.res.Outcomes, "wcred:"+out)
	if out != st.Out {
		r.drift("WCred: model out=%s real out=%s", st.Out, out)
	}
	if (r.storedNow() > 0) != st.Stores {
		r.drift("WCred: model stores=%v real stored=%d", st.Stores, r.storedNow())
	}
}

func (r *run) keepWProof(x *exchange) {
	if x == nil {
		return
	}
	var cr struct {
		Proof *struct {
			Jwt string `json:"jwt"`
		} `json:"proof"`
	}
	_ = json.Unmarshal(x.Body, &cr)
	if cr.Proof == nil {
		return
	}
	_, p, _ := r.describe(x)
	r.wProofs[p.Aud+"|"+p.Non.key()] = cr.Proof.Jwt
}

// attackerRequest sends a credential request of the attacker's making.
func (r *run) attackerRequest(bearer string, jwt *string, rtyp string) *exchange {
	body := map[string]interface{}{"format": "ldp_vc", "credential_definition": r.definition(rtyp)}
	if jwt != nil {
		body["proof"] = map[string]interface{}{"proof_type": "jwt", "jwt": *jwt}
	}
	b, _ := json.Marshal(body)
	req, _ := http.NewRequest("POST", r.w.I.identifier+"/openid4vci/credential", strings.NewReader(string(b)))
	req.Header.Set("Content-Type", "application/json")
	req.Header.Set("Authorization", "Bearer "+bearer)
	resp, err := (&client{net: r.w.net, from: "A"}).Do(req)
	if err == nil {
		_, _ = io.Copy(io.Discard, resp.Body)
	}
	return r.w.net.log[len(r.w.net.log)-1]
}

func (r *run) stepACred(st stepT) {
	bearer := r.realTok(st.Tok)
	if bearer == "" {
		r.drift("ACred: access token %v was never minted", *st.Tok)
		return
	}
	var jwt *string
	if st.Shape == "replay" {
		j, ok := r.wProofs[st.Proof.Aud+"|"+st.Proof.Non.key()]
		if !ok {
			r.drift("ACred: no wallet-made proof (aud %s, nonce %v) to replay", st.Proof.Aud, st.Proof.Non)
			return
		}
		jwt = &j
	} else if st.Shape != "noproof" {
		p := st.Proof
		claims := map[string]interface{}{"aud": r.audURL(p.Aud), "iat": time.Now().Unix()}
		if p.Non.F == "nonstr" {
			claims["nonce"] = 12345
		} else {
			n, ok := r.realNon(p.Non)
			if !ok {
				r.drift("ACred: c_nonce %v was never minted", p.Non)
				return
			}
			claims["nonce"] = n
		}
		kid, embed := r.w.A.kid, false
		if p.Kid == "W" {
			// "a proof that names a key of W but was not made with it": signed with the attacker's key all the same;
			// three realisations in turn: W's kid, W's kid plus the attacker's key embedded as jwk header, an unknown kid of W
			r.nForge++
			switch r.nForge % 3 {
			case 0:
				kid = r.w.W.kid
			case 1:
				kid, embed = r.w.W.kid, true
			case 2:
				kid = r.w.W.id.String() + "#k2"
			}
		}
		typ := "openid4vci-proof+jwt"
		if !p.Typ {
			typ = "JWT"
		}
		j := r.w.signJWT(kid, typ, claims, embed)
		jwt = &j
	}
	x := r.attackerRequest(bearer, jwt, st.Rtyp)
	r.absorb(nil)
	out := r.emitCred("acred", x, map[string]interface{}{"shape": st.Shape})
	r.res.Outcomes = append(r.res.Outcomes, "acred:"+st.Shape+":"+out)
	if out != st.Out {
		r.drift("ACred(%s): model out=%s real out=%s", st.Shape, st.Out, out)
	}
}

func (r *run) stepWTokX(st stepT) {
	if r.wpos != "tok" {
		r.drift("WTokX: wallet is at %q", r.wpos)
		return
	}
	n, ok := r.realNon(*st.Non)
	sent := *st.Non
	if !ok {
		r.drift("WTokX: c_nonce %v was never minted", *st.Non)
		n, sent = "junk-c-nonce", idT{"junk", 0}
	}
	r.rogueNonce = n
	pos, err := r.move("W", "tok", "go")
	if err == nil && pos == "tokresp" {
		pos, err = r.move("W", "tokresp", "go")
	}
	if err != nil {
		r.res.Error = "WTokX: " + err.Error()
		return
	}
	r.wpos = pos
	r.emit(map[string]interface{}{"ev": "wtokx", "non": sent})
	if pos == "done" {
		r.finishW("tokx")
	}
}

// rogueCredential makes the credential the rogue issuer answers with.
func (r *run) rogueCredential(c credT) []byte {
	if c.Subj == "none" {
		return nil
	}
	issueCounter++
	g, err := r.w.issue(r.w.partyByName(c.Subj), c.Typ, issueCounter, false)
	if err != nil {
		r.res.Error = "rogue credential: " + err.Error()
		return nil
	}
	r.noteCred(g, c.Typ)
	b := r.credJSON(g)
	if !c.Valid {
		// tamper with a signed claim: the proof does not verify any more
		var m map[string]interface{}
		_ = json.Unmarshal(b, &m)
		m["issuanceDate"] = time.Now().Add(-48 * time.Hour).UTC().Truncate(time.Second).Format(time.RFC3339)
		b, _ = json.Marshal(m)
	}
	return b
}

func (r *run) stepWCredX(st stepT) {
	if r.wpos != "cred" {
		r.drift("WCredX: wallet is at %q", r.wpos)
		return
	}
	r.rogueCred = r.rogueCredential(*st.Cred)
	r.rogueProof = ""
	pos, err := r.move("W", "cred", "go")
	if err == nil && pos == "credresp" {
		pos, err = r.move("W", "credresp", "go")
	}
	if err != nil {
		r.res.Error = "WCredX: " + err.Error()
		return
	}
	r.wpos = pos
	if pos != "done" {
		r.drift("WCredX: wallet did not finish (%q)", pos)
		return
	}
	p := proofT{Kid: "none", Aud: "none", Non: idT{"junk", 0}}
	if r.wcur.credX != nil {
		r.keepWProof(r.wcur.credX)
		_, p, _ = r.describe(r.wcur.credX)
	}
	r.finishW("credx")
	r.emit(map[string]interface{}{"ev": "wcredx", "proof": p, "cred": st.Cred, "otyp": r.wcur.offer.Typ, "stores": r.storedNow() > 0})
	r.res.Outcomes = append(r.res.Outcomes, fmt.Sprintf("wcredx:%s:%s:%v:stored=%d", st.Cred.Subj, st.Cred.Typ, st.Cred.Valid, r.storedNow()))
	if (r.storedNow() > 0) != st.Stores {
		r.drift("WCredX: model stores=%v real stored=%d", st.Stores, r.storedNow())
	}
}

func (r *run) stepTick() {
	ttl := r.sc.TTL
	if ttl <= 0 {
		ttl = 1
	}
	r.w.NI.sess.advance(nominalTTL / time.Duration(ttl))
	r.emit(map[string]interface{}{"ev": "tick"})
}

// ------------------------------------------------------------------------------------------ running a script

func (w *world) runScript(sc script) (res result) {
	res = result{ID: sc.ID, Violations: []violation{}, Drift: []string{}, Trace: []map[string]interface{}{}, Stats: map[string]int{}}
	r := &run{w: w, sc: sc, res: &res, sched: gate.New(), actors: map[int64]string{}, flows: map[string]*flowRec{}, byUUID: map[string]*flowRec{},
		tokReal: map[string]string{}, nonReal: map[string]string{}, tokID: map[string]idT{}, nonID: map[string]idT{}, nTok: map[string]int{},
		nNon: map[string]int{}, wProofs: map[string]string{}, blocked: map[string]bool{}, genuine: map[string][]byte{}, subjOf: map[string]string{},
		typOf: map[string]string{}, storedW: map[string]bool{}, wpos: "idle", apos: "idle"}
	r.sched.BlockedAfter = 300 * time.Millisecond
	r.sched.GiveUp = 15 * time.Second
	w.NI.sess.reset()
	w.NW.sess.reset()
	w.net.reset()
	r.install()
	defer func() {
		r.sched.Kill()
		if p := recover(); p != nil {
			res.Error = fmt.Sprintf("driver panic: %v", p)
		}
	}()
	if sc.Mode == "honest" {
		r.honest()
		r.judge()
		return
	}
	for _, st := range sc.Steps {
		if res.Error != "" {
			break
		}
		switch st.A {
		case "Init":
			// st.Off only tells which model the script was generated from; the trace describes the real code (no check off)
			r.emit(map[string]interface{}{"ev": "init", "off": []string{}})
		case "Offer":
			r.stepOffer(st)
		case "Recv":
			r.stepRecv(st)
		case "TokBegin":
			r.stepTokBegin(st)
		case "TokEnd":
			r.stepTokEnd(st)
		case "WCred":
			r.stepWCred(st)
		case "ACred":
			r.stepACred(st)
		case "Forge":
			r.emit(map[string]interface{}{"ev": "forge", "o": st.O})
		case "WTokX":
			r.stepWTokX(st)
		case "WCredX":
			r.stepWCredX(st)
		case "Tick":
			r.stepTick()
		default:
			res.Error = "unknown step " + st.A
		}
	}
	// let a request that is still in flight finish (scripts end in a quiet state; this is only a safety net)
	for _, a := range []string{"W", "A"} {
		pos := r.wpos
		if a == "A" {
			pos = r.apos
		}
		for i := 0; i < 6 && pos != "idle" && pos != "done" && pos != ""; i++ {
			p2, err := r.move(a, "", "go")
			if err != nil {
				break
			}
			pos = p2
		}
	}
	r.judge()
	return
}

// honest: the issuer issues a credential to the honest wallet and nobody interferes; everything runs synchronously
// inside Issuer.Issue, as in production.
func (r *run) honest() {
	f := &flowRec{name: "f1", subj: r.w.W, typ: "T1"}
	r.flows["f1"] = f
	curOfferFlow = f
	issueCounter++
	c, err := r.w.issue(r.w.W, "T1", issueCounter, true)
	curOfferFlow = nil
	r.res.Stats["honest_completed"] = 0
	if err != nil || c == nil {
		r.violate("honest-flow-incomplete", map[string]interface{}{}, fmt.Sprintf("an offer nobody interfered with did not go through: %v", err))
		return
	}
	f.cred, f.credID = c, c.ID.String()
	r.noteCred(c, "T1")
	r.absorb(f)
	for _, x := range r.w.net.log {
		if strings.Contains(x.URL, "/openid4vci/credential_offer") {
			u, _ := url.Parse(x.URL)
			f.offerJSON = u.Query().Get("credential_offer")
		}
	}
	got, _ := r.w.NW.tc.VCR.Resolve(*c.ID, nil)
	if got != nil {
		r.res.Stats["honest_completed"] = 1
		r.storedW[f.credID] = true
		r.holder = append(r.holder, holderObs{offer: offerT{To: "W", Iss: "I", Claim: "I", Code: "f1", Typ: "T1"}, stored: []string{f.credID}, status: 200})
	} else {
		r.violate("honest-flow-incomplete", map[string]interface{}{}, "an offer nobody interfered with did not end with the credential in the wallet's store")
	}
}

func TestDriver(t *testing.T) {
	inPath, outPath := os.Getenv("VERIF_IN"), os.Getenv("VERIF_OUT")
	if inPath == "" {
		t.Skip("VERIF_IN not set")
	}
	logrus.SetLevel(logrus.PanicLevel)
	logrus.SetOutput(io.Discard)
	if os.Getenv("VERIF_DEBUG") == "" {
		if devnull, err := os.OpenFile(os.DevNull, os.O_WRONLY, 0); err == nil {
			os.Stderr = devnull // the audit logger writes to stderr
		}
	}
	raw, err := os.ReadFile(inPath)
	if err != nil {
		t.Fatal(err)
	}
	var in input
	if err := json.Unmarshal(raw, &in); err != nil {
		t.Fatal(err)
	}
	// two nodes with their embedded services come up in well under a second; a start that hangs (two processes of this
	// machine picked the same free TCP port for the embedded NATS server) is given up, the caller starts the shard again
	ready := make(chan *world, 1)
	go func() { ready <- newWorld(t) }()
	var w *world
	select {
	case w = <-ready:
	case <-time.After(60 * time.Second):
		fmt.Println("WORLD-START-TIMEOUT")
		os.Exit(3)
	}
	out, err := os.Create(outPath)
	if err != nil {
		t.Fatal(err)
	}
	defer out.Close()
	bw := bufio.NewWriter(out)
	defer bw.Flush()
	enc := json.NewEncoder(bw)
	for _, sc := range in.Scripts {
		// a script takes milliseconds; one that does not come back is given up together with its process (the caller runs
		// the shard again) and leaves its goroutine dump behind for diagnosis
		done := make(chan result, 1)
		go func(sc script) { done <- w.runScript(sc) }(sc)
		select {
		case res := <-done:
			_ = enc.Encode(res)
		case <-time.After(90 * time.Second):
			buf := make([]byte, 4<<20)
			n := runtime.Stack(buf, true)
			_ = os.WriteFile("/tmp/verif-x03-hang.txt", append([]byte("script "+sc.ID+"\n"), buf[:n]...), 0o644)
			fmt.Println("SCRIPT-HANG", sc.ID)
			_ = bw.Flush()
			os.Exit(4)
		}
	}
}
