// World of the X03 driver: two REAL nuts-node VCR instances (issuer node, wallet node) built with the repository's own
// exported constructor vcr.NewTestVCRContext, the REAL OpenID4VCI API wrappers (vcr/api/openid4vci/v0) mounted on one
// echo server per node, wired back-to-back through an in-memory HTTP adapter (core.HTTPRequestDoer), and the REAL
// in-memory session database seated on an observed store with a virtual clock. The attacker (own DID "A", own key,
// own wallet endpoint, rogue issuer "X", knowledge of everything that passes the adapter) is played by the driver.
package oid4vci

import (
	"bytes"
	"context"
	"crypto"
	"crypto/ecdsa"
	"crypto/elliptic"
	"crypto/rand"
	"crypto/sha256"
	"encoding/hex"
	"encoding/json"
	"fmt"
	"io"
	"net/http"
	"net/http/httptest"
	"net/url"
	"runtime/debug"
	"strings"
	"sync"
	"testing"
	"time"

	"github.com/labstack/echo/v4"
	"github.com/lestrrat-go/jwx/v2/jwa"
	"github.com/lestrrat-go/jwx/v2/jwk"
	"github.com/lestrrat-go/jwx/v2/jws"
	ssi "github.com/nuts-foundation/go-did"
	"github.com/nuts-foundation/go-did/did"
	"github.com/nuts-foundation/go-did/vc"
	"github.com/nuts-foundation/nuts-node/audit"
	"github.com/nuts-foundation/nuts-node/core"
	nutscrypto "github.com/nuts-foundation/nuts-node/crypto"
	"github.com/nuts-foundation/nuts-node/crypto/hash"
	"github.com/nuts-foundation/nuts-node/jsonld"
	"github.com/nuts-foundation/nuts-node/storage"
	"github.com/nuts-foundation/nuts-node/vcr"
	v0 "github.com/nuts-foundation/nuts-node/vcr/api/openid4vci/v0"
	credentialTypes "github.com/nuts-foundation/nuts-node/vcr/credential"
	"github.com/nuts-foundation/nuts-node/vcr/issuer"
	"github.com/nuts-foundation/nuts-node/vdr/didnuts/didstore"
	"github.com/nuts-foundation/nuts-node/vdr/resolver"
)

const (
	hostIssuer  = "issuer.x03.example"
	hostWallet  = "wallet.x03.example"
	hostAWallet = "awallet.x03.example"
	hostRogue   = "rogue.x03.example"
)

// nominalTTL is the life time the code itself declares for issuance flows, access tokens and c_nonces (and announces as expires_in).
const nominalTTL = issuer.TokenTTL

// party is one DID with its signing key.
type party struct {
	name       string // "I", "W", "A"
	id         did.DID
	kid        string
	pub        crypto.PublicKey
	priv       *ecdsa.PrivateKey // only for the attacker (the driver signs for him)
	base       string            // node-http-services-baseurl
	identifier string            // OpenID4VCI identifier of the DID
}

type node struct {
	name string
	tc   vcr.TestVCRContext
	keys *nutscrypto.Crypto
	echo *echo.Echo
	sess *vstore
}

type world struct {
	t       *testing.T
	I, W, A *party
	NI, NW  *node
	rogueID string // identifier of the rogue issuer "X"
	net     *network
}

func newDID(label string) did.DID {
	b := make([]byte, 16)
	_, _ = rand.Read(b)
	return did.MustParseDID("did:nuts:" + label + hex.EncodeToString(b))
}

func buildDoc(p *party) did.Document {
	doc := did.Document{Context: []interface{}{did.DIDContextV1URI(), jsonld.JWS2020ContextV1URI()}, ID: p.id}
	vm, err := did.NewVerificationMethod(did.MustParseDIDURL(p.kid), ssi.JsonWebKey2020, p.id, p.pub)
	if err != nil {
		panic(err)
	}
	doc.AddAssertionMethod(vm)
	doc.AddAuthenticationMethod(vm)
	doc.AddCapabilityInvocation(vm)
	doc.Service = append(doc.Service, did.Service{
		ID:              ssi.MustParseURI(p.id.String() + "#baseurl"),
		Type:            resolver.BaseURLServiceType,
		ServiceEndpoint: p.base,
	})
	return doc
}

func putDoc(n *node, doc did.Document) {
	raw, _ := json.Marshal(doc)
	sum := sha256.Sum256(append([]byte(doc.ID.String()+"|"), raw...))
	tx := didstore.Transaction{Clock: 1, PayloadHash: hash.SHA256Sum(raw), Ref: hash.SHA256Hash(sum), SigningTime: time.Now().Add(-time.Hour)}
	if err := n.tc.DIDStore.Add(doc, tx); err != nil {
		panic(err)
	}
}

func newNode(t *testing.T, name string, w *world) *node {
	n := &node{name: name}
	n.keys = nutscrypto.NewMemoryCryptoInstance(t)
	n.tc = vcr.NewTestVCRContext(t, n.keys)
	n.sess = newVStore(name)
	db := storage.VerifNewInMemorySessionDatabase(n.sess.wrap)
	cl := &client{net: w.net, from: name}
	vdrInstance := vcr.VerifOpenID4VCIRewire(n.tc.VCR, cl, cl, db)
	n.echo = echo.New()
	n.echo.HideBanner, n.echo.HidePort = true, true
	n.echo.HTTPErrorHandler = core.CreateHTTPErrorHandler()
	v0.Wrapper{VCR: n.tc.VCR, VDR: vdrInstance}.Routes(n.echo)
	return n
}

func (n *node) newParty(name, host string) *party {
	p := &party{name: name, id: newDID(strings.ToLower(name))}
	p.kid = p.id.String() + "#k1"
	_, pub, err := n.keys.New(audit.TestContext(), nutscrypto.StringNamingFunc(p.kid))
	if err != nil {
		panic(err)
	}
	p.pub = pub
	p.base = "https://" + host
	p.identifier = p.base + "/n2n/identity/" + url.PathEscape(p.id.String())
	return p
}

func newWorld(t *testing.T) *world {
	w := &world{t: t}
	w.net = &network{w: w}
	w.NI = newNode(t, "NI", w)
	w.NW = newNode(t, "NW", w)
	w.I = w.NI.newParty("I", hostIssuer)
	w.W = w.NW.newParty("W", hostWallet)
	// the attacker's DID: the key stays with the driver
	k, _ := ecdsa.GenerateKey(elliptic.P256(), rand.Reader)
	w.A = &party{name: "A", id: newDID("a"), priv: k, pub: k.Public(), base: "https://" + hostAWallet}
	w.A.kid = w.A.id.String() + "#k1"
	w.A.identifier = w.A.base + "/n2n/identity/" + url.PathEscape(w.A.id.String())
	w.rogueID = "https://" + hostRogue + "/n2n/identity/" + url.PathEscape(w.A.id.String())
	for _, n := range []*node{w.NI, w.NW} {
		for _, p := range []*party{w.I, w.W, w.A} {
			putDoc(n, buildDoc(p))
		}
	}
	return w
}

func (w *world) partyByName(n string) *party {
	switch n {
	case "I":
		return w.I
	case "W":
		return w.W
	case "A":
		return w.A
	}
	return nil
}

// ------------------------------------------------------------------------------------------ credentials

var typeURI = map[string]string{"T1": "NutsAuthorizationCredential", "T2": "NutsOrganizationCredential"}

func (w *world) template(subject *party, typ string, n int) vc.VerifiableCredential {
	tpl := vc.VerifiableCredential{
		Context:      []ssi.URI{jsonld.JWS2020ContextV1URI(), credentialTypes.NutsV1ContextURI},
		Type:         []ssi.URI{ssi.MustParseURI(typeURI[typ])},
		Issuer:       w.I.id.URI(),
		IssuanceDate: time.Now().Add(-time.Minute).Truncate(time.Second),
	}
	switch typ {
	case "T1":
		tpl.CredentialSubject = []interface{}{map[string]interface{}{"id": subject.id.String(), "purposeOfUse": fmt.Sprintf("x03-%d", n)}}
	case "T2":
		tpl.CredentialSubject = []interface{}{map[string]interface{}{"id": subject.id.String(),
			"organization": map[string]interface{}{"name": fmt.Sprintf("Org %d", n), "city": "Verif"}}}
	}
	return tpl
}

// issue lets the REAL issuer of node NI create, sign and (publish = offer over OpenID4VCI) a credential.
func (w *world) issue(subject *party, typ string, n int, publish bool) (*vc.VerifiableCredential, error) {
	return w.NI.tc.VCR.Issuer().Issue(audit.TestContext(), w.template(subject, typ, n), issuer.CredentialOptions{Publish: publish, Public: false})
}

// ------------------------------------------------------------------------------------------ in-memory network

// exchange is one HTTP exchange seen on the in-memory network.
type exchange struct {
	Seq      int
	End      int    // sequence number taken when the exchange completed (overlap detection)
	From     string // "NI", "NW" (a node's HTTP client), "A" (attacker), "net" (delivery of a captured message by the driver)
	Method   string
	URL      string
	Header   http.Header
	Body     []byte
	Status   int
	RespBody []byte
	Err      string // transport level failure injected by the script ("lost")
	Panic    string
	VNow     time.Duration // virtual time when the request arrived
}

// hook decides what happens to a request of a node's client before it is forwarded: nil = forward.
type hook func(from string, req *http.Request, body []byte) *http.Response

type network struct {
	w     *world
	mu    sync.Mutex
	seq   int
	log   []*exchange
	pre   hook                                                  // called before a request is served
	post  func(x *exchange, resp *http.Response) *http.Response // called with the response; may replace it (nil = transport error)
	rogue func(req *http.Request, body []byte) *http.Response   // the rogue issuer "X" and the attacker's wallet
}

type client struct {
	net  *network
	from string
}

func (c *client) Do(req *http.Request) (*http.Response, error) { return c.net.do(c.from, req) }

func jsonResponse(status int, v interface{}) *http.Response {
	b, _ := json.Marshal(v)
	return &http.Response{StatusCode: status, Status: fmt.Sprintf("%d", status), Header: http.Header{"Content-Type": []string{"application/json"}},
		Body: io.NopCloser(bytes.NewReader(b))}
}

func (n *network) reset() {
	n.mu.Lock()
	n.log, n.seq, n.pre, n.post, n.rogue = nil, 0, nil, nil, nil
	n.mu.Unlock()
}

// serve hands the request to the echo server of the addressed node, on the caller's goroutine.
func (n *network) serve(x *exchange, req *http.Request, body []byte) (resp *http.Response) {
	var e *echo.Echo
	switch req.URL.Host {
	case hostIssuer:
		e = n.w.NI.echo
	case hostWallet:
		e = n.w.NW.echo
	case hostAWallet, hostRogue:
		if n.rogue != nil {
			if r := n.rogue(req, body); r != nil {
				return r
			}
		}
		return jsonResponse(404, map[string]string{"error": "not found"})
	default:
		return jsonResponse(502, map[string]string{"error": "no such host " + req.URL.Host})
	}
	sreq := httptest.NewRequest(req.Method, req.URL.String(), bytes.NewReader(body))
	sreq = sreq.WithContext(req.Context())
	for k, v := range req.Header {
		sreq.Header[k] = append([]string(nil), v...)
	}
	rec := httptest.NewRecorder()
	defer func() {
		if r := recover(); r != nil {
			// net/http would log the panic and drop the connection; the node survives
			x.Panic = fmt.Sprintf("%v\n%s", r, firstFrames(string(debug.Stack())))
			resp = nil
		}
	}()
	e.ServeHTTP(rec, sreq)
	return rec.Result()
}

func firstFrames(stack string) string {
	var out []string
	for _, l := range strings.Split(stack, "\n") {
		if strings.Contains(l, "nuts-node/") && !strings.HasPrefix(strings.TrimSpace(l), "/") {
			out = append(out, strings.TrimSpace(l))
			if len(out) >= 4 {
				break
			}
		}
	}
	return strings.Join(out, " <- ")
}

func (n *network) do(from string, req *http.Request) (*http.Response, error) {
	var body []byte
	if req.Body != nil {
		body, _ = io.ReadAll(req.Body)
		_ = req.Body.Close()
	}
	n.mu.Lock()
	n.seq++
	x := &exchange{Seq: n.seq, From: from, Method: req.Method, URL: req.URL.String(), Header: req.Header.Clone(), Body: body, VNow: n.w.NI.sess.vnow()}
	n.log = append(n.log, x)
	pre, post := n.pre, n.post
	n.mu.Unlock()
	var resp *http.Response
	if pre != nil {
		resp = pre(from, req, body)
	}
	if resp == nil {
		resp = n.serve(x, req, body)
	}
	n.mu.Lock()
	n.seq++
	x.End = n.seq
	n.mu.Unlock()
	if resp == nil { // the handler panicked: the connection is dropped
		x.Err = "connection closed (handler panic)"
		return nil, fmt.Errorf("EOF")
	}
	rb, _ := io.ReadAll(resp.Body)
	_ = resp.Body.Close()
	x.Status, x.RespBody = resp.StatusCode, rb
	resp.Body = io.NopCloser(bytes.NewReader(rb))
	if post != nil {
		resp = post(x, resp)
		if resp == nil {
			x.Err = "response lost"
			return nil, fmt.Errorf("read tcp: connection reset by peer (response lost)")
		}
	}
	return resp, nil
}

// ------------------------------------------------------------------------------------------ attacker's pen

// signJWT signs with the attacker's key under an arbitrary kid (a kid of another DID = forged signature).
func (w *world) signJWT(kid string, typ string, claims map[string]interface{}, embedKey bool) string {
	hdr := jws.NewHeaders()
	_ = hdr.Set("kid", kid)
	if embedKey {
		if k, err := jwk.FromRaw(w.A.pub); err == nil {
			_ = hdr.Set("jwk", k)
		}
	}
	if typ != "" {
		_ = hdr.Set("typ", typ)
	}
	payload, _ := json.Marshal(claims)
	out, err := jws.Sign(payload, jws.WithKey(jwa.ES256, w.A.priv, jws.WithProtectedHeaders(hdr)))
	if err != nil {
		panic(err)
	}
	return string(out)
}

var _ = context.Background
