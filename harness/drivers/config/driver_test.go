// Driver for Config.tla (C20): every configuration vector / (vector x action) case enumerated by TLC is executed on the REAL code:
//
//	layer "system"   cmd.CreateSystem() loaded through the real flag set / environment / yaml file (core.ServerConfig.Load),
//	                 then Configure -> Migrate -> routes -> Start exactly as cmd/root.go startServer does, probes and actions on
//	                 the running node, Shutdown;
//	layer <engine>   the real engine's Configure(core.ServerConfig) with the engine config built from the vector
//	                 (core-url, storage, crypto, network, auth [+ notary / dummy means], jsonld), and the outbound clients
//	                 (http/client StrictHTTPClient, auth/client/iam, auth/services/oauth relying party).
//
// The driver reports observables only (accepted / refused + error, requests that left the node ...); python judges.
package config

import (
	"context"
	"crypto/tls"
	"crypto/x509"
	"encoding/json"
	"fmt"
	"io"
	"net"
	"net/http"
	"net/url"
	"os"
	"path/filepath"
	"regexp"
	"sort"
	"strings"
	"testing"
	"time"

	ssi "github.com/nuts-foundation/go-did"
	"github.com/nuts-foundation/go-did/did"
	"github.com/nuts-foundation/go-did/vc"
	"github.com/nuts-foundation/nuts-node/auth"
	"github.com/nuts-foundation/nuts-node/auth/client/iam"
	"github.com/nuts-foundation/nuts-node/auth/contract"
	nutsOauth "github.com/nuts-foundation/nuts-node/auth/oauth"
	"github.com/nuts-foundation/nuts-node/auth/services"
	"github.com/nuts-foundation/nuts-node/auth/services/dummy"
	"github.com/nuts-foundation/nuts-node/auth/services/oauth"
	"github.com/nuts-foundation/nuts-node/cmd"
	"github.com/nuts-foundation/nuts-node/core"
	"github.com/nuts-foundation/nuts-node/crypto"
	"github.com/nuts-foundation/nuts-node/discovery"
	"github.com/nuts-foundation/nuts-node/events"
	"github.com/nuts-foundation/nuts-node/http/client"
	"github.com/nuts-foundation/nuts-node/jsonld"
	"github.com/nuts-foundation/nuts-node/network"
	"github.com/nuts-foundation/nuts-node/pki"
	"github.com/nuts-foundation/nuts-node/storage"
	"github.com/nuts-foundation/nuts-node/vcr"
	"github.com/nuts-foundation/nuts-node/vcr/pe"
	"github.com/nuts-foundation/nuts-node/vdr"
	"github.com/nuts-foundation/nuts-node/vdr/didnuts/didstore"
	"github.com/nuts-foundation/nuts-node/vdr/didweb"
	"github.com/piprate/json-gold/ld"
	"github.com/sirupsen/logrus"
	"go.uber.org/mock/gomock"
	"gopkg.in/yaml.v3"
)

// ------------------------------------------------------------------------------------------------ input / output

type vec struct {
	Strict bool   `json:"strict"`
	URL    string `json:"url"`    // concrete public URL ("" = not configured)
	TLS    string `json:"tls"`    // on | off | offload
	Crypto string `json:"crypto"` // unset | fs
	SQL    string `json:"sql"`    // unset | sqlite
	Dummy  bool   `json:"dummy"`  // auth.contractvalidators contains "dummy"
	Irma   string `json:"irma"`   // auth.irma.schememanager
	DID    string `json:"did"`    // didmethods, comma separated
	Moved  string `json:"moved"`  // none | network.certfile | ...
	Secret string `json:"secret"` // none | crypto.vault.token | ...
	Via    string `json:"via"`    // channel of the secret: flag | env | yaml
	// Chan: through which channel each option is supplied (flag | env | yaml); default env
	Chan map[string]string `json:"chan"`
	// StrictImplicit: strictmode is not set at all (only meaningful with Strict = true: it is the default)
	StrictImplicit bool `json:"strict_implicit"`
}

type action struct {
	Kind  string `json:"kind"`  // dummy-sign | dummy-verify | jsonld | outbound
	Arg   string `json:"arg"`   // context class / outbound URL class
	Entry string `json:"entry"` // allow-list class / outbound entry point
	URL   string `json:"url"`   // concrete URL ({PLAIN} is replaced by the address of the local plain HTTP server)
	// JSON-LD context that is NEAR an allow-list entry without being one: Arg is the relation, Anchor the kind of entry (remote-mapped |
	// mapped-only | operator), URL a template over the entry ({ENTRY} {ENTRYNOSCHEME} {PARENT} {CHOP} {ORIGIN} {M}), Need what the
	// template needs of the entry (comma separated: pathless | path | https), Variant which of the fitting entries is taken.
	// The entries come from the configuration of the real engine (jsonld.DefaultContextConfig + Operator).
	Anchor   string   `json:"anchor,omitempty"`
	Need     string   `json:"need,omitempty"`
	Variant  int      `json:"variant,omitempty"`
	Operator []string `json:"operator,omitempty"` // entries the operator adds to jsonld.contexts.remoteallowlist (jsonld layer)
}

type tcase struct {
	ID    string   `json:"id"`
	Layer string   `json:"layer"`
	Vec   vec      `json:"vec"`
	Acts  []action `json:"acts"`
}

type input struct {
	Seed  int64   `json:"seed"`
	Cases []tcase `json:"cases"`
}

type actResult struct {
	action
	Verdict  string   `json:"verdict"` // performed | refused
	Err      string   `json:"err"`
	Dials    []string `json:"dials"`
	Requests []reqRec `json:"requests"`
	Plain    bool     `json:"plain"` // a plain-HTTP request left the node
	NearTo   string   `json:"near_to,omitempty"` // the allow-list entry a near-miss context URL was derived from
}

type result struct {
	ID           string      `json:"id"`
	Layer        string      `json:"layer"`
	Accepted     bool        `json:"accepted"`
	Phase        string      `json:"phase"` // flags | load | configure | migrate | start | running
	RefusedBy    string      `json:"refused_by"`
	Err          string      `json:"err"`
	Grpc         string      `json:"grpc"` // listening | closed | "" (not probed)
	HTTPUp       bool        `json:"http_up"`
	ClientStrict *bool       `json:"client_strict,omitempty"` // http/client.StrictMode after Configure
	Acts         []actResult `json:"acts"`
	Args         []string    `json:"args,omitempty"`
	Env          []string    `json:"env,omitempty"`
	Yaml         string      `json:"yaml,omitempty"`
	Error        string      `json:"error,omitempty"` // driver problem, not a verdict
}

// ------------------------------------------------------------------------------------------------ world

type world struct {
	t         *testing.T
	rec       *recorder
	dir       string
	certFile  string
	trustFile string
	vcr       vcr.VCR
	contract  string
	n         int
}

func freePort() int {
	l, err := net.Listen("tcp", "127.0.0.1:0")
	if err != nil {
		panic(err)
	}
	defer l.Close()
	return l.Addr().(*net.TCPAddr).Port
}

func (w *world) caseDir(id string) string {
	w.n++
	d := filepath.Join(w.dir, fmt.Sprintf("%04d", w.n))
	_ = os.MkdirAll(d, 0700)
	return d
}

func (w *world) tlsConfig(v vec) core.TLSConfig {
	c := core.NewServerConfig().TLS
	if v.TLS == "on" || v.TLS == "offload" {
		c.CertFile, c.CertKeyFile, c.TrustStoreFile = w.certFile, w.certFile, w.trustFile
	}
	if v.TLS == "offload" {
		c.Offload = core.OffloadIncomingTLS
		c.ClientCertHeaderName = "X-Verif-Client-Cert"
	}
	return c
}

func (w *world) serverConfig(v vec, dir string) core.ServerConfig {
	c := core.NewServerConfig()
	c.Strictmode = v.Strict
	c.URL = v.URL
	c.Datadir = dir
	c.TLS = w.tlsConfig(v)
	c.DIDMethods = strings.Split(v.DID, ",")
	return *c
}

func validators(v vec) []string {
	// IRMA needs its scheme from the internet: never part of the vector (documented assumption)
	if v.Dummy {
		return []string{"employeeid", "dummy"}
	}
	return []string{"employeeid"}
}

var engineRe = regexp.MustCompile(`unable to (configure|start|migrate) ([A-Za-z0-9_ -]+?):`)

func refusedBy(err error) string {
	if m := engineRe.FindStringSubmatch(err.Error()); m != nil {
		return strings.ToLower(m[2])
	}
	return ""
}

// ------------------------------------------------------------------------------------------------ actions

type actors struct {
	notary services.ContractNotary
	loader ld.DocumentLoader
	iam    iam.Client
	rp     oauth.RelyingParty
	strict bool
	// long-lived clients the engines of a running node hold (constructed in their Configure)
	vdr       vdr.VDR
	vcr       vcr.VCR
	discovery discovery.Server
	services  map[string]string // outbound URL -> id of the discovery service definition carrying it as endpoint
	// clients constructed before any engine was configured
	early map[string]core.HTTPRequestDoer
	id    string
	n     int // index of the action within the case
	// the JSON-LD context configuration of the engine behind loader, and the entries of it the operator added
	contexts jsonld.ContextsConfig
	operator []string
}

func doGet(ctx context.Context, doer core.HTTPRequestDoer, u string) error {
	if doer == nil {
		return fmt.Errorf("no such client")
	}
	req, err := http.NewRequestWithContext(ctx, http.MethodGet, u, nil)
	if err != nil {
		return err
	}
	rsp, err := doer.Do(req)
	if rsp != nil && rsp.Body != nil {
		_ = rsp.Body.Close()
	}
	return err
}

func buildEarlyClients(pool *x509.CertPool) map[string]core.HTTPRequestDoer {
	return map[string]core.HTTPRequestDoer{
		"early-new":   client.New(3 * time.Second),
		"early-cache": client.NewWithCache(3 * time.Second),
		"early-tls":   client.NewWithTLSConfig(3*time.Second, &tls.Config{RootCAs: pool, MinVersion: tls.VersionTLS12}),
	}
}

// statusListCredential: a credential whose revocation status lives in a StatusList2021 credential at the given URL
func statusListCredential(u string) (*vc.VerifiableCredential, error) {
	data := fmt.Sprintf(`{"@context":["https://www.w3.org/2018/credentials/v1","https://w3id.org/vc/status-list/2021/v1"],
"id":"did:web:issuer.nuts-verif.nl#c1","type":["VerifiableCredential","VerifCredential"],"issuer":"did:web:issuer.nuts-verif.nl",
"issuanceDate":"2024-01-01T00:00:00Z","credentialSubject":{"id":"did:web:holder.nuts-verif.nl"},
"credentialStatus":{"id":%q,"type":"StatusList2021Entry","statusPurpose":"revocation","statusListIndex":"7","statusListCredential":%q}}`, u+"#7", u)
	return vc.ParseVerifiableCredential(data)
}

func (w *world) dummyVP() vc.VerifiablePresentation {
	return vc.VerifiablePresentation{
		Context: []ssi.URI{vc.VCContextV1URI()},
		Type:    []ssi.URI{vc.VerifiablePresentationTypeV1URI(), ssi.MustParseURI(dummy.VerifiablePresentationType)},
		Proof: []interface{}{dummy.Proof{Type: dummy.NoSignatureType, Initials: "I", Prefix: "von", FamilyName: "Dummy", Email: "tester@example.com",
			Contract: w.contract}},
	}
}

// nearContextURL concretises a near-miss context URL relative to an entry of the allow-list the real engine is configured with.
func nearContextURL(a action, cfg jsonld.ContextsConfig, operator []string, marker string) (string, string, error) {
	remote := map[string]bool{}
	for _, u := range cfg.RemoteAllowList {
		remote[u] = true
	}
	isOperator := map[string]bool{}
	for _, u := range operator {
		isOperator[u] = true
	}
	var pool []string
	switch a.Anchor {
	case "remote-mapped":
		for u := range cfg.LocalFileMapping {
			if remote[u] && !isOperator[u] {
				pool = append(pool, u)
			}
		}
	case "mapped-only":
		for u := range cfg.LocalFileMapping {
			if !remote[u] {
				pool = append(pool, u)
			}
		}
	case "operator":
		pool = append(pool, operator...)
	}
	sort.Strings(pool)
	var fit []string
	for _, e := range pool {
		pu, err := url.Parse(e)
		if err != nil || pu.Host == "" {
			continue
		}
		ok := true
		for _, need := range strings.Split(a.Need, ",") {
			switch need {
			case "pathless":
				ok = ok && pu.Path == "" && pu.RawQuery == ""
			case "path":
				ok = ok && strings.Trim(pu.Path, "/") != ""
			case "https":
				ok = ok && pu.Scheme == "https"
			}
		}
		if ok {
			fit = append(fit, e)
		}
	}
	if len(fit) == 0 {
		return "", "", fmt.Errorf("no %s allow-list entry fits %q (entries: %v)", a.Anchor, a.Need, pool)
	}
	entry := fit[a.Variant%len(fit)]
	pu, _ := url.Parse(entry)
	parent := entry
	if i := strings.LastIndex(strings.TrimSuffix(entry, "/"), "/"); i > len(pu.Scheme)+2 {
		parent = entry[:i]
	}
	u := strings.NewReplacer("{ENTRYNOSCHEME}", strings.TrimPrefix(entry, pu.Scheme+"://"), "{ENTRY}", entry, "{PARENT}", parent,
		"{CHOP}", entry[:len(entry)-1], "{ORIGIN}", pu.Scheme+"://"+pu.Host, "{M}", marker).Replace(a.URL)
	if u == entry || remote[u] || isOperator[u] {
		return "", "", fmt.Errorf("template %q over %s yields an allow-list entry", a.URL, entry)
	}
	if _, ok := cfg.LocalFileMapping[u]; ok {
		return "", "", fmt.Errorf("template %q over %s yields a localmapping key", a.URL, entry)
	}
	return u, entry, nil
}

var nonAlnum = regexp.MustCompile(`[^a-z0-9]`)

// markURL makes the URL of an outbound action unique (a label in front of a *.nuts-verif.nl host, a path element otherwise), so
// that connection attempts and requests can be attributed to the action that caused them even when a request of an earlier action
// or of an earlier node arrives late (timeouts under load).
func markURL(raw, caseID string, idx int) (string, string) {
	marker := fmt.Sprintf("m%sx%d", nonAlnum.ReplaceAllString(strings.ToLower(caseID), ""), idx)
	u, err := url.Parse(raw)
	if err != nil || u.Host == "" {
		return raw, marker
	}
	if strings.HasSuffix(strings.ToLower(u.Hostname()), "nuts-verif.nl") {
		u.Host = marker + "." + u.Host
	} else {
		u.Path = strings.TrimSuffix(u.Path, "/") + "/" + marker
	}
	return u.String(), marker
}

func (w *world) perform(a action, x actors) (res actResult) {
	res.action = a
	res.URL = strings.ReplaceAll(a.URL, "{PLAIN}", w.rec.httpAddr)
	marker := ""
	if a.Kind == "outbound" {
		res.URL, marker = markURL(res.URL, x.id, x.n)
	}
	w.rec.reset()
	defer func() {
		if p := recover(); p != nil {
			res.Err = fmt.Sprintf("panic: %v", p)
			res.Verdict = "panic"
		}
		dials, requests := w.rec.snapshot()
		if a.Kind == "outbound" {
			// keep what belongs to this action only
			hostMarked := false
			target := ""
			if pu, err := url.Parse(res.URL); err == nil {
				hostMarked = strings.Contains(strings.ToLower(pu.Host), marker)
				target = strings.ToLower(pu.Hostname())
			}
			for _, d := range dials {
				h, _, _ := net.SplitHostPort(d)
				if strings.Contains(strings.ToLower(d), marker) || (!hostMarked && strings.ToLower(h) == target) {
					res.Dials = append(res.Dials, d)
				}
			}
			for _, q := range requests {
				if strings.Contains(strings.ToLower(q.Host), marker) || strings.Contains(q.Path, marker) {
					res.Requests = append(res.Requests, q)
				}
			}
		} else {
			want, target, local := "", "", true
			if pu, err := url.Parse(res.URL); err == nil {
				want, target = pu.Path, strings.ToLower(pu.Hostname())
				ip := net.ParseIP(target)
				local = ip != nil && ip.IsLoopback()
			}
			if a.Kind != "jsonld" {
				res.Dials = dials
			}
			for _, d := range dials {
				// JSON-LD: a connection attempt to the host the context URL names belongs to this action
				if h, _, err := net.SplitHostPort(d); a.Kind == "jsonld" && err == nil && strings.ToLower(h) == target {
					res.Dials = append(res.Dials, d)
				}
			}
			for _, q := range requests {
				if a.Kind != "jsonld" || (local && q.Path == want) || (!local && strings.ToLower(hostOnly(q.Host)) == target) {
					res.Requests = append(res.Requests, q)
				}
			}
		}
		if res.Dials == nil {
			res.Dials = []string{}
		}
		if res.Requests == nil {
			res.Requests = []reqRec{}
		}
		for _, q := range res.Requests {
			if q.Scheme == "http" {
				res.Plain = true
			}
		}
		if a.Kind == "outbound" {
			// the action was performed iff a request (attempt) left the node
			res.Verdict = "refused"
			if len(res.Dials) > 0 {
				res.Verdict = "performed"
			}
		}
	}()
	ctx, cancel := context.WithTimeout(context.Background(), 5*time.Second)
	defer cancel()
	var err error
	switch a.Kind {
	case "dummy-sign":
		if x.notary == nil {
			res.Err = "no notary"
			res.Verdict = "refused"
			return
		}
		var sp contract.SessionPointer
		sp, err = x.notary.CreateSigningSession(services.CreateSessionRequest{SigningMeans: dummy.ContractFormat, Message: w.contract})
		if err == nil && sp != nil {
			res.Verdict = "performed"
		} else {
			res.Verdict = "refused"
		}
	case "dummy-verify":
		var vr contract.VPVerificationResult
		vr, err = x.notary.VerifyVP(w.dummyVP(), nil)
		if err == nil && vr != nil && vr.Validity() == contract.Valid {
			res.Verdict = "performed"
		} else {
			res.Verdict = "refused"
		}
	case "jsonld":
		if a.Anchor != "" && a.Anchor != "none" {
			marker := fmt.Sprintf("m%sx%d", nonAlnum.ReplaceAllString(strings.ToLower(x.id), ""), x.n)
			var u string
			if u, res.NearTo, err = nearContextURL(a, x.contexts, x.operator, marker); err != nil {
				res.Err, res.Verdict = "driver: "+err.Error(), "error"
				return
			}
			res.URL = strings.ReplaceAll(u, "{PLAIN}", w.rec.httpAddr)
		}
		_, err = x.loader.LoadDocument(res.URL)
		if err == nil {
			res.Verdict = "performed"
		} else {
			res.Verdict = "refused"
		}
	case "outbound":
		u := res.URL
		switch a.Entry {
		case "strict-client":
			var req *http.Request
			req, err = http.NewRequestWithContext(ctx, http.MethodGet, u, nil)
			if err == nil {
				var rsp *http.Response
				if w.n%2 == 0 {
					rsp, err = client.New(3 * time.Second).Do(req)
				} else {
					rsp, err = client.NewWithCache(3 * time.Second).Do(req)
				}
				if rsp != nil && rsp.Body != nil {
					_ = rsp.Body.Close()
				}
			}
		case "rfc003":
			var pu *url.URL
			pu, err = url.Parse(u)
			if err == nil {
				_, err = x.rp.RequestRFC003AccessToken(ctx, "eyJhbGciOiJFUzI1NiJ9.e30.c2ln", *pu)
			}
		case "iam-clientmetadata":
			_, err = x.iam.ClientMetadata(ctx, u)
		case "iam-presentationdefinition":
			_, err = x.iam.PresentationDefinition(ctx, u)
		case "iam-asmetadata":
			_, err = x.iam.AuthorizationServerMetadata(ctx, u)
		case "iam-openidconfig":
			_, err = x.iam.OpenIDConfiguration(ctx, u)
		case "iam-issuermetadata":
			_, err = x.iam.OpenIdCredentialIssuerMetadata(ctx, u)
		case "iam-requestobject-get":
			_, err = x.iam.RequestObjectByGet(ctx, u)
		case "iam-requestobject-post":
			_, err = x.iam.RequestObjectByPost(ctx, u, nutsOauth.AuthorizationServerMetadata{})
		case "iam-posterror":
			_, err = x.iam.PostError(ctx, nutsOauth.OAuth2Error{Code: nutsOauth.InvalidRequest, Description: "verif"}, u, "state")
		case "iam-postresponse":
			_, err = x.iam.PostAuthorizationResponse(ctx, vc.VerifiablePresentation{}, pe.PresentationSubmission{}, u, "state")
		case "iam-accesstoken":
			_, err = x.iam.AccessToken(ctx, "code", u, "https://node.nuts-verif.nl/callback", "subject", "https://node.nuts-verif.nl/oauth2/subject", "verifier", false)
		case "iam-credentials":
			_, err = x.iam.VerifiableCredentials(ctx, u, "token", "proof")
		case "early-new", "early-cache", "early-tls":
			err = doGet(ctx, x.early[a.Entry], u)
		case "vdr-didweb":
			// the did:web resolver of the running vdr (client built in vdr.Configure); the identifier is the one whose document lives at u
			var pu *url.URL
			if pu, err = url.Parse(u); err == nil {
				var id *did.DID
				if id, err = didweb.URLToDID(*pu); err == nil {
					_, _, err = x.vdr.Resolver().Resolve(*id, nil)
				}
			}
		case "vcr-statuslist":
			// the StatusList2021 client of the running vcr (built in vcr.Configure), reached through the credential verifier
			var cred *vc.VerifiableCredential
			res.URL = strings.TrimSuffix(u, "/") + "/statuslist-" + x.id
			if cred, err = statusListCredential(res.URL); err == nil {
				err = x.vcr.Verifier().Verify(*cred, true, false, nil)
			}
		case "vcr-openid4vci-issuer", "vcr-openid4vci-wallet":
			issuerClient, walletClient := vcr.VerifOpenID4VCIClients(x.vcr)
			if a.Entry == "vcr-openid4vci-issuer" {
				err = doGet(ctx, issuerClient, u)
			} else {
				err = doGet(ctx, walletClient, u)
			}
		case "discovery-get":
			// the discovery module forwards a Get for a service it does not serve to the endpoint of the service definition
			sid, ok := x.services[u]
			if !ok {
				res.Err = "no service definition for " + u
				return
			}
			_, _, _, err = x.discovery.Get(ctx, sid, 0)
		default:
			res.Err = "unknown entry " + a.Entry
			return
		}
	default:
		res.Err = "unknown action " + a.Kind
		return
	}
	if err != nil {
		res.Err = err.Error()
		if len(res.Err) > 300 {
			res.Err = res.Err[:300]
		}
	}
	return
}

// ------------------------------------------------------------------------------------------------ engine layers

func (w *world) runCoreURL(c tcase) result {
	res := result{ID: c.ID, Layer: c.Layer}
	cfg := core.NewServerConfig()
	cfg.Strictmode, cfg.URL = c.Vec.Strict, c.Vec.URL
	u, err := cfg.ServerURL()
	if err != nil {
		res.Phase, res.Err = "configure", err.Error()
		return res
	}
	res.Accepted, res.Phase = u != nil, "running"
	return res
}

func (w *world) runStorage(c tcase) result {
	res := result{ID: c.ID, Layer: c.Layer}
	dir := w.caseDir(c.ID)
	e := storage.New()
	cfg := e.(core.Injectable).Config().(*storage.Config)
	if c.Vec.SQL == "sqlite" {
		cfg.SQL.ConnectionString = "sqlite:file:" + filepath.Join(dir, "explicit.db") + "?_pragma=foreign_keys(1)&journal_mode(WAL)"
	}
	err := e.Configure(w.serverConfig(c.Vec, dir))
	defer func() {
		defer func() { _ = recover() }() // Shutdown of an engine whose Configure failed dereferences nil; the real node exits instead
		_ = e.Shutdown()
	}()
	if err != nil {
		res.Phase, res.Err = "configure", err.Error()
		return res
	}
	res.Accepted, res.Phase = e.GetSQLDatabase() != nil, "running"
	return res
}

func (w *world) runCrypto(c tcase) result {
	res := result{ID: c.ID, Layer: c.Layer}
	dir := w.caseDir(c.ID)
	st := storage.NewTestStorageEngineInDir(w.t, dir)
	e := crypto.NewCryptoInstance(st)
	cfg := e.Config().(*crypto.Config)
	cfg.Storage = ""
	if c.Vec.Crypto == "fs" {
		cfg.Storage = "fs"
	}
	err := e.Configure(w.serverConfig(c.Vec, dir))
	if err != nil {
		res.Phase, res.Err = "configure", err.Error()
		return res
	}
	res.Accepted, res.Phase = true, "running"
	return res
}

func (w *world) runNetwork(c tcase) result {
	res := result{ID: c.ID, Layer: c.Layer}
	dir := w.caseDir(c.ID)
	st := storage.NewTestStorageEngineInDir(w.t, dir)
	store := didstore.New(st.GetProvider(vdr.ModuleName))
	if err := store.(core.Configurable).Configure(core.ServerConfig{}); err != nil {
		res.Error = "didstore: " + err.Error()
		return res
	}
	pkiInstance := pki.New()
	pkiCfg := pkiInstance.Config().(*pki.Config)
	pkiCfg.Denylist.URL = ""
	if err := pkiInstance.Configure(core.ServerConfig{}); err != nil {
		res.Error = "pki: " + err.Error()
		return res
	}
	ncfg := network.DefaultConfig()
	grpcAddr := fmt.Sprintf("127.0.0.1:%d", freePort())
	ncfg.GrpcAddr = grpcAddr
	ncfg.EnableDiscovery = false
	n := network.NewNetworkInstance(ncfg, store, crypto.NewMemoryCryptoInstance(w.t), events.NewManager(), st.GetProvider(network.ModuleName), pkiInstance)
	err := n.Configure(w.serverConfig(c.Vec, dir))
	if err != nil {
		res.Phase, res.Err = "configure", err.Error()
		return res
	}
	res.Accepted, res.Phase = true, "running"
	// is there a network at all?  Start it and probe the gRPC address.
	func() {
		defer func() {
			if p := recover(); p != nil {
				res.Error = fmt.Sprintf("network start panic: %v", p)
			}
		}()
		if err := n.Start(); err != nil {
			res.Phase, res.Err, res.Accepted = "start", err.Error(), false
			return
		}
		res.Grpc = probe(grpcAddr)
		_ = n.Shutdown()
	}()
	return res
}

func probe(addr string) string {
	for i := 0; i < 3; i++ {
		conn, err := net.DialTimeout("tcp", addr, 300*time.Millisecond)
		if err == nil {
			_ = conn.Close()
			return "listening"
		}
		time.Sleep(10 * time.Millisecond)
	}
	return "closed"
}

func (w *world) runAuth(c tcase) result {
	res := result{ID: c.ID, Layer: c.Layer}
	dir := w.caseDir(c.ID)
	acfg := auth.DefaultConfig()
	acfg.ContractValidators = validators(c.Vec)
	acfg.Irma.SchemeManager = c.Vec.Irma
	acfg.Irma.AutoUpdateSchemas = false
	ctrl := gomock.NewController(w.t)
	vdrInstance := vdr.NewMockVDR(ctrl)
	vdrInstance.EXPECT().Resolver().AnyTimes()
	pkiInstance := pki.New()
	pkiInstance.Config().(*pki.Config).Denylist.URL = ""
	if err := pkiInstance.Configure(core.ServerConfig{}); err != nil {
		res.Error = "pki: " + err.Error()
		return res
	}
	jl := jsonld.NewJSONLDInstance()
	if err := jl.(core.Configurable).Configure(core.ServerConfig{Strictmode: c.Vec.Strict}); err != nil {
		res.Error = "jsonld: " + err.Error()
		return res
	}
	a := auth.NewAuthInstance(acfg, vdrInstance, nil, w.vcr, crypto.NewMemoryCryptoInstance(w.t), nil, jl, pkiInstance)
	err := a.Configure(w.serverConfig(c.Vec, dir))
	if err != nil {
		res.Phase, res.Err = "configure", err.Error()
		return res
	}
	res.Accepted, res.Phase = true, "running"
	x := actors{notary: a.ContractNotary(), iam: a.IAMClient(), rp: a.RelyingParty(), strict: c.Vec.Strict}
	client.StrictMode = c.Vec.Strict // what http.Engine.Configure does in the assembled system
	for n, act := range c.Acts {
		x.n = n
		res.Acts = append(res.Acts, w.perform(act, x))
	}
	return res
}

func (w *world) runJSONLD(c tcase) result {
	res := result{ID: c.ID, Layer: c.Layer}
	for n, act := range c.Acts {
		jl := jsonld.NewJSONLDInstance()
		cfg := jl.(core.Injectable).Config().(*jsonld.Config)
		var operator []string
		if act.Entry == "with-url" && len(act.Operator) > 0 {
			for _, o := range act.Operator {
				operator = append(operator, strings.ReplaceAll(o, "{PLAIN}", w.rec.httpAddr))
			}
			cfg.Contexts.RemoteAllowList = append(append([]string{}, cfg.Contexts.RemoteAllowList...), operator...)
		} else if act.Entry == "with-url" {
			// the operator's allow-list holds one extra URL: the "listed" one (never the unlisted URL under test)
			extra := "http://" + w.rec.httpAddr + "/ctx/an-allow-listed-context.jsonld"
			if act.Arg == "listed" {
				extra = strings.ReplaceAll(act.URL, "{PLAIN}", w.rec.httpAddr)
			}
			cfg.Contexts.RemoteAllowList = append(append([]string{}, cfg.Contexts.RemoteAllowList...), extra)
		}
		if err := jl.(core.Configurable).Configure(core.ServerConfig{Strictmode: c.Vec.Strict}); err != nil {
			res.Phase, res.Err = "configure", err.Error()
			return res
		}
		res.Accepted, res.Phase = true, "running"
		res.Acts = append(res.Acts, w.perform(act, actors{loader: jl.DocumentLoader(), strict: c.Vec.Strict, id: c.ID, n: n,
			contexts: cfg.Contexts, operator: operator}))
	}
	return res
}

func (w *world) runOutbound(c tcase) result {
	res := result{ID: c.ID, Layer: c.Layer, Accepted: true, Phase: "running"}
	client.StrictMode = false // the zero value a process starts with: "early" clients are made now ...
	early := buildEarlyClients(w.rec.pool)
	client.StrictMode = c.Vec.Strict // ... and strict mode is switched on afterwards, as http.Engine.Configure does
	x := actors{strict: c.Vec.Strict, early: early, id: c.ID,
		iam: iam.NewClient(nil, nil, nil, nil, nil, c.Vec.Strict, 3*time.Second),
		rp:  oauth.NewRelyingParty(nil, nil, nil, nil, 3*time.Second, &tls.Config{RootCAs: w.rec.pool, MinVersion: tls.VersionTLS12}, c.Vec.Strict)}
	for n, act := range c.Acts {
		x.n = n
		res.Acts = append(res.Acts, w.perform(act, x))
	}
	return res
}

// ------------------------------------------------------------------------------------------------ assembled system

const serviceDefinition = `{"id": %q, "endpoint": %q, "presentation_max_validity": 36000,
"presentation_definition": {"id": "pd_verif", "format": {"ldp_vc": {"proof_type": ["JsonWebSignature2020"]}},
 "input_descriptors": [{"id": "id_verif", "constraints": {"fields": [{"path": ["$.type"], "filter": {"type": "string", "const": "VerifCredential"}}]}}]}}`

func setNested(m map[string]any, key string, val any) {
	parts := strings.Split(key, ".")
	for _, p := range parts[:len(parts)-1] {
		sub, ok := m[p].(map[string]any)
		if !ok {
			sub = map[string]any{}
			m[p] = sub
		}
		m = sub
	}
	m[parts[len(parts)-1]] = val
}

func clearNutsEnv() {
	for _, kv := range os.Environ() {
		if strings.HasPrefix(kv, "NUTS_") {
			_ = os.Unsetenv(strings.SplitN(kv, "=", 2)[0])
		}
	}
}

func (w *world) runSystem(c tcase) (res result) {
	res = result{ID: c.ID, Layer: c.Layer}
	v := c.Vec
	dir := w.caseDir(c.ID)
	grpcAddr := fmt.Sprintf("127.0.0.1:%d", freePort())
	internalAddr := fmt.Sprintf("127.0.0.1:%d", freePort())
	publicAddr := fmt.Sprintf("127.0.0.1:%d", freePort())

	// the options of the vector, each through its own channel
	type opt struct {
		key string
		val any
	}
	var opts []opt
	add := func(k string, val any) { opts = append(opts, opt{k, val}) }
	if !(v.Strict && v.StrictImplicit) {
		add("strictmode", v.Strict)
	}
	if v.URL != "" {
		add("url", v.URL)
	}
	if v.TLS == "on" || v.TLS == "offload" {
		add("tls.certfile", w.certFile)
		add("tls.certkeyfile", w.certFile)
		add("tls.truststorefile", w.trustFile)
	}
	if v.TLS == "offload" {
		add("tls.offload", "incoming")
		add("tls.certheader", "X-Verif-Client-Cert")
	}
	if v.Crypto == "fs" {
		add("crypto.storage", "fs")
	}
	if v.SQL == "sqlite" {
		add("storage.sql.connection", "sqlite:file:"+filepath.Join(dir, "explicit.db")+"?_pragma=foreign_keys(1)&journal_mode(WAL)")
	}
	add("auth.contractvalidators", validators(v))
	add("auth.irma.schememanager", v.Irma)
	add("didmethods", strings.Split(v.DID, ","))
	listed := "http://" + w.rec.httpAddr + "/ctx/listed-" + c.ID + ".jsonld"
	// the operator's additions to the allow-list: a context on the local plain server and a path-less https:// location
	operator := []string{listed, "https://contexts.nuts-verif.nl"}
	add("jsonld.contexts.remoteallowlist", append(append([]string{}, jsonld.DefaultContextConfig().RemoteAllowList...), operator...))
	if v.Moved != "" && v.Moved != "none" {
		add(v.Moved, w.certFile)
	}
	if v.Secret != "" && v.Secret != "none" {
		add(v.Secret, "s3cr3t-"+c.ID)
	}

	// discovery service definitions: one per outbound URL the discovery client is asked to contact
	defDir := filepath.Join(dir, "discovery")
	_ = os.MkdirAll(defDir, 0700)
	servicesByURL := map[string]string{}
	for n, act := range c.Acts {
		if act.Kind == "outbound" && act.Entry == "discovery-get" {
			u, _ := markURL(strings.ReplaceAll(act.URL, "{PLAIN}", w.rec.httpAddr), c.ID, n)
			if _, ok := servicesByURL[u]; !ok {
				sid := fmt.Sprintf("urn:verif:service:%d", len(servicesByURL))
				servicesByURL[u] = sid
				_ = os.WriteFile(filepath.Join(defDir, fmt.Sprintf("def%d.json", len(servicesByURL))), []byte(fmt.Sprintf(serviceDefinition, sid, u)), 0600)
			}
		}
	}

	yamlMap := map[string]any{}
	var args, env []string
	setEnv := func(k string, val any) {
		var s string
		switch x := val.(type) {
		case []string:
			s = strings.Join(x, ",")
		default:
			s = fmt.Sprint(x)
		}
		env = append(env, "NUTS_"+strings.ToUpper(strings.ReplaceAll(k, ".", "_"))+"="+s)
	}
	for _, o := range opts {
		ch := v.Chan[o.key]
		if o.key == v.Secret {
			ch = v.Via
		}
		switch ch {
		case "flag":
			switch x := o.val.(type) {
			case []string:
				args = append(args, "--"+o.key+"="+strings.Join(x, ","))
			default:
				args = append(args, fmt.Sprintf("--%s=%v", o.key, x))
			}
		case "yaml":
			setNested(yamlMap, o.key, o.val)
		default:
			setEnv(o.key, o.val)
		}
	}
	// fixed environment of the harness (not part of the vector)
	yamlFile := filepath.Join(dir, "nuts.yaml")
	yb, _ := yaml.Marshal(yamlMap)
	_ = os.WriteFile(yamlFile, yb, 0600)
	for k, val := range map[string]string{
		"configfile": yamlFile, "datadir": filepath.Join(dir, "data"), "verbosity": "error",
		"http.internal.address": internalAddr, "http.public.address": publicAddr, "network.grpcaddr": grpcAddr,
		"network.enablediscovery": "false", "events.nats.port": fmt.Sprint(freePort()), "events.nats.hostname": "127.0.0.1",
		"auth.irma.autoupdateschemas": "false", "pki.denylist.url": "", "goldenhammer.enabled": "false",
		"discovery.definitions.directory": defDir, "discovery.client.refresh_interval": "0",
	} {
		setEnv(k, val)
	}
	sort.Strings(env)
	res.Args, res.Env, res.Yaml = args, env, string(yb)

	clearNutsEnv()
	for _, kv := range env {
		p := strings.SplitN(kv, "=", 2)
		_ = os.Setenv(p[0], p[1])
	}
	defer clearNutsEnv()
	client.StrictMode = false // a fresh process starts with the zero value

	early := buildEarlyClients(w.rec.pool) // made before anything is configured, used on the running node
	system := cmd.CreateSystem(func() {})
	command := cmd.CreateCommand(system)
	serverCmd, _, err := command.Find([]string{"server"})
	if err != nil || serverCmd == nil || serverCmd.Name() != "server" {
		res.Error = fmt.Sprintf("server command not found: %v", err)
		return res
	}
	if err := serverCmd.ParseFlags(args); err != nil {
		res.Phase, res.Err = "flags", err.Error()
		return res
	}
	defer func() {
		logrus.SetOutput(io.Discard)
		if p := recover(); p != nil {
			res.Error = fmt.Sprintf("panic in phase %s: %v", res.Phase, p)
		}
	}()
	shutdownStorage := func() {
		defer func() { _ = recover() }()
		if e, ok := system.FindEngineByName("storage").(core.Runnable); ok {
			_ = e.Shutdown()
		}
	}
	// cmd/root.go: system.Load(cmd.Flags()); startServer: Configure, Migrate, routes, Start
	res.Phase = "load"
	if err := system.Load(serverCmd.Flags()); err != nil {
		res.Err = err.Error()
		return res
	}
	logrus.SetOutput(io.Discard)
	res.Phase = "configure"
	if err := system.Configure(); err != nil {
		res.Err, res.RefusedBy = err.Error(), refusedBy(err)
		shutdownStorage()
		return res
	}
	cs := client.StrictMode
	res.ClientStrict = &cs
	res.Phase = "migrate"
	if err := system.Migrate(); err != nil {
		res.Err, res.RefusedBy = err.Error(), refusedBy(err)
		shutdownStorage()
		return res
	}
	if he, ok := system.FindEngineByName("http").(interface{ Router() core.EchoRouter }); ok {
		for _, r := range system.Routers {
			r.Routes(he.Router())
		}
	}
	res.Phase = "start"
	if err := system.Start(); err != nil {
		res.Err, res.RefusedBy = err.Error(), refusedBy(err)
		func() { defer func() { _ = recover() }(); _ = system.Shutdown() }()
		return res
	}
	res.Phase, res.Accepted = "running", true
	defer func() {
		defer func() { _ = recover() }()
		_ = system.Shutdown()
	}()
	res.Grpc = probe(grpcAddr)
	res.HTTPUp = probe(internalAddr) == "listening"
	as, _ := system.FindEngineByName("auth").(auth.AuthenticationServices)
	jl, _ := system.FindEngineByName("jsonld").(jsonld.JSONLD)
	if as == nil || jl == nil {
		res.Error = "auth / jsonld engine not found"
		return res
	}
	x := actors{notary: as.ContractNotary(), loader: jl.DocumentLoader(), iam: as.IAMClient(), rp: as.RelyingParty(), strict: v.Strict,
		early: early, services: servicesByURL, id: c.ID, operator: operator}
	if jcfg, ok := jl.(core.Injectable).Config().(*jsonld.Config); ok {
		x.contexts = jcfg.Contexts
	} else {
		res.Error = "jsonld engine configuration not accessible"
		return res
	}
	x.vdr, _ = system.FindEngineByName("vdr").(vdr.VDR)
	x.vcr, _ = system.FindEngineByName("vcr").(vcr.VCR)
	x.discovery, _ = system.FindEngineByName("discovery").(discovery.Server)
	if x.vdr == nil || x.vcr == nil || x.discovery == nil {
		res.Error = "vdr / vcr / discovery engine not found"
		return res
	}
	for n, act := range c.Acts {
		x.n = n
		if act.Kind == "jsonld" && act.Arg == "listed" {
			act.URL = listed
		}
		res.Acts = append(res.Acts, w.perform(act, x))
	}
	return res
}

// ------------------------------------------------------------------------------------------------ main

func TestDriver(t *testing.T) {
	logrus.SetOutput(io.Discard)
	raw, err := os.ReadFile(os.Getenv("VERIF_IN"))
	if err != nil {
		t.Fatal(err)
	}
	var in input
	if err := json.Unmarshal(raw, &in); err != nil {
		t.Fatal(err)
	}
	out, err := os.Create(os.Getenv("VERIF_OUT"))
	if err != nil {
		t.Fatal(err)
	}
	defer out.Close()
	enc := json.NewEncoder(out)

	w := &world{t: t, dir: t.TempDir()}
	w.rec = startNetwork(t)
	if w.certFile, w.trustFile, err = writeNodePKI(w.dir); err != nil {
		t.Fatal(err)
	}
	tmpl := contract.StandardContractTemplates.Get("PractitionerLogin", "EN", "v3")
	ct, err := tmpl.Render(map[string]string{contract.LegalEntityAttr: "Verif Care", contract.LegalEntityCityAttr: "Caretown"}, time.Now().Add(-time.Minute), time.Hour)
	if err != nil {
		t.Fatal(err)
	}
	w.contract = ct.RawContractText
	needVCR := false
	for _, c := range in.Cases {
		if c.Layer == "auth" {
			needVCR = true
		}
	}
	if needVCR {
		w.vcr = vcr.NewTestVCRInstance(t)
	}
	logrus.SetOutput(io.Discard)
	// restore stdout noise of goose etc. is harmless; results go to VERIF_OUT
	for _, c := range in.Cases {
		var res result
		func() {
			defer func() {
				if p := recover(); p != nil {
					res = result{ID: c.ID, Layer: c.Layer, Error: fmt.Sprintf("panic: %v", p)}
				}
			}()
			switch c.Layer {
			case "system":
				res = w.runSystem(c)
				if !res.Accepted && (strings.Contains(res.Err, "address already in use") || strings.Contains(res.Err, "bind:")) {
					res = w.runSystem(c) // port race with a parallel shard: once more with fresh ports
				}
				if res.Accepted && res.Grpc == "listening" && !strings.Contains(c.Vec.DID, "nuts") {
					res = w.runSystem(c) // somebody else may have grabbed the probed port: decide on a second run with fresh ports
				}
				// a failure while STARTING engines (NATS / gRPC / sqlite under load, port races) is no verdict on the configuration:
				// all guards of the vector's options sit in Load / Configure.  Try again; if it persists it is a driver problem.
				for try := 0; try < 2 && !res.Accepted && (res.Phase == "start" || res.Phase == "migrate") && res.Error == ""; try++ {
					time.Sleep(200 * time.Millisecond)
					res = w.runSystem(c)
				}
				if !res.Accepted && (res.Phase == "start" || res.Phase == "migrate") && res.Error == "" {
					res.Error = "engines did not start (environment): " + res.Err
				}
			case "core-url":
				res = w.runCoreURL(c)
			case "storage":
				res = w.runStorage(c)
			case "crypto":
				res = w.runCrypto(c)
			case "network":
				res = w.runNetwork(c)
				if res.Accepted && res.Grpc == "listening" && !strings.Contains(c.Vec.DID, "nuts") {
					res = w.runNetwork(c)
				}
			case "auth":
				res = w.runAuth(c)
			case "jsonld":
				res = w.runJSONLD(c)
			case "outbound":
				res = w.runOutbound(c)
			default:
				res = result{ID: c.ID, Layer: c.Layer, Error: "unknown layer"}
			}
		}()
		if res.Acts == nil {
			res.Acts = []actResult{}
		}
		if err := enc.Encode(res); err != nil {
			t.Fatal(err)
		}
	}
}
