package config

// Recording network of the C20 driver: every dial of the repo's HTTP transport is recorded and routed to a local TLS server
// (valid certificate for any requested name, signed by a test CA the transport trusts) or a local plain HTTP server; both
// record the requests they receive.  Also mints the node certificate / trust store used for the tls.* options.

import (
	"context"
	"crypto/ecdsa"
	"crypto/elliptic"
	"crypto/rand"
	"crypto/tls"
	"crypto/x509"
	"crypto/x509/pkix"
	"encoding/pem"
	"io"
	"log"
	"math/big"
	"net"
	"net/http"
	"os"
	"path/filepath"
	"strings"
	"sync"
	"testing"
	"time"

	"github.com/nuts-foundation/nuts-node/http/client"
)

type reqRec struct {
	Scheme string `json:"scheme"`
	Host   string `json:"host"`
	Method string `json:"method"`
	Path   string `json:"path"`
}

type recorder struct {
	mu       sync.Mutex
	dials    []string
	requests []reqRec
	tlsAddr  string
	httpAddr string
	pool     *x509.CertPool // trusts the CA of the local TLS server
}

func (r *recorder) reset() {
	r.mu.Lock()
	defer r.mu.Unlock()
	r.dials, r.requests = nil, nil
}

func (r *recorder) snapshot() ([]string, []reqRec) {
	r.mu.Lock()
	defer r.mu.Unlock()
	return append([]string{}, r.dials...), append([]reqRec{}, r.requests...)
}

func (r *recorder) dial(ctx context.Context, network, addr string) (net.Conn, error) {
	r.mu.Lock()
	r.dials = append(r.dials, addr)
	r.mu.Unlock()
	target := r.tlsAddr
	if _, port, err := net.SplitHostPort(addr); err == nil && (port == "80" || port == "8080") {
		target = r.httpAddr
	}
	var d net.Dialer
	return d.DialContext(ctx, "tcp", target)
}

// dialDefault is the dialer of http.DefaultTransport (what the JSON-LD document loader of the repo fetches remote contexts with):
// connections to a loopback address go where they say (the local servers, the node's own listeners), everything else - any name, any
// other address - is recorded and lands on the local TLS / plain server, so that "a request left the node for host H" is an observable.
func (r *recorder) dialDefault(ctx context.Context, network, addr string) (net.Conn, error) {
	r.mu.Lock()
	r.dials = append(r.dials, addr)
	r.mu.Unlock()
	target := addr
	host, port, err := net.SplitHostPort(addr)
	if ip := net.ParseIP(host); err != nil || ip == nil || !ip.IsLoopback() {
		target = r.tlsAddr
		if port == "80" || port == "8080" {
			target = r.httpAddr
		}
	}
	var d net.Dialer
	return d.DialContext(ctx, "tcp", target)
}

const ldContext = `{"@context":{"@version":1.1,"verif":"https://verif.invalid/ns#"}}`

func (r *recorder) handler(scheme string) http.Handler {
	return http.HandlerFunc(func(w http.ResponseWriter, req *http.Request) {
		r.mu.Lock()
		r.requests = append(r.requests, reqRec{Scheme: scheme, Host: req.Host, Method: req.Method, Path: req.URL.Path})
		r.mu.Unlock()
		switch {
		case strings.Contains(req.URL.Path, "/redir302"):
			w.Header().Set("Location", "http://"+hostOnly(req.Host)+"/landing")
			w.WriteHeader(http.StatusFound)
		case strings.Contains(req.URL.Path, "/redir307"):
			w.Header().Set("Location", "http://"+hostOnly(req.Host)+"/landing")
			w.WriteHeader(http.StatusTemporaryRedirect)
		case strings.HasPrefix(req.URL.Path, "/ctx/") || strings.Contains(req.Header.Get("Accept"), "application/ld+json"):
			w.Header().Set("Content-Type", "application/ld+json")
			_, _ = io.WriteString(w, ldContext)
		default:
			w.Header().Set("Content-Type", "application/json")
			_, _ = io.WriteString(w, `{}`)
		}
	})
}

func hostOnly(hostport string) string {
	if h, _, err := net.SplitHostPort(hostport); err == nil {
		return h
	}
	return hostport
}

type testCA struct {
	mu    sync.Mutex
	cert  *x509.Certificate
	der   []byte
	key   *ecdsa.PrivateKey
	leafs map[string]*tls.Certificate
	n     int64
}

func newCA(cn string) *testCA {
	key, _ := ecdsa.GenerateKey(elliptic.P256(), rand.Reader)
	tmpl := &x509.Certificate{SerialNumber: big.NewInt(1), Subject: pkix.Name{CommonName: cn}, NotBefore: time.Now().Add(-time.Hour),
		NotAfter: time.Now().Add(48 * time.Hour), IsCA: true, KeyUsage: x509.KeyUsageCertSign | x509.KeyUsageDigitalSignature | x509.KeyUsageCRLSign, BasicConstraintsValid: true}
	der, _ := x509.CreateCertificate(rand.Reader, tmpl, tmpl, &key.PublicKey, key)
	cert, _ := x509.ParseCertificate(der)
	return &testCA{cert: cert, der: der, key: key, leafs: map[string]*tls.Certificate{}, n: 1}
}

func (ca *testCA) issue(names []string, ips []net.IP, client bool) (certDER []byte, key *ecdsa.PrivateKey) {
	ca.n++
	key, _ = ecdsa.GenerateKey(elliptic.P256(), rand.Reader)
	eku := []x509.ExtKeyUsage{x509.ExtKeyUsageServerAuth}
	if client {
		eku = append(eku, x509.ExtKeyUsageClientAuth)
	}
	tmpl := &x509.Certificate{SerialNumber: big.NewInt(ca.n), Subject: pkix.Name{CommonName: "verif node"}, NotBefore: time.Now().Add(-time.Hour),
		NotAfter: time.Now().Add(24 * time.Hour), KeyUsage: x509.KeyUsageDigitalSignature, ExtKeyUsage: eku, DNSNames: names, IPAddresses: ips}
	certDER, _ = x509.CreateCertificate(rand.Reader, tmpl, ca.cert, &key.PublicKey, ca.key)
	return certDER, key
}

func (ca *testCA) leaf(hello *tls.ClientHelloInfo) (*tls.Certificate, error) {
	name := hello.ServerName
	ca.mu.Lock()
	defer ca.mu.Unlock()
	if c, ok := ca.leafs[name]; ok {
		return c, nil
	}
	var der []byte
	var key *ecdsa.PrivateKey
	if name == "" {
		der, key = ca.issue(nil, []net.IP{net.ParseIP("127.0.0.1"), net.ParseIP("::1"), net.ParseIP("10.0.0.1"), net.ParseIP("192.168.1.1"), net.ParseIP("169.254.169.254")}, false)
	} else {
		der, key = ca.issue([]string{name}, nil, false)
	}
	c := &tls.Certificate{Certificate: [][]byte{der}, PrivateKey: key}
	ca.leafs[name] = c
	return c, nil
}

// writeNodePKI writes a node certificate (+ key) and a trust store for the tls.* options.
func writeNodePKI(dir string) (certFile, trustFile string, err error) {
	ca := newCA("verif network root CA")
	der, key := ca.issue([]string{"localhost", "nuts.nl"}, []net.IP{net.ParseIP("127.0.0.1")}, true)
	keyDER, err := x509.MarshalPKCS8PrivateKey(key)
	if err != nil {
		return "", "", err
	}
	certFile = filepath.Join(dir, "certificate-and-key.pem")
	trustFile = filepath.Join(dir, "truststore.pem")
	certPEM := append(pem.EncodeToMemory(&pem.Block{Type: "CERTIFICATE", Bytes: der}), pem.EncodeToMemory(&pem.Block{Type: "PRIVATE KEY", Bytes: keyDER})...)
	if err = os.WriteFile(certFile, certPEM, 0600); err != nil {
		return
	}
	err = os.WriteFile(trustFile, pem.EncodeToMemory(&pem.Block{Type: "CERTIFICATE", Bytes: ca.der}), 0600)
	return
}

// startNetwork starts the two servers and installs the recording transport as the repo's SafeHttpTransport /
// DefaultCachingTransport (what every StrictHTTPClient is built on).
func startNetwork(t *testing.T) *recorder {
	rec := &recorder{}
	ca := newCA("verif web CA")
	tlsLn, err := net.Listen("tcp", "127.0.0.1:0")
	if err != nil {
		t.Fatal(err)
	}
	quiet := log.New(io.Discard, "", 0)
	tlsSrv := &http.Server{Handler: rec.handler("https"), TLSConfig: &tls.Config{GetCertificate: ca.leaf}, ErrorLog: quiet}
	go tlsSrv.ServeTLS(tlsLn, "", "")
	httpLn, err := net.Listen("tcp", "127.0.0.1:0")
	if err != nil {
		t.Fatal(err)
	}
	httpSrv := &http.Server{Handler: rec.handler("http"), ErrorLog: quiet}
	go httpSrv.Serve(httpLn)
	t.Cleanup(func() { _ = tlsSrv.Close(); _ = httpSrv.Close() })
	rec.tlsAddr, rec.httpAddr = tlsLn.Addr().String(), httpLn.Addr().String()

	pool := x509.NewCertPool()
	pool.AddCert(ca.cert)
	rec.pool = pool
	tr := client.SafeHttpTransport.Clone()
	tr.DialContext = rec.dial
	tr.Proxy = nil
	tr.DisableKeepAlives = true
	tr.TLSClientConfig.RootCAs = pool
	client.SafeHttpTransport = tr
	client.DefaultCachingTransport = tr
	// the JSON-LD document loader (json-gold default loader) goes through http.DefaultClient
	http.DefaultTransport = &http.Transport{DialContext: rec.dialDefault, DisableKeepAlives: true, ResponseHeaderTimeout: 5 * time.Second,
		TLSHandshakeTimeout: 5 * time.Second, TLSClientConfig: &tls.Config{RootCAs: pool, MinVersion: tls.VersionTLS12}}
	return rec
}
