// X11: PrivRetry.tla <-> the private-transaction payload retrieval loop. One real requester node N (real dag.State, real v2
// protocol with its persistent "private" notifier, real ECIES participant lists) over a gated job shelf, two real holder
// nodes, fake grpc connections, a set-valued lossy network. Behaviours of the specification are replayed step by step; a
// self-contained oracle judges the real observables after every step; one trace event per specification action is recorded.
package privretry

import (
	"bufio"
	"bytes"
	"context"
	"crypto/ecdsa"
	"crypto/elliptic"
	"crypto/rand"
	"crypto/sha256"
	"encoding/hex"
	"encoding/json"
	"errors"
	"fmt"
	"io"
	"os"
	"path/filepath"
	"sort"
	"strings"
	"sync"
	"testing"
	"time"

	"github.com/nuts-foundation/go-did/did"
	"github.com/nuts-foundation/go-stoabs"
	"github.com/nuts-foundation/go-stoabs/bbolt"
	"github.com/nuts-foundation/nuts-node/core"
	nutsCrypto "github.com/nuts-foundation/nuts-node/crypto"
	"github.com/nuts-foundation/nuts-node/crypto/hash"
	"github.com/nuts-foundation/nuts-node/network/dag"
	"github.com/nuts-foundation/nuts-node/network/transport"
	"github.com/nuts-foundation/nuts-node/network/transport/grpc"
	v2 "github.com/nuts-foundation/nuts-node/network/transport/v2"
	"github.com/nuts-foundation/nuts-node/vdr/resolver"
	"github.com/sirupsen/logrus"
	grpcLib "google.golang.org/grpc"

	"verifharness/txforge"
)

const realBudget = 20
const realThreshold = 10

type step map[string]any

func (s step) str(k string) string { v, _ := s[k].(string); return v }
func (s step) boolean(k string) bool { v, _ := s[k].(bool); return v }

type script struct {
	ID     string   `json:"id"`
	Steps  []step   `json:"steps"`
	Member []string `json:"member"`
	Holder []string `json:"holder"`
	Fair   bool     `json:"fair"`
}

type input struct {
	Scripts []script `json:"scripts"`
}

type violation struct {
	Prop   string `json:"prop"`
	Kind   string `json:"kind"`
	Cause  string `json:"cause"`
	Detail string `json:"detail"`
}

type result struct {
	ID         string           `json:"id"`
	Violations []violation      `json:"violations"`
	Drift      []string         `json:"drift"`
	Error      string           `json:"error,omitempty"`
	Trace      []map[string]any `json:"trace"`
	Checks     int              `json:"checks"`
	Attempts   int              `json:"attempts"`
	Queries    int              `json:"queries"`
	Stored     int              `json:"stored"`
	MaxRetries int              `json:"max_retries"`
}

// ---- identities and participant lists (as in syncdrv/priv_test.go) -------------------------------------------

type party struct {
	did did.DID
	key *ecdsa.PrivateKey
	kid string
}

func newParty(name string) *party {
	k, _ := ecdsa.GenerateKey(elliptic.P256(), rand.Reader)
	d := did.MustParseDID("did:nuts:" + name)
	return &party{did: d, key: k, kid: d.String() + "#ka-1"}
}

type docResolver struct{ parties map[string]*party }

func (r docResolver) Resolve(id did.DID, _ *resolver.ResolveMetadata) (*did.Document, *resolver.DocumentMetadata, error) {
	p := r.parties[id.String()]
	if p == nil {
		return nil, nil, resolver.ErrNotFound
	}
	vm := &did.VerificationMethod{ID: did.MustParseDIDURL(p.kid)}
	doc := &did.Document{ID: p.did}
	doc.KeyAgreement = did.VerificationRelationships{{VerificationMethod: vm}}
	return doc, &resolver.DocumentMetadata{}, nil
}

type decrypter struct{ keys map[string]*ecdsa.PrivateKey }

func (d decrypter) Decrypt(_ context.Context, kid string, ct []byte) ([]byte, error) {
	k := d.keys[kid]
	if k == nil {
		return nil, nutsCrypto.ErrPrivateKeyNotFound
	}
	return nutsCrypto.EciesDecrypt(k, ct)
}

func encryptPAL(parts []*party) [][]byte {
	var lines [][]byte
	for _, p := range parts {
		lines = append(lines, []byte(p.did.String()))
	}
	pt := bytes.Join(lines, []byte("\n"))
	var out [][]byte
	for _, p := range parts {
		ct, err := nutsCrypto.EciesEncrypt(&p.key.PublicKey, pt)
		if err != nil {
			panic(err)
		}
		out = append(out, ct)
	}
	return out
}

func mkTx(prevs []dag.Transaction, lc int, pal [][]byte, payload []byte) dag.Transaction {
	key := txforge.NewKey()
	var ps []string
	for _, p := range prevs {
		ps = append(ps, p.Ref().String())
	}
	ph := sha256.Sum256(payload)
	h := txforge.TxHeaders(key, ps, lc, time.Now().Unix(), "application/x-verif")
	if pal != nil {
		h["pal"] = pal
	}
	raw := txforge.Compact(h, []byte(hex.EncodeToString(ph[:])), key)
	tx, err := dag.ParseTransaction(raw)
	if err != nil {
		panic(err)
	}
	return tx
}

// ---- fake connections ------------------------------------------------------------------------------------------

type sent struct {
	from, to string
	env      *v2.Envelope
}

type fakeConn struct {
	grpc.Connection
	w         *world
	owner, to string
	peer      transport.Peer
}

func (c *fakeConn) Send(_ grpc.Protocol, envelope interface{}, _ bool) error {
	e := envelope.(*v2.Envelope)
	if c.owner == "N" {
		c.w.onQuerySend(c, e) // the statement about outgoing queries is judged at the moment of the Send
	}
	c.w.boxMu.Lock()
	c.w.outbox = append(c.w.outbox, sent{c.owner, c.to, e})
	c.w.boxMu.Unlock()
	return nil
}
func (c *fakeConn) Peer() transport.Peer  { return c.peer }
func (c *fakeConn) IsConnected() bool     { return true }
func (c *fakeConn) IsAuthenticated() bool { return c.peer.Authenticated }

type connList struct {
	mu    sync.Mutex
	conns []*fakeConn
}

func (l *connList) snapshot() []*fakeConn {
	l.mu.Lock()
	defer l.mu.Unlock()
	return append([]*fakeConn(nil), l.conns...)
}
func (l *connList) Get(query ...grpc.Predicate) grpc.Connection {
	if len(query) == 0 {
		return nil
	}
	for _, c := range l.snapshot() {
		ok := true
		for _, q := range query {
			if !q.Match(c) {
				ok = false
			}
		}
		if ok {
			return c
		}
	}
	return nil
}
func (l *connList) All() []grpc.Connection {
	var out []grpc.Connection
	for _, c := range l.snapshot() {
		out = append(out, c)
	}
	return out
}
func (l *connList) AllMatching(query ...grpc.Predicate) []grpc.Connection {
	var out []grpc.Connection
	for _, c := range l.snapshot() {
		ok := true
		for _, q := range query {
			if !q.Match(c) {
				ok = false
			}
		}
		if ok {
			out = append(out, c)
		}
	}
	return out
}
func (l *connList) set(cs []*fakeConn) {
	l.mu.Lock()
	l.conns = cs
	l.mu.Unlock()
}

type connMgr struct {
	transport.ConnectionManager
	observers []transport.StreamStateObserverFunc
}

func (m *connMgr) RegisterObserver(cb transport.StreamStateObserverFunc) {
	m.observers = append(m.observers, cb)
}

type registrar struct{}

func (registrar) RegisterService(*grpcLib.ServiceDesc, interface{}) {}

// ---- nodes --------------------------------------------------------------------------------------------------------

type node struct {
	name  string
	path  string
	inner stoabs.KVStore
	gate  *gateStore // N only
	state dag.State
	proto transport.Protocol
	list  *connList
	mgr   *connMgr
	me    *party
}

type msg struct{ k, p, t, c string }

type world struct {
	t       *testing.T
	sc      script
	res     *result
	dir     string
	parties map[string]*party // N, p1, p2, X
	byDID   map[string]*party
	N       *node
	peers   map[string]*node
	up      bool
	conn    map[string]string // N's connection to p: down | anon | auth
	nconn   map[string]*fakeConn
	pconn   map[string]*fakeConn
	net     []msg
	boxMu   sync.Mutex
	outbox  []sent
	root    dag.Transaction
	txs     map[string]dag.Transaction
	data    map[string][]byte
	byRef   map[string]string // hex ref -> name
	mine    map[string]bool
	member  map[string]bool
	holder  map[string]bool
	// oracle memory
	prevJob  map[string]int
	prevPay  map[string]bool
	midSnap  map[string]int    // retries read by the attempt that is between Begin and End
	midRes   map[string]string // its result
	accepted map[string]bool   // a payload was accepted while an attempt was between Begin and End
	stepName string
	vmu      sync.Mutex
}

func (w *world) viol(prop, kind, cause, detail string) {
	w.vmu.Lock()
	defer w.vmu.Unlock()
	for _, v := range w.res.Violations {
		if v.Kind == kind && v.Cause == cause {
			return
		}
	}
	w.res.Violations = append(w.res.Violations, violation{prop, kind, cause, detail})
}

func (w *world) drift(f string, a ...any) {
	if len(w.res.Drift) < 20 {
		w.res.Drift = append(w.res.Drift, fmt.Sprintf(f, a...))
	}
}

func (w *world) openNode(name string, gated bool, delay time.Duration) *node {
	n := &node{name: name, path: filepath.Join(w.dir, name+".db"), list: &connList{}, mgr: &connMgr{}, me: w.parties[name]}
	w.boot(n, gated, delay)
	return n
}

func (w *world) boot(n *node, gated bool, delay time.Duration) {
	db, err := bbolt.CreateBBoltStore(n.path, stoabs.WithNoSync())
	if err != nil {
		w.t.Fatal(err)
	}
	n.inner = db
	var store stoabs.KVStore = db
	if gated {
		n.gate = newGate(db)
		store = n.gate
	}
	st, err := dag.NewState(store, dag.NewPrevTransactionsVerifier(), dag.NewTransactionSignatureVerifier(nil))
	if err != nil {
		w.t.Fatal(err)
	}
	_ = st.Configure(core.ServerConfig{})
	n.state = st
	n.list, n.mgr = &connList{}, &connMgr{}
	cfg := v2.Config{GossipInterval: 3600 * 1000, DiagnosticsInterval: 0, PayloadRetryDelay: delay}
	dec := decrypter{keys: map[string]*ecdsa.PrivateKey{n.me.kid: n.me.key}}
	n.proto = v2.New(cfg, n.me.did, st, docResolver{w.byDID}, dec, func() transport.Diagnostics { return transport.Diagnostics{} }, store)
	if err := n.proto.Configure(transport.PeerID(n.name)); err != nil {
		w.t.Fatal(err)
	}
	n.proto.(grpc.Protocol).Register(registrar{}, func(grpcLib.ServerStream) error { return nil }, n.list, n.mgr)
	if err := n.proto.Start(); err != nil {
		w.t.Fatal(err)
	}
	if err := st.Start(); err != nil {
		w.t.Fatal(err)
	}
}

func (n *node) shutdown() {
	n.proto.Stop()
	_ = n.state.Shutdown()
	_ = n.inner.Close(context.Background())
}

func newWorld(t *testing.T, sc script, res *result) *world {
	w := &world{t: t, sc: sc, res: res, dir: t.TempDir(), parties: map[string]*party{}, byDID: map[string]*party{}, peers: map[string]*node{},
		up: true, conn: map[string]string{}, nconn: map[string]*fakeConn{}, pconn: map[string]*fakeConn{}, txs: map[string]dag.Transaction{},
		data: map[string][]byte{}, byRef: map[string]string{}, mine: map[string]bool{"t1": true}, member: map[string]bool{}, holder: map[string]bool{},
		prevJob: map[string]int{"t1": -1, "t2": -1}, prevPay: map[string]bool{"t1": false, "t2": false}, midSnap: map[string]int{}, midRes: map[string]string{}, accepted: map[string]bool{}}
	for _, n := range []string{"N", "p1", "p2", "X"} {
		p := newParty(n + "x" + hex.EncodeToString([]byte(sc.ID))[:6])
		w.parties[n] = p
		w.byDID[p.did.String()] = p
	}
	for _, m := range sc.Member {
		w.member[m] = true
	}
	for _, h := range sc.Holder {
		w.holder[h] = true
	}
	// transactions: a public root, t1 (participants: N and the members), t2 (participants: X and the members, not N)
	w.root = mkTx(nil, 0, nil, []byte("root payload"))
	var pm, pf []*party
	pm = append(pm, w.parties["N"])
	pf = append(pf, w.parties["X"])
	for _, m := range []string{"p1", "p2"} {
		if w.member[m] {
			pm = append(pm, w.parties[m])
			pf = append(pf, w.parties[m])
		}
	}
	w.data["t1"] = []byte("PRIVATE-PAYLOAD-t1-" + sc.ID)
	w.data["t2"] = []byte("PRIVATE-PAYLOAD-t2-" + sc.ID)
	w.txs["t1"] = mkTx([]dag.Transaction{w.root}, 1, encryptPAL(pm), w.data["t1"])
	w.txs["t2"] = mkTx([]dag.Transaction{w.root}, 1, encryptPAL(pf), w.data["t2"])
	for n, tx := range w.txs {
		w.byRef[hex.EncodeToString(tx.Ref().Slice())] = n
	}
	ctx := context.Background()
	w.N = w.openNode("N", true, time.Nanosecond)
	if err := w.N.state.Add(ctx, w.root, []byte("root payload")); err != nil {
		t.Fatal(err)
	}
	for _, p := range []string{"p1", "p2"} {
		n := w.openNode(p, false, time.Hour)
		_ = n.state.Add(ctx, w.root, []byte("root payload"))
		for _, tn := range []string{"t1", "t2"} {
			var pl []byte
			if w.holder[p] {
				pl = w.data[tn]
			}
			if err := n.state.Add(ctx, w.txs[tn], pl); err != nil {
				t.Fatal(err)
			}
		}
		w.peers[p] = n
		w.conn[p] = "down"
	}
	return w
}

func (w *world) close() {
	if w.up {
		w.N.gate.kill()
		w.N.shutdown()
	}
	for _, p := range w.peers {
		p.shutdown()
	}
}

// ---- observation ---------------------------------------------------------------------------------------------------

type obs struct {
	job map[string]int
	pay map[string]bool
	dlq []string
}

func (w *world) jobs() map[string]int {
	out := map[string]int{"t1": -1, "t2": -1}
	_ = w.N.inner.ReadShelf(context.Background(), jobsShelf, func(r stoabs.Reader) error {
		return r.Iterate(func(k stoabs.Key, v []byte) error {
			var j struct {
				Retries int `json:"retries"`
			}
			_ = json.Unmarshal(v, &j)
			if n, ok := w.byRef[hex.EncodeToString(k.Bytes())]; ok {
				out[n] = j.Retries
			} else {
				w.viol("X11", "job-for-unknown-transaction", "", "job shelf holds "+hex.EncodeToString(k.Bytes()))
			}
			return nil
		}, stoabs.BytesKey{})
	})
	return out
}

func (w *world) observe() obs {
	ctx := context.Background()
	o := obs{job: w.jobs(), pay: map[string]bool{}}
	for n, tx := range w.txs {
		o.pay[n], _ = w.N.state.IsPayloadPresent(ctx, tx.PayloadHash())
	}
	for _, d := range w.N.proto.Diagnostics() {
		if d.Name() != "payload_fetch_dlq" {
			continue
		}
		if evs, ok := d.Result().([]dag.Event); ok {
			for _, e := range evs {
				if n, ok := w.byRef[hex.EncodeToString(e.Hash.Slice())]; ok {
					o.dlq = append(o.dlq, n)
				} else {
					o.dlq = append(o.dlq, "?")
				}
			}
		}
	}
	sort.Strings(o.dlq)
	if o.dlq == nil {
		o.dlq = []string{}
	}
	return o
}

// judge: the statement evaluated on the real observables after a step.
func (w *world) judge(o obs, a string, st step) {
	ctx := context.Background()
	w.res.Checks++
	for _, n := range []string{"t1", "t2"} {
		tx := w.txs[n]
		onDag, _ := w.N.state.IsPresent(ctx, tx.Ref())
		// R2
		if o.pay[n] {
			if !onDag {
				w.viol("X11", "payload-stored-for-transaction-not-on-dag", "", n+" after "+a)
			}
			b, _ := w.N.state.ReadPayload(ctx, tx.PayloadHash())
			if !hash.SHA256Sum(b).Equals(tx.PayloadHash()) {
				w.viol("X11", "stored-payload-does-not-hash", "", n+" after "+a)
			}
			if !w.prevPay[n] {
				w.res.Stored++
				ok := (a == "Deliver" && st.str("c") == "data" && st.str("t") == n) || (a == "Inject" && st.str("c") == "good" && st.str("t") == n) ||
					(a == "AddTx" && st.boolean("wp") && st.str("t") == n)
				if !ok {
					w.viol("X11", "payload-stored-by-"+strings.ToLower(a), st.str("c"), fmt.Sprintf("payload of %s appeared during %v", n, st))
				}
			}
		} else if w.prevPay[n] {
			w.viol("X11", "payload-lost", "", n+" after "+a)
		}
		if (a == "Deliver" && st.str("c") == "data" || a == "Inject" && st.str("c") == "good") && st.str("t") == n && onDag {
			if !o.pay[n] {
				w.viol("X11", "matching-payload-not-stored", jobClass(w.prevJob[n]), fmt.Sprintf("%v: the payload of %s hashes to the payload hash but was not stored (job before: %d)", st, n, w.prevJob[n]))
			} else if o.job[n] != -1 {
				w.viol("X11", "job-remains-after-payload-stored", jobClass(w.prevJob[n]), fmt.Sprintf("%v: payload stored, job of %s still there with %d retries", st, n, o.job[n]))
			}
		}
		if w.prevJob[n] >= 0 && o.job[n] == -1 && !o.pay[n] && w.mine[n] {
			w.viol("X11", "job-finished-without-payload", strings.ToLower(a), fmt.Sprintf("%v: job of %s is gone, payload missing", st, n))
		}
		// R6
		if o.job[n] > realBudget {
			cause := "other"
			if a == "Restart" && w.prevJob[n] >= realBudget {
				cause = "restart-of-exhausted-job"
			}
			w.viol("X11", "retries-exceed-budget", cause, fmt.Sprintf("%s has %d retries after %s (before: %d)", n, o.job[n], a, w.prevJob[n]))
		}
		if w.prevJob[n] >= 0 && o.job[n] >= 0 && o.job[n] < w.prevJob[n] {
			w.viol("X11", "retries-decreased", strings.ToLower(a), fmt.Sprintf("%s: %d -> %d during %v", n, w.prevJob[n], o.job[n], st))
		}
		if w.prevJob[n] >= 0 && o.job[n] >= 0 && o.job[n] != w.prevJob[n] && a != "End" && a != "Restart" {
			w.viol("X11", "retries-changed-outside-attempt", strings.ToLower(a), fmt.Sprintf("%s: %d -> %d during %v", n, w.prevJob[n], o.job[n], st))
		}
		if o.job[n] > w.res.MaxRetries {
			w.res.MaxRetries = o.job[n]
		}
		// R5
		listed := false
		for _, d := range o.dlq {
			if d == n {
				listed = true
			}
		}
		if o.job[n] >= realBudget && !o.pay[n] && !listed {
			w.viol("X11", "dlq-misses-exhausted-job", "", fmt.Sprintf("%s has %d retries, payload missing, payload_fetch_dlq = %v", n, o.job[n], o.dlq))
		}
		if listed && o.job[n] == -1 {
			w.viol("X11", "dlq-lists-finished-job", "", n)
		}
		if listed && o.job[n] >= 0 && o.job[n] < realBudget {
			cause := "below-threshold"
			if o.job[n] >= realThreshold {
				cause = "at-failed-threshold"
			}
			w.viol("X11", "dlq-lists-live-job", cause, fmt.Sprintf("%s is listed in payload_fetch_dlq with %d of %d retries", n, o.job[n], realBudget))
		}
	}
	for _, d := range o.dlq {
		if d == "?" {
			w.viol("X11", "dlq-lists-unknown-job", "", "")
		}
	}
	w.prevJob, w.prevPay = o.job, o.pay
}

func jobClass(r int) string {
	switch {
	case r < 0:
		return "no-job"
	case r >= realBudget:
		return "exhausted"
	}
	return "live"
}

// onQuerySend runs on the goroutine of the attempt, at the moment N hands an envelope to Connection.Send.
func (w *world) onQuerySend(c *fakeConn, e *v2.Envelope) {
	q := e.GetTransactionPayloadQuery()
	if q == nil {
		return
	}
	n, ok := w.byRef[hex.EncodeToString(q.TransactionRef)]
	if !ok {
		w.viol("X11", "query-for-unknown-transaction", "", "")
		return
	}
	w.vmu.Lock()
	w.res.Queries++
	w.vmu.Unlock()
	if present, _ := w.N.state.IsPayloadPresent(context.Background(), w.txs[n].PayloadHash()); present {
		w.viol("X11", "query-while-payload-present", "", "TransactionPayloadQuery for "+n+" sent to "+c.to+" although the payload is stored")
	}
	if !w.mine[n] {
		w.viol("X11", "query-for-foreign-transaction", "", "TransactionPayloadQuery for "+n+" (participant list does not name this node)")
	}
	if !c.peer.Authenticated {
		w.viol("X11", "query-to-unauthenticated-peer", "", "TransactionPayloadQuery for "+n+" sent to "+c.to+" over an unauthenticated connection")
	}
	if !w.member[c.to] {
		w.viol("X11", "query-to-non-participant", "", "TransactionPayloadQuery for "+n+" sent to "+c.to)
	}
}

func (w *world) drain() []sent {
	w.boxMu.Lock()
	defer w.boxMu.Unlock()
	o := w.outbox
	w.outbox = nil
	return o
}

func (w *world) hasMsg(m msg) int {
	for i, x := range w.net {
		if x == m {
			return i
		}
	}
	return -1
}

func (w *world) addMsg(m msg) {
	if w.hasMsg(m) < 0 { // (of two identical messages in flight the network loses one)
		w.net = append(w.net, m)
	}
}

// pump classifies what the nodes have sent and puts it into the network; returns the peers N has queried about t
func (w *world) pump() map[string][]string {
	asked := map[string][]string{}
	for _, s := range w.drain() {
		if q := s.env.GetTransactionPayloadQuery(); q != nil && s.from == "N" {
			n := w.byRef[hex.EncodeToString(q.TransactionRef)]
			asked[n] = append(asked[n], s.to)
			w.addMsg(msg{"q", s.to, n, "-"})
		} else if a := s.env.GetTransactionPayload(); a != nil && s.from != "N" {
			n := w.byRef[hex.EncodeToString(a.TransactionRef)]
			c := "empty"
			if len(a.Data) > 0 {
				c = "data"
				if !bytes.Equal(a.Data, w.data[n]) {
					c = "other"
				}
			}
			w.addMsg(msg{"a", s.from, n, c})
		}
	}
	for _, v := range asked {
		sort.Strings(v)
	}
	return asked
}

func (w *world) event(ev map[string]any, o obs) {
	ev["job"] = o.job
	ev["pay"] = o.pay
	ev["dlq"] = o.dlq
	ev["up"] = w.up
	w.res.Trace = append(w.res.Trace, ev)
}

func (w *world) targets() []string {
	var out []string
	for _, p := range []string{"p1", "p2"} {
		if w.conn[p] == "auth" && w.member[p] {
			out = append(out, p)
		}
	}
	return out
}

func payloadEnv(ref []byte, data []byte) *v2.Envelope {
	return &v2.Envelope{Message: &v2.Envelope_TransactionPayload{TransactionPayload: &v2.TransactionPayload{TransactionRef: ref, Data: data}}}
}

func (w *world) setConn(p, mode string) {
	peerN := transport.Peer{ID: transport.PeerID(p), Address: p + ":5555", NodeDID: w.parties[p].did, Authenticated: mode == "auth"}
	peerP := transport.Peer{ID: "N", Address: "N:5555", NodeDID: w.parties["N"].did, Authenticated: mode == "auth"}
	if old := w.nconn[p]; old != nil {
		for _, o := range w.N.mgr.observers {
			o(old.peer, transport.StateDisconnected, w.N.proto)
		}
	}
	delete(w.nconn, p)
	delete(w.pconn, p)
	if mode != "down" {
		w.nconn[p] = &fakeConn{w: w, owner: "N", to: p, peer: peerN}
		w.pconn[p] = &fakeConn{w: w, owner: p, to: "N", peer: peerP}
	}
	var cs []*fakeConn
	for _, q := range []string{"p1", "p2"} {
		if c := w.nconn[q]; c != nil {
			cs = append(cs, c)
		}
	}
	w.N.list.set(cs)
	if c := w.pconn[p]; c != nil {
		w.peers[p].list.set([]*fakeConn{c})
	} else {
		w.peers[p].list.set(nil)
	}
	if mode != "down" {
		for _, o := range w.N.mgr.observers {
			o(peerN, transport.StateConnected, w.N.proto)
		}
	}
	w.conn[p] = mode
	if mode == "down" {
		var keep []msg
		for _, m := range w.net {
			if m.p != p {
				keep = append(keep, m)
			}
		}
		w.net = keep
	}
}

var errNotEnabled = errors.New("not enabled")

// exec executes one step of a behaviour on the real objects; errNotEnabled = the real system offers no such step now.
func (w *world) exec(st step) error {
	a, tn, p := st.str("a"), st.str("t"), st.str("p")
	ctx := context.Background()
	ref := ""
	if tx, ok := w.txs[tn]; ok {
		ref = hex.EncodeToString(tx.Ref().Slice())
	}
	if !w.up && a != "Restart" {
		return errNotEnabled
	}
	switch a {
	case "AddTx":
		if w.prevJob[tn] != -1 || w.addedAlready(tn) {
			return errNotEnabled
		}
		var pl []byte
		if st.boolean("wp") {
			pl = w.data[tn]
		}
		done := make(chan error, 1)
		st8, tx := w.N.state, w.txs[tn]
		go func() { done <- st8.Add(ctx, tx, pl) }()
		// the adding goroutine either parks at the first attempt (Notify inside the after-commit hook) or returns
		deadline := time.Now().Add(5 * time.Second)
		for w.N.gate.find("read", ref, 0) == nil {
			select {
			case err := <-done:
				if err != nil {
					return fmt.Errorf("State.Add(%s): %w", tn, err)
				}
				done = nil
			default:
			}
			if done == nil || time.Now().After(deadline) {
				break
			}
			time.Sleep(50 * time.Microsecond)
		}
		o := w.observe()
		if o.job[tn] != 0 {
			w.viol("X11", "no-job-for-private-transaction", "", fmt.Sprintf("%s was added to the DAG, its job is %d", tn, o.job[tn]))
		}
		w.judge(o, a, st)
		w.event(map[string]any{"ev": "add", "t": tn, "wp": st.boolean("wp")}, o)
	case "Begin":
		// a scheduled attempt shows up within a millisecond (1 ns retry delay); the generous wait only matters on a loaded machine
		wait := 2 * time.Second
		if ms, ok := st["wait"].(int); ok {
			wait = time.Duration(ms) * time.Millisecond
		}
		tk := w.N.gate.find("read", ref, wait)
		if tk == nil {
			return errNotEnabled
		}
		before := w.observe()
		tg := w.targets()
		w.N.gate.release(tk)
		var wt *ticket
		deadline := time.Now().Add(10 * time.Second)
		stale := false
		for {
			if done, nf := w.N.gate.isDone(tk); done && nf {
				stale = true
				break
			}
			if wt = w.N.gate.find("write", ref, 0); wt != nil {
				break
			}
			if time.Now().After(deadline) {
				return fmt.Errorf("attempt for %s neither reached its book-keeping write nor ended", tn)
			}
			time.Sleep(20 * time.Microsecond)
		}
		asked := w.pump()[tn]
		if asked == nil {
			asked = []string{}
		}
		res := "-"
		if !stale {
			w.res.Attempts++
			switch {
			case wt.op == "delete":
				res = "fin"
			case strings.Contains(wt.errText, "receiver did not finish"):
				res = "inc"
			default:
				res = "err"
			}
			w.midSnap[tn], w.midRes[tn] = before.job[tn], res
			w.accepted[tn] = false
			// R3 / R4: a present payload or a transaction for somebody else ends the job at this attempt
			if before.pay[tn] && res != "fin" {
				w.viol("X11", "present-payload-does-not-finish-job", res, fmt.Sprintf("attempt for %s with the payload stored answered %q (%s)", tn, res, wt.errText))
			}
			if !w.mine[tn] && res != "fin" {
				w.viol("X11", "foreign-transaction-not-finished", res, fmt.Sprintf("attempt for %s (not for this node) answered %q (%s)", tn, res, wt.errText))
			}
			if w.mine[tn] && !before.pay[tn] {
				if res == "fin" {
					w.viol("X11", "attempt-finished-without-payload", "", tn)
				}
				// the broadcast: every connected authenticated participant is asked, nobody else
				if strings.Join(asked, ",") != strings.Join(tg, ",") {
					w.viol("X11", "broadcast-incomplete", "", fmt.Sprintf("attempt for %s asked %v, connected authenticated participants: %v", tn, asked, tg))
				}
				if len(tg) > 0 && res == "err" {
					w.viol("X11", "attempt-error-despite-participant", "", wt.errText)
				}
				if len(tg) == 0 && res == "inc" {
					w.viol("X11", "attempt-silent-without-participant", "", "no authenticated participant connected, yet the attempt reports no error")
				}
			}
		}
		o := w.observe()
		w.judge(o, a, st)
		w.event(map[string]any{"ev": "begin", "t": tn, "stale": stale, "res": res, "to": asked}, o)
	case "End":
		wt := w.N.gate.find("write", ref, 0)
		if wt == nil {
			return errNotEnabled
		}
		w.N.gate.release(wt)
		deadline := time.Now().Add(10 * time.Second)
		for {
			if done, _ := w.N.gate.isDone(wt); done {
				break
			}
			if time.Now().After(deadline) {
				return fmt.Errorf("book-keeping write for %s does not return", tn)
			}
			time.Sleep(20 * time.Microsecond)
		}
		o := w.observe()
		// R6: the count is the number of attempts
		if w.midRes[tn] != "fin" && !(w.accepted[tn] && o.job[tn] == -1) && o.job[tn] != w.midSnap[tn]+1 {
			w.viol("X11", "retry-count-mismatch", "", fmt.Sprintf("attempt for %s read %d retries and left %d", tn, w.midSnap[tn], o.job[tn]))
		}
		if w.midRes[tn] != "fin" && w.accepted[tn] && o.job[tn] != -1 {
			// R3 / R5: the payload was stored and the job removed while this attempt was between its check and its book-keeping
			w.viol("X11", "finished-job-recreated-by-bookkeeping", "", fmt.Sprintf("%s: payload stored and job removed during the attempt; the attempt's book-keeping write put the job back (%d retries)", tn, o.job[tn]))
		}
		if w.midRes[tn] == "fin" && o.job[tn] != -1 {
			w.viol("X11", "finished-job-not-removed", "", tn)
		}
		w.judge(o, a, st)
		w.event(map[string]any{"ev": "end", "t": tn}, o)
	case "Serve":
		i := w.hasMsg(msg{"q", p, tn, "-"})
		if i < 0 || w.conn[p] == "down" {
			return errNotEnabled
		}
		env := &v2.Envelope{Message: &v2.Envelope_TransactionPayloadQuery{TransactionPayloadQuery: &v2.TransactionPayloadQuery{TransactionRef: w.txs[tn].Ref().Slice()}}}
		_ = v2.VerifHandleSync(w.peers[p].proto, w.pconn[p], env)
		if !st.boolean("keep") {
			w.net = append(w.net[:i], w.net[i+1:]...)
		}
		before := len(w.net)
		w.pump()
		c := "none"
		if len(w.net) > before {
			c = w.net[len(w.net)-1].c
		} else {
			for _, cc := range []string{"data", "empty", "other"} {
				if w.hasMsg(msg{"a", p, tn, cc}) >= 0 {
					c = cc
				}
			}
		}
		// the holder's checks (C15 has the full matrix): data only over an authenticated connection from a participant that has it
		want := "empty"
		if w.conn[p] == "auth" && w.member[p] && w.holder[p] && w.mine[tn] {
			want = "data"
		}
		if c == "data" && want != "data" {
			w.viol("X11", "payload-handed-out", w.conn[p], fmt.Sprintf("%s answered the query for %s with the payload (connection %s, member %v)", p, tn, w.conn[p], w.member[p]))
		}
		if c != "data" && want == "data" {
			w.viol("X11", "holder-refuses-participant", c, fmt.Sprintf("%s has the payload of %s and is asked by a participant over an authenticated connection; answer: %s", p, tn, c))
		}
		o := w.observe()
		w.judge(o, a, st)
		w.event(map[string]any{"ev": "serve", "p": p, "t": tn, "c": c, "keep": st.boolean("keep")}, o)
	case "Deliver":
		c := st.str("c")
		i := w.hasMsg(msg{"a", p, tn, c})
		if i < 0 || w.conn[p] == "down" {
			return errNotEnabled
		}
		var data []byte
		if c == "data" {
			data = w.data[tn]
		}
		_ = v2.VerifHandleSync(w.N.proto, w.nconn[p], payloadEnv(w.txs[tn].Ref().Slice(), data))
		if !st.boolean("keep") {
			w.net = append(w.net[:i], w.net[i+1:]...)
		}
		o := w.observe()
		if o.pay[tn] && c == "data" {
			w.accepted[tn] = true
		}
		w.judge(o, a, st)
		w.event(map[string]any{"ev": "deliver", "p": p, "t": tn, "c": c, "keep": st.boolean("keep")}, o)
	case "Lose":
		i := w.hasMsg(msg{st.str("k"), p, tn, st.str("c")})
		if i < 0 {
			return errNotEnabled
		}
		w.net = append(w.net[:i], w.net[i+1:]...)
		o := w.observe()
		w.judge(o, a, st)
		w.event(map[string]any{"ev": "lose", "k": st.str("k"), "p": p, "t": tn, "c": st.str("c")}, o)
	case "Inject":
		if w.conn[p] == "down" {
			return errNotEnabled
		}
		var data []byte
		switch st.str("c") {
		case "good":
			data = w.data[tn]
		case "wrong":
			data = []byte("something else entirely " + tn)
		}
		_ = v2.VerifHandleSync(w.N.proto, w.nconn[p], payloadEnv(w.txs[tn].Ref().Slice(), data))
		o := w.observe()
		if o.pay[tn] && st.str("c") == "good" {
			w.accepted[tn] = true
		}
		w.judge(o, a, st)
		w.event(map[string]any{"ev": "inject", "p": p, "t": tn, "c": st.str("c")}, o)
	case "Up":
		if w.conn[p] != "down" {
			return errNotEnabled
		}
		w.setConn(p, st.str("m"))
		o := w.observe()
		w.judge(o, a, st)
		w.event(map[string]any{"ev": "up", "p": p, "m": st.str("m")}, o)
	case "Down":
		if w.conn[p] == "down" {
			return errNotEnabled
		}
		w.setConn(p, "down")
		o := w.observe()
		w.judge(o, a, st)
		w.event(map[string]any{"ev": "down", "p": p}, o)
	case "Crash":
		w.N.gate.kill()
		w.N.shutdown()
		w.up = false
		for _, q := range []string{"p1", "p2"} {
			w.nconn[q], w.pconn[q] = nil, nil
			delete(w.nconn, q)
			delete(w.pconn, q)
			w.peers[q].list.set(nil)
			w.conn[q] = "down"
		}
		w.net = nil
		w.drain()
		w.midRes, w.midSnap = map[string]string{}, map[string]int{}
		w.event(map[string]any{"ev": "crash"}, obs{job: w.prevJob, pay: w.prevPay, dlq: []string{}})
	case "Restart":
		if w.up {
			return errNotEnabled
		}
		before := w.prevJob
		w.boot(w.N, true, time.Nanosecond)
		w.up = true
		// what network.Network.Start does: every notifier replays its stored jobs
		for _, nt := range w.N.state.Notifiers() {
			if err := nt.Run(); err != nil {
				return fmt.Errorf("Run: %w", err)
			}
		}
		w.pump()
		o := w.observe()
		for _, n := range []string{"t1", "t2"} {
			done := w.prevPay[n] || !w.mine[n]
			if before[n] >= 0 && !done {
				// R6: the job and its count survive the restart; Run() makes one attempt
				if o.job[n] == -1 {
					w.viol("X11", "job-lost-at-restart", "", fmt.Sprintf("%s had a job with %d retries before the crash, none after the restart", n, before[n]))
				} else if o.job[n] == before[n] && before[n] < realBudget {
					w.viol("X11", "job-not-replayed-at-restart", "", fmt.Sprintf("%s: %d retries before and after Run()", n, before[n]))
				} else if o.job[n] != before[n] && o.job[n] != before[n]+1 {
					w.viol("X11", "retry-count-mismatch", "restart", fmt.Sprintf("%s: %d retries before the crash, %d after Run()", n, before[n], o.job[n]))
				}
			}
			if before[n] >= 0 && done && o.job[n] != -1 {
				w.viol("X11", "done-job-survives-restart", "", fmt.Sprintf("%s: payload present / not for this node, job still there after Run() (%d retries)", n, o.job[n]))
			}
		}
		w.judge(o, a, st)
		w.event(map[string]any{"ev": "restart"}, o)
	default:
		return fmt.Errorf("unknown step %v", st)
	}
	return nil
}

func (w *world) addedAlready(tn string) bool {
	ok, _ := w.N.state.IsPresent(context.Background(), w.txs[tn].Ref())
	return ok
}

func (w *world) do(st step) bool {
	w.stepName = st.str("a")
	err := w.exec(st)
	if err == errNotEnabled {
		w.drift("step %v is not enabled on the real system", st)
		return false
	}
	if err != nil {
		w.res.Error = err.Error()
		return false
	}
	return true
}

// suffix: the fair continuation. With an authenticated holder connected the payload must arrive while budget is left;
// without one the attempts must go on until the budget is spent, and then stop.
func (w *world) suffix() {
	if !w.up {
		if !w.do(step{"a": "Restart"}) {
			return
		}
	}
	// finish attempts that are between Begin and End
	for _, tn := range []string{"t1", "t2"} {
		if w.N.gate.find("write", hex.EncodeToString(w.txs[tn].Ref().Slice()), 0) != nil {
			w.do(step{"a": "End", "t": tn})
		}
	}
	var hs []string
	for _, p := range []string{"p1", "p2"} {
		if w.member[p] && w.holder[p] {
			hs = append(hs, p)
		}
	}
	for _, p := range hs {
		if w.conn[p] == "anon" {
			w.do(step{"a": "Down", "p": p})
		}
		if w.conn[p] == "down" {
			w.do(step{"a": "Up", "p": p, "m": "auth"})
		}
	}
	start := map[string]int{"t1": w.prevJob["t1"], "t2": w.prevJob["t2"]}
	for round := 0; round < 3*realBudget && w.res.Error == ""; round++ {
		progress := false
		for _, tn := range []string{"t1", "t2"} {
			if w.prevJob[tn] < 0 {
				continue
			}
			// an attempt is due while budget is left and the payload is missing: wait for it; otherwise only look
			wait := 100
			if w.prevJob[tn] < realBudget && !w.prevPay[tn] {
				wait = 4000
			}
			if w.do(step{"a": "Begin", "t": tn, "wait": wait}) {
				progress = true
				w.do(step{"a": "End", "t": tn})
			}
		}
		for len(w.net) > 0 && w.res.Error == "" {
			m := w.net[0]
			if m.k == "q" {
				if !w.do(step{"a": "Serve", "p": m.p, "t": m.t, "keep": false}) {
					w.net = w.net[1:]
				}
			} else if !w.do(step{"a": "Deliver", "p": m.p, "t": m.t, "c": m.c, "keep": false}) {
				w.net = w.net[1:]
			}
			progress = true
		}
		if !progress {
			break
		}
	}
	if w.res.Error != "" {
		return
	}
	// drop the "not enabled" notes of the probing Begin steps
	var keep []string
	for _, d := range w.res.Drift {
		if !strings.Contains(d, "a:Begin") {
			keep = append(keep, d)
		}
	}
	w.res.Drift = keep
	for _, tn := range []string{"t1", "t2"} {
		if !w.addedAlready(tn) {
			continue
		}
		j, pay := w.prevJob[tn], w.prevPay[tn]
		switch {
		case !w.mine[tn]:
			if j != -1 {
				w.viol("X11", "foreign-job-never-finished", "", fmt.Sprintf("%s is not for this node; its job is still there (%d retries)", tn, j))
			}
		case pay && j == -1:
		case pay && j != -1:
			// R3 / R5: a stored payload, a job nobody works on any more
			cause := "other"
			if w.accepted[tn] {
				cause = "payload-arrived-between-check-and-bookkeeping"
			}
			w.viol("X11", "job-stuck-with-payload-present", cause, fmt.Sprintf("%s: payload stored, job with %d retries remains and no attempt is scheduled (payload_fetch_dlq lists it: %v)", tn, j, j >= realThreshold))
		case len(hs) > 0 && start[tn] >= 0 && start[tn] < realBudget-1:
			w.viol("X11", "not-retrieved-despite-holder", "", fmt.Sprintf("%s: authenticated holder(s) %v connected, %d retries at the start of the fair suffix, %d now, payload missing", tn, hs, start[tn], j))
		case j >= 0 && j < realBudget:
			w.viol("X11", "retries-stopped-before-budget", "", fmt.Sprintf("%s: payload missing, no attempt is scheduled any more after %d of %d retries", tn, j, realBudget))
		}
	}
}

func runOne(t *testing.T, sc script) (res *result) {
	res = &result{ID: sc.ID, Violations: []violation{}, Drift: []string{}, Trace: []map[string]any{}}
	defer func() {
		if r := recover(); r != nil {
			res.Error = fmt.Sprintf("panic: %v", r)
		}
	}()
	w := newWorld(t, sc, res)
	defer w.close()
	w.event(map[string]any{"ev": "world", "member": nonNil(sc.Member), "holder": nonNil(sc.Holder)}, w.observe())
	for _, st := range sc.Steps {
		w.do(st)
		if res.Error != "" {
			return res
		}
	}
	if sc.Fair {
		w.suffix()
	}
	return res
}

func nonNil(s []string) []string {
	if s == nil {
		return []string{}
	}
	return s
}

func TestDriver(t *testing.T) {
	inPath, outPath := os.Getenv("VERIF_IN"), os.Getenv("VERIF_OUT")
	if inPath == "" {
		t.Skip("VERIF_IN not set")
	}
	logrus.SetLevel(logrus.PanicLevel)
	logrus.SetOutput(io.Discard)
	raw, err := os.ReadFile(inPath)
	if err != nil {
		t.Fatal(err)
	}
	var in input
	if err := json.Unmarshal(raw, &in); err != nil {
		t.Fatal(err)
	}
	out, err := os.Create(outPath)
	if err != nil {
		t.Fatal(err)
	}
	defer out.Close()
	bw := bufio.NewWriter(out)
	defer bw.Flush()
	enc := json.NewEncoder(bw)
	for _, sc := range in.Scripts {
		if err := enc.Encode(runOne(t, sc)); err != nil {
			t.Fatal(err)
		}
		bw.Flush()
	}
}
