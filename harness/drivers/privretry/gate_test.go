// X11: a stoabs.KVStore decorator that parks every access of the "private" notifier to its job shelf made by a goroutine
// of the code under test (Notify inside State.Add, the retry goroutines), so that the two database transactions of
// notifier.notifyNow (T1: read the job, T3: Finished / retries+1) become scheduling points of the simulator. Calls made on the
// simulator's own goroutine (handlers called synchronously, Run() at start-up, Diagnostics) pass through.
package privretry

import (
	"context"
	"encoding/hex"
	"encoding/json"
	"errors"
	"runtime"
	"strconv"
	"strings"
	"sync"
	"time"

	"github.com/nuts-foundation/go-stoabs"
)

const jobsShelf = "_private_jobs"

var errDead = errors.New("verif: incarnation is dead")
var errProbe = errors.New("verif: probe")

func goid() int64 {
	var b [64]byte
	n := runtime.Stack(b[:], false)
	f := strings.Fields(string(b[:n]))
	if len(f) < 2 {
		return -1
	}
	id, _ := strconv.ParseInt(f[1], 10, 64)
	return id
}

type ticket struct {
	kind     string // "read" | "write"
	key      string // hex of the transaction ref
	op       string // write: "put" | "delete"
	retries  int    // write/put: the retry count about to be written
	errText  string // write/put: the error text about to be written
	rel      chan bool
	done     bool
	notFound bool
}

type gateStore struct {
	stoabs.KVStore
	simG   int64
	mu     sync.Mutex
	parked []*ticket
	dead   bool
}

func newGate(inner stoabs.KVStore) *gateStore {
	return &gateStore{KVStore: inner, simG: goid()}
}

func (g *gateStore) isDead() bool {
	g.mu.Lock()
	defer g.mu.Unlock()
	return g.dead
}

// kill: the incarnation has crashed; nothing reaches the database any more and every parked goroutine gets an error.
func (g *gateStore) kill() {
	g.mu.Lock()
	g.dead = true
	p := g.parked
	g.parked = nil
	g.mu.Unlock()
	for _, t := range p {
		t.rel <- false
	}
}

func (g *gateStore) park(t *ticket) bool {
	t.rel = make(chan bool, 1)
	g.mu.Lock()
	if g.dead {
		g.mu.Unlock()
		return false
	}
	g.parked = append(g.parked, t)
	g.mu.Unlock()
	return <-t.rel
}

// find returns the parked ticket of the given kind and key, waiting at most d for it.
func (g *gateStore) find(kind, key string, d time.Duration) *ticket {
	deadline := time.Now().Add(d)
	for {
		g.mu.Lock()
		for _, t := range g.parked {
			if t.kind == kind && t.key == key {
				g.mu.Unlock()
				return t
			}
		}
		g.mu.Unlock()
		if time.Now().After(deadline) {
			return nil
		}
		time.Sleep(50 * time.Microsecond)
	}
}

func (g *gateStore) release(t *ticket) {
	g.mu.Lock()
	for i, x := range g.parked {
		if x == t {
			g.parked = append(g.parked[:i], g.parked[i+1:]...)
			break
		}
	}
	g.mu.Unlock()
	t.rel <- true
}

func (g *gateStore) finished(t *ticket, notFound bool) {
	g.mu.Lock()
	t.done, t.notFound = true, notFound
	g.mu.Unlock()
}

func (g *gateStore) isDone(t *ticket) (bool, bool) {
	g.mu.Lock()
	defer g.mu.Unlock()
	return t.done, t.notFound
}

type probeReader struct {
	stoabs.Reader
	key string
}

func (p *probeReader) Get(k stoabs.Key) ([]byte, error) {
	p.key = hex.EncodeToString(k.Bytes())
	return nil, errProbe
}
func (p *probeReader) Iterate(stoabs.CallerFn, stoabs.Key) error { return nil }

type probeWriter struct {
	stoabs.Writer
	key, op string
	value   []byte
}

// a book-keeping write that first looks whether the job still exists (read and put in one WriteShelf transaction, X11
// repair) must reach its Put in the probe, too: the probe answers "exists" with an empty job
func (p *probeWriter) Get(k stoabs.Key) ([]byte, error) {
	p.key = hex.EncodeToString(k.Bytes())
	return []byte("{}"), nil
}
func (p *probeWriter) Iterate(stoabs.CallerFn, stoabs.Key) error { return nil }
func (p *probeWriter) Put(k stoabs.Key, v []byte) error {
	p.key, p.op, p.value = hex.EncodeToString(k.Bytes()), "put", v
	return nil
}
func (p *probeWriter) Delete(k stoabs.Key) error {
	p.key, p.op = hex.EncodeToString(k.Bytes()), "delete"
	return nil
}

func (g *gateStore) ReadShelf(ctx context.Context, shelf string, fn func(stoabs.Reader) error) error {
	if g.isDead() {
		return errDead
	}
	if shelf != jobsShelf || goid() == g.simG {
		return g.KVStore.ReadShelf(ctx, shelf, fn)
	}
	pr := &probeReader{}
	_ = fn(pr)
	if pr.key == "" {
		return g.KVStore.ReadShelf(ctx, shelf, fn)
	}
	t := &ticket{kind: "read", key: pr.key}
	if !g.park(t) {
		return errDead
	}
	err := g.KVStore.ReadShelf(ctx, shelf, fn)
	g.finished(t, errors.Is(err, stoabs.ErrKeyNotFound))
	return err
}

func (g *gateStore) WriteShelf(ctx context.Context, shelf string, fn func(stoabs.Writer) error) error {
	if g.isDead() {
		return errDead
	}
	if shelf != jobsShelf || goid() == g.simG {
		return g.KVStore.WriteShelf(ctx, shelf, fn)
	}
	pw := &probeWriter{}
	_ = fn(pw)
	if pw.key == "" {
		return g.KVStore.WriteShelf(ctx, shelf, fn)
	}
	t := &ticket{kind: "write", key: pw.key, op: pw.op}
	if pw.op == "put" {
		var j struct {
			Retries int    `json:"retries"`
			Error   string `json:"error"`
		}
		_ = json.Unmarshal(pw.value, &j)
		t.retries, t.errText = j.Retries, j.Error
	}
	if !g.park(t) {
		return errDead
	}
	err := g.KVStore.WriteShelf(ctx, shelf, fn)
	g.finished(t, false)
	return err
}

type wtx struct {
	stoabs.WriteTx
	g *gateStore
}

func (w wtx) Store() stoabs.KVStore { return w.g }

func (g *gateStore) Write(ctx context.Context, fn func(stoabs.WriteTx) error, opts ...stoabs.TxOption) error {
	if g.isDead() {
		return errDead
	}
	return g.KVStore.Write(ctx, func(tx stoabs.WriteTx) error { return fn(wtx{tx, g}) }, opts...)
}

func (g *gateStore) Read(ctx context.Context, fn func(stoabs.ReadTx) error) error {
	if g.isDead() {
		return errDead
	}
	return g.KVStore.Read(ctx, fn)
}
