// Concretiser of the abstract MutationClass x PathClass cases of Verify.tla: applies every mutation operator to EVERY
// member at EVERY depth of a real document (JSON-LD object or compact JWT; header, claims, embedded credentials,
// proof options, detached JWS header).
package verify

import (
	"encoding/base64"
	"encoding/json"
	"regexp"
	"strings"
	"time"
)

type mutant struct {
	MClass  string `json:"mclass"`  // abstract mutation class (Verify.tla MutationClass)
	PClass  string `json:"pclass"`  // abstract path class (Verify.tla PathClass)
	Where   string `json:"where"`   // "top" | "embedded" (inside a credential carried by a presentation)
	EFmt    string `json:"efmt"`    // format of the innermost credential concerned
	Op      string `json:"op"`      // concrete operator variant
	Path    string `json:"path"`    // concrete path ("$jwt.header.kid", "$.credentialSubject.organization.name", ...)
	Doc     string `json:"doc"`     // the mutated serialisation as it would be sent to the node
	Summary string `json:"summary"` // human readable: what was changed
}

// material the operators draw replacement values from
type mutEnv struct {
	OtherDID   string            // a resolvable DID with a valid key that is NOT the signer (the attacker)
	OtherKid   string
	Siblings   map[string]string // per format: another valid credential of the SAME subject and issuer
	Others     map[string]string // per format: a valid credential of ANOTHER subject
	OtherProof *jnode            // proof object of another own document of the same signer (ldp)
	OtherSig   string            // signature part of another JWT signed by the same key
	Kind       string            // "vc" | "vp"
	Fmt        string            // "ldp" | "jwt"
}

// position of a tree inside the document under test
type container struct {
	where string // "top" | "embedded"
	kind  string // kind of the document this tree belongs to ("vc" | "vp")
	fmt   string // format of that document
}

type cls struct{ where, efmt, pclass string }

var jwtRe = regexp.MustCompile(`^eyJ[A-Za-z0-9_-]*\.[A-Za-z0-9_-]*\.[A-Za-z0-9_-]*$`)
var detachedRe = regexp.MustCompile(`^eyJ[A-Za-z0-9_-]*\.\.[A-Za-z0-9_-]+$`)
var dateRe = regexp.MustCompile(`^\d{4}-\d{2}-\d{2}T\d{2}:\d{2}:\d{2}`)

func b64dec(s string) ([]byte, error) { return base64.RawURLEncoding.DecodeString(s) }
func b64enc(b []byte) string          { return base64.RawURLEncoding.EncodeToString(b) }

// classifyLDVC maps a concrete path of a JSON-LD credential to the abstract path class.
func classifyLDVC(p jpath) string {
	if len(p) == 0 {
		return "root"
	}
	switch p[0].Key {
	case "@context":
		return "context"
	case "id":
		return "id"
	case "type":
		return "type"
	case "proof":
		return classifyProof(p)
	case "issuer":
		return "issuer"
	case "issuanceDate", "expirationDate":
		return "date"
	case "credentialStatus":
		return "status"
	case "credentialSubject":
		q := p[1:]
		if len(q) > 0 && q[0].Key == "" { // array of subjects
			q = q[1:]
		}
		if len(q) == 0 {
			return "subject"
		}
		if len(q) == 1 && q[0].Key == "id" {
			return "subject-id"
		}
		return "claim"
	}
	return "other"
}

func classifyProof(p jpath) string {
	if len(p) == 1 {
		return "proof"
	}
	q := p[1:]
	if q[0].Key == "" { // array of proofs
		q = q[1:]
		if len(q) == 0 {
			return "proof"
		}
	}
	switch q[0].Key {
	case "jws", "proofValue", "signature":
		return "proof-value"
	}
	return "proof-option"
}

func fmtOfNode(n *jnode) string {
	if n != nil && n.Kind == jScalar {
		return "jwt"
	}
	return "ldp"
}

// embeddedSplit: for a path below <prefix>.verifiableCredential returns (isList, inner path below the element, element node)
func embeddedSplit(root *jnode, p jpath, depth int) (list bool, inner jpath, elem *jnode) {
	// p[depth-1] is "verifiableCredential"
	holder := root.at(p[:depth])
	if holder == nil {
		return true, nil, nil
	}
	if holder.Kind == jArray {
		if len(p) == depth {
			return true, nil, nil
		}
		return false, p[depth+1:], holder.Elems[min(p[depth].Index, len(holder.Elems)-1)]
	}
	return false, p[depth:], holder
}

// classify gives the abstract (where, efmt, pclass) of applying an operator of class mclass at path p of tree root.
func classify(root *jnode, ct container, part string, p jpath, mclass string) cls {
	objectAdd := mclass == "add-undefined-member" || mclass == "add-defined-member"
	if ct.fmt == "jwt" {
		if part == "header" {
			return cls{ct.where, "jwt", "jwt-header"}
		}
		if len(p) == 0 {
			return cls{ct.where, "jwt", "jwt-claims"}
		}
		switch p[0].Key {
		case "iss", "sub", "jti", "nbf", "exp", "iat", "aud", "nonce":
			return cls{ct.where, "jwt", "jwt-registered"}
		case "vp":
			if ct.kind == "vp" && len(p) >= 2 && p[1].Key == "verifiableCredential" {
				list, inner, elem := embeddedSplit(root, p, 2)
				if list {
					return cls{"top", fmtOfNode(root.at(p[:2]).first()), "embedded-list"}
				}
				if len(inner) == 0 && !(objectAdd && elem.Kind == jObject) {
					return cls{"top", fmtOfNode(elem), "embedded-list"}
				}
				return cls{"embedded", "ldp", classifyLDVC(inner)}
			}
		}
		if p[0].Key == "vc" || p[0].Key == "vp" {
			return cls{ct.where, "jwt", "jwt-body"}
		}
		return cls{ct.where, "jwt", "jwt-claims"}
	}
	if ct.kind == "vc" {
		return cls{ct.where, "ldp", classifyLDVC(p)}
	}
	// JSON-LD presentation
	if len(p) == 0 {
		return cls{"top", "ldp", "root"}
	}
	switch p[0].Key {
	case "@context":
		return cls{"top", "ldp", "context"}
	case "id":
		return cls{"top", "ldp", "id"}
	case "type":
		return cls{"top", "ldp", "type"}
	case "holder":
		return cls{"top", "ldp", "holder"}
	case "proof":
		return cls{"top", "ldp", classifyProof(p)}
	case "verifiableCredential":
		list, inner, elem := embeddedSplit(root, p, 1)
		if list {
			return cls{"top", fmtOfNode(root.at(p[:1]).first()), "embedded-list"}
		}
		if len(inner) == 0 && !(objectAdd && elem.Kind == jObject) {
			return cls{"top", fmtOfNode(elem), "embedded-list"}
		}
		return cls{"embedded", "ldp", classifyLDVC(inner)}
	}
	return cls{"top", "ldp", "other"}
}

func (n *jnode) first() *jnode {
	if n != nil && n.Kind == jArray && len(n.Elems) > 0 {
		return n.Elems[0]
	}
	return n
}

type emitFn func(m mutant)

// changedScalar returns alternative encodings for a scalar: (op variant, new node)
func changedScalar(n *jnode, env *mutEnv, path string) [][2]any {
	var out [][2]any
	switch {
	case n.isString():
		s := n.str()
		switch {
		case strings.HasPrefix(s, "did:") && strings.Contains(s, "#") && (strings.HasSuffix(path, "verificationMethod") || strings.HasSuffix(path, "kid")):
			out = append(out, [2]any{"other-kid", jstr(env.OtherKid)})
			out = append(out, [2]any{"append", jstr(s + "x")})
		case strings.HasPrefix(s, "did:"):
			if i := strings.Index(s, "#"); i >= 0 {
				out = append(out, [2]any{"other-did", jstr(env.OtherDID + s[i:])})
			} else {
				out = append(out, [2]any{"other-did", jstr(env.OtherDID)})
			}
			out = append(out, [2]any{"append", jstr(s + "x")})
		case dateRe.MatchString(s):
			if t, err := time.Parse(time.RFC3339Nano, s); err == nil {
				out = append(out, [2]any{"date-plus-1h", jstr(t.Add(time.Hour).Format(time.RFC3339Nano))})
				out = append(out, [2]any{"date-minus-1y", jstr(t.AddDate(-1, 0, 0).Format(time.RFC3339Nano))})
				out = append(out, [2]any{"date-plus-5y", jstr(t.AddDate(5, 0, 0).Format(time.RFC3339Nano))})
			} else {
				out = append(out, [2]any{"append", jstr(s + "x")})
			}
		case s == "":
			out = append(out, [2]any{"nonempty", jstr("x")})
		default:
			out = append(out, [2]any{"append", jstr(s + "x")})
			if len(s) > 1 {
				out = append(out, [2]any{"truncate", jstr(s[:len(s)-1])})
			}
		}
	case n.isNumber():
		f := json.Number(string(n.Raw))
		if i, err := f.Int64(); err == nil {
			out = append(out, [2]any{"plus-1", jraw(itoa(i + 1))})
			out = append(out, [2]any{"minus-86400", jraw(itoa(i - 86400))})
			out = append(out, [2]any{"plus-5y", jraw(itoa(i + 5*31536000))})
		} else {
			out = append(out, [2]any{"to-zero", jraw("0")})
		}
	case n.isBool():
		if string(n.Raw) == "true" {
			out = append(out, [2]any{"flip", jraw("false")})
		} else {
			out = append(out, [2]any{"flip", jraw("true")})
		}
	case n.isNull():
		out = append(out, [2]any{"to-string", jstr("x")})
	}
	return out
}

func itoa(i int64) string {
	b, _ := json.Marshal(i)
	return string(b)
}

// definedAdditions: members that ARE defined by the contexts / the JWT profile and may be added to an object
func definedAdditions(c cls, ct container, obj *jnode) []jmember {
	var out []jmember
	add := func(k string, v *jnode) {
		if !obj.has(k) {
			out = append(out, jmember{k, v})
		}
	}
	future := time.Now().AddDate(5, 0, 0).UTC()
	switch c.pclass {
	case "root":
		if c.where == "embedded" || ct.kind == "vc" {
			add("expirationDate", jstr(future.Format(time.RFC3339)))
			add("credentialStatus", mustTree(`{"id":"https://example.com/status/1#7","type":"CredentialStatusList2017"}`))
		} else {
			add("holder", jstr("did:web:verif.example:iam:somebody"))
		}
	case "proof":
		add("nonce", jstr("verif-nonce"))
		add("domain", jstr("verif.example"))
		add("challenge", jstr("verif-challenge"))
		add("expires", jstr(future.Format(time.RFC3339)))
	case "jwt-claims":
		add("exp", jraw(itoa(future.Unix())))
		add("aud", jstr("verif.example"))
		add("nonce", jstr("verif-nonce"))
	case "jwt-header":
		add("jwk", mustTree(`{"kty":"EC","crv":"P-256","x":"f83OJ3D2xF1Bg8vub9tLe1gHMzV76e8Tus9uPHvRVEU","y":"x_FEzRu9m36HLN_tue659LNpXW6pCyStikYjKIWI5a0"}`))
		add("cty", jstr("JWT"))
	}
	return out
}

func mustTree(s string) *jnode {
	n, err := parseTree([]byte(s))
	if err != nil {
		panic(err)
	}
	return n
}

// treeMutants generates all single mutations of one JSON tree. render(newRoot) produces the complete outer document.
func treeMutants(root *jnode, env *mutEnv, ct container, part string, prefix string, render func(r *jnode) string, emit emitFn) {
	type target struct {
		p jpath
		n *jnode
	}
	var targets []target
	root.walk(nil, func(p jpath, n *jnode) { targets = append(targets, target{append(jpath{}, p...), n}) })

	mk := func(mclass, op string, p jpath, summary string, apply func(r *jnode) bool) {
		r := root.clone()
		if !apply(r) {
			return
		}
		c := classify(root, ct, part, p, mclass)
		emit(mutant{MClass: mclass, PClass: c.pclass, Where: c.where, EFmt: c.efmt, Op: op,
			Path: prefix + strings.TrimPrefix(p.String(), "$"), Doc: render(r), Summary: summary})
	}
	replace := func(r *jnode, p jpath, nv *jnode) bool {
		if len(p) == 0 {
			return false
		}
		parent := r.at(p[:len(p)-1])
		last := p[len(p)-1]
		if parent == nil {
			return false
		}
		if last.Key != "" {
			for i := range parent.Members {
				if parent.Members[i].Key == last.Key {
					parent.Members[i].Val = nv
					return true
				}
			}
			return false
		}
		if parent.Kind == jArray && last.Index < len(parent.Elems) {
			parent.Elems[last.Index] = nv
			return true
		}
		return false
	}

	for _, tg := range targets {
		p, n := tg.p, tg.n
		pstr := p.String()
		isMember := len(p) > 0 && p[len(p)-1].Key != ""
		// ---- nested compact JWT (an embedded credential) / detached JWS inside a string value: recurse into it
		if n.isString() && len(p) > 0 {
			s := n.str()
			if jwtRe.MatchString(s) {
				pp := append(jpath{}, p...)
				jwtMutants(s, env, container{where: "embedded", kind: "vc", fmt: "jwt"}, prefix+strings.TrimPrefix(pstr, "$"), func(newJWT string) string {
					r := root.clone()
					replace(r, pp, jstr(newJWT))
					return render(r)
				}, emit)
			} else if detachedRe.MatchString(s) {
				parts := strings.SplitN(s, "..", 2)
				if hb, err := b64dec(parts[0]); err == nil {
					if ht, err := parseTree(hb); err == nil {
						pp := append(jpath{}, p...)
						pc := classify(root, ct, part, p, "set-value")
						treeMutants(ht, env, container{where: pc.where, kind: "jwshdr", fmt: "jwshdr"}, "", prefix+strings.TrimPrefix(pstr, "$")+"$jwshdr", func(nh *jnode) string {
							r := root.clone()
							replace(r, pp, jstr(b64enc([]byte(nh.String()))+".."+parts[1]))
							return render(r)
						}, func(m mutant) {
							m.Where, m.EFmt, m.PClass = pc.where, pc.efmt, "proof-value"
							emit(m)
						})
					}
				}
			}
		}
		// ---- scalar values
		if n.Kind == jScalar && len(p) > 0 {
			for _, alt := range changedScalar(n, env, pstr) {
				op, nv := alt[0].(string), alt[1].(*jnode)
				mk("set-value", "set-value/"+op, p, truncate(string(n.Raw), 60)+" -> "+truncate(string(nv.Raw), 60), func(r *jnode) bool { return replace(r, p, nv) })
			}
			typeAlts := [][2]any{}
			if !n.isNumber() {
				typeAlts = append(typeAlts, [2]any{"to-number", jraw("1")})
			} else {
				typeAlts = append(typeAlts, [2]any{"to-string", jstr(string(n.Raw))})
			}
			if !n.isBool() {
				typeAlts = append(typeAlts, [2]any{"to-bool", jraw("true")})
			}
			if !n.isNull() {
				typeAlts = append(typeAlts, [2]any{"to-null", jraw("null")})
			}
			typeAlts = append(typeAlts, [2]any{"to-object", mustTree(`{}`)})
			for _, alt := range typeAlts {
				op, nv := alt[0].(string), alt[1].(*jnode)
				mk("change-type", "change-type/"+op, p, truncate(string(n.Raw), 60)+" -> "+nv.String(), func(r *jnode) bool { return replace(r, p, nv) })
			}
			mk("wrap-array", "wrap-array", p, "v -> [v]", func(r *jnode) bool {
				return replace(r, p, &jnode{Kind: jArray, Elems: []*jnode{n.clone()}})
			})
		}
		if n.Kind == jObject && len(p) > 0 {
			mk("change-type", "change-type/object-to-string", p, "object -> \"x\"", func(r *jnode) bool { return replace(r, p, jstr("x")) })
			mk("wrap-array", "wrap-array", p, "object -> [object]", func(r *jnode) bool {
				return replace(r, p, &jnode{Kind: jArray, Elems: []*jnode{n.clone()}})
			})
		}
		// ---- members (any value kind)
		if isMember {
			key := p[len(p)-1].Key
			parentPath := p[:len(p)-1]
			mk("remove-member", "remove-member", p, "removed "+key, func(r *jnode) bool {
				par := r.at(parentPath)
				for i := range par.Members {
					if par.Members[i].Key == key {
						par.Members = append(par.Members[:i], par.Members[i+1:]...)
						return true
					}
				}
				return false
			})
			mk("rename-member", "rename-member", p, key+" -> "+key+"X", func(r *jnode) bool {
				par := r.at(parentPath)
				for i := range par.Members {
					if par.Members[i].Key == key {
						par.Members[i].Key = key + "X"
						return true
					}
				}
				return false
			})
			changed := jstr("x")
			if n.Kind == jScalar {
				if alts := changedScalar(n, env, pstr); len(alts) > 0 {
					changed = alts[0][1].(*jnode)
				}
			}
			mk("duplicate-member", "duplicate-member/changed-last", p, "second "+key+" = "+truncate(changed.String(), 60), func(r *jnode) bool {
				par := r.at(parentPath)
				par.Members = append(par.Members, jmember{key, changed.clone()})
				return true
			})
			mk("duplicate-member", "duplicate-member/changed-first", p, "first "+key+" = "+truncate(changed.String(), 60), func(r *jnode) bool {
				par := r.at(parentPath)
				par.Members = append([]jmember{{key, changed.clone()}}, par.Members...)
				return true
			})
		}
		// ---- objects: add members
		if n.Kind == jObject {
			for _, v := range []struct{ name, val string }{{"string", `"x"`}, {"object", `{"verifNested":"x"}`}, {"array", `["x","y"]`}} {
				val := mustTree(v.val)
				mk("add-undefined-member", "add-undefined-member/"+v.name, p, "added verifUndefined="+v.val, func(r *jnode) bool {
					o := r.at(p)
					o.Members = append(o.Members, jmember{"verifUndefined", val})
					return true
				})
			}
			for _, dm := range definedAdditions(classify(root, ct, part, p, "add-defined-member"), ct, n) {
				dm := dm
				mk("add-defined-member", "add-defined-member/"+dm.Key, p, "added "+dm.Key+"="+truncate(dm.Val.String(), 60), func(r *jnode) bool {
					o := r.at(p)
					o.Members = append(o.Members, jmember{dm.Key, dm.Val.clone()})
					return true
				})
			}
		}
		// ---- arrays
		if n.Kind == jArray {
			if len(n.Elems) >= 2 {
				mk("reorder-array", "reorder-array/reverse", p, "reversed", func(r *jnode) bool {
					a := r.at(p)
					for i, j := 0, len(a.Elems)-1; i < j; i, j = i+1, j-1 {
						a.Elems[i], a.Elems[j] = a.Elems[j], a.Elems[i]
					}
					return true
				})
			}
			if len(n.Elems) >= 1 {
				mk("duplicate-element", "duplicate-element", p, "appended a copy of element 0", func(r *jnode) bool {
					a := r.at(p)
					a.Elems = append(a.Elems, a.Elems[0].clone())
					return true
				})
				for i := range n.Elems {
					i := i
					mk("remove-element", "remove-element", append(append(jpath{}, p...), pathElem{Index: i}), "removed element", func(r *jnode) bool {
						a := r.at(p)
						a.Elems = append(a.Elems[:i], a.Elems[i+1:]...)
						return true
					})
				}
			}
			var nv *jnode
			if len(n.Elems) > 0 && n.Elems[0].Kind == jObject {
				nv = mustTree(`{"verifUndefined":"x"}`)
			} else {
				nv = jstr("VerifAdded")
			}
			mk("add-element", "add-element", p, "appended "+nv.String(), func(r *jnode) bool {
				a := r.at(p)
				a.Elems = append(a.Elems, nv.clone())
				return true
			})
			if len(n.Elems) == 1 && len(p) > 0 {
				mk("unwrap-array", "unwrap-array", p, "[v] -> v", func(r *jnode) bool { return replace(r, p, n.Elems[0].clone()) })
			}
		}
	}
}

// jwtMutants mutates a compact JWT: header tree, claims tree, signature.
func jwtMutants(token string, env *mutEnv, ct container, prefix string, render func(newJWT string) string, emit emitFn) {
	parts := strings.Split(token, ".")
	if len(parts) != 3 {
		return
	}
	hb, err1 := b64dec(parts[0])
	pb, err2 := b64dec(parts[1])
	if err1 != nil || err2 != nil {
		return
	}
	ht, err1 := parseTree(hb)
	pt, err2 := parseTree(pb)
	if err1 != nil || err2 != nil {
		return
	}
	treeMutants(ht, env, ct, "header", prefix+"$jwt.header", func(r *jnode) string {
		return render(b64enc([]byte(r.String())) + "." + parts[1] + "." + parts[2])
	}, emit)
	treeMutants(pt, env, ct, "claims", prefix+"$jwt.claims", func(r *jnode) string {
		return render(parts[0] + "." + b64enc([]byte(r.String())) + "." + parts[2])
	}, emit)
	sig := parts[2]
	em := func(op, summary, newTok string) {
		emit(mutant{MClass: "signature", PClass: "jwt-signature", Where: ct.where, EFmt: "jwt", Op: "signature/" + op,
			Path: prefix + "$jwt.signature", Doc: render(newTok), Summary: summary})
	}
	em("strip", "signature removed", parts[0]+"."+parts[1]+".")
	if len(sig) > 10 {
		mid := len(sig) / 2
		c := byte('A')
		if sig[mid] == 'A' {
			c = 'B'
		}
		em("flip", "one signature character changed", parts[0]+"."+parts[1]+"."+sig[:mid]+string(c)+sig[mid+1:])
		em("truncate", "signature truncated", parts[0]+"."+parts[1]+"."+sig[:len(sig)-4])
	}
	if env.OtherSig != "" && ct.where == "top" {
		em("other", "signature of another token of the same key", parts[0]+"."+parts[1]+"."+env.OtherSig)
	}
	hn := ht.clone()
	for i := range hn.Members {
		if hn.Members[i].Key == "alg" {
			hn.Members[i].Val = jstr("none")
		}
	}
	em("alg-none", "alg=none, empty signature", b64enc([]byte(hn.String()))+"."+parts[1]+".")
}

// allMutants enumerates every single mutation of a document (JSON-LD object or compact JWT).
func allMutants(doc string, env *mutEnv, emit emitFn) {
	doc = strings.TrimSpace(doc)
	ct := container{where: "top", kind: env.Kind, fmt: env.Fmt}
	if strings.HasPrefix(doc, "{") {
		root, err := parseTree([]byte(doc))
		if err != nil {
			return
		}
		treeMutants(root, env, ct, "", "$", func(r *jnode) string { return r.String() }, emit)
		if env.OtherProof != nil && root.has("proof") {
			r := root.clone()
			for i := range r.Members {
				if r.Members[i].Key == "proof" {
					r.Members[i].Val = env.OtherProof.clone()
				}
			}
			emit(mutant{MClass: "swap", PClass: "proof", Where: "top", EFmt: "ldp", Op: "swap/proof-of-other-document", Path: "$.proof",
				Doc: r.String(), Summary: "proof replaced by the proof of another document of the same signer"})
		}
		if env.Kind == "vp" {
			swapEmbedded(root, env, "$", nil, func(r *jnode) string { return r.String() }, emit)
		}
		return
	}
	tok := doc
	if strings.HasPrefix(doc, `"`) {
		_ = json.Unmarshal([]byte(doc), &tok)
	}
	jwtMutants(tok, env, ct, "", func(s string) string { return s }, emit)
	if env.Kind == "vp" {
		parts := strings.Split(tok, ".")
		if len(parts) != 3 {
			return
		}
		if pb, err := b64dec(parts[1]); err == nil {
			if pt, err := parseTree(pb); err == nil && pt.get("vp") != nil {
				swapEmbedded(pt, env, "$jwt.claims", jpath{{Key: "vp"}}, func(r *jnode) string {
					return parts[0] + "." + b64enc([]byte(r.String())) + "." + parts[2]
				}, emit)
			}
		}
	}
}

// swapEmbedded replaces whole embedded credentials of a presentation by other VALID credentials, or adds such.
func swapEmbedded(root *jnode, env *mutEnv, prefix string, under jpath, render func(r *jnode) string, emit emitFn) {
	vcPath := append(append(jpath{}, under...), pathElem{Key: "verifiableCredential"})
	cur := root.at(vcPath)
	if cur == nil {
		return
	}
	asNode := func(s string) *jnode {
		s = strings.TrimSpace(s)
		if strings.HasPrefix(s, "{") {
			return mustTree(s)
		}
		return jstr(s)
	}
	setList := func(r *jnode, elems []*jnode) {
		par := r.at(under)
		for i := range par.Members {
			if par.Members[i].Key == "verifiableCredential" {
				par.Members[i].Val = &jnode{Kind: jArray, Elems: elems}
			}
		}
	}
	var elems []*jnode
	if cur.Kind == jArray {
		elems = cur.Elems
	} else {
		elems = []*jnode{cur}
	}
	pstr := prefix + strings.TrimPrefix(vcPath.String(), "$")
	for i, e := range elems {
		ef := fmtOfNode(e)
		for _, alt := range []struct {
			op  string
			src map[string]string
			sum string
		}{{"sibling", env.Siblings, "replaced by another valid credential of the same subject"},
			{"other-subject", env.Others, "replaced by a valid credential of another subject"}} {
			if alt.src == nil || alt.src[ef] == "" {
				continue
			}
			ne := make([]*jnode, len(elems))
			for j := range elems {
				ne[j] = elems[j].clone()
			}
			ne[i] = asNode(alt.src[ef])
			r := root.clone()
			setList(r, ne)
			emit(mutant{MClass: "swap", PClass: "embedded-list", Where: "top", EFmt: ef, Op: "swap/replace-credential/" + alt.op,
				Path: pstr + "[" + itoa(int64(i)) + "]", Doc: render(r), Summary: "embedded " + ef + " credential " + alt.sum})
		}
	}
	for _, ef := range []string{"ldp", "jwt"} {
		for _, alt := range []struct {
			op  string
			src map[string]string
			sum string
		}{{"sibling", env.Siblings, "another valid credential of the same subject"}, {"other-subject", env.Others, "a valid credential of another subject"}} {
			if alt.src == nil || alt.src[ef] == "" {
				continue
			}
			ne := make([]*jnode, 0, len(elems)+1)
			for j := range elems {
				ne = append(ne, elems[j].clone())
			}
			ne = append(ne, asNode(alt.src[ef]))
			r := root.clone()
			setList(r, ne)
			emit(mutant{MClass: "swap", PClass: "embedded-list", Where: "top", EFmt: ef, Op: "swap/add-credential/" + alt.op + "/" + ef,
				Path: pstr, Doc: render(r), Summary: "added " + alt.sum + " (" + ef + ")"})
		}
	}
}
