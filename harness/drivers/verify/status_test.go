// Families "status" and "race" of Verify.tla (C01): "is not revoked" when the revocation is a bit in a StatusList2021Credential.
//
//	status  the list is the producing node's own (16kB pages) or that of an EXTERNAL issuer scripted here (real keys, resolvable
//	        DID, a list of 16384 / 16385 / 32768 / 131072 bytes served through the in-memory HTTP client of the verifying node);
//	        entries at the first / last position of a minimum list, the first one beyond it and the last one of the list; the
//	        verifying node decides on a fresh download and on its cached copy, through Verifier.Verify, the REST handler and a
//	        presentation that carries the credential.
//	race    the status list page of the producing node as shared state: Revoke and the download of the list (Credential()) run as
//	        two-phase operations that are stopped where they open their SQL transaction (every read they made before lies before
//	        that point); TLC supplies every interleaving.  After EVERY step the producing node is asked about both credentials.
package verify

import (
	"bytes"
	"compress/gzip"
	"context"
	"database/sql"
	"encoding/base64"
	"encoding/json"
	"fmt"
	"strconv"
	"strings"
	"sync"
	"time"

	"github.com/nuts-foundation/go-did/vc"
	"github.com/nuts-foundation/nuts-node/audit"
	vcrapi "github.com/nuts-foundation/nuts-node/vcr/api/vcr/v2"
	"github.com/nuts-foundation/nuts-node/vcr/signature"
	"github.com/nuts-foundation/nuts-node/vcr/signature/proof"
)

const (
	extBaseURL       = "https://external.verif.example/lists/"
	statusListCtx    = "https://w3id.org/vc/status-list/2021/v1"
	minListBytes     = 16 * 1024 // the minimum length the StatusList2021 specification demands
	opTimeout        = 30 * time.Second
	statusListsTable = "status_list_credential"
)

// ------------------------------------------------------------------------------------------------ scheduling seam

// txGate stops ONE goroutine at the point where it opens its next SQL transaction on the status-list database handle of the
// producing node.
type txGate struct {
	mu      sync.Mutex
	armed   bool
	reached chan struct{}
	release chan struct{}
}

func (g *txGate) arm() (reached, release chan struct{}) {
	g.mu.Lock()
	defer g.mu.Unlock()
	g.armed, g.reached, g.release = true, make(chan struct{}), make(chan struct{})
	return g.reached, g.release
}

func (g *txGate) disarm() {
	g.mu.Lock()
	g.armed = false
	g.mu.Unlock()
}

func (g *txGate) enter() {
	g.mu.Lock()
	if !g.armed {
		g.mu.Unlock()
		return
	}
	g.armed = false
	reached, release := g.reached, g.release
	g.mu.Unlock()
	close(reached)
	<-release
}

// gatedPool is the gorm.ConnPool of the producing node's StatusList2021: the real *sql.DB, BeginTx passes the gate.
type gatedPool struct {
	*sql.DB
	gate *txGate
}

func (p *gatedPool) BeginTx(ctx context.Context, opts *sql.TxOptions) (*sql.Tx, error) {
	p.gate.enter()
	return p.DB.BeginTx(ctx, opts)
}
func (p *gatedPool) GetDBConn() (*sql.DB, error) { return p.DB, nil }

// ------------------------------------------------------------------------------------------------ status lists of external issuers

func encodeList(nbytes int, set []int) string {
	bits := make([]byte, nbytes)
	for _, i := range set {
		if i >= 0 && i/8 < nbytes {
			bits[i/8] |= 1 << (7 - uint(i%8)) // the left-most bit of the list is entry 0
		}
	}
	var buf bytes.Buffer
	gz := gzip.NewWriter(&buf)
	_, _ = gz.Write(bits)
	_ = gz.Close()
	return base64.RawURLEncoding.EncodeToString(buf.Bytes())
}

// signLD signs a JSON-LD document with a key of the producing node's key store (what issuer.buildJSONLDCredential does).
func (w *world) signLD(doc map[string]any, kid string, created time.Time) (string, error) {
	signed, err := proof.NewLDProof(proof.ProofOptions{Created: created}).Sign(audit.TestContext(), doc,
		signature.JSONWebSignature2020{ContextLoader: w.a.ld.DocumentLoader(), Signer: w.a.keys}, kid)
	if err != nil {
		return "", err
	}
	raw, err := json.Marshal(signed)
	return string(raw), err
}

var extCounter int

// extList publishes the StatusList2021Credential of an external issuer: nbytes long, the given entries revoked.
func (w *world) extList(iss *party, nbytes int, set []int) (string, error) {
	extCounter++
	url := fmt.Sprintf("%s%d-%d", extBaseURL, w.seed, extCounter)
	now := time.Now().Add(-time.Minute).Truncate(time.Second)
	doc := map[string]any{
		"@context":       []any{"https://www.w3.org/2018/credentials/v1", statusListCtx},
		"id":             fmt.Sprintf("%s#list-%d", iss.id.String(), extCounter),
		"type":           []any{"VerifiableCredential", "StatusList2021Credential"},
		"issuer":         iss.id.String(),
		"issuanceDate":   now.Format(time.RFC3339),
		"expirationDate": now.Add(24 * time.Hour).Format(time.RFC3339),
		"credentialSubject": map[string]any{"id": url, "type": "StatusList2021", "statusPurpose": "revocation",
			"encodedList": encodeList(nbytes, set)},
	}
	raw, err := w.signLD(doc, iss.kid, now)
	if err != nil {
		return "", err
	}
	w.a.extLists[url] = []byte(raw)
	return url, nil
}

// extCredential: the external issuer issues (and signs, with the real signing code) a credential with an entry in its list.
func (w *world) extCredential(iss *party, subject map[string]any, f string, url string, index int) (string, error) {
	extCounter++
	id := fmt.Sprintf("%s#cred-%d", iss.id.String(), extCounter)
	idx := strconv.Itoa(index)
	status := map[string]any{"id": url + "#" + idx, "type": "StatusList2021Entry", "statusPurpose": "revocation",
		"statusListIndex": idx, "statusListCredential": url}
	ctxs := []any{"https://www.w3.org/2018/credentials/v1", "https://nuts.nl/credentials/v1", statusListCtx}
	if f == "jwt" {
		claims := map[string]any{"iss": iss.id.String(), "sub": subject["id"], "jti": id, "nbf": w.T(4).Unix(),
			"vc": map[string]any{"@context": ctxs, "type": []string{"VerifiableCredential", orgType},
				"credentialSubject": []any{subject}, "credentialStatus": status}}
		return w.a.keys.SignJWT(audit.TestContext(), claims, map[string]any{"typ": "JWT"}, iss.kid)
	}
	doc := map[string]any{"@context": ctxs, "id": id, "type": []any{"VerifiableCredential", orgType}, "issuer": iss.id.String(),
		"issuanceDate": w.T(4).Format(time.RFC3339), "credentialSubject": subject, "credentialStatus": status}
	return w.signLD(doc, iss.kid, w.T(4))
}

// ------------------------------------------------------------------------------------------------ family "status"

type statusDoc struct {
	raw, vp, url string
	index        int
}

func entryOf(raw string) (url string, index int, err error) {
	c, err := vc.ParseVerifiableCredential(raw)
	if err != nil {
		return "", 0, err
	}
	statuses, err := c.CredentialStatuses()
	if err != nil || len(statuses) == 0 {
		return "", 0, fmt.Errorf("credential without credentialStatus (%v)", err)
	}
	var e struct {
		StatusListIndex      string `json:"statusListIndex"`
		StatusListCredential string `json:"statusListCredential"`
	}
	if err := json.Unmarshal(statuses[0].Raw(), &e); err != nil {
		return "", 0, err
	}
	index, err = strconv.Atoi(e.StatusListIndex)
	return e.StatusListCredential, index, err
}

func sizeBytes(size string) int {
	switch size {
	case "min+1":
		return minListBytes + 1
	case "double":
		return 2 * minListBytes
	case "large":
		return 8 * minListBytes
	}
	return minListBytes
}

func (w *world) statusDoc(c acase) (*statusDoc, error) {
	key := fmt.Sprintf("status|%s|%s|%s|%s|%v", c.Fmt, c.List, c.Size, c.Pos, c.Revoked)
	if d, ok := w.sdocs[key]; ok {
		return d, nil
	}
	holder := w.signer("web", "stable")
	subj := orgSubject(holder.id, "Org")
	iss := w.newParty("web", "sl-"+c.List, "stable")
	must(w.t, w.b.trust.AddTrust(uri(orgType), iss.id.URI()))
	d := &statusDoc{}
	if c.List == "ext" {
		nbytes := sizeBytes(c.Size)
		switch c.Pos {
		case "first":
			d.index = 0
		case "last-min":
			d.index = minListBytes*8 - 1
		case "first-beyond":
			d.index = minListBytes * 8
		case "last":
			d.index = nbytes*8 - 1
		}
		set := []int{d.index}
		if !c.Revoked { // both neighbours are revoked, the credential is not
			set = []int{d.index - 1, d.index + 1}
		}
		url, err := w.extList(iss, nbytes, set)
		if err != nil {
			return nil, err
		}
		d.url = url
		if d.raw, err = w.extCredential(iss, subj, c.Fmt, url, d.index); err != nil {
			return nil, err
		}
	} else {
		// the node's own issuer: entries are handed out in order; a long history of issuances is a high last_issued_index
		var before, target, after string
		var err error
		if c.Pos != "first" {
			if _, err = w.issue(iss, orgType, subj, c.Fmt, 4, 0, true); err != nil { // creates the page
				return nil, err
			}
			if err = w.a.db.Exec("UPDATE status_list SET last_issued_index = ? WHERE issuer = ?", minListBytes*8-3, iss.id.String()).Error; err != nil {
				return nil, err
			}
			if before, err = w.issue(iss, orgType, subj, c.Fmt, 4, 0, true); err != nil {
				return nil, err
			}
		}
		if target, err = w.issue(iss, orgType, subj, c.Fmt, 4, 0, true); err != nil {
			return nil, err
		}
		if c.Pos == "first" {
			if after, err = w.issue(iss, orgType, subj, c.Fmt, 4, 0, true); err != nil {
				return nil, err
			}
		}
		d.raw = target
		if d.url, d.index, err = entryOf(target); err != nil {
			return nil, err
		}
		revoke := []string{target}
		if !c.Revoked {
			revoke = []string{before, after}
		}
		for _, r := range revoke {
			if r == "" {
				continue
			}
			if _, err := w.a.issuer.Revoke(audit.TestContext(), credID(r)); err != nil {
				return nil, fmt.Errorf("OWN-OUTPUT revoke: %w", err)
			}
		}
	}
	vp, err := w.present(holder, holder, c.Fmt, 4, 0, nil, d.raw)
	if err != nil {
		return nil, err
	}
	d.vp = vp
	w.sdocs[key] = d
	return d, nil
}

// forgetListOnB: the verifying node has no copy of the list (a node that meets this issuer for the first time), so the next check
// downloads it.  (Ageing the copy instead would make EVERY later check download again: the code as it is never renews created_at
// of a stored copy -- gorm's OnConflict{UpdateAll} leaves autoCreateTime columns alone -- which is conservative, not a violation.)
func (w *world) forgetListOnB(url string) error {
	return w.b.db.Exec("DELETE FROM "+statusListsTable+" WHERE subject_id = ?", url).Error
}

func (w *world) runStatus(ci caseIn) runOut {
	c := ci.Case
	d, err := w.statusDoc(c)
	if err != nil {
		return runOut{Method: "web", Note: "BUILD: " + err.Error()}
	}
	verify := func() verdict {
		switch c.Entry {
		case "api":
			return w.b.verifyVCAPI(d.raw)
		case "vp":
			return w.b.verifyVP(d.vp, true, false, nil)
		}
		return w.b.verifyVC(d.raw, false, true, nil)
	}
	note := ""
	if c.Src == "fresh" {
		if err := w.forgetListOnB(d.url); err != nil {
			return runOut{Method: "web", Note: "BUILD: " + err.Error()}
		}
		n := w.a.fetches[d.url]
		v := verify()
		if w.a.fetches[d.url] == n {
			note = "no download"
		}
		return runOut{Method: "web", Verdict: v, Note: note}
	}
	if w.a.fetches[d.url] == 0 {
		_ = w.b.verifyVC(d.raw, false, true, nil) // the check "a moment ago"
	}
	n := w.a.fetches[d.url]
	v := verify()
	if w.a.fetches[d.url] != n {
		note = "downloaded again"
	}
	return runOut{Method: "web", Verdict: v, Note: note}
}

// verifyVCAPI goes through the REST handler of POST /internal/vcr/v2/verifier/vc.
func (n *node) verifyVCAPI(raw string) (v verdict) {
	defer func() {
		if r := recover(); r != nil {
			v = verdict{Panic: fmt.Sprintf("%v", r)}
		}
	}()
	body := map[string]any{}
	raw = strings.TrimSpace(raw)
	if strings.HasPrefix(raw, "{") {
		body["verifiableCredential"] = json.RawMessage(raw)
	} else {
		body["verifiableCredential"] = raw
	}
	reqJSON, _ := json.Marshal(body)
	var req vcrapi.VCVerificationRequest
	if err := json.Unmarshal(reqJSON, &req); err != nil {
		return verdict{Err: "parse: " + err.Error(), ParseErr: true}
	}
	resp, err := n.api.VerifyVC(audit.TestContext(), vcrapi.VerifyVCRequestObject{Body: &req})
	if err != nil {
		return verdict{Err: "api error: " + err.Error()}
	}
	respJSON, _ := json.Marshal(resp)
	var out struct {
		Validity bool    `json:"validity"`
		Message  *string `json:"message"`
	}
	if err := json.Unmarshal(respJSON, &out); err != nil {
		return verdict{Err: "api response: " + err.Error()}
	}
	if !out.Validity {
		msg := ""
		if out.Message != nil {
			msg = *out.Message
		}
		return verdict{Err: msg}
	}
	return verdict{Accept: true}
}

// ------------------------------------------------------------------------------------------------ family "race"

type schedStep struct {
	A  string `json:"a"`
	O  string `json:"o,omitempty"`
	Tx bool   `json:"tx,omitempty"`
}

// obs: one answer of a node about one credential (or about a served list), with the facts the statement speaks about
type obs struct {
	Step    int     `json:"step"`
	After   string  `json:"after"`  // the step of the schedule that was executed last
	Node    string  `json:"node"`   // producer | verifier
	Source  string  `json:"source"` // managed | fresh | cached | served-list
	Cred    string  `json:"cred"`
	Begun   bool    `json:"begun"` // a Revoke of this credential has been started
	Acked   bool    `json:"acked"` // ... and had returned success before this question was asked
	Pending string  `json:"pending,omitempty"`
	Verdict verdict `json:"verdict"`
}

type raceOp struct {
	done    chan error
	release chan struct{}
	atTx    bool
	ended   bool
	list    *vc.VerifiableCredential
}

func (w *world) runRace(ci caseIn) caseOut {
	out := caseOut{ID: ci.ID}
	c := ci.Case
	ctx := audit.TestContext()
	iss := w.newParty("web", "race", "stable")
	must(w.t, w.b.trust.AddTrust(uri(orgType), iss.id.URI()))
	subj := orgSubject(w.who("web", "bystander").id, "Org")
	creds := map[string]string{}
	var url string
	for _, name := range []string{"c1", "c2"} {
		raw, err := w.issue(iss, orgType, subj, c.Fmt, 4, 0, true)
		if err != nil {
			out.Error = "cannot build the case: " + err.Error()
			return out
		}
		creds[name] = raw
		u, _, err := entryOf(raw)
		if err != nil || (url != "" && u != url) {
			out.Error = fmt.Sprintf("cannot build the case: c1 and c2 are not on one status list page (%v)", err)
			return out
		}
		url = u
	}
	page, err := strconv.Atoi(url[strings.LastIndex(url, "/")+1:])
	if err != nil {
		out.Error = "cannot build the case: status list URL " + url
		return out
	}
	ops := map[string]*raceOp{}
	begun, acked := map[string]bool{}, map[string]bool{}
	credOf := map[string]string{"R1": "c1", "R2": "c2"}
	pendingNames := func() string {
		var p []string
		for _, o := range []string{"R1", "R2", "S"} {
			if op := ops[o]; op != nil && op.atTx && !op.ended {
				p = append(p, o)
			}
		}
		return strings.Join(p, "+")
	}
	stepNo, after := 0, ""
	ask := func(node, source, cred string, v verdict) {
		out.Obs = append(out.Obs, obs{Step: stepNo, After: after, Node: node, Source: source, Cred: cred, Begun: begun[cred], Acked: acked[cred],
			Pending: pendingNames(), Verdict: v})
		out.Evals++
	}
	askProducer := func() {
		for _, name := range []string{"c1", "c2"} {
			ackedBefore := acked[name]
			v := w.a.verifyVC(creds[name], true, true, nil)
			out.Obs = append(out.Obs, obs{Step: stepNo, After: after, Node: "producer", Source: "managed", Cred: name, Begun: begun[name],
				Acked: ackedBefore, Pending: pendingNames(), Verdict: v})
			out.Evals++
		}
	}
	askVerifier := func() error {
		if err := w.forgetListOnB(url); err != nil {
			return err
		}
		snapshot := map[string]bool{"c1": acked["c1"], "c2": acked["c2"]}
		w.a.lastServed[url] = nil
		for i, name := range []string{"c1", "c2"} {
			v := w.b.verifyVC(creds[name], false, true, nil)
			src := "fresh"
			if i > 0 {
				src = "cached"
			}
			out.Obs = append(out.Obs, obs{Step: stepNo, After: after, Node: "verifier", Source: src, Cred: name, Begun: begun[name],
				Acked: snapshot[name], Pending: pendingNames(), Verdict: v})
			out.Evals++
		}
		// the list the producing node handed out for this: its own output, it has to verify on the other node
		if body := w.a.lastServed[url]; body != nil {
			ask("verifier", "served-list", "list", w.b.verifyVC(string(body), true, true, nil))
		}
		return nil
	}
	finish := func(o string) error { // lets a pending operation run to its end
		op := ops[o]
		if op == nil || op.ended {
			return nil
		}
		op.ended = true
		if op.atTx {
			close(op.release)
		}
		select {
		case err := <-op.done:
			if cred, isRevoke := credOf[o]; isRevoke {
				if err != nil {
					return fmt.Errorf("OWN-OUTPUT Revoke(%s) failed: %w", cred, err)
				}
				acked[cred] = true
			} else if err != nil {
				return fmt.Errorf("OWN-OUTPUT status list download failed: %w", err)
			}
		case <-time.After(opTimeout):
			return fmt.Errorf("operation %s does not return", o)
		}
		return nil
	}
	defer func() {
		w.a.gate.disarm()
		for _, o := range []string{"S", "R1", "R2"} {
			_ = finish(o)
		}
	}()
	stale := "near"
	if hash64(fmt.Sprintf("%d|%s|stale", w.seed, ci.ID))%2 == 0 {
		stale = "expired"
	}
	for _, st := range ci.Sched {
		stepNo++
		after = st.A
		if st.O != "" {
			after += "(" + st.O + ")"
		}
		switch st.A {
		case "Choose", "Issue":
			continue
		case "Age":
			exp := time.Now().Add(10 * time.Minute).Unix()
			if stale == "expired" {
				exp = time.Now().Add(-time.Hour).Unix()
			}
			if err := w.a.db.Exec("UPDATE "+statusListsTable+" SET expires = ? WHERE subject_id = ?", exp, url).Error; err != nil {
				out.Error = "cannot age the stored list: " + err.Error()
				return out
			}
		case "OpBegin":
			op := &raceOp{done: make(chan error, 1)}
			ops[st.O] = op
			reached, release := w.a.gate.arm()
			op.release = release
			if cred, isRevoke := credOf[st.O]; isRevoke {
				begun[cred] = true
				id := credID(creds[cred])
				go func() { _, e := w.a.issuer.Revoke(ctx, id); op.done <- e }()
			} else {
				go func() {
					l, e := w.a.issuer.StatusList(ctx, iss.id, page)
					op.list = l
					op.done <- e
				}()
			}
			select {
			case <-reached:
				op.atTx = true
			case e := <-op.done: // returned without a transaction
				w.a.gate.disarm()
				op.done <- e
				if err := finish(st.O); err != nil {
					out.Error = err.Error()
					return out
				}
			case <-time.After(opTimeout):
				out.Error = fmt.Sprintf("operation %s neither reached its transaction nor returned", st.O)
				return out
			}
			if op.atTx != st.Tx {
				out.Drift = append(out.Drift, fmt.Sprintf("%s: the model says transaction=%v, the code transaction=%v (stale=%s)", after, st.Tx, op.atTx, stale))
			}
		case "OpEnd":
			if err := finish(st.O); err != nil {
				out.Error = err.Error()
				return out
			}
		case "Download", "Finish":
			if st.A == "Finish" {
				for _, o := range []string{"S", "R1", "R2"} {
					if err := finish(o); err != nil {
						out.Error = err.Error()
						return out
					}
				}
			}
			if err := askVerifier(); err != nil {
				out.Error = err.Error()
				return out
			}
		default:
			out.Error = "unknown step " + st.A
			return out
		}
		if op := ops["S"]; op != nil && op.ended && op.list != nil {
			body, _ := json.Marshal(op.list)
			op.list = nil
			ask("verifier", "served-list", "list", w.b.verifyVC(string(body), true, true, nil))
		}
		askProducer()
	}
	return out
}
