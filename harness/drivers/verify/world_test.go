// The two nodes of the C01 driver, composed from the exported constructors of /repo exactly like vcr.Configure does:
//
//	A  "producer":  real issuer (issuer.Issue / Revoke / StatusList), real wallet (BuildPresentation), key store with
//	                every private key (also the attacker's).  A's own DID documents always list the signing key.
//	B  "verifier":  real verifier.Verifier over a real resolver stack (did:nuts -> didstore resolved by time,
//	                did:web -> SQL did_document_version resolved by time, did:jwk), own trust registry, own
//	                revocation store, own StatusList2021 whose HTTP client is an in-memory doer served by A's issuer.
//	                B holds the scripted DID document HISTORY of every signer (key added / removed / deactivated).
package verify

import (
	"bytes"
	"context"
	"crypto"
	"crypto/sha256"
	"encoding/base64"
	"encoding/hex"
	"encoding/json"
	"fmt"
	"io"
	"net/http"
	"net/url"
	"path"
	"strconv"
	"strings"
	"testing"
	"time"

	"github.com/lestrrat-go/jwx/v2/jwk"
	ssi "github.com/nuts-foundation/go-did"
	"github.com/nuts-foundation/go-did/did"
	"github.com/nuts-foundation/go-did/vc"
	"github.com/nuts-foundation/nuts-node/audit"
	"github.com/nuts-foundation/nuts-node/core"
	nutscrypto "github.com/nuts-foundation/nuts-node/crypto"
	"github.com/nuts-foundation/nuts-node/crypto/hash"
	"github.com/nuts-foundation/nuts-node/jsonld"
	"github.com/nuts-foundation/nuts-node/storage"
	"github.com/nuts-foundation/nuts-node/storage/orm"
	"github.com/nuts-foundation/nuts-node/vcr"
	vcrapi "github.com/nuts-foundation/nuts-node/vcr/api/vcr/v2"
	"github.com/nuts-foundation/nuts-node/vcr/credential"
	"github.com/nuts-foundation/nuts-node/vcr/holder"
	"github.com/nuts-foundation/nuts-node/vcr/issuer"
	"github.com/nuts-foundation/nuts-node/vcr/revocation"
	"github.com/nuts-foundation/nuts-node/vcr/trust"
	"github.com/nuts-foundation/nuts-node/vcr/verifier"
	"github.com/nuts-foundation/nuts-node/vdr/didjwk"
	"github.com/nuts-foundation/nuts-node/vdr/didkey"
	"github.com/nuts-foundation/nuts-node/vdr/didnuts"
	"github.com/nuts-foundation/nuts-node/vdr/didnuts/didstore"
	"github.com/nuts-foundation/nuts-node/vdr/didsubject"
	"github.com/nuts-foundation/nuts-node/vdr/resolver"
	"gorm.io/gorm"
)

const statusBaseURL = "https://producer.verif.example"

// apiVCR is the vcr.VCR the REST wrapper sees: only Verifier() is used by the verification handlers.
type apiVCR struct {
	vcr.VCR
	v verifier.Verifier
}

func (a apiVCR) Verifier() verifier.Verifier { return a.v }

type fakePublisher struct {
	revocations []credential.Revocation
}

func (f *fakePublisher) PublishCredential(context.Context, vc.VerifiableCredential, bool) error { return nil }
func (f *fakePublisher) PublishRevocation(_ context.Context, r credential.Revocation) error {
	f.revocations = append(f.revocations, r)
	return nil
}

// doerFunc serves B's status list downloads from A's issuer (what GET /statuslist/{did}/{page} does on A).
type doerFunc func(req *http.Request) (*http.Response, error)

func (f doerFunc) Do(req *http.Request) (*http.Response, error) { return f(req) }

type nutsHead struct {
	ref   hash.SHA256Hash
	clock uint32
}

type node struct {
	name     string
	engine   storage.Engine
	db       *gorm.DB
	didStore didstore.Store
	router   *resolver.DIDResolverRouter
	keyRes   resolver.DIDKeyResolver
	ld       jsonld.JSONLD
	vstore   verifier.Store
	trust    *trust.Config
	status   *revocation.StatusList2021
	verifier verifier.Verifier
	api      *vcrapi.Wrapper // REST handlers of /internal/vcr/v2 over this node's verifier
	// producer only
	keys   *nutscrypto.Crypto
	issuer issuer.Issuer
	wallet holder.Wallet
	pub    *fakePublisher

	nutsHeads map[string]nutsHead
	webVers   map[string]int

	// producer only: status lists
	gate       *txGate           // scheduling seam of the node's StatusList2021 (transactions)
	extLists   map[string][]byte // lists external issuers serve, by URL
	fetches    map[string]int    // downloads by URL
	lastServed map[string][]byte // last body handed out per URL
}

func newNode(t *testing.T, name string, producer bool, doer core.HTTPRequestDoer) *node {
	n := &node{name: name, nutsHeads: map[string]nutsHead{}, webVers: map[string]int{}}
	dir := path.Join(t.TempDir(), name)
	n.engine = storage.NewTestStorageEngineInDir(t, dir)
	n.db = n.engine.GetSQLDatabase()
	n.didStore = didstore.New(n.engine.GetProvider("vdr"))
	if err := n.didStore.(interface{ Configure(core.ServerConfig) error }).Configure(core.ServerConfig{}); err != nil {
		t.Fatal(err)
	}
	n.router = &resolver.DIDResolverRouter{}
	n.router.Register(didnuts.MethodName, &didnuts.Resolver{Store: n.didStore})
	n.router.Register("web", didsubject.Resolver{DB: n.db}) // the "own database" leg of vdr's did:web resolver chain
	n.router.Register(didjwk.MethodName, didjwk.NewResolver())
	n.router.Register(didkey.MethodName, didkey.NewResolver())
	n.keyRes = resolver.DIDKeyResolver{Resolver: n.router}

	n.ld = jsonld.NewJSONLDInstance()
	if err := n.ld.(interface{ Configure(core.ServerConfig) error }).Configure(core.ServerConfig{Strictmode: true}); err != nil {
		t.Fatal(err)
	}
	prov := n.engine.GetProvider("vcr")
	vb, err := prov.GetKVStore("backup-revoked-credentials", storage.PersistentStorageClass)
	if err != nil {
		t.Fatal(err)
	}
	n.vstore, err = verifier.NewLeiaVerifierStore(path.Join(dir, "vcr", "verifier-store.db"), vb)
	if err != nil {
		t.Fatal(err)
	}
	t.Cleanup(func() { _ = n.vstore.Close() })
	n.trust = trust.NewConfig(path.Join(dir, "vcr", "trusted_issuers.yaml"))
	if err := n.trust.Load(); err != nil {
		t.Fatal(err)
	}
	if doer == nil {
		doer = doerFunc(func(req *http.Request) (*http.Response, error) {
			return nil, fmt.Errorf("no network in the verification sandbox: %s", req.URL)
		})
	}
	statusDB := n.db
	if producer {
		// the status list works on the same database through a handle whose transactions pass the gate
		sqlDB, err := n.db.DB()
		if err != nil {
			t.Fatal(err)
		}
		n.gate, n.extLists, n.fetches, n.lastServed = &txGate{}, map[string][]byte{}, map[string]int{}, map[string][]byte{}
		statusDB = n.db.Session(&gorm.Session{Context: context.Background()})
		statusDB.Statement.ConnPool = &gatedPool{DB: sqlDB, gate: n.gate}
	}
	n.status = revocation.NewStatusList2021(statusDB, doer, statusBaseURL)
	if producer {
		n.keys = nutscrypto.NewDatabaseCryptoInstance(n.db)
		ib, err := prov.GetKVStore("backup-issued-credentials", storage.PersistentStorageClass)
		if err != nil {
			t.Fatal(err)
		}
		istore, err := issuer.NewStore(n.db, path.Join(dir, "vcr", "issued-credentials.db"), ib)
		if err != nil {
			t.Fatal(err)
		}
		t.Cleanup(func() { _ = istore.Close() })
		n.pub = &fakePublisher{}
		n.issuer = issuer.NewIssuer(istore, nil, n.pub, nil, n.router, n.keys, n.ld, n.trust, n.status)
	}
	n.verifier = verifier.NewVerifier(n.vstore, n.router, n.keyRes, n.ld, n.trust, n.status)
	n.api = &vcrapi.Wrapper{ContextManager: n.ld, VCR: apiVCR{v: n.verifier}}
	if producer {
		n.wallet = holder.NewSQLWallet(n.keyRes, n.keys, n.verifier, n.ld, n.engine)
	}
	return n
}

// statusDoer returns the in-memory HTTP client through which a verifier node downloads the producer's status lists.
func statusDoer(producer func() *node) core.HTTPRequestDoer {
	return doerFunc(func(req *http.Request) (*http.Response, error) {
		a := producer()
		u := req.URL
		a.fetches[u.String()]++
		if body, ok := a.extLists[u.String()]; ok { // the list of an external issuer, served by that issuer
			a.lastServed[u.String()] = body
			return &http.Response{StatusCode: 200, Header: http.Header{"Content-Type": []string{"application/json"}},
				Body: io.NopCloser(bytes.NewReader(body))}, nil
		}
		if !strings.HasPrefix(u.String(), statusBaseURL+"/statuslist/") {
			return &http.Response{StatusCode: 404, Body: io.NopCloser(strings.NewReader("not found"))}, nil
		}
		rest := strings.TrimPrefix(u.EscapedPath(), "/statuslist/")
		i := strings.LastIndex(rest, "/")
		if i < 0 {
			return &http.Response{StatusCode: 404, Body: io.NopCloser(strings.NewReader("not found"))}, nil
		}
		didStr, _ := url.PathUnescape(rest[:i])
		page, err := strconv.Atoi(rest[i+1:])
		id, err2 := did.ParseDID(didStr)
		if err != nil || err2 != nil {
			return &http.Response{StatusCode: 400, Body: io.NopCloser(strings.NewReader("bad request"))}, nil
		}
		cred, err := a.issuer.StatusList(audit.TestContext(), *id, page)
		if err != nil {
			return &http.Response{StatusCode: 404, Body: io.NopCloser(strings.NewReader(err.Error()))}, nil
		}
		body, _ := json.Marshal(cred)
		a.lastServed[u.String()] = body
		return &http.Response{StatusCode: 200, Header: http.Header{"Content-Type": []string{"application/json"}},
			Body: io.NopCloser(bytes.NewReader(body))}, nil
	})
}

// ---------------------------------------------------------------------------------------- DID documents

type keyUse struct {
	kid       string
	pub       crypto.PublicKey
	assertion bool
	authn     bool
}

// buildDoc builds a DID document; no keys at all = deactivated (resolver.IsDeactivated).
func buildDoc(id did.DID, keys []keyUse) did.Document {
	doc := did.Document{Context: []interface{}{did.DIDContextV1URI(), jsonld.JWS2020ContextV1URI()}, ID: id}
	for _, k := range keys {
		kid := did.MustParseDIDURL(k.kid)
		vm, err := did.NewVerificationMethod(kid, ssi.JsonWebKey2020, id, k.pub)
		if err != nil {
			panic(err)
		}
		if k.assertion {
			doc.AddAssertionMethod(vm)
		}
		if k.authn {
			doc.AddAuthenticationMethod(vm)
		}
		doc.AddCapabilityInvocation(vm)
	}
	return doc
}

// putDoc appends one version of a DID document to the node's store with the scripted time stamp.
func (n *node) putDoc(doc did.Document, at time.Time) error {
	raw, _ := json.Marshal(doc)
	id := doc.ID.String()
	switch doc.ID.Method {
	case "nuts":
		head, ok := n.nutsHeads[id]
		sum := sha256.Sum256(append([]byte(fmt.Sprintf("%s|%d|", id, head.clock)), raw...))
		tx := didstore.Transaction{
			Clock:       head.clock + 1,
			PayloadHash: hash.SHA256Sum(raw),
			Ref:         hash.SHA256Hash(sum),
			SigningTime: at,
		}
		if ok {
			tx.Previous = []hash.SHA256Hash{head.ref}
		}
		if err := n.didStore.Add(doc, tx); err != nil {
			return err
		}
		n.nutsHeads[id] = nutsHead{ref: tx.Ref, clock: tx.Clock}
		return nil
	case "web":
		ver := n.webVers[id]
		created := at
		if ver > 0 {
			var first orm.DidDocument
			if err := n.db.Where("did = ?", id).Order("version asc").First(&first).Error; err == nil {
				created = time.Unix(first.CreatedAt, 0)
			}
		}
		od, err := orm.MigrationDocument{Raw: raw, Created: created, Updated: at, Version: ver}.ToORMDocument("subject-" + id)
		if err != nil {
			return err
		}
		if err := n.db.Create(&od).Error; err != nil {
			return err
		}
		n.webVers[id] = ver + 1
		return nil
	}
	return fmt.Errorf("putDoc: unsupported method %s", doc.ID.Method)
}

var didCounter int

// Every generated DID ends in a terminator so that cutting the last character ("shorter" attacker DID, a proper textual
// prefix) can never produce the DID of another party.
func newDIDName(method, label string) string {
	didCounter++
	switch method {
	case "nuts":
		sum := sha256.Sum256([]byte(fmt.Sprintf("%s-%d-%d", label, didCounter, time.Now().UnixNano())))
		return "did:nuts:" + hex.EncodeToString(sum[:16]) + "z"
	case "web":
		return fmt.Sprintf("did:web:verif.example:iam:%s-%dz", label, didCounter)
	}
	panic("method " + method)
}

// relatedDID derives the DID of an attacker whose identifier is textually related to the DID he poses as.
func relatedDID(base string, rel string) string {
	switch rel {
	case "host-suffix": // base is a proper prefix (for a host-only did:web this is another domain: example.com.evil.org)
		return base + ".evil.org"
	case "sub-path": // base is a proper prefix (for did:web a sub-path DID on the same host)
		return base + ":users:x"
	case "shorter": // the attacker's DID is a proper prefix of base
		return base[:len(base)-1]
	}
	panic("relation " + rel)
}

// newKey creates a private key in the producer's key store under the given kid.
func (n *node) newKey(kid string) crypto.PublicKey {
	_, pub, err := n.keys.New(audit.TestContext(), nutscrypto.StringNamingFunc(kid))
	if err != nil {
		panic(err)
	}
	return pub
}

// newJWKDID creates a key whose kid is the did:jwk derived from it.
func (n *node) newJWKDID() (string, string) {
	var kid string
	_, _, err := n.keys.New(audit.TestContext(), func(key crypto.PublicKey) (string, error) {
		k, err := jwk.FromRaw(key)
		if err != nil {
			return "", err
		}
		b, _ := json.Marshal(k)
		kid = "did:jwk:" + base64.RawStdEncoding.EncodeToString(b) + "#0"
		return kid, nil
	})
	if err != nil {
		panic(err)
	}
	return strings.TrimSuffix(kid, "#0"), kid
}
