// Running the real verifier on serialised documents, and the "view" the node has of a document.
package verify

import (
	"bytes"
	"encoding/json"
	"fmt"
	"runtime/debug"
	"strings"
	"time"

	"github.com/nuts-foundation/go-did/vc"
)

type verdict struct {
	Accept   bool   `json:"accept"`
	Err      string `json:"err,omitempty"`
	Panic    string `json:"panic,omitempty"`
	ParseErr bool   `json:"parse_err,omitempty"`
}

// verifyVC feeds the serialised credential to the node the way the REST API does (vc.VerifiableCredential.UnmarshalJSON
// == ParseVerifiableCredential) and calls the real Verifier.Verify under recover().
func (n *node) verifyVC(raw string, allowUntrusted, checkSig bool, at *time.Time) (v verdict) {
	defer func() {
		if r := recover(); r != nil {
			v = verdict{Panic: fmt.Sprintf("%v\n%s", r, firstFrames(debug.Stack()))}
		}
	}()
	cred, err := vc.ParseVerifiableCredential(raw)
	if err != nil {
		return verdict{Err: "parse: " + err.Error(), ParseErr: true}
	}
	if err := n.verifier.Verify(*cred, allowUntrusted, checkSig, at); err != nil {
		return verdict{Err: err.Error()}
	}
	return verdict{Accept: true}
}

func (n *node) verifyVP(raw string, verifyVCs, allowUntrusted bool, at *time.Time) (v verdict) {
	defer func() {
		if r := recover(); r != nil {
			v = verdict{Panic: fmt.Sprintf("%v\n%s", r, firstFrames(debug.Stack()))}
		}
	}()
	pres, err := vc.ParseVerifiablePresentation(raw)
	if err != nil {
		return verdict{Err: "parse: " + err.Error(), ParseErr: true}
	}
	if _, err := n.verifier.VerifyVP(*pres, verifyVCs, allowUntrusted, at); err != nil {
		return verdict{Err: err.Error()}
	}
	return verdict{Accept: true}
}

func firstFrames(stack []byte) string {
	lines := strings.Split(string(stack), "\n")
	var keep []string
	for _, l := range lines {
		if strings.Contains(l, "nuts-node") && !strings.Contains(l, "verifharness") {
			keep = append(keep, strings.TrimSpace(l))
		}
		if len(keep) >= 6 {
			break
		}
	}
	return strings.Join(keep, " | ")
}

// view returns what the node keeps of a document after parsing it: the re-marshalled parsed object (that is what the
// node stores, returns from its APIs, matches presentation definitions against and acts upon), for JWTs the decoded
// header and claims, in canonical JSON and WITHOUT the proof values (proof.jws / JWT signature), which are not claims.
// Two serialisations with the same view are the same document for the node (member order, white space, duplicate
// members that encoding/json drops, unknown top-level members that the go-did struct drops, singular/plural forms).
func view(kind, raw string) (string, error) {
	raw = strings.TrimSpace(raw)
	var marshalled []byte
	var err error
	if kind == "vp" {
		p, perr := vc.ParseVerifiablePresentation(raw)
		if perr != nil {
			return "", perr
		}
		marshalled, err = json.Marshal(p)
	} else {
		c, perr := vc.ParseVerifiableCredential(raw)
		if perr != nil {
			return "", perr
		}
		marshalled, err = json.Marshal(c)
	}
	if err != nil {
		return "", err
	}
	var v any
	dec := json.NewDecoder(bytes.NewReader(marshalled))
	dec.UseNumber()
	if err := dec.Decode(&v); err != nil {
		return "", err
	}
	v = viewValue(v, false)
	var b bytes.Buffer
	writeCanonical(&b, v)
	return b.String(), nil
}

func viewValue(v any, inProof bool) any {
	switch t := v.(type) {
	case map[string]any:
		out := map[string]any{}
		for k, x := range t {
			if inProof && (k == "jws" || k == "proofValue" || k == "signature") {
				continue
			}
			out[k] = viewValue(x, k == "proof")
		}
		return out
	case []any:
		out := make([]any, len(t))
		for i, x := range t {
			out[i] = viewValue(x, inProof)
		}
		return out
	case string:
		if jwtRe.MatchString(t) {
			parts := strings.Split(t, ".")
			hb, e1 := b64dec(parts[0])
			pb, e2 := b64dec(parts[1])
			if e1 == nil && e2 == nil {
				var h, p any
				d1 := json.NewDecoder(bytes.NewReader(hb))
				d1.UseNumber()
				d2 := json.NewDecoder(bytes.NewReader(pb))
				d2.UseNumber()
				if d1.Decode(&h) == nil && d2.Decode(&p) == nil {
					return map[string]any{"$jwt": map[string]any{"header": viewValue(h, false), "claims": viewValue(p, false)}}
				}
			}
		}
		return t
	}
	return v
}
