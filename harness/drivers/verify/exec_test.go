// Running the real verifier on serialised documents, and the "view" the node has of a document.
package verify

import (
	"bytes"
	"encoding/json"
	"fmt"
	"runtime/debug"
	"strings"
	"time"

	"github.com/nuts-foundation/go-did/vc"
	"github.com/nuts-foundation/nuts-node/audit"
	vcrapi "github.com/nuts-foundation/nuts-node/vcr/api/vcr/v2"
	"github.com/nuts-foundation/nuts-node/vcr/credential"
)

type verdict struct {
	Accept   bool   `json:"accept"`
	Err      string `json:"err,omitempty"`
	Panic    string `json:"panic,omitempty"`
	ParseErr bool   `json:"parse_err,omitempty"`
	// presentations: the credentials the node hands out as verified, and those of them that the node's own
	// Verifier.Verify refuses when asked about them one by one (same flags, same validation time)
	Returned        int      `json:"returned,omitempty"`
	ReturnedInvalid []string `json:"returned_invalid,omitempty"`
}

// verifyVC feeds the serialised credential to the node the way the REST API does (vc.VerifiableCredential.UnmarshalJSON
// == ParseVerifiableCredential) and calls the real Verifier.Verify under recover().
func (n *node) verifyVC(raw string, allowUntrusted, checkSig bool, at *time.Time) (v verdict) {
	defer func() {
		if r := recover(); r != nil {
			v = verdict{Panic: fmt.Sprintf("%v\n%s", r, firstFrames(debug.Stack()))}
		}
	}()
	cred, err := vc.ParseVerifiableCredential(raw)
	if err != nil {
		return verdict{Err: "parse: " + err.Error(), ParseErr: true}
	}
	if err := n.verifier.Verify(*cred, allowUntrusted, checkSig, at); err != nil {
		return verdict{Err: err.Error()}
	}
	return verdict{Accept: true}
}

func (n *node) verifyVP(raw string, verifyVCs, allowUntrusted bool, at *time.Time) (v verdict) {
	defer func() {
		if r := recover(); r != nil {
			v = verdict{Panic: fmt.Sprintf("%v\n%s", r, firstFrames(debug.Stack()))}
		}
	}()
	pres, err := vc.ParseVerifiablePresentation(raw)
	if err != nil {
		return verdict{Err: "parse: " + err.Error(), ParseErr: true}
	}
	creds, err := n.verifier.VerifyVP(*pres, verifyVCs, allowUntrusted, at)
	if err != nil {
		return verdict{Err: err.Error()}
	}
	v = verdict{Accept: true, Returned: len(creds)}
	if verifyVCs {
		var raws []string
		for _, c := range creds {
			b, _ := json.Marshal(c)
			raws = append(raws, string(b))
		}
		v.ReturnedInvalid = n.checkReturned(raws, allowUntrusted, at)
	}
	return v
}

// checkReturned: every credential a node reports as verified must verify on its own.
func (n *node) checkReturned(raws []string, allowUntrusted bool, at *time.Time) []string {
	var bad []string
	for i, raw := range raws {
		raw = strings.TrimSpace(raw)
		if strings.HasPrefix(raw, `"`) {
			var s string
			_ = json.Unmarshal([]byte(raw), &s)
			raw = s
		}
		if r := n.verifyVC(raw, allowUntrusted, true, at); !r.Accept {
			bad = append(bad, fmt.Sprintf("credential %d of the verified list: %s%s", i, r.Err, r.Panic))
		}
	}
	return bad
}

// verifyVPAPI goes through the REST handler of POST /internal/vcr/v2/verifier/vp: the request body is decoded from JSON
// the way the echo binder does it and the JSON response is what a client sees.
func (n *node) verifyVPAPI(raw string, at *time.Time) (v verdict) {
	defer func() {
		if r := recover(); r != nil {
			v = verdict{Panic: fmt.Sprintf("%v\n%s", r, firstFrames(debug.Stack()))}
		}
	}()
	body := map[string]any{}
	raw = strings.TrimSpace(raw)
	if strings.HasPrefix(raw, "{") {
		body["verifiablePresentation"] = json.RawMessage(raw)
	} else {
		body["verifiablePresentation"] = raw
	}
	if at != nil {
		body["validAt"] = at.Format(time.RFC3339)
	}
	reqJSON, _ := json.Marshal(body)
	var req vcrapi.VPVerificationRequest
	if err := json.Unmarshal(reqJSON, &req); err != nil {
		return verdict{Err: "parse: " + err.Error(), ParseErr: true}
	}
	resp, err := n.api.VerifyVP(audit.TestContext(), vcrapi.VerifyVPRequestObject{Body: &req})
	if err != nil {
		return verdict{Err: "api error: " + err.Error()}
	}
	respJSON, err := json.Marshal(resp)
	if err != nil {
		return verdict{Err: "api response: " + err.Error()}
	}
	var out struct {
		Validity    bool              `json:"validity"`
		Message     *string           `json:"message"`
		Credentials []json.RawMessage `json:"credentials"`
	}
	if err := json.Unmarshal(respJSON, &out); err != nil {
		return verdict{Err: "api response: " + err.Error()}
	}
	if !out.Validity {
		msg := ""
		if out.Message != nil {
			msg = *out.Message
		}
		return verdict{Err: msg}
	}
	v = verdict{Accept: true, Returned: len(out.Credentials)}
	// the handler allows untrusted issuers unless the presenter is a did:nuts DID
	allowUntrusted := true
	if signer, err := credential.PresentationSigner(req.VerifiablePresentation); err == nil && signer.Method == "nuts" {
		allowUntrusted = false
	}
	var raws []string
	for _, c := range out.Credentials {
		raws = append(raws, string(c))
	}
	v.ReturnedInvalid = n.checkReturned(raws, allowUntrusted, at)
	return v
}

func firstFrames(stack []byte) string {
	lines := strings.Split(string(stack), "\n")
	var keep []string
	for _, l := range lines {
		if strings.Contains(l, "nuts-node") && !strings.Contains(l, "verifharness") {
			keep = append(keep, strings.TrimSpace(l))
		}
		if len(keep) >= 6 {
			break
		}
	}
	return strings.Join(keep, " | ")
}

// view returns what the node keeps of a document after parsing it: the re-marshalled parsed object (that is what the
// node stores, returns from its APIs, matches presentation definitions against and acts upon), for JWTs the decoded
// header and claims, in canonical JSON and WITHOUT the proof values (proof.jws / JWT signature), which are not claims.
// Two serialisations with the same view are the same document for the node (member order, white space, duplicate
// members that encoding/json drops, unknown top-level members that the go-did struct drops, singular/plural forms).
func view(kind, raw string) (string, error) {
	raw = strings.TrimSpace(raw)
	var marshalled []byte
	var err error
	if kind == "vp" {
		p, perr := vc.ParseVerifiablePresentation(raw)
		if perr != nil {
			return "", perr
		}
		marshalled, err = json.Marshal(p)
	} else {
		c, perr := vc.ParseVerifiableCredential(raw)
		if perr != nil {
			return "", perr
		}
		marshalled, err = json.Marshal(c)
	}
	if err != nil {
		return "", err
	}
	var v any
	dec := json.NewDecoder(bytes.NewReader(marshalled))
	dec.UseNumber()
	if err := dec.Decode(&v); err != nil {
		return "", err
	}
	v = viewValue(v, false)
	var b bytes.Buffer
	writeCanonical(&b, v)
	return b.String(), nil
}

func viewValue(v any, inProof bool) any {
	switch t := v.(type) {
	case map[string]any:
		out := map[string]any{}
		for k, x := range t {
			if inProof && (k == "jws" || k == "proofValue" || k == "signature") {
				continue
			}
			out[k] = viewValue(x, k == "proof")
		}
		return out
	case []any:
		out := make([]any, len(t))
		for i, x := range t {
			out[i] = viewValue(x, inProof)
		}
		return out
	case string:
		if jwtRe.MatchString(t) {
			parts := strings.Split(t, ".")
			hb, e1 := b64dec(parts[0])
			pb, e2 := b64dec(parts[1])
			if e1 == nil && e2 == nil {
				var h, p any
				d1 := json.NewDecoder(bytes.NewReader(hb))
				d1.UseNumber()
				d2 := json.NewDecoder(bytes.NewReader(pb))
				d2.UseNumber()
				if d1.Decode(&h) == nil && d2.Decode(&p) == nil {
					return map[string]any{"$jwt": map[string]any{"header": viewValue(h, false), "claims": viewValue(p, false)}}
				}
			}
		}
		return t
	}
	return v
}
