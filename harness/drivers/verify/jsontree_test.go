// Order- and duplicate-preserving JSON tree: the mutation operators work on the bytes a peer would send,
// not on a Go map (which could neither hold duplicate members nor keep the member order).
package verify

import (
	"bytes"
	"encoding/json"
	"fmt"
	"sort"
	"strconv"
	"strings"
)

type jkind int

const (
	jObject jkind = iota
	jArray
	jScalar
)

type jmember struct {
	Key string
	Val *jnode
}

type jnode struct {
	Kind    jkind
	Members []jmember       // jObject
	Elems   []*jnode        // jArray
	Raw     json.RawMessage // jScalar (string, number, true, false, null) exactly as encoded
}

func parseTree(data []byte) (*jnode, error) {
	dec := json.NewDecoder(bytes.NewReader(data))
	dec.UseNumber()
	n, err := parseValue(dec)
	if err != nil {
		return nil, err
	}
	if _, err := dec.Token(); err == nil {
		return nil, fmt.Errorf("trailing data")
	}
	return n, nil
}

func parseValue(dec *json.Decoder) (*jnode, error) {
	tok, err := dec.Token()
	if err != nil {
		return nil, err
	}
	switch t := tok.(type) {
	case json.Delim:
		switch t {
		case '{':
			n := &jnode{Kind: jObject}
			for dec.More() {
				kt, err := dec.Token()
				if err != nil {
					return nil, err
				}
				k, ok := kt.(string)
				if !ok {
					return nil, fmt.Errorf("non-string key")
				}
				v, err := parseValue(dec)
				if err != nil {
					return nil, err
				}
				n.Members = append(n.Members, jmember{k, v})
			}
			if _, err := dec.Token(); err != nil {
				return nil, err
			}
			return n, nil
		case '[':
			n := &jnode{Kind: jArray}
			for dec.More() {
				v, err := parseValue(dec)
				if err != nil {
					return nil, err
				}
				n.Elems = append(n.Elems, v)
			}
			if _, err := dec.Token(); err != nil {
				return nil, err
			}
			return n, nil
		}
		return nil, fmt.Errorf("unexpected delimiter %v", t)
	case string:
		b, _ := json.Marshal(t)
		return &jnode{Kind: jScalar, Raw: b}, nil
	case json.Number:
		return &jnode{Kind: jScalar, Raw: json.RawMessage(t.String())}, nil
	case bool:
		if t {
			return &jnode{Kind: jScalar, Raw: json.RawMessage("true")}, nil
		}
		return &jnode{Kind: jScalar, Raw: json.RawMessage("false")}, nil
	case nil:
		return &jnode{Kind: jScalar, Raw: json.RawMessage("null")}, nil
	}
	return nil, fmt.Errorf("unexpected token %v", tok)
}

func (n *jnode) write(b *bytes.Buffer) {
	switch n.Kind {
	case jObject:
		b.WriteByte('{')
		for i, m := range n.Members {
			if i > 0 {
				b.WriteByte(',')
			}
			k, _ := json.Marshal(m.Key)
			b.Write(k)
			b.WriteByte(':')
			m.Val.write(b)
		}
		b.WriteByte('}')
	case jArray:
		b.WriteByte('[')
		for i, e := range n.Elems {
			if i > 0 {
				b.WriteByte(',')
			}
			e.write(b)
		}
		b.WriteByte(']')
	default:
		b.Write(n.Raw)
	}
}

func (n *jnode) String() string {
	var b bytes.Buffer
	n.write(&b)
	return b.String()
}

func (n *jnode) clone() *jnode {
	c := &jnode{Kind: n.Kind}
	switch n.Kind {
	case jObject:
		c.Members = make([]jmember, len(n.Members))
		for i, m := range n.Members {
			c.Members[i] = jmember{m.Key, m.Val.clone()}
		}
	case jArray:
		c.Elems = make([]*jnode, len(n.Elems))
		for i, e := range n.Elems {
			c.Elems[i] = e.clone()
		}
	default:
		c.Raw = append(json.RawMessage(nil), n.Raw...)
	}
	return c
}

func jstr(s string) *jnode {
	b, _ := json.Marshal(s)
	return &jnode{Kind: jScalar, Raw: b}
}

func jraw(s string) *jnode { return &jnode{Kind: jScalar, Raw: json.RawMessage(s)} }

func (n *jnode) isString() bool { return n.Kind == jScalar && len(n.Raw) > 0 && n.Raw[0] == '"' }
func (n *jnode) isNumber() bool {
	return n.Kind == jScalar && len(n.Raw) > 0 && (n.Raw[0] == '-' || (n.Raw[0] >= '0' && n.Raw[0] <= '9'))
}
func (n *jnode) isBool() bool { return n.Kind == jScalar && (string(n.Raw) == "true" || string(n.Raw) == "false") }
func (n *jnode) isNull() bool { return n.Kind == jScalar && string(n.Raw) == "null" }

func (n *jnode) str() string {
	var s string
	_ = json.Unmarshal(n.Raw, &s)
	return s
}

func (n *jnode) get(key string) *jnode {
	if n == nil || n.Kind != jObject {
		return nil
	}
	for _, m := range n.Members {
		if m.Key == key {
			return m.Val
		}
	}
	return nil
}

func (n *jnode) has(key string) bool { return n.get(key) != nil }

// pathElem: Key != "" selects the (first) member of an object, otherwise Index selects an array element.
type pathElem struct {
	Key   string
	Index int
}

type jpath []pathElem

func (p jpath) String() string {
	var sb strings.Builder
	sb.WriteString("$")
	for _, e := range p {
		if e.Key != "" {
			sb.WriteString("." + e.Key)
		} else {
			sb.WriteString("[" + strconv.Itoa(e.Index) + "]")
		}
	}
	return sb.String()
}

func parsePath(s string) jpath {
	var p jpath
	s = strings.TrimPrefix(s, "$")
	for len(s) > 0 {
		if s[0] == '.' {
			s = s[1:]
			i := 0
			for i < len(s) && s[i] != '.' && s[i] != '[' {
				i++
			}
			p = append(p, pathElem{Key: s[:i]})
			s = s[i:]
		} else if s[0] == '[' {
			j := strings.IndexByte(s, ']')
			idx, _ := strconv.Atoi(s[1:j])
			p = append(p, pathElem{Index: idx})
			s = s[j+1:]
		} else {
			break
		}
	}
	return p
}

func (n *jnode) at(p jpath) *jnode {
	cur := n
	for _, e := range p {
		if cur == nil {
			return nil
		}
		if e.Key != "" {
			cur = cur.get(e.Key)
		} else {
			if cur.Kind != jArray || e.Index >= len(cur.Elems) {
				return nil
			}
			cur = cur.Elems[e.Index]
		}
	}
	return cur
}

// walk visits every node with its path (objects, arrays and scalars), parents before children.
func (n *jnode) walk(p jpath, fn func(p jpath, n *jnode)) {
	fn(p, n)
	switch n.Kind {
	case jObject:
		seen := map[string]bool{}
		for _, m := range n.Members {
			if seen[m.Key] {
				continue
			}
			seen[m.Key] = true
			m.Val.walk(append(append(jpath{}, p...), pathElem{Key: m.Key}), fn)
		}
	case jArray:
		for i, e := range n.Elems {
			e.walk(append(append(jpath{}, p...), pathElem{Index: i}), fn)
		}
	}
}

// canonical JSON (sorted members, duplicate members resolved the way encoding/json does: last one wins).
func canonicalJSON(data []byte) (string, error) {
	var v any
	dec := json.NewDecoder(bytes.NewReader(data))
	dec.UseNumber()
	if err := dec.Decode(&v); err != nil {
		return "", err
	}
	var b bytes.Buffer
	writeCanonical(&b, v)
	return b.String(), nil
}

func writeCanonical(b *bytes.Buffer, v any) {
	switch t := v.(type) {
	case map[string]any:
		keys := make([]string, 0, len(t))
		for k := range t {
			keys = append(keys, k)
		}
		sort.Strings(keys)
		b.WriteByte('{')
		for i, k := range keys {
			if i > 0 {
				b.WriteByte(',')
			}
			kb, _ := json.Marshal(k)
			b.Write(kb)
			b.WriteByte(':')
			writeCanonical(b, t[k])
		}
		b.WriteByte('}')
	case []any:
		b.WriteByte('[')
		for i, e := range t {
			if i > 0 {
				b.WriteByte(',')
			}
			writeCanonical(b, e)
		}
		b.WriteByte(']')
	default:
		x, _ := json.Marshal(t)
		b.Write(x)
	}
}
