// Driver for Verify.tla (C01): every abstract case TLC enumerates is built from REAL objects (issuer.Issue,
// wallet.BuildPresentation, issuer.Revoke, StatusList2021) on a producing node A and handed, serialised, to the real
// verifier of a second node B that holds the scripted DID document history, trust registry and revocations of the case.
// The driver reports the real verdict; the oracle (tools/props/verify.py) compares it with the verdict the property
// statement requires for the case.
package verify

import (
	"bufio"
	"encoding/json"
	"fmt"
	"hash/fnv"
	"io"
	"math/rand"
	"os"
	"sort"
	"strings"
	"testing"
	"time"

	ssi "github.com/nuts-foundation/go-did"
	"github.com/nuts-foundation/go-did/did"
	"github.com/nuts-foundation/go-did/vc"
	"github.com/nuts-foundation/nuts-node/audit"
	"github.com/nuts-foundation/nuts-node/vcr/credential"
	"github.com/nuts-foundation/nuts-node/vcr/holder"
	"github.com/nuts-foundation/nuts-node/vcr/issuer"
	"github.com/nuts-foundation/nuts-node/vcr/signature"
	"github.com/nuts-foundation/nuts-node/vcr/signature/proof"
	"github.com/sirupsen/logrus"
)

// ------------------------------------------------------------------------------------------------ input / output

type acase struct {
	Fam            string   `json:"fam"`
	Kind           string   `json:"kind"`
	Fmt            string   `json:"fmt"`
	Store          string   `json:"store"`
	KH             string   `json:"kh"`
	VM             string   `json:"vm"`
	Exp            int      `json:"exp"`
	At             int      `json:"at"`
	Trusted        bool     `json:"trusted"`
	AllowUntrusted bool     `json:"allowUntrusted"`
	Revoked        bool     `json:"revoked"`
	CheckSig       bool     `json:"checkSig"`
	Presenter      string   `json:"presenter"`
	Holder         string   `json:"holder"`
	Subjects       string   `json:"subjects"`
	VCFmt          string   `json:"vcFmt"`
	VCState        string   `json:"vcState"`
	VerifyVCs      bool     `json:"verifyVCs"`
	Where          string   `json:"where"`
	EFmt           string   `json:"efmt"`
	MClass         string   `json:"mclass"`
	PClass         string   `json:"pclass"`
	Seq            []string `json:"seq"`
	Entry          string   `json:"entry"`
	// families "status" / "race"
	List string `json:"list"`
	Size string `json:"size"`
	Pos  string `json:"pos"`
	Src  string `json:"src"`
	Ops  string `json:"ops"`
}

type caseIn struct {
	ID   string `json:"id"`
	Case acase  `json:"case"`
	Req  string `json:"req"`
	Impl string `json:"impl"`
	// family "race": the behaviour of Verify.tla (schedule of the operations on the status list)
	Sched []schedStep `json:"sched,omitempty"`
}

type only struct {
	Doc    string `json:"doc"`
	Method string `json:"method"`
	Path   string `json:"path"`
	Op     string `json:"op"`
	Pair   *only  `json:"pair,omitempty"`
}

type input struct {
	Seed        int64    `json:"seed"`
	Cases       []caseIn `json:"cases"`
	MethodMode  string   `json:"method_mode"`  // "one": one DID method per case chosen from the seed; "all": every applicable method
	MutFraction float64  `json:"mut_fraction"` // fraction of the concrete instances of an abstract mutation case that is executed
	MutMin      int      `json:"mut_min"`      // but at least this many
	Pairs       int      `json:"pairs"`        // number of random two-field mutations per base document (run by the shard that owns case "pairs")
	Only        *only    `json:"only,omitempty"`
}

type runOut struct {
	Method  string  `json:"method"`
	Verdict verdict `json:"verdict"`
	Note    string  `json:"note,omitempty"`
}

type mutHit struct {
	Doc     string `json:"doc"`
	Method  string `json:"method"`
	Path    string `json:"path"`
	Op      string `json:"op"`
	Summary string `json:"summary"`
	Class   string `json:"class"` // finding class of an accepted semantic mutant
	MClass  string `json:"mclass,omitempty"`
	PClass  string `json:"pclass,omitempty"`
	Where   string `json:"where,omitempty"`
	EFmt    string `json:"efmt,omitempty"`
	Mutant  string `json:"mutant,omitempty"`
	Panic   string `json:"panic,omitempty"`
	Pair    *only  `json:"pair,omitempty"`
	// two-field mutations: abstract class of both components and whether each of them ALONE changes the parsed form
	Components []component `json:"components,omitempty"`
}

type component struct {
	MClass      string `json:"mclass"`
	PClass      string `json:"pclass"`
	Where       string `json:"where"`
	EFmt        string `json:"efmt"`
	ChangesView bool   `json:"changes_view"`
}

type mutOut struct {
	Instances        int      `json:"instances"` // concrete mutants of this abstract class over all base documents
	Executed         int      `json:"executed"`
	Rejected         int      `json:"rejected"`
	AcceptedSameView int      `json:"accepted_same_view"` // the node's parsed form of the mutant equals the original: nothing it reports changed
	AcceptedChanged  []mutHit `json:"accepted_changed"`   // accepted although the parsed form differs
	AcceptedChangedN int      `json:"accepted_changed_n"`
	Panics           []mutHit `json:"panics"`
	Paths            int      `json:"paths"` // distinct concrete paths touched
	Sample           *mutHit  `json:"sample,omitempty"`
}

type caseOut struct {
	ID    string   `json:"id"`
	Runs  []runOut `json:"runs,omitempty"`
	Mut   *mutOut  `json:"mut,omitempty"`
	Error string   `json:"error,omitempty"`
	Evals int      `json:"evals"`
	Obs   []obs    `json:"obs,omitempty"`
	Drift []string `json:"drift,omitempty"`
}

// ------------------------------------------------------------------------------------------------ world

type party struct {
	id  did.DID
	kid string
}

type world struct {
	t     *testing.T
	a, b  *node
	base  time.Time
	seed  int64
	in    input
	sig   map[string]*party // signer d per method/kh
	named map[string]*party
	docs  map[string]string // cache of serialised documents by key
	notes map[string]string

	baseCache map[string][]*baseDoc
	sdocs     map[string]*statusDoc
}

func (w *world) T(i int) time.Time { return w.base.Add(time.Duration(i) * time.Hour) }
func (w *world) at(i int) *time.Time {
	if i >= 9 {
		return nil
	}
	t := w.T(i)
	return &t
}

var uri = ssi.MustParseURI

const orgType = "NutsOrganizationCredential"

func newWorld(t *testing.T, in input) *world {
	w := &world{t: t, seed: in.Seed, in: in, sig: map[string]*party{}, named: map[string]*party{}, docs: map[string]string{}, notes: map[string]string{}, sdocs: map[string]*statusDoc{}}
	w.a = newNode(t, "A", true, nil)
	w.b = newNode(t, "B", false, statusDoer(func() *node { return w.a }))
	w.base = time.Now().Add(-48 * time.Hour).Truncate(time.Second)
	return w
}

// newParty creates a DID with one signing key K; A always sees K as assertion key, B sees the given history.
func (w *world) newParty(method, label, kh string) *party {
	if method == "jwk" {
		idStr, kid := w.a.newJWKDID()
		return &party{id: did.MustParseDID(idStr), kid: kid}
	}
	return w.newPartyWithID(newDIDName(method, label), kh)
}

func (w *world) newPartyWithID(idStr string, kh string) *party {
	id := did.MustParseDID(idStr)
	p := &party{id: id, kid: idStr + "#K"}
	k := keyUse{kid: p.kid, pub: w.a.newKey(p.kid), assertion: true, authn: true}
	must(w.t, w.a.putDoc(buildDoc(id, []keyUse{k}), w.T(0)))
	other := func(name string) keyUse {
		kid := idStr + "#" + name
		return keyUse{kid: kid, pub: w.a.newKey(kid), assertion: true, authn: true}
	}
	switch kh {
	case "stable":
		must(w.t, w.b.putDoc(buildDoc(id, []keyUse{k}), w.T(0)))
	case "removed":
		must(w.t, w.b.putDoc(buildDoc(id, []keyUse{k}), w.T(0)))
		must(w.t, w.b.putDoc(buildDoc(id, []keyUse{other("K2")}), w.T(6)))
	case "late":
		k0 := other("K0")
		must(w.t, w.b.putDoc(buildDoc(id, []keyUse{k0}), w.T(0)))
		must(w.t, w.b.putDoc(buildDoc(id, []keyUse{k0, k}), w.T(2)))
	case "deactivated":
		must(w.t, w.b.putDoc(buildDoc(id, []keyUse{k}), w.T(0)))
		must(w.t, w.b.putDoc(buildDoc(id, nil), w.T(6)))
	case "authn-only":
		ka := k
		ka.assertion = false
		must(w.t, w.b.putDoc(buildDoc(id, []keyUse{other("K0"), ka}), w.T(0)))
	case "foreign":
		must(w.t, w.b.putDoc(buildDoc(id, []keyUse{other("K0")}), w.T(0)))
	case "unresolvable":
	default:
		w.t.Fatalf("unknown key history %s", kh)
	}
	return p
}

func must(t *testing.T, err error) {
	if err != nil {
		t.Helper()
		t.Fatal(err)
	}
}

func (w *world) signer(method, kh string) *party {
	key := method + "/" + kh
	if p, ok := w.sig[key]; ok {
		return p
	}
	p := w.newParty(method, "d-"+kh, kh)
	w.sig[key] = p
	return p
}

// fixed parties per method: attacker e, credential issuer i (trusted by B), untrusted issuer, issuer whose key B does not know, bystander x
func (w *world) who(method, role string) *party {
	key := method + "/" + role
	if p, ok := w.named[key]; ok {
		return p
	}
	kh := "stable"
	if role == "badissuer" {
		kh = "foreign"
	}
	p := w.newParty(method, role, kh)
	w.named[key] = p
	if role == "issuer2" {
		must(w.t, w.b.trust.AddTrust(uri(orgType), p.id.URI()))
	}
	if role == "issuer" {
		must(w.t, w.b.trust.AddTrust(uri(orgType), p.id.URI()))
		must(w.t, w.b.trust.AddTrust(uri("NutsAuthorizationCredential"), p.id.URI()))
	}
	if role == "badissuer" {
		must(w.t, w.b.trust.AddTrust(uri(orgType), p.id.URI()))
	}
	return p
}

// attacker returns the party that signs in place of `victim`: a resolvable DID (both nodes know its document and valid key)
// in the given textual relation to the victim's DID.
func (w *world) attacker(method, rel string, victim *party) *party {
	if rel == "unrelated" || rel == "other" {
		return w.who(method, "attacker")
	}
	key := "att/" + rel + "/" + victim.id.String()
	if p, ok := w.named[key]; ok {
		return p
	}
	p := w.newPartyWithID(relatedDID(victim.id.String(), rel), "stable")
	w.named[key] = p
	return p
}

func orgSubject(sub did.DID, name string) map[string]any {
	return map[string]any{"id": sub.String(), "organization": map[string]any{"name": name, "city": "Town"}}
}

func authzSubject(sub did.DID) map[string]any {
	return map[string]any{"id": sub.String(), "purposeOfUse": "test-service", "resources": []any{
		map[string]any{"path": "/Patient/1", "operations": []any{"read", "update"}, "userContext": true},
		map[string]any{"path": "/Task/2", "operations": []any{"read"}, "userContext": false}},
		"localParameters": map[string]any{"a": "b", "n": 1}}
}

func serial(v any, jwt bool) string {
	raw, _ := json.Marshal(v)
	if jwt {
		var s string
		_ = json.Unmarshal(raw, &s)
		return s
	}
	return string(raw)
}

func goFmt(kind, f string) string {
	if f == "jwt" {
		return "jwt_" + kind
	}
	return "ldp_" + kind
}

// issue runs the real issuer on node A.
func (w *world) issue(iss *party, typ string, subject map[string]any, f string, issuedAt int, expiresAt int, status bool) (string, error) {
	return w.issueWith(iss, []string{"https://www.w3.org/2018/credentials/v1", "https://nuts.nl/credentials/v1"}, typ, subject, f, issuedAt, expiresAt, status)
}

func (w *world) issueWith(iss *party, contexts []string, typ string, subject map[string]any, f string, issuedAt int, expiresAt int, status bool) (string, error) {
	issuer.TimeFunc = func() time.Time { return w.T(issuedAt) }
	defer func() { issuer.TimeFunc = time.Now }()
	var ctxs []ssi.URI
	for _, c := range contexts {
		ctxs = append(ctxs, uri(c))
	}
	tmpl := vc.VerifiableCredential{
		Context:           ctxs,
		Type:              []ssi.URI{uri("VerifiableCredential"), uri(typ)},
		Issuer:            iss.id.URI(),
		CredentialSubject: []any{subject},
	}
	if expiresAt > 0 {
		e := w.T(expiresAt)
		tmpl.ExpirationDate = &e
	}
	cred, err := w.a.issuer.Issue(audit.TestContext(), tmpl, issuer.CredentialOptions{Format: goFmt("vc", f), WithStatusListRevocation: status})
	if err != nil {
		return "", err
	}
	return serial(cred, f == "jwt"), nil
}

// forge: the attacker signs a credential that names `claimed` as issuer with HIS key and verification method (real signing code).
func (w *world) forge(claimed, attacker *party, subject map[string]any, f string, issuedAt, expiresAt int) (string, error) {
	ctx := audit.TestContext()
	id := claimed.id.String() + "#" + fmt.Sprintf("00000000-0000-4000-8000-%012x", rand.Int63n(1<<47))
	if f == "jwt" {
		claims := map[string]any{"iss": claimed.id.String(), "sub": subject["id"], "jti": id, "nbf": w.T(issuedAt).Unix(),
			"vc": map[string]any{"@context": []string{"https://www.w3.org/2018/credentials/v1", "https://nuts.nl/credentials/v1"},
				"type": []string{"VerifiableCredential", orgType}, "credentialSubject": []any{subject}}}
		if expiresAt > 0 {
			claims["exp"] = w.T(expiresAt).Unix()
		}
		return w.a.keys.SignJWT(ctx, claims, map[string]any{"typ": "JWT"}, attacker.kid)
	}
	doc := map[string]any{"@context": []any{"https://www.w3.org/2018/credentials/v1", "https://nuts.nl/credentials/v1"},
		"id": id, "type": []any{"VerifiableCredential", orgType}, "issuer": claimed.id.String(),
		"issuanceDate": w.T(issuedAt).Format(time.RFC3339), "credentialSubject": subject}
	if expiresAt > 0 {
		doc["expirationDate"] = w.T(expiresAt).Format(time.RFC3339)
	}
	signed, err := proof.NewLDProof(proof.ProofOptions{Created: w.T(issuedAt)}).Sign(ctx, doc,
		signature.JSONWebSignature2020{ContextLoader: w.a.ld.DocumentLoader(), Signer: w.a.keys}, attacker.kid)
	if err != nil {
		return "", err
	}
	raw, _ := json.Marshal(signed)
	return string(raw), nil
}

func (w *world) present(signer *party, holderField *party, f string, created, expires int, opts *proof.ProofOptions, creds ...string) (string, error) {
	var cs []vc.VerifiableCredential
	for _, c := range creds {
		p, err := vc.ParseVerifiableCredential(c)
		if err != nil {
			return "", err
		}
		cs = append(cs, *p)
	}
	po := proof.ProofOptions{Created: w.T(created)}
	if opts != nil {
		po = *opts
		po.Created = w.T(created)
	}
	if expires > 0 {
		e := w.T(expires)
		po.Expires = &e
	}
	o := holder.PresentationOptions{Format: goFmt("vp", f), ProofOptions: po}
	if holderField != nil {
		h := holderField.id.URI()
		o.Holder = &h
	}
	vp, err := w.a.wallet.BuildPresentation(audit.TestContext(), cs, o, &signer.id, false)
	if err != nil {
		return "", err
	}
	return serial(vp, f == "jwt"), nil
}

func credID(raw string) ssi.URI {
	c, err := vc.ParseVerifiableCredential(raw)
	if err != nil || c.ID == nil {
		return ssi.URI{}
	}
	return *c.ID
}

// revoke makes node B know that the credential is revoked, through the real path where one exists.
func (w *world) revoke(raw string, iss *party, method, kh string, own bool, hasStatus bool) string {
	id := credID(raw)
	ctx := audit.TestContext()
	switch {
	case hasStatus:
		if _, err := w.a.issuer.Revoke(ctx, id); err != nil {
			return "ERROR statuslist revoke: " + err.Error()
		}
		return "statuslist"
	case method == "nuts" && own:
		rev, err := w.a.issuer.Revoke(ctx, id)
		if err != nil {
			return "ERROR revoke: " + err.Error()
		}
		if kh == "stable" {
			// the revocation the node's own issuer produced must be accepted by any node that can resolve the signer
			if err := w.b.verifier.RegisterRevocation(*rev); err != nil {
				return "ERROR own revocation refused: " + err.Error()
			}
			return "registered"
		}
		if err := w.b.vstore.StoreRevocation(*rev); err != nil {
			return "ERROR store: " + err.Error()
		}
		return "stored"
	default:
		rev := credential.BuildRevocation(iss.id.URI(), id)
		if err := w.b.vstore.StoreRevocation(rev); err != nil {
			return "ERROR store: " + err.Error()
		}
		return "stored"
	}
}

func (w *world) trustOnB(iss *party, trusted bool) {
	if trusted {
		must(w.t, w.b.trust.AddTrust(uri(orgType), iss.id.URI()))
	} else {
		must(w.t, w.b.trust.RemoveTrust(uri(orgType), iss.id.URI()))
	}
}

func hash64(s string) uint64 {
	h := fnv.New64a()
	_, _ = h.Write([]byte(s))
	return h.Sum64()
}

// methods applicable to a case: the abstract attribute "store" selects the DID method whose documents live in that store
func (w *world) methodsFor(ci caseIn) []string {
	c := ci.Case
	pick := hash64(fmt.Sprintf("%d|%s", w.seed, ci.ID))
	switch c.Fam {
	case "status", "race":
		return []string{"web"}
	case "vc", "vpsig":
		if c.Store == "didstore" {
			return []string{"nuts"}
		}
		ms := []string{"web"}
		if c.Fam == "vc" && c.KH == "stable" && c.VM == "issuer" && (w.in.MethodMode == "all" || pick%4 == 0) {
			ms = append(ms, "jwk") // did:jwk has no history and no separate store
		}
		return ms
	}
	if w.in.MethodMode == "all" {
		return []string{"nuts", "web"}
	}
	return []string{[]string{"nuts", "web"}[pick%2]}
}

// ------------------------------------------------------------------------------------------------ vc / vp families

func (w *world) vcDoc(c acase, method string) (string, *party, error) {
	d := w.signer(method, c.KH)
	status := method == "web" && c.KH == "stable" && c.VM == "issuer"
	key := fmt.Sprintf("vc|%s|%s|%s|%s|%d|%v", method, c.Fmt, c.KH, c.VM, c.Exp, c.Revoked)
	if raw, ok := w.docs[key]; ok {
		return raw, d, nil
	}
	subj := orgSubject(w.who(method2(method), "bystander").id, "Org")
	var raw string
	var err error
	if c.VM == "issuer" {
		raw, err = w.issue(d, orgType, subj, c.Fmt, 4, c.Exp, status)
	} else {
		raw, err = w.forge(d, w.attacker(method2(method), c.VM, d), subj, c.Fmt, 4, c.Exp)
	}
	if err != nil {
		return "", d, err
	}
	if c.Revoked {
		w.notes[key] = w.revoke(raw, d, method, c.KH, c.VM == "issuer", status)
		if strings.HasPrefix(w.notes[key], "ERROR") {
			return "", d, fmt.Errorf("%s", w.notes[key])
		}
	}
	w.docs[key] = raw
	return raw, d, nil
}

// did:jwk has no separate document store: the other parties of such a case live in did:web
func method2(m string) string {
	if m == "jwk" {
		return "web"
	}
	return m
}

func (w *world) runVC(ci caseIn, method string) runOut {
	c := ci.Case
	raw, d, err := w.vcDoc(c, method)
	if err != nil {
		return runOut{Method: method, Note: "BUILD: " + err.Error()}
	}
	w.trustOnB(d, c.Trusted)
	v := w.b.verifyVC(raw, c.AllowUntrusted, c.CheckSig, w.at(c.At))
	key := fmt.Sprintf("vc|%s|%s|%s|%s|%d|%v", method, c.Fmt, c.KH, c.VM, c.Exp, c.Revoked)
	return runOut{Method: method, Verdict: v, Note: w.notes[key]}
}

func (w *world) vpSigDoc(c acase, method string) (string, error) {
	key := fmt.Sprintf("vpsig|%s|%s|%s|%s|%s|%s|%d", method, c.Fmt, c.KH, c.Presenter, c.Holder, c.Subjects, c.Exp)
	if raw, ok := w.docs[key]; ok {
		return raw, nil
	}
	d := w.signer(method, c.KH)
	iss := w.who(method, "issuer")
	x := w.who(method, "bystander")
	var creds []string
	mk := func(sub *party, name string, f string) error {
		k := fmt.Sprintf("carried|%s|%s|%s|%s", method, sub.id.String(), name, f)
		if _, ok := w.docs[k]; !ok {
			raw, err := w.issue(iss, orgType, orgSubject(sub.id, name), f, 2, 0, false)
			if err != nil {
				return err
			}
			w.docs[k] = raw
		}
		creds = append(creds, w.docs[k])
		return nil
	}
	var err error
	switch c.Subjects {
	case "one":
		err = mk(d, "One", "ldp")
	case "two-same":
		if err = mk(d, "One", "ldp"); err == nil {
			err = mk(d, "Two", "jwt")
		}
	case "two-mixed":
		if err = mk(d, "One", "ldp"); err == nil {
			err = mk(x, "Else", "ldp")
		}
	}
	if err != nil {
		return "", err
	}
	signer := d
	if c.Presenter != "subject" {
		signer = w.attacker(method, c.Presenter, d)
	}
	var hf *party
	switch c.Holder {
	case "signer":
		hf = signer
	case "other":
		hf = x
	}
	raw, err := w.present(signer, hf, c.Fmt, 4, c.Exp, nil, creds...)
	if err != nil {
		return "", err
	}
	w.docs[key] = raw
	return raw, nil
}

func (w *world) vpVcDoc(c acase, method string) (string, error) {
	key := fmt.Sprintf("vpvc|%s|%s|%s|%s|%s", method, c.Fmt, c.VCFmt, c.VCState, c.Subjects)
	if raw, ok := w.docs[key]; ok {
		return raw, nil
	}
	d := w.signer(method, "stable")
	iss := w.who(method, "issuer")
	var creds []string
	if c.Subjects == "two-same" {
		good, err := w.issue(iss, orgType, orgSubject(d.id, "Good"), "ldp", 2, 0, false)
		if err != nil {
			return "", err
		}
		creds = append(creds, good)
	}
	var raw string
	var err error
	switch c.VCState {
	case "ok":
		raw, err = w.issue(iss, orgType, orgSubject(d.id, "Ok"), c.VCFmt, 2, 0, false)
	case "expired":
		raw, err = w.issue(iss, orgType, orgSubject(d.id, "Expired"), c.VCFmt, 2, 4, false)
	case "notyet":
		raw, err = w.issue(iss, orgType, orgSubject(d.id, "NotYet"), c.VCFmt, 8, 0, false)
	case "revoked":
		raw, err = w.issue(iss, orgType, orgSubject(d.id, "Revoked"), c.VCFmt, 2, 0, false)
		if err == nil {
			if n := w.revoke(raw, iss, method, "stable", true, false); strings.HasPrefix(n, "ERROR") {
				err = fmt.Errorf("%s", n)
			}
		}
	case "untrusted":
		raw, err = w.issue(w.who(method, "untrusted"), orgType, orgSubject(d.id, "Untrusted"), c.VCFmt, 2, 0, false)
	case "badsig":
		raw, err = w.issue(w.who(method, "badissuer"), orgType, orgSubject(d.id, "BadSig"), c.VCFmt, 2, 0, false)
	default:
		if rel, ok := strings.CutPrefix(c.VCState, "forged-"); ok {
			raw, err = w.forge(iss, w.attacker(method, rel, iss), orgSubject(d.id, "Forged"), c.VCFmt, 2, 0)
		} else {
			err = fmt.Errorf("unknown state of the carried credential: %s", c.VCState)
		}
	}
	if err != nil {
		return "", err
	}
	creds = append(creds, raw)
	vp, err := w.present(d, d, c.Fmt, 4, 0, nil, creds...)
	if err != nil {
		return "", err
	}
	w.docs[key] = vp
	return vp, nil
}

func (w *world) runVP(ci caseIn, method string) runOut {
	c := ci.Case
	var raw string
	var err error
	switch c.Fam {
	case "vpsig":
		raw, err = w.vpSigDoc(c, method)
	case "vpmulti":
		raw, err = w.vpMultiDoc(c, method)
	default:
		raw, err = w.vpVcDoc(c, method)
	}
	if err != nil {
		return runOut{Method: method, Note: "BUILD: " + err.Error()}
	}
	if c.Entry == "api" {
		return runOut{Method: method, Verdict: w.b.verifyVPAPI(raw, w.at(c.At))}
	}
	v := w.b.verifyVP(raw, c.VerifyVCs, c.AllowUntrusted, w.at(c.At))
	return runOut{Method: method, Verdict: v}
}

// tamper returns a copy of a credential with the SAME id and the copied proof / signature but altered claims.
func tamper(raw string, f string, name string, strip bool) (string, error) {
	alter := func(subject *jnode) error {
		if subject != nil && subject.Kind == jArray && len(subject.Elems) > 0 {
			subject = subject.Elems[0]
		}
		org := subject.get("organization")
		if org == nil {
			return fmt.Errorf("tamper: no organization")
		}
		for i := range org.Members {
			if org.Members[i].Key == "name" {
				org.Members[i].Val = jstr(name)
			}
		}
		return nil
	}
	if f == "jwt" {
		parts := strings.Split(raw, ".")
		pb, err := b64dec(parts[1])
		if err != nil {
			return "", err
		}
		pt, err := parseTree(pb)
		if err != nil {
			return "", err
		}
		if err := alter(pt.at(jpath{{Key: "vc"}, {Key: "credentialSubject"}})); err != nil {
			return "", err
		}
		sig := parts[2]
		if strip {
			sig = ""
		}
		return parts[0] + "." + b64enc([]byte(pt.String())) + "." + sig, nil
	}
	root, err := parseTree([]byte(raw))
	if err != nil {
		return "", err
	}
	if err := alter(root.get("credentialSubject")); err != nil {
		return "", err
	}
	if strip {
		for i := range root.Members {
			if root.Members[i].Key == "proof" {
				root.Members = append(root.Members[:i], root.Members[i+1:]...)
				break
			}
		}
	}
	return root.String(), nil
}

// vpMultiDoc: the holder assembles a presentation of several credentials (the wallet signs whatever it is given).
func (w *world) vpMultiDoc(c acase, method string) (string, error) {
	key := fmt.Sprintf("vpmulti|%s|%s|%s|%s", method, c.Fmt, c.VCFmt, strings.Join(c.Seq, ","))
	if raw, ok := w.docs[key]; ok {
		return raw, nil
	}
	d := w.signer(method, "stable")
	iss := w.who(method, "issuer")
	elem := func(class string) (string, error) {
		k := fmt.Sprintf("elem|%s|%s|%s", method, c.VCFmt, class)
		if raw, ok := w.docs[k]; ok {
			return raw, nil
		}
		genuine := func() (string, error) {
			gk := fmt.Sprintf("elem|%s|%s|genuine", method, c.VCFmt)
			if raw, ok := w.docs[gk]; ok {
				return raw, nil
			}
			raw, err := w.issue(iss, orgType, orgSubject(d.id, "One"), c.VCFmt, 2, 0, false)
			if err == nil {
				w.docs[gk] = raw
			}
			return raw, err
		}
		var raw string
		var err error
		switch class {
		case "genuine", "duplicate":
			raw, err = genuine()
		case "genuine2":
			raw, err = w.issue(iss, orgType, orgSubject(d.id, "Two"), c.VCFmt, 2, 0, false)
		case "other-issuer":
			raw, err = w.issue(w.who(method, "issuer2"), orgType, orgSubject(d.id, "Three"), c.VCFmt, 2, 0, false)
		case "expired":
			raw, err = w.issue(iss, orgType, orgSubject(d.id, "Expired"), c.VCFmt, 2, 4, false)
		case "other-subject":
			raw, err = w.issue(iss, orgType, orgSubject(w.who(method, "bystander").id, "Else"), c.VCFmt, 2, 0, false)
		case "tampered", "tampered2", "stripped":
			if raw, err = genuine(); err == nil {
				raw, err = tamper(raw, c.VCFmt, map[string]string{"tampered": "Evil Corp", "tampered2": "Evil Inc", "stripped": "Evil Ltd"}[class], class == "stripped")
			}
		default:
			err = fmt.Errorf("unknown element class %s", class)
		}
		if err == nil {
			w.docs[k] = raw
		}
		return raw, err
	}
	var creds []string
	for _, class := range c.Seq {
		raw, err := elem(class)
		if err != nil {
			return "", err
		}
		creds = append(creds, raw)
	}
	raw, err := w.present(d, d, c.Fmt, 4, 0, nil, creds...)
	if err != nil {
		return "", err
	}
	w.docs[key] = raw
	return raw, nil
}

// ------------------------------------------------------------------------------------------------ mutation family

type baseDoc struct {
	Name   string
	Method string
	Kind   string
	Fmt    string
	Raw    string
	Env    *mutEnv
	// how the document is verified (default: trust required, at = T(5))
	AllowUntrusted bool
	Now            bool
	view           string
	all            []mutant
}

func (w *world) verifyDoc(bd *baseDoc, raw string) verdict {
	at := w.at(5)
	if bd.Now {
		at = nil
	}
	if bd.Kind == "vp" {
		return w.b.verifyVP(raw, true, bd.AllowUntrusted, at)
	}
	return w.b.verifyVC(raw, bd.AllowUntrusted, true, at)
}

// baseDocs builds the own output that is mutated: credentials and presentations in both formats, with nested claims,
// arrays, status list entry, expiry, proof options (challenge, domain, nonce, expires), embedded credentials of both formats.
func (w *world) baseDocs(kind, f, method string) ([]*baseDoc, error) {
	key := "base|" + kind + "|" + f + "|" + method
	if _, ok := w.docs[key]; ok {
		return w.baseCache[key], nil
	}
	iss := w.who(method, "issuer")
	d := w.signer(method, "stable")
	att := w.who(method, "attacker")
	var out []*baseDoc
	envFor := func(kind, f string) *mutEnv {
		return &mutEnv{OtherDID: att.id.String(), OtherKid: att.kid, Kind: kind, Fmt: f}
	}
	add := func(name, kind, f, raw string, env *mutEnv) {
		out = append(out, &baseDoc{Name: name, Method: method, Kind: kind, Fmt: f, Raw: raw, Env: env})
	}
	if kind == "vc" {
		org, err := w.issue(iss, orgType, orgSubject(d.id, "Org"), f, 4, 0, method == "web")
		if err != nil {
			return nil, err
		}
		authz, err := w.issue(iss, "NutsAuthorizationCredential", authzSubject(d.id), f, 4, 6, false)
		if err != nil {
			return nil, err
		}
		other, err := w.issue(iss, orgType, orgSubject(att.id, "Other"), f, 4, 0, false)
		if err != nil {
			return nil, err
		}
		ura, err := w.issueWith(iss, []string{"https://www.w3.org/2018/credentials/v1", "https://nuts.nl/credentials/2024"}, "NutsUraCredential",
			map[string]any{"id": d.id.String(), "organization": map[string]any{"ura": "00001234", "name": "Org", "city": "Town"}}, f, 4, 0, false)
		if err != nil {
			return nil, err
		}
		must(w.t, w.b.trust.AddTrust(uri("NutsUraCredential"), iss.id.URI()))
		for _, x := range []struct{ n, raw string }{{"org", org}, {"authz", authz}, {"ura", ura}} {
			env := envFor("vc", f)
			if f == "ldp" {
				env.OtherProof = mustTree(other).get("proof")
			} else {
				env.OtherSig = strings.Split(other, ".")[2]
			}
			add("vc-"+f+"-"+x.n, "vc", f, x.raw, env)
		}
		if f == "ldp" && method == "web" {
			// the status list credential the issuer serves for the credentials above (own output, too)
			sl, err := w.a.issuer.StatusList(audit.TestContext(), iss.id, 1)
			if err != nil {
				return nil, fmt.Errorf("OWN-OUTPUT status list: %w", err)
			}
			out = append(out, &baseDoc{Name: "vc-ldp-statuslist", Method: method, Kind: "vc", Fmt: "ldp", Raw: serial(sl, false), Env: envFor("vc", "ldp"), AllowUntrusted: true, Now: true})
		}
	} else {
		mkvc := func(sub *party, name, vf string) (string, error) {
			return w.issue(iss, orgType, orgSubject(sub.id, name), vf, 2, 0, false)
		}
		var e error
		get := func(sub *party, name, vf string) string {
			s, err := mkvc(sub, name, vf)
			if err != nil {
				e = err
			}
			return s
		}
		ldpVC, jwtVC := get(d, "One", "ldp"), get(d, "Two", "jwt")
		sib := map[string]string{"ldp": get(d, "Sibling", "ldp"), "jwt": get(d, "Sibling", "jwt")}
		oth := map[string]string{"ldp": get(att, "Other", "ldp"), "jwt": get(att, "Other", "jwt")}
		if e != nil {
			return nil, e
		}
		ch, dom := "challenge-1", "verifier.example"
		po := &proof.ProofOptions{Challenge: &ch, Domain: &dom, Nonce: &ch}
		for _, x := range []struct {
			n     string
			creds []string
		}{{"both", []string{ldpVC, jwtVC}}, {"jwt-only", []string{jwtVC}}, {"ldp-only", []string{ldpVC}}} {
			raw, err := w.present(d, d, f, 4, 8, po, x.creds...)
			if err != nil {
				return nil, err
			}
			otherVP, err := w.present(d, d, f, 4, 8, po, sib["ldp"])
			if err != nil {
				return nil, err
			}
			env := envFor("vp", f)
			env.Siblings, env.Others = sib, oth
			if f == "ldp" {
				env.OtherProof = mustTree(otherVP).get("proof")
			} else {
				env.OtherSig = strings.Split(otherVP, ".")[2]
			}
			add("vp-"+f+"-"+x.n, "vp", f, raw, env)
		}
	}
	for _, bd := range out {
		v := w.verifyDoc(bd, bd.Raw)
		if !v.Accept {
			return nil, fmt.Errorf("OWN-OUTPUT base document %s (%s) is refused: %s %s", bd.Name, method, v.Err, v.Panic)
		}
		vw, err := view(bd.Kind, bd.Raw)
		if err != nil {
			return nil, fmt.Errorf("view of base document %s: %w", bd.Name, err)
		}
		bd.view = vw
		allMutants(bd.Raw, bd.Env, func(m mutant) { bd.all = append(bd.all, m) })
	}
	w.docs[key] = "built"
	if w.baseCache == nil {
		w.baseCache = map[string][]*baseDoc{}
	}
	w.baseCache[key] = out
	return out, nil
}

// findingClass names what kind of accepted tampering a mutant is (used in the violation signature).
func findingClass(bd *baseDoc, m mutant) string {
	switch {
	case m.MClass == "add-undefined-member":
		return "add-undefined-member"
	case m.MClass == "swap" && m.PClass == "embedded-list" && bd.Fmt == "ldp" && m.EFmt == "jwt":
		return "swap-embedded-jwt-credential"
	}
	return m.MClass
}

func (w *world) execMutant(bd *baseDoc, m mutant, mo *mutOut, second *mutant) {
	mo.Executed++
	v := w.verifyDoc(bd, m.Doc)
	hit := mutHit{Doc: bd.Name, Method: bd.Method, Path: m.Path, Op: m.Op, Summary: m.Summary, MClass: m.MClass, PClass: m.PClass, Where: m.Where, EFmt: m.EFmt}
	if second != nil {
		hit.Pair = &only{Path: second.Path, Op: second.Op}
		hit.Summary += " + " + second.Summary
		for _, x := range []mutant{first(bd, m), *second} {
			xv, err := view(bd.Kind, x.Doc)
			hit.Components = append(hit.Components, component{MClass: x.MClass, PClass: x.PClass, Where: x.Where, EFmt: x.EFmt, ChangesView: err != nil || xv != bd.view})
		}
	}
	if mo.Sample == nil {
		s := hit
		s.Mutant = truncate(m.Doc, 1500)
		mo.Sample = &s
	}
	if v.Panic != "" {
		hit.Panic = v.Panic
		hit.Mutant = m.Doc
		if len(mo.Panics) < 3 {
			mo.Panics = append(mo.Panics, hit)
		}
		mo.Rejected++ // a crash is not an acceptance; it is reported separately
		return
	}
	if !v.Accept {
		mo.Rejected++
		return
	}
	mv, err := view(bd.Kind, m.Doc)
	if err == nil && mv == bd.view {
		mo.AcceptedSameView++
		return
	}
	mo.AcceptedChangedN++
	hit.Class = findingClass(bd, m)
	if second != nil {
		hit.Class += "+" + findingClass(bd, *second)
	}
	hit.Mutant = m.Doc
	// keep one example per finding class
	for _, h := range mo.AcceptedChanged {
		if h.Class == hit.Class && h.Doc == hit.Doc {
			return
		}
	}
	if len(mo.AcceptedChanged) < 8 {
		mo.AcceptedChanged = append(mo.AcceptedChanged, hit)
	}
}

// first returns the single mutant a pair started from (execMutant gets it with the document of the pair)
func first(bd *baseDoc, pm mutant) mutant {
	for _, m := range bd.all {
		if m.Path == pm.Path && m.Op == pm.Op {
			return m
		}
	}
	return pm
}

func truncate(s string, n int) string {
	if len(s) > n {
		return s[:n] + "..."
	}
	return s
}

func (w *world) mutMethods(ci caseIn) []string {
	if w.in.MethodMode == "all" {
		return []string{"nuts", "web"}
	}
	// one method per (kind, fmt): all abstract cases of a shard share the base documents
	c := ci.Case
	return []string{[]string{"nuts", "web"}[hash64(fmt.Sprintf("%d|%s|%s", w.seed, c.Kind, c.Fmt))%2]}
}

func (w *world) runMut(ci caseIn) caseOut {
	c := ci.Case
	out := caseOut{ID: ci.ID, Mut: &mutOut{}}
	paths := map[string]bool{}
	for _, method := range w.mutMethods(ci) {
		docs, err := w.baseDocs(c.Kind, c.Fmt, method)
		if err != nil {
			out.Error = err.Error()
			return out
		}
		for _, bd := range docs {
			var inst []mutant
			for _, m := range bd.all {
				if m.MClass == c.MClass && m.PClass == c.PClass && m.Where == c.Where && m.EFmt == c.EFmt {
					inst = append(inst, m)
				}
			}
			out.Mut.Instances += len(inst)
			if len(inst) == 0 {
				continue
			}
			// seeded sample; every concrete path of the class is touched at least once
			rnd := rand.New(rand.NewSource(int64(hash64(fmt.Sprintf("%d|%s|%s|%s", w.seed, ci.ID, bd.Name, method)))))
			rnd.Shuffle(len(inst), func(i, j int) { inst[i], inst[j] = inst[j], inst[i] })
			want := int(float64(len(inst))*w.in.MutFraction + 0.999)
			if want < w.in.MutMin {
				want = w.in.MutMin
			}
			seenPath := map[string]bool{}
			n := 0
			for _, m := range inst {
				if n >= want && seenPath[m.Path] {
					continue
				}
				seenPath[m.Path] = true
				paths[bd.Name+m.Path] = true
				n++
				w.execMutant(bd, m, out.Mut, nil)
			}
		}
	}
	out.Mut.Paths = len(paths)
	out.Evals = out.Mut.Executed
	return out
}

// runStatusList: the status list credential the node's issuer serves must verify on any node that can resolve the signer.
func (w *world) runStatusList(ci caseIn) caseOut {
	out := caseOut{ID: ci.ID}
	p := w.newParty("web", "slissuer", "stable")
	if _, err := w.issue(p, orgType, orgSubject(w.who("web", "bystander").id, "Org"), "ldp", 4, 0, true); err != nil {
		out.Error = err.Error()
		return out
	}
	sl, err := w.a.issuer.StatusList(audit.TestContext(), p.id, 1)
	if err != nil {
		out.Error = "OWN-OUTPUT status list: " + err.Error()
		return out
	}
	out.Runs = append(out.Runs, runOut{Method: "web", Verdict: w.b.verifyVC(serial(sl, false), true, true, nil)})
	out.Evals = 1
	return out
}

// runPairs: random two-field mutations (two single mutations of different members applied to the same document).
func (w *world) runPairs(ci caseIn) caseOut {
	out := caseOut{ID: ci.ID, Mut: &mutOut{}}
	for _, kf := range [][2]string{{"vc", "ldp"}, {"vc", "jwt"}, {"vp", "ldp"}, {"vp", "jwt"}} {
		method := []string{"nuts", "web"}[hash64(fmt.Sprintf("%d|pairs|%s|%s", w.seed, kf[0], kf[1]))%2]
		docs, err := w.baseDocs(kf[0], kf[1], method)
		if err != nil {
			out.Error = err.Error()
			return out
		}
		for _, bd := range docs {
			rnd := rand.New(rand.NewSource(int64(hash64(fmt.Sprintf("%d|pairs|%s", w.seed, bd.Name)))))
			for k := 0; k < w.in.Pairs && len(bd.all) > 1; k++ {
				m1 := bd.all[rnd.Intn(len(bd.all))]
				m2 := bd.all[rnd.Intn(len(bd.all))]
				doc, ok := applyPair(bd, m1, m2)
				if !ok {
					continue
				}
				out.Mut.Instances++
				pm := m1
				pm.Doc = doc
				w.execMutant(bd, pm, out.Mut, &m2)
			}
		}
	}
	out.Evals = out.Mut.Executed
	return out
}

// applyPair applies the second single mutation to the result of the first one. Mutants are regenerated from the mutated
// document; the second one is identified by (path, op). Only pairs on different members are used.
func applyPair(bd *baseDoc, m1, m2 mutant) (string, bool) {
	if m1.Path == m2.Path || strings.HasPrefix(m1.Path, m2.Path) || strings.HasPrefix(m2.Path, m1.Path) {
		return "", false
	}
	var res string
	allMutants(m1.Doc, bd.Env, func(m mutant) {
		if res == "" && m.Path == m2.Path && m.Op == m2.Op {
			res = m.Doc
		}
	})
	return res, res != ""
}

func (w *world) runOnly(o *only) caseOut {
	out := caseOut{ID: "only", Mut: &mutOut{}}
	parts := strings.SplitN(o.Doc, "-", 3) // vc-ldp-org
	docs, err := w.baseDocs(parts[0], parts[1], o.Method)
	if err != nil {
		out.Error = err.Error()
		return out
	}
	for _, bd := range docs {
		if bd.Name != o.Doc {
			continue
		}
		for _, m := range bd.all {
			if m.Path == o.Path && m.Op == o.Op {
				if o.Pair != nil {
					for _, m2 := range bd.all {
						if m2.Path == o.Pair.Path && m2.Op == o.Pair.Op {
							if doc, ok := applyPair(bd, m, m2); ok {
								pm := m
								pm.Doc = doc
								out.Mut.Instances++
								w.execMutant(bd, pm, out.Mut, &m2)
							}
							break
						}
					}
				} else {
					out.Mut.Instances++
					w.execMutant(bd, m, out.Mut, nil)
				}
				break
			}
		}
	}
	out.Evals = out.Mut.Executed
	return out
}

// ------------------------------------------------------------------------------------------------ entry point

func TestDriver(t *testing.T) {
	inPath, outPath := os.Getenv("VERIF_IN"), os.Getenv("VERIF_OUT")
	if inPath == "" {
		t.Skip("VERIF_IN not set")
	}
	logrus.SetLevel(logrus.PanicLevel)
	logrus.SetOutput(io.Discard)
	if devnull, err := os.OpenFile(os.DevNull, os.O_WRONLY, 0); err == nil {
		os.Stderr = devnull // the audit logger (created lazily) writes every key operation to stderr
	}
	raw, err := os.ReadFile(inPath)
	must(t, err)
	var in input
	must(t, json.Unmarshal(raw, &in))
	if in.MutMin == 0 {
		in.MutMin = 3
	}
	if in.MutFraction == 0 {
		in.MutFraction = 1
	}
	rand.Seed(in.Seed)
	w := newWorld(t, in)
	out, err := os.Create(outPath)
	must(t, err)
	defer out.Close()
	bw := bufio.NewWriter(out)
	defer bw.Flush()
	enc := json.NewEncoder(bw)

	if in.Only != nil {
		must(t, enc.Encode(w.runOnly(in.Only)))
		return
	}
	// phase 1: build every document (and revoke what has to be revoked) BEFORE node B verifies anything: B caches the
	// status lists it downloads for 15 minutes
	sort.SliceStable(in.Cases, func(i, j int) bool { return in.Cases[i].ID < in.Cases[j].ID })
	buildErr := map[string]string{}
	for _, ci := range in.Cases {
		for _, m := range w.methodsFor(ci) {
			var err error
			switch ci.Case.Fam {
			case "vc":
				_, _, err = w.vcDoc(ci.Case, m)
			case "vpsig":
				_, err = w.vpSigDoc(ci.Case, m)
			case "vpvc":
				_, err = w.vpVcDoc(ci.Case, m)
			case "vpmulti":
				_, err = w.vpMultiDoc(ci.Case, m)
			case "status":
				_, err = w.statusDoc(ci.Case)
			}
			if err != nil {
				buildErr[ci.ID] = err.Error()
			}
		}
	}
	// phase 2
	for _, ci := range in.Cases {
		var res caseOut
		switch ci.Case.Fam {
		case "vc", "vpsig", "vpvc", "vpmulti":
			res = caseOut{ID: ci.ID}
			if e, bad := buildErr[ci.ID]; bad {
				res.Error = "cannot build the case: " + e
			} else {
				for _, m := range w.methodsFor(ci) {
					if ci.Case.Fam == "vc" {
						res.Runs = append(res.Runs, w.runVC(ci, m))
					} else {
						res.Runs = append(res.Runs, w.runVP(ci, m))
					}
					res.Evals++
				}
			}
		case "status":
			res = caseOut{ID: ci.ID, Evals: 1}
			if e, bad := buildErr[ci.ID]; bad && strings.HasPrefix(e, "OWN-OUTPUT") {
				res.Error = e
			} else if bad {
				res.Error = "cannot build the case: " + e
			} else {
				res.Runs = append(res.Runs, w.runStatus(ci))
			}
		case "race":
			res = w.runRace(ci)
		case "mut":
			res = w.runMut(ci)
		case "pairs":
			res = w.runPairs(ci)
		case "statuslist":
			res = w.runStatusList(ci)
		default:
			res = caseOut{ID: ci.ID, Error: "unknown family " + ci.Case.Fam}
		}
		must(t, enc.Encode(res))
	}
}
