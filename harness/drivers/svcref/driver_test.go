// Driver of X02 (spec/ServiceRef.tla): replays TLC-generated cases on the real service reference resolver, the real
// managed-document validator and the real didman, records observables + a trace per case.
//
// in : {"cases":[{"id","fam","docs":{name:{"st","svc":{type:endpoint}}},"managed":[..],"steps":[step..]}]}
//      step: {"op":"resolve","d","t","f","max","nets":[{"after":k,"d","doc"}]} | {"op":"add","d","t","e"} |
//            {"op":"delete","d","t"} | {"op":"getc","d","ct","n","rr"}
// out: one line per case {"id","steps":[result..],"obs":[{"docs","unres"}..],"trace":[event..],"error"}
//      obs[0] = after set-up, obs[i] = after step i.
package svcref

import (
	"bufio"
	"encoding/json"
	"errors"
	"fmt"
	"io"
	"net/url"
	"os"
	"strings"
	"testing"
	"time"

	ssi "github.com/nuts-foundation/go-did"
	"github.com/nuts-foundation/go-did/did"
	"github.com/nuts-foundation/nuts-node/didman"
	"github.com/nuts-foundation/nuts-node/vdr/didnuts"
	"github.com/nuts-foundation/nuts-node/vdr/resolver"
	"github.com/sirupsen/logrus"
)

type step struct {
	Op   string    `json:"op"`
	D    string    `json:"d"`
	T    string    `json:"t,omitempty"`
	F    string    `json:"f,omitempty"`
	Max  int       `json:"max,omitempty"`
	Nets []netStep `json:"nets,omitempty"`
	E    *endpoint `json:"e,omitempty"`
	Ct   string    `json:"ct,omitempty"`
	N    string    `json:"n,omitempty"`
	Rr   bool      `json:"rr,omitempty"`
	// special-character round trip (family T): concrete service types
	Types []string `json:"types,omitempty"`
}

type tcase struct {
	ID      string            `json:"id"`
	Fam     string            `json:"fam"`
	Docs    map[string]absDoc `json:"docs"`
	Managed []string          `json:"managed"`
	Steps   []step            `json:"steps"`
}

type input struct {
	Cases   []tcase `json:"cases"`
	Observe bool    `json:"observe"` // observe documents + usable services after set-up and after every mutating step
}

type stepResult struct {
	Op    string    `json:"op"`
	V     string    `json:"v"`               // verdict class
	Cause string    `json:"cause,omitempty"` // class of the wrapped error (invalid / not-an-endpoint)
	Msg   string    `json:"msg,omitempty"`
	At    []string  `json:"at,omitempty"` // resolve: (did name, type) of the returned service
	K     string    `json:"k,omitempty"`  // kind of the returned endpoint: url | ref | map | raw
	E     *endpoint `json:"e,omitempty"`  // returned endpoint, abstracted
	Reads []string  `json:"reads"`        // store reads during the step, in order
	Pend  int       `json:"pending_nets,omitempty"`
	Us    int64     `json:"us"`
	RT    []rtRes   `json:"rt,omitempty"`
}

type rtRes struct {
	Type  string `json:"type"`
	Via   string `json:"via"` // "direct": the ssi.URI of MakeServiceReference; "string": its String() parsed again (as stored in a document)
	V     string `json:"v"`
	Found string `json:"found,omitempty"`
	Msg   string `json:"msg,omitempty"`
}

type obs struct {
	Docs  map[string]absDoc `json:"docs"`
	Unres [][]string        `json:"unres"`
}

type caseResult struct {
	ID    string       `json:"id"`
	Steps []stepResult `json:"steps"`
	Obs   []obs        `json:"obs,omitempty"`
	Trace []event      `json:"trace"`
	Error string       `json:"error,omitempty"`
}

// classify maps an error of the code to the verdict classes of ServiceRef.tla (sentinel errors are API).
func classify(err error) string {
	var sq resolver.ServiceQueryError
	switch {
	case err == nil:
		return "ok"
	case errors.Is(err, resolver.ErrServiceReferenceToDeep):
		return "too-deep"
	case errors.Is(err, resolver.ErrServiceNotFound):
		return "no-service"
	case errors.Is(err, resolver.ErrNotFound):
		return "not-found"
	case errors.Is(err, resolver.ErrDeactivated):
		return "deactivated"
	case errors.As(err, &sq):
		return "bad-ref"
	case errors.Is(err, resolver.ErrDuplicateService):
		return "duplicate"
	case errors.Is(err, didman.ErrServiceInUse):
		return "in-use"
	}
	return "other"
}

// guarded runs f under recover() and a deadline.
func guarded(f func()) (verdict string) {
	done := make(chan string, 1)
	go func() {
		defer func() {
			if r := recover(); r != nil {
				done <- fmt.Sprintf("panic: %v", r)
			}
		}()
		f()
		done <- ""
	}()
	select {
	case v := <-done:
		return v
	case <-time.After(10 * time.Second):
		return "hang"
	}
}

func (w *world) readsSince(from int) []string {
	out := []string{}
	for _, e := range w.trace[from:] {
		if e["ev"] == "read" {
			out = append(out, e["d"].(string))
		}
	}
	return out
}

func (w *world) queryString(s step) string {
	return w.concreteRef(endpoint{K: "ref", D: s.D, T: s.T, F: s.F})
}

func (w *world) doResolve(s step) stepResult {
	r := stepResult{Op: "resolve"}
	w.log(event{"ev": "resolve", "d": s.D, "t": s.T, "f": s.F, "max": s.Max})
	from := len(w.trace)
	w.reads, w.nets = 0, append([]netStep(nil), s.Nets...)
	q, err := ssi.ParseURI(w.queryString(s))
	if err != nil {
		r.V, r.Msg = "driver-error", err.Error()
		return r
	}
	var svc did.Service
	if g := guarded(func() { svc, err = w.svcRes.Resolve(*q, s.Max) }); g != "" {
		r.V = g
		return r
	}
	r.Pend, w.nets = len(w.nets), nil
	r.Reads = w.readsSince(from)
	r.V = classify(err)
	ev := event{"ev": "resolved", "v": r.V}
	if err != nil {
		r.Msg = err.Error()
	} else {
		e := w.abstract(svc.ServiceEndpoint)
		r.E, r.K = &e, e.K
		if sid, perr := did.ParseDIDURL(svc.ID.String()); perr == nil {
			r.At = []string{w.name(sid.DID.String()), svc.Type}
		} else {
			r.At = []string{"?", svc.Type}
		}
		if str, ok := svc.ServiceEndpoint.(string); ok && looksLikeReference(str) {
			r.K = "ref"
		}
		ev["at"], ev["k"] = r.At, r.K
	}
	w.log(ev)
	return r
}

func (w *world) opVerdict(err error) (string, string, string) {
	var inv didnuts.InvalidServiceError
	if errors.As(err, &inv) {
		return "invalid", classify(inv.Cause), err.Error()
	}
	if err != nil {
		return classify(err), "", err.Error()
	}
	return "ok", "", ""
}

func (w *world) doAdd(s step) stepResult {
	r := stepResult{Op: "add"}
	w.log(event{"ev": "add", "p": "p1", "d": s.D, "t": s.T, "e": s.E})
	from := len(w.trace)
	id := w.dids[s.D]
	var err error
	g := guarded(func() {
		if s.E.K == "map" {
			m := map[string]ssi.URI{}
			for n, x := range s.E.M {
				u, perr := ssi.ParseURI(w.concrete(x).(string))
				if perr != nil {
					err = fmt.Errorf("driver: %w", perr)
					return
				}
				m[n] = *u
			}
			_, err = w.dm.AddCompoundService(w.ctx, id, s.T, m)
		} else {
			u, perr := url.Parse(w.concrete(*s.E).(string))
			if perr != nil {
				err = fmt.Errorf("driver: %w", perr)
				return
			}
			w.conc[u.String()] = *s.E
			_, err = w.dm.AddEndpoint(w.ctx, id, s.T, *u)
		}
	})
	r.Reads = w.readsSince(from)
	if g != "" {
		r.V = g
		return r
	}
	r.V, r.Cause, r.Msg = w.opVerdict(err)
	w.log(event{"ev": "opend", "p": "p1", "v": r.V, "cause": r.Cause})
	return r
}

func (w *world) doDelete(s step) stepResult {
	r := stepResult{Op: "delete"}
	w.log(event{"ev": "delete", "p": "p1", "d": s.D, "t": s.T})
	from := len(w.trace)
	id := w.dids[s.D]
	sid := ssi.MustParseURI(id.String() + "#no-such-service")
	if doc, _, err := w.store.Resolve(id, &resolver.ResolveMetadata{AllowDeactivated: true}); err == nil {
		for _, svc := range doc.Service {
			if svc.Type == s.T {
				sid = svc.ID
			}
		}
	}
	var err error
	g := guarded(func() { err = w.dm.DeleteService(w.ctx, sid) })
	r.Reads = w.readsSince(from)
	if g != "" {
		r.V = g
		return r
	}
	r.V, r.Cause, r.Msg = w.opVerdict(err)
	w.log(event{"ev": "opend", "p": "p1", "v": r.V, "cause": r.Cause})
	return r
}

func (w *world) doGetC(s step) stepResult {
	r := stepResult{Op: "getc"}
	from := len(w.trace)
	var out string
	var err error
	g := guarded(func() { out, err = w.dm.GetCompoundServiceEndpoint(w.dids[s.D], s.Ct, s.N, s.Rr) })
	r.Reads = w.readsSince(from)
	if g != "" {
		r.V = g
		return r
	}
	var nae didman.ErrReferencedServiceNotAnEndpoint
	switch {
	case errors.As(err, &nae):
		r.V, r.Msg = "not-an-endpoint", err.Error()
		r.Cause = classify(nae.Cause)
		if r.Cause == "other" {
			if strings.Contains(nae.Cause.Error(), "not a compound service") {
				r.Cause = "not-compound"
			} else {
				r.Cause = "compound"
			}
		}
	case err != nil:
		r.V, r.Msg = classify(err), err.Error()
	default:
		r.V = "ok"
		e := w.abstract(out)
		r.E, r.K = &e, e.K
		if looksLikeReference(out) {
			r.K = "ref"
		}
	}
	ev := event{"ev": "getc", "p": "p1", "d": s.D, "ct": s.Ct, "n": s.N, "rr": s.Rr, "v": r.V, "cause": r.Cause, "k": r.K, "u": ""}
	if r.E != nil {
		ev["u"] = r.E.U
	}
	// the reads of the handler precede its call/return event in the trace (the model takes the handler as one step)
	w.log(ev)
	return r
}

// doRoundTrip (family T): for every concrete service type the document gets a URL service; MakeServiceReference(did, type)
// must resolve to exactly that service.
func (w *world) doRoundTrip(s step) stepResult {
	r := stepResult{Op: "roundtrip", V: "ok"}
	id := w.dids[s.D]
	doc := w.buildDoc(id, absDoc{St: "active"})
	for i, t := range s.Types {
		doc.Service = append(doc.Service, did.Service{ID: ssi.MustParseURI(fmt.Sprintf("%s#rt%d", id, i)), Type: t, ServiceEndpoint: fmt.Sprintf("https://example.com/rt/%d", i)})
	}
	w.storeAdd(doc)
	for i, t := range s.Types {
		for _, via := range []string{"direct", "string"} {
			var svc did.Service
			var err error
			x := rtRes{Type: t, Via: via}
			q := resolver.MakeServiceReference(id, t)
			if via == "string" {
				p, perr := ssi.ParseURI(q.String())
				if perr != nil {
					x.V, x.Msg = "unparsable", perr.Error()
					r.RT = append(r.RT, x)
					continue
				}
				q = *p
			}
			if g := guarded(func() { svc, err = w.svcRes.Resolve(q, resolver.DefaultMaxServiceReferenceDepth) }); g != "" {
				x.V = g
			} else if err != nil {
				x.V, x.Msg = classify(err), err.Error()
			} else if svc.Type == t && svc.ServiceEndpoint == fmt.Sprintf("https://example.com/rt/%d", i) {
				x.V = "ok"
			} else {
				x.V, x.Found = "wrong-service", svc.Type
			}
			r.RT = append(r.RT, x)
		}
	}
	return r
}

func runCase(w *world, c tcase, in input) (res caseResult) {
	res.ID = c.ID
	defer func() {
		if r := recover(); r != nil {
			res.Error = fmt.Sprintf("driver panic: %v", r)
		}
	}()
	mutable := map[string]bool{} // documents that change in this case get a fresh DID; the others may be shared with other cases
	for _, s := range c.Steps {
		for _, n := range s.Nets {
			mutable[n.D] = true
		}
		if s.Op == "roundtrip" || s.Op == "add" || s.Op == "delete" {
			mutable[s.D] = true
		}
	}
	w.setup(c.Docs, c.Managed, mutable)
	init := map[string]absDoc{}
	for n, d := range c.Docs {
		init[n] = normDoc(d)
	}
	w.log(event{"ev": "init", "docs": init})
	snapshot := func() {
		if in.Observe {
			d, u := w.observe()
			res.Obs = append(res.Obs, obs{Docs: d, Unres: u})
		}
	}
	snapshot()
	for _, s := range c.Steps {
		t0 := time.Now()
		var r stepResult
		switch s.Op {
		case "resolve":
			r = w.doResolve(s)
		case "add":
			r = w.doAdd(s)
		case "delete":
			r = w.doDelete(s)
		case "getc":
			r = w.doGetC(s)
		case "roundtrip":
			r = w.doRoundTrip(s)
		default:
			r = stepResult{Op: s.Op, V: "driver-error", Msg: "unknown op"}
		}
		r.Us = time.Since(t0).Microseconds()
		res.Steps = append(res.Steps, r)
		if r.V == "hang" {
			res.Error = "step did not return within the deadline"
			break
		}
		snapshot()
	}
	res.Trace = w.trace
	return res
}

func TestDriver(t *testing.T) {
	logrus.SetOutput(io.Discard)
	inPath, outPath := os.Getenv("VERIF_IN"), os.Getenv("VERIF_OUT")
	if inPath == "" || outPath == "" {
		t.Skip("VERIF_IN / VERIF_OUT not set")
	}
	data, err := os.ReadFile(inPath)
	if err != nil {
		t.Fatal(err)
	}
	var in input
	if err := json.Unmarshal(data, &in); err != nil {
		t.Fatal(err)
	}
	out, err := os.Create(outPath)
	if err != nil {
		t.Fatal(err)
	}
	defer out.Close()
	bw := bufio.NewWriterSize(out, 1<<20)
	defer bw.Flush()
	enc := json.NewEncoder(bw)
	w := newWorld(t)
	for _, c := range in.Cases {
		// begin marker, flushed: if the code under test kills the process (stack overflow is not recoverable) the
		// check knows which case did it
		_ = enc.Encode(map[string]string{"begin": c.ID})
		_ = bw.Flush()
		r := runCase(w, c, in)
		if err := enc.Encode(r); err != nil {
			t.Fatal(err)
		}
		if r.Error != "" && strings.Contains(r.Error, "deadline") {
			break // a goroutine of the code under test is stuck; the remaining cases of this shard are not run
		}
	}
}
