// World of the ServiceRef.tla driver (X02): REAL resolver.DIDServiceResolver, REAL didman, REAL didnuts.Manager (with its
// ManagedDocumentValidator) and REAL didnuts.Resolver over a REAL didstore (bbolt). Scripted/fake are only: the Nuts network
// (network.Transactions.CreateTransaction builds and signs a real dag.Transaction), the key store (Exists) and the outer
// vdr.VDR wiring (two getters). Every DIDResolver.Resolve call of the code passes through recResolver (the seam the code has):
// it records the read and applies the scripted network updates at the scripted moment.
package svcref

import (
	"context"
	"crypto/sha256"
	"encoding/json"
	"errors"
	"fmt"
	"path/filepath"
	"sort"
	"strings"
	"testing"
	"time"

	"github.com/lestrrat-go/jwx/v2/jwk"
	ssi "github.com/nuts-foundation/go-did"
	"github.com/nuts-foundation/go-did/did"
	"github.com/nuts-foundation/nuts-node/audit"
	"github.com/nuts-foundation/nuts-node/core"
	nutsCrypto "github.com/nuts-foundation/nuts-node/crypto"
	"github.com/nuts-foundation/nuts-node/crypto/hash"
	"github.com/nuts-foundation/nuts-node/didman"
	"github.com/nuts-foundation/nuts-node/network"
	"github.com/nuts-foundation/nuts-node/network/dag"
	"github.com/nuts-foundation/nuts-node/storage"
	"github.com/nuts-foundation/nuts-node/vdr"
	"github.com/nuts-foundation/nuts-node/vdr/didnuts"
	"github.com/nuts-foundation/nuts-node/vdr/didnuts/didstore"
	"github.com/nuts-foundation/nuts-node/vdr/didsubject"
	"github.com/nuts-foundation/nuts-node/vdr/resolver"
)

type event = map[string]any

// ------------------------------------------------------------------------------------------------ abstract values

// endpoint is the abstract endpoint of ServiceRef.tla: {"k":"url","u"} | {"k":"ref","d","t","f"} | {"k":"map","m":{name: endpoint}}
type endpoint struct {
	K string              `json:"k"`
	U string              `json:"u,omitempty"`
	D string              `json:"d,omitempty"`
	T string              `json:"t,omitempty"`
	F string              `json:"f,omitempty"`
	M map[string]endpoint `json:"m,omitempty"`
	S string              `json:"s,omitempty"` // k = "raw": a concrete value the driver did not write
}

type absDoc struct {
	St  string              `json:"st"`
	Svc map[string]endpoint `json:"svc"`
}

// ------------------------------------------------------------------------------------------------------- fakes

type fakeKeys struct {
	nutsCrypto.KeyStore // nil: any other method the code starts to use shows up as a nil dereference (driver error)
	thumb               string
}

func (f fakeKeys) Exists(_ context.Context, kid string) (bool, error) {
	return strings.HasSuffix(kid, "#"+f.thumb), nil
}

type fakeNet struct {
	network.Transactions // nil, see fakeKeys
	w                    *world
}

// CreateTransaction is the publication of a document version by Manager.Update (followed by store.Add in the code).
func (f *fakeNet) CreateTransaction(ctx context.Context, tpl network.Template) (dag.Transaction, error) {
	w := f.w
	w.clock++
	unsigned, err := dag.NewTransaction(hash.SHA256Sum(tpl.Payload), tpl.Type, tpl.AdditionalPrevs, nil, w.clock)
	if err != nil {
		return nil, err
	}
	tx, err := dag.NewTransactionSigner(nutsCrypto.MemoryJWTSigner{Key: w.key}, w.key.KeyID(), nil).Sign(ctx, unsigned, time.Now())
	if err != nil {
		return nil, err
	}
	var doc did.Document
	if err := json.Unmarshal(tpl.Payload, &doc); err == nil {
		w.lastRef[doc.ID.String()] = tx.Ref()
		w.log(event{"ev": "write", "p": "p1", "d": w.name(doc.ID.String())})
	}
	return tx, nil
}

type fakeVDR struct {
	vdr.VDR // nil, see fakeKeys
	res     resolver.DIDResolver
	mgr     didsubject.DocumentManager
}

func (f fakeVDR) Resolver() resolver.DIDResolver                   { return f.res }
func (f fakeVDR) NutsDocumentManager() didsubject.DocumentManager { return f.mgr }

// recResolver decorates the real did:nuts resolver: records every read, applies scripted network updates.
type recResolver struct {
	w     *world
	inner resolver.DIDResolver
}

func (r *recResolver) Resolve(id did.DID, md *resolver.ResolveMetadata) (*did.Document, *resolver.DocumentMetadata, error) {
	w := r.w
	// scripted network updates that are due before this read
	for len(w.nets) > 0 && w.nets[0].After <= w.reads {
		n := w.nets[0]
		w.nets = w.nets[1:]
		w.applyNet(n.D, n.Doc)
	}
	doc, meta, err := r.inner.Resolve(id, md)
	st := "active"
	switch {
	case err == nil:
	case errors.Is(err, resolver.ErrNotFound):
		st = "none"
	case errors.Is(err, resolver.ErrDeactivated):
		st = "deact"
	default:
		st = "error:" + err.Error()
	}
	w.reads++
	w.log(event{"ev": "read", "d": w.name(id.String()), "st": st})
	return doc, meta, err
}

// ------------------------------------------------------------------------------------------------------- world

type netStep struct {
	After int    `json:"after"` // number of store reads of the running resolution that precede the update
	D     string `json:"d"`
	Doc   absDoc `json:"doc"`
}

type world struct {
	t       *testing.T
	store   didstore.Store
	rec     *recResolver
	mgr     *didnuts.Manager
	dm      didman.Didman
	svcRes  resolver.DIDServiceResolver
	ctx     context.Context
	key     jwk.Key
	pub     any
	thumb   string
	clock   uint32
	seq     int
	lastRef map[string]hash.SHA256Hash
	shared  map[string]did.DID // immutable documents shared by the cases of this process: name + content -> DID

	// per case
	dids    map[string]did.DID  // abstract name -> DID
	names   map[string]string   // DID -> abstract name
	conc    map[string]endpoint // concrete endpoint string -> abstract endpoint (everything the driver wrote)
	trace   []event
	reads   int
	nets    []netStep
	managed []string
}

func newWorld(t *testing.T) *world {
	w := &world{t: t, ctx: audit.TestContext(), lastRef: map[string]hash.SHA256Hash{}, shared: map[string]did.DID{}}
	kv := storage.CreateTestBBoltStore(t, filepath.Join(t.TempDir(), "didstore.db"))
	w.store = didstore.New(&storage.StaticKVStoreProvider{Store: kv})
	if err := w.store.(core.Configurable).Configure(core.ServerConfig{}); err != nil {
		t.Fatal(err)
	}
	key, err := nutsCrypto.GenerateJWK()
	if err != nil || key == nil {
		t.Fatal("key generation failed")
	}
	_ = jwk.AssignKeyID(key)
	w.key = key
	w.thumb = key.KeyID()
	pk, err := key.PublicKey()
	if err != nil {
		t.Fatal(err)
	}
	var raw any
	if err := pk.Raw(&raw); err != nil {
		t.Fatal(err)
	}
	w.pub = raw
	w.rec = &recResolver{w: w, inner: &didnuts.Resolver{Store: w.store}}
	w.mgr = didnuts.NewManager(fakeKeys{thumb: w.thumb}, &fakeNet{w: w}, w.store, w.rec, nil)
	w.dm = didman.NewDidmanInstance(fakeVDR{res: w.rec, mgr: w.mgr}, nil, nil)
	w.svcRes = resolver.DIDServiceResolver{Resolver: w.rec}
	return w
}

func (w *world) log(e event) { w.trace = append(w.trace, e) }

func (w *world) name(didStr string) string {
	if n, ok := w.names[didStr]; ok {
		return n
	}
	return "?" + didStr
}

// ---------------------------------------------------------------------------------------- abstract -> concrete

func (w *world) concreteRef(e endpoint) string {
	id := w.dids[e.D]
	canon := resolver.MakeServiceReference(id, e.T).String() // the spelling under test is produced by the code under test
	switch e.F {
	case "canon":
		return canon
	case "pct": // same reference, first character of the type percent-encoded
		return fmt.Sprintf("%s/serviceEndpoint?type=%%%02X%s", id.String(), e.T[0], e.T[1:])
	case "frag":
		return canon + "#x"
	case "badpath":
		return id.String() + "/other?type=" + e.T
	case "extraq":
		return canon + "&x=y"
	case "notype":
		return id.String() + "/serviceEndpoint"
	case "twotype":
		return canon + "&type=zz"
	}
	panic("unknown reference form " + e.F)
}

func (w *world) concrete(e endpoint) any {
	switch e.K {
	case "url":
		s := "https://example.com/" + e.U
		w.conc[s] = e
		return s
	case "ref":
		s := w.concreteRef(e)
		w.conc[s] = e
		return s
	case "map":
		m := map[string]any{}
		for n, x := range e.M {
			m[n] = w.concrete(x)
		}
		return m
	}
	panic("unknown endpoint kind " + e.K)
}

func (w *world) abstract(v any) endpoint {
	switch x := v.(type) {
	case string:
		if e, ok := w.conc[x]; ok {
			return e
		}
		return endpoint{K: "raw", S: x}
	case map[string]any:
		m := map[string]endpoint{}
		for n, y := range x {
			m[n] = w.abstract(y)
		}
		return endpoint{K: "map", M: m}
	case []any:
		if len(x) == 1 {
			return w.abstract(x[0])
		}
	}
	return endpoint{K: "raw", S: fmt.Sprint(v)}
}

func sortedKeys[V any](m map[string]V) []string {
	ks := make([]string, 0, len(m))
	for k := range m {
		ks = append(ks, k)
	}
	sort.Strings(ks)
	return ks
}

func (w *world) buildDoc(id did.DID, d absDoc) did.Document {
	doc := didnuts.CreateDocument()
	doc.ID = id
	if d.St == "deact" {
		return doc // a deactivated did:nuts document: no controller, no keys, no services
	}
	vm, err := did.NewVerificationMethod(did.DIDURL{DID: id, Fragment: w.thumb}, ssi.JsonWebKey2020, id, w.pub)
	if err != nil {
		w.t.Fatal(err)
	}
	doc.AddCapabilityInvocation(vm)
	doc.AddAssertionMethod(vm)
	for _, t := range sortedKeys(d.Svc) {
		doc.Service = append(doc.Service, did.Service{ID: ssi.MustParseURI(id.String() + "#svc-" + t), Type: t, ServiceEndpoint: w.concrete(d.Svc[t])})
	}
	return doc
}

// storeAdd hands a document version to the real didstore the way the DAG subscriber does (no managed validation).
func (w *world) storeAdd(doc did.Document) {
	payload, _ := json.Marshal(doc)
	w.clock++
	sum := sha256.Sum256([]byte(fmt.Sprintf("verif-tx-%d-%s", w.clock, doc.ID)))
	tx := didstore.Transaction{Clock: w.clock, PayloadHash: hash.SHA256Sum(payload), Ref: hash.FromSlice(sum[:]), SigningTime: time.Now()}
	if prev, ok := w.lastRef[doc.ID.String()]; ok {
		tx.Previous = []hash.SHA256Hash{prev}
	}
	if err := w.store.Add(doc, tx); err != nil {
		w.t.Fatalf("didstore.Add: %v", err)
	}
	w.lastRef[doc.ID.String()] = tx.Ref
}

func (w *world) applyNet(name string, d absDoc) {
	id := w.dids[name]
	if _, created := w.lastRef[id.String()]; !created && d.St == "deact" {
		w.storeAdd(w.buildDoc(id, absDoc{St: "active"}))
	}
	w.storeAdd(w.buildDoc(id, d))
	w.log(event{"ev": "net", "d": name, "doc": normDoc(d)})
}

func normDoc(d absDoc) absDoc {
	if d.Svc == nil {
		d.Svc = map[string]endpoint{}
	}
	return d
}

// setup creates the documents of a case under fresh DIDs. Documents nobody can change in this case are shared.
func (w *world) setup(docs map[string]absDoc, managed []string, mutable map[string]bool) {
	w.seq++
	w.dids, w.names, w.conc = map[string]did.DID{}, map[string]string{}, map[string]endpoint{}
	w.trace, w.reads, w.nets, w.managed = nil, 0, nil, managed
	fresh := func(n string) did.DID { return did.MustParseDID(fmt.Sprintf("did:nuts:verif%dx%s", w.seq, n)) }
	// 1. names first (documents refer to each other)
	refsOf := func(d absDoc) bool { // does the document mention another DID?
		for _, e := range d.Svc {
			if e.K == "ref" {
				return true
			}
			for _, m := range e.M {
				if m.K == "ref" {
					return true
				}
			}
		}
		return false
	}
	sharedKey := map[string]string{}
	for _, n := range sortedKeys(docs) {
		d := docs[n]
		if !mutable[n] && !refsOf(d) {
			b, _ := json.Marshal(d)
			k := n + string(b)
			sharedKey[n] = k
			if id, ok := w.shared[k]; ok {
				w.dids[n] = id
				w.names[id.String()] = n
				continue
			}
		}
		w.dids[n] = fresh(n)
		w.names[w.dids[n].String()] = n
	}
	// 2. documents
	for _, n := range sortedKeys(docs) {
		d := docs[n]
		id := w.dids[n]
		if k, ok := sharedKey[n]; ok {
			if _, done := w.shared[k]; done {
				// the concrete endpoints of a shared document still have to be known to abstract()
				for _, e := range d.Svc {
					w.concrete(e)
				}
				continue
			}
			w.shared[k] = id
		}
		switch d.St {
		case "none":
		case "deact":
			w.storeAdd(w.buildDoc(id, absDoc{St: "active"}))
			w.storeAdd(w.buildDoc(id, d))
		default:
			w.storeAdd(w.buildDoc(id, d))
		}
	}
}

// observe reads the real documents back (abstracted) and asks the REAL code which managed services resolve.
func (w *world) observe() (map[string]absDoc, [][]string) {
	saveTrace, saveReads := w.trace, w.reads
	defer func() { w.trace, w.reads = saveTrace, saveReads }()
	docs := map[string]absDoc{}
	for _, n := range sortedKeys(w.dids) {
		doc, _, err := w.store.Resolve(w.dids[n], &resolver.ResolveMetadata{AllowDeactivated: true})
		switch {
		case errors.Is(err, resolver.ErrNotFound):
			docs[n] = absDoc{St: "none", Svc: map[string]endpoint{}}
			continue
		case err != nil:
			docs[n] = absDoc{St: "error:" + err.Error(), Svc: map[string]endpoint{}}
			continue
		}
		a := absDoc{St: "active", Svc: map[string]endpoint{}}
		if resolver.IsDeactivated(*doc) {
			a.St = "deact"
		}
		for _, s := range doc.Service {
			if _, dup := a.Svc[s.Type]; dup {
				a.Svc[s.Type+"#dup"] = w.abstract(s.ServiceEndpoint)
				continue
			}
			a.Svc[s.Type] = w.abstract(s.ServiceEndpoint)
		}
		docs[n] = a
	}
	unres := [][]string{}
	for _, n := range w.managed {
		a := docs[n]
		if a.St != "active" {
			continue
		}
		for _, t := range sortedKeys(a.Svc) {
			if why := w.usable(n, t, a.Svc[t]); why != "" {
				unres = append(unres, []string{n, t, why})
			}
		}
	}
	return docs, unres
}

// usable: what a user of a managed service relies on, asked of the real code: the service resolves within the default depth,
// and every reference in a compound service of the document itself can be followed. Returns "" or the class of the failure.
func (w *world) usable(n, t string, own endpoint) string {
	_, err := w.svcRes.Resolve(resolver.MakeServiceReference(w.dids[n], t), resolver.DefaultMaxServiceReferenceDepth)
	if err != nil {
		return classify(err)
	}
	if own.K != "map" {
		return ""
	}
	for _, name := range sortedKeys(own.M) {
		m := own.M[name]
		if m.K == "url" {
			continue
		}
		uri, err := ssi.ParseURI(w.concreteOf(m))
		if err != nil {
			return "member:unparsable"
		}
		if resolver.ValidateServiceReference(*uri) != nil {
			return "member:bad-ref"
		}
		if _, err := w.svcRes.Resolve(*uri, resolver.DefaultMaxServiceReferenceDepth); err != nil {
			return "member:" + classify(err)
		}
	}
	return ""
}

// concreteOf returns the concrete string the driver wrote for an abstract reference / raw value.
func (w *world) concreteOf(e endpoint) string {
	if e.K == "raw" {
		return e.S
	}
	return w.concreteRef(e)
}

// looksLikeReference is the driver's own notion of "is a reference" (not resolver.IsServiceReference).
func looksLikeReference(s string) bool {
	return len(s) >= 4 && strings.EqualFold(s[:4], "did:")
}
