package svcref

import (
	"encoding/json"
	"errors"
	"fmt"
	"testing"

	ssi "github.com/nuts-foundation/go-did"
	"github.com/nuts-foundation/go-did/did"
	"github.com/nuts-foundation/nuts-node/vdr/didnuts"
	"github.com/nuts-foundation/nuts-node/vdr/resolver"
)

type pres struct{ docs map[string][]byte; reads []string }

func (p *pres) Resolve(id did.DID, md *resolver.ResolveMetadata) (*did.Document, *resolver.DocumentMetadata, error) {
	p.reads = append(p.reads, id.String())
	b, ok := p.docs[id.String()]
	if !ok {
		return nil, nil, resolver.ErrNotFound
	}
	var d did.Document
	if err := json.Unmarshal(b, &d); err != nil {
		return nil, nil, err
	}
	return &d, &resolver.DocumentMetadata{}, nil
}

func mk(id string, svcs map[string]any) []byte {
	d := did.Document{ID: did.MustParseDID(id), Context: []interface{}{did.DIDContextV1URI()}}
	for t, e := range svcs {
		d.Service = append(d.Service, did.Service{ID: ssi.MustParseURI(id + "#" + t), Type: t, ServiceEndpoint: e})
	}
	b, _ := json.Marshal(d)
	return b
}

func TestProbe(t *testing.T) {
	A, B := "did:nuts:A", "did:nuts:B"
	ref := func(d, ty string) string { return resolver.MakeServiceReference(did.MustParseDID(d), ty).String() }
	p := &pres{docs: map[string][]byte{}}
	p.docs[A] = mk(A, map[string]any{"t1": ref(A, "t2"), "t2": ref(A, "t3"), "t3": ref(B, "t1")})
	p.docs[B] = mk(B, map[string]any{"t1": ref(B, "t2"), "t2": "https://x/y", "a+b": "https://plus", "a b": "https://space", "m": map[string]any{"x": ref(B, "t2")}})
	fmt.Println(string(p.docs[A]))
	r := resolver.DIDServiceResolver{Resolver: p}
	for _, q := range []string{ref(A, "t1"), ref(A, "t2"), ref(B, "a+b"), ref(B, "a b"), ref(B, "t2") + "#frag", "did:nuts:B/serviceEndpoint?type=%742",
		"did:nuts:B/other?type=t2", "did:nuts:B/serviceEndpoint?type=t2&x=y", "did:nuts:B/serviceEndpoint", "did:nuts:B/serviceEndpoint?type=t2&type=t1", "did:nuts:B?type=t2", "did:nuts:B/serviceEndpoint?type=m"} {
		u, err := ssi.ParseURI(q)
		if err != nil {
			fmt.Println("parse", q, err)
			continue
		}
		p.reads = nil
		s, err := r.Resolve(*u, 5)
		fmt.Printf("Q %-50s -> %v %v %T reads=%v valid=%v\n", q, s.ServiceEndpoint, err, s.ServiceEndpoint, p.reads, resolver.ValidateServiceReference(*u))
	}
	// validator: add service t0 -> A.t1 (chain t0,t1,t2,t3,B.t1,B.t2)
	v := didnuts.ManagedDocumentValidator(r)
	var docA did.Document
	json.Unmarshal(p.docs[A], &docA)
	docA.Service = append(docA.Service, did.Service{ID: ssi.MustParseURI(A + "#t0"), Type: "t0", ServiceEndpoint: ref(A, "t1")})
	fmt.Println("validate chain6:", v.Validate(docA))
	var docA2 did.Document
	json.Unmarshal(p.docs[A], &docA2)
	fmt.Println("validate chain5 (existing doc A):", v.Validate(docA2))
	b, _ := json.Marshal(docA2)
	p.docs[A] = b
	u := resolver.MakeServiceReference(did.MustParseDID(A), "t1")
	_, err := r.Resolve(u, resolver.DefaultMaxServiceReferenceDepth)
	fmt.Println("resolve A.t1:", err, errors.Is(err, resolver.ErrServiceReferenceToDeep))
	// compound with 2 failing members
	seen := map[string]int{}
	for i := 0; i < 200; i++ {
		var d3 did.Document
		json.Unmarshal(p.docs[B], &d3)
		d3.Service = append(d3.Service, did.Service{ID: ssi.MustParseURI(B + "#c"), Type: "c", ServiceEndpoint: map[string]any{"m1": ref(B, "nope"), "m2": "did:nuts:B/bad?type=t2", "m3": ref("did:nuts:N", "t")}})
		seen[fmt.Sprint(v.Validate(d3))]++
	}
	fmt.Println("compound errors:", seen)
	{
		u0 := resolver.MakeServiceReference(did.MustParseDID(A), "t0")
		b, _ := json.Marshal(docA)
		p.docs[A] = b
		p.reads = nil
		_, err := r.Resolve(u0, 5)
		fmt.Println("resolve accepted A.t0:", err, p.reads)
	}
}
