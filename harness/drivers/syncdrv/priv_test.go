// C15: private transaction payloads. Every case enumerated by TLC from SyncPriv.tla is executed on a real v2
// protocol instance (holder H) with a scripted peer; every envelope H sends is scanned for the payload bytes.
package syncdrv

import (
	"bufio"
	"bytes"
	"context"
	"crypto"
	"crypto/ecdsa"
	"crypto/elliptic"
	"crypto/rand"
	"crypto/sha256"
	"crypto/x509"
	"crypto/x509/pkix"
	"encoding/hex"
	"encoding/json"
	"errors"
	"fmt"
	"io"
	"math/big"
	"os"
	"path/filepath"
	"runtime"
	"strings"
	"sync"
	"testing"
	"time"

	ssi "github.com/nuts-foundation/go-did"
	"github.com/nuts-foundation/go-did/did"
	"github.com/nuts-foundation/go-stoabs"
	"github.com/nuts-foundation/go-stoabs/bbolt"
	"github.com/nuts-foundation/nuts-node/core"
	nutsCrypto "github.com/nuts-foundation/nuts-node/crypto"
	"github.com/nuts-foundation/nuts-node/crypto/hash"
	"github.com/nuts-foundation/nuts-node/network/dag"
	"github.com/nuts-foundation/nuts-node/network/transport"
	"github.com/nuts-foundation/nuts-node/network/transport/grpc"
	v2 "github.com/nuts-foundation/nuts-node/network/transport/v2"
	"github.com/nuts-foundation/nuts-node/vdr/resolver"
	"github.com/sirupsen/logrus"
	grpcLib "google.golang.org/grpc"
	"google.golang.org/protobuf/proto"

	"verifharness/txforge"
)

type privCase struct {
	ID    string `json:"id"`
	Steps []step `json:"steps"`
}

type privInput struct {
	Cases []privCase `json:"scripts"`
}

type privResult struct {
	ID         string           `json:"id"`
	Violations []violation      `json:"violations"`
	Drift      []string         `json:"drift"`
	Error      string           `json:"error,omitempty"`
	Trace      []map[string]any `json:"trace"`
	Observed   string           `json:"observed"`
}

// party is a network participant with a node DID and a keyAgreement key.
type party struct {
	did did.DID
	key *ecdsa.PrivateKey
	kid string
}

func newParty(name string) *party {
	k, _ := ecdsa.GenerateKey(elliptic.P256(), rand.Reader)
	d := did.MustParseDID("did:nuts:" + name)
	return &party{did: d, key: k, kid: d.String() + "#ka-1"}
}

// docResolver serves DID documents with the keyAgreement method of known parties.
type docResolver struct{ parties map[string]*party }

func (r docResolver) Resolve(id did.DID, _ *resolver.ResolveMetadata) (*did.Document, *resolver.DocumentMetadata, error) {
	p := r.parties[id.String()]
	if p == nil {
		return nil, nil, resolver.ErrNotFound
	}
	vm := &did.VerificationMethod{ID: did.MustParseDIDURL(p.kid)}
	doc := &did.Document{ID: p.did}
	doc.KeyAgreement = did.VerificationRelationships{{VerificationMethod: vm}}
	return doc, &resolver.DocumentMetadata{}, nil
}

// kakResolver resolves keyAgreement keys for PAL.Encrypt.
type kakResolver struct{ parties map[string]*party }

func (r kakResolver) ResolveKeyByID(string, *resolver.ResolveMetadata, resolver.RelationType) (interface{}, error) {
	return nil, errors.New("unused")
}

// sitResolver resolves keyAgreement keys for PAL.Encrypt with a scripted situation per DID.
type sitResolver struct {
	parties map[string]*party
	sit     map[string]error
}

func (r sitResolver) ResolveKeyByID(string, *resolver.ResolveMetadata, resolver.RelationType) (crypto.PublicKey, error) {
	return nil, errors.New("unused")
}

func (r sitResolver) ResolveKey(id did.DID, _ *time.Time, _ resolver.RelationType) (string, crypto.PublicKey, error) {
	if err := r.sit[id.String()]; err != nil {
		return "", nil, err
	}
	p := r.parties[id.String()]
	if p == nil {
		return "", nil, resolver.ErrNotFound
	}
	return p.kid, &p.key.PublicKey, nil
}

// decrypter holds the private keys a node has; a missing key yields crypto.ErrPrivateKeyNotFound like the real store.
type decrypter struct{ keys map[string]*ecdsa.PrivateKey }

func (d decrypter) Decrypt(_ context.Context, kid string, ct []byte) ([]byte, error) {
	k := d.keys[kid]
	if k == nil {
		return nil, nutsCrypto.ErrPrivateKeyNotFound
	}
	return nutsCrypto.EciesDecrypt(k, ct)
}

func encryptPAL(parts []*party, plain []*party) [][]byte {
	var lines [][]byte
	for _, p := range plain {
		lines = append(lines, []byte(p.did.String()))
	}
	pt := bytes.Join(lines, []byte("\n"))
	var out [][]byte
	for _, p := range parts {
		ct, err := nutsCrypto.EciesEncrypt(&p.key.PublicKey, pt)
		if err != nil {
			panic(err)
		}
		out = append(out, ct)
	}
	return out
}

type holder struct {
	db    stoabs.KVStore
	state dag.State
	proto transport.Protocol
	sent  []*v2.Envelope
	list  *connList
	mgr   *connMgr
}

type capConn struct {
	grpc.Connection
	h    *holder
	peer transport.Peer
}

var capMu sync.Mutex // Send may be called from a retry goroutine of the code under test

func (c *capConn) Send(_ grpc.Protocol, envelope interface{}, _ bool) error {
	capMu.Lock()
	c.h.sent = append(c.h.sent, envelope.(*v2.Envelope))
	capMu.Unlock()
	return nil
}
func (c *capConn) Peer() transport.Peer  { return c.peer }
func (c *capConn) IsConnected() bool     { return true }
func (c *capConn) IsAuthenticated() bool { return c.peer.Authenticated }

func newHolder(t *testing.T, dir string, nodeDID did.DID, res resolver.DIDResolver, dec nutsCrypto.Decrypter) *holder {
	db, err := bbolt.CreateBBoltStore(filepath.Join(dir, "h.db"), stoabs.WithNoSync())
	if err != nil {
		t.Fatal(err)
	}
	st, err := dag.NewState(db, dag.NewPrevTransactionsVerifier(), dag.NewTransactionSignatureVerifier(nil))
	if err != nil {
		t.Fatal(err)
	}
	_ = st.Configure(core.ServerConfig{})
	h := &holder{db: db, state: st, list: &connList{}, mgr: &connMgr{}}
	cfg := v2.Config{GossipInterval: 3600 * 1000, DiagnosticsInterval: 0, PayloadRetryDelay: time.Hour}
	h.proto = v2.New(cfg, nodeDID, st, res, dec, func() transport.Diagnostics { return transport.Diagnostics{} }, db)
	if err := h.proto.Configure("H"); err != nil {
		t.Fatal(err)
	}
	h.proto.(grpc.Protocol).Register(registrar{}, func(grpcLib.ServerStream) error { return nil }, h.list, h.mgr)
	if err := h.proto.Start(); err != nil {
		t.Fatal(err)
	}
	return h
}

func (h *holder) close() {
	h.proto.Stop()
	_ = h.state.Shutdown()
	_ = h.db.Close(context.Background())
}

func mkTx(prevs []dag.Transaction, lc int, pal [][]byte, payload []byte) dag.Transaction {
	key := txforge.NewKey()
	var ps []string
	for _, p := range prevs {
		ps = append(ps, p.Ref().String())
	}
	ph := sha256.Sum256(payload)
	h := txforge.TxHeaders(key, ps, lc, time.Now().Unix(), "application/x-verif")
	if pal != nil {
		h["pal"] = pal
	}
	raw := txforge.Compact(h, []byte(hex.EncodeToString(ph[:])), key)
	tx, err := dag.ParseTransaction(raw)
	if err != nil {
		panic(err)
	}
	return tx
}

func carries(envs []*v2.Envelope, needle []byte) (bool, string) {
	for _, e := range envs {
		b, _ := proto.Marshal(e)
		if bytes.Contains(b, needle) {
			k, _, _, _ := kindOf(e)
			return true, k
		}
	}
	return false, ""
}

func runPrivCase(t *testing.T, pc privCase) (res *privResult) {
	res = &privResult{ID: pc.ID, Violations: []violation{}, Drift: []string{}, Trace: []map[string]any{}}
	st := pc.Steps[0]
	dir := t.TempDir()
	H, P, X := newParty("holderH"), newParty("peerP"), newParty("otherX")
	parties := map[string]*party{H.did.String(): H, P.did.String(): P, X.did.String(): X}
	viol := func(kind, detail string) {
		res.Violations = append(res.Violations, violation{"C15", kind, detail, 0})
	}
	defer func() {
		if r := recover(); r != nil {
			res.Violations = append(res.Violations, violation{"C19", "panic", fmt.Sprintf("%v in %s", r, panicSite()), 0})
			res.Observed = "panic"
		}
	}()
	switch st.str("a") {
	case "Authenticate":
		// real tlsAuthenticator with a generated certificate and a scripted service resolver
		tmpl := &x509.Certificate{SerialNumber: big.NewInt(1), Subject: pkix.Name{CommonName: "node"}, NotBefore: time.Now().Add(-time.Hour), NotAfter: time.Now().Add(time.Hour), DNSNames: []string{"nuts.example.com"}}
		ck, _ := ecdsa.GenerateKey(elliptic.P256(), rand.Reader)
		der, _ := x509.CreateCertificate(rand.Reader, tmpl, tmpl, &ck.PublicKey, ck)
		cert, _ := x509.ParseCertificate(der)
		sr := &svcResolver{endpoint: "grpc://nuts.example.com:5555"}
		peer := transport.Peer{ID: "P", Address: "1.2.3.4:5555", Certificate: cert}
		switch st.str("case") {
		case "no_cert":
			peer.Certificate = nil
		case "cert_other_host":
			sr.endpoint = "grpc://other.example.com:5555"
		case "service_unresolvable":
			sr.err = errors.New("service not found")
		case "endpoint_malformed":
			sr.endpoint = "grpc://%zz:port"
		}
		auth := grpc.NewTLSAuthenticator(sr)
		out, err := auth.Authenticate(P.did, peer)
		if len(pc.Steps) > 1 && pc.Steps[1].str("a") == "Reauthenticate" {
			// same authenticator, same certificate; the DID document has changed in between
			if err != nil || !out.Authenticated {
				res.Drift = append(res.Drift, "first authentication failed")
				return res
			}
			st = pc.Steps[1]
			peer = transport.Peer{ID: "P", Address: "1.2.3.4:5555", Certificate: cert}
			sr.endpoint, sr.err = "grpc://nuts.example.com:5555", nil
			switch st.str("case") {
			case "no_cert":
				peer.Certificate = nil
			case "cert_other_host":
				sr.endpoint = "grpc://moved.example.com:5555"
			case "service_unresolvable":
				sr.err = errors.New("service not found")
			case "endpoint_malformed":
				sr.endpoint = "grpc://%zz:port"
			}
			out, err = auth.Authenticate(P.did, peer)
		}
		obs := "refused"
		if err == nil && out.Authenticated {
			obs = "authenticated"
			if !out.NodeDID.Equals(P.did) {
				viol("auth-wrong-did", "authenticated under another DID")
			}
		} else if out.Authenticated {
			viol("auth-flag-on-error", "Authenticate returned an error but marked the peer authenticated")
		}
		res.Observed = obs
		if obs == "authenticated" && st.str("expect") != "authenticated" {
			viol("authenticated-without-matching-certificate", "case "+st.str("case"))
		}
		if obs != st.str("expect") {
			res.Drift = append(res.Drift, "authenticate "+st.str("case")+": model "+st.str("expect")+", code "+obs)
		}
		return res
	case "Serve":
		// key situation of the holder
		var nodeDID did.DID
		dec := decrypter{keys: map[string]*ecdsa.PrivateKey{}}
		recipients := []*party{H, P}
		switch st.str("key") {
		case "can_decrypt":
			nodeDID = H.did
			dec.keys[H.kid] = H.key
		case "not_recipient":
			nodeDID = H.did
			dec.keys[H.kid] = H.key
			recipients = []*party{X, P}
		case "key_missing":
			nodeDID = H.did
		case "no_node_did":
		}
		plain := []*party{H, P}
		if st.str("peer") == "auth_unlisted" || st.str("peer") == "auth_alias_listed" {
			plain = []*party{H, X}
			if st.str("key") == "not_recipient" {
				recipients = []*party{X}
			} else {
				recipients = []*party{H, X}
			}
		}
		h := newHolder(t, dir, nodeDID, docResolver{parties}, dec)
		defer h.close()
		root := mkTx(nil, 0, nil, []byte("root payload"))
		if err := h.state.Add(context.Background(), root, []byte("root payload")); err != nil {
			res.Error = err.Error()
			return res
		}
		canary := []byte("CANARY-PRIVATE-PAYLOAD-" + pc.ID + "-0123456789abcdef")
		var pal [][]byte
		if st.str("tx") == "private" {
			pal = encryptPAL(recipients, plain)
		}
		tx := mkTx([]dag.Transaction{root}, 1, pal, canary)
		if err := h.state.Add(context.Background(), tx, canary); err != nil {
			res.Error = err.Error()
			return res
		}
		// auth_alias_listed: a SECOND private transaction on the holder's DAG declares the same payload hash (the hash is public in
		// the header of tx) and lists the holder and the peer; the holder received it without payload, as private transactions arrive
		queryRef := tx.Ref()
		if st.str("peer") == "auth_alias_listed" && st.str("tx") == "private" {
			rcp2 := []*party{H, P}
			if st.str("key") == "not_recipient" {
				rcp2 = []*party{X, P}
			}
			tx2 := mkTx([]dag.Transaction{tx}, 2, encryptPAL(rcp2, []*party{H, P}), canary)
			if err := h.state.Add(context.Background(), tx2, nil); err != nil {
				res.Error = err.Error()
				return res
			}
			queryRef = tx2.Ref()
		}
		peer := transport.Peer{ID: "P", Address: "p:5555"}
		switch st.str("peer") {
		case "unauth":
		case "claimed_listed":
			peer.NodeDID = P.did // claimed / expected, never verified
		case "auth_nodid":
			peer.Authenticated = true
		default:
			peer.Authenticated = true
			peer.NodeDID = P.did
		}
		conn := &capConn{h: h, peer: peer}
		h.list.conns = nil
		for _, o := range h.mgr.observers {
			o(peer, transport.StateConnected, h.proto)
		}
		h.sent = nil
		var env *v2.Envelope
		switch st.str("req") {
		case "PayloadQuery":
			env = &v2.Envelope{Message: &v2.Envelope_TransactionPayloadQuery{TransactionPayloadQuery: &v2.TransactionPayloadQuery{TransactionRef: queryRef.Slice()}}}
		case "ListQuery":
			env = &v2.Envelope{Message: &v2.Envelope_TransactionListQuery{TransactionListQuery: &v2.TransactionListQuery{ConversationID: []byte("c1"), Refs: [][]byte{tx.Ref().Slice()}}}}
		case "RangeQuery":
			env = &v2.Envelope{Message: &v2.Envelope_TransactionRangeQuery{TransactionRangeQuery: &v2.TransactionRangeQuery{ConversationID: []byte("c2"), Start: 0, End: 10}}}
		case "State":
			env = &v2.Envelope{Message: &v2.Envelope_State{State: &v2.State{ConversationID: []byte("c3"), XOR: hash.EmptyHash().Slice(), LC: 1}}}
		case "GossipTick":
			// H gossips to the peer: route sends of the gossip sender through the capturing connection
			fc := &fakeConnCap{capConn: conn}
			h.list.conns = nil
			hl := &capList{c: fc}
			h.proto.(grpc.Protocol).Register(registrar{}, func(grpcLib.ServerStream) error { return nil }, hl, &connMgr{})
			v2.VerifGossipTick(h.proto, peer)
		}
		if env != nil {
			_ = v2.VerifHandleSync(h.proto, conn, env)
		}
		found, kind := carries(h.sent, canary)
		obs := "none"
		if found {
			obs = "payload"
		} else if st.str("req") == "PayloadQuery" {
			obs = "empty"
		}
		res.Observed = obs
		res.Trace = append(res.Trace, map[string]any{"ev": "serve", "peer": st.str("peer"), "key": st.str("key"), "tx": st.str("tx"), "req": st.str("req"), "observed": obs, "kind": kind, "sent": len(h.sent)})
		if found && st.str("tx") == "private" {
			// the property, evaluated on the real envelope
			if kind != "Payload" {
				viol("private-payload-in-"+kind, "a "+kind+" message carried the payload of a private transaction")
			}
			if !peer.Authenticated {
				viol("private-payload-to-unauthenticated", "payload sent over an unauthenticated connection (peer class "+st.str("peer")+")")
			} else if st.str("peer") == "auth_alias_listed" {
				viol("private-payload-to-unlisted-via-alias", "payload of a private transaction sent to an authenticated peer that is not on ITS participant list, in answer to a query for another transaction that declares the same payload hash and lists the peer")
			} else if st.str("peer") != "auth_listed" {
				viol("private-payload-to-unlisted", "payload sent to an authenticated peer that is not on the participant list")
			}
			if st.str("key") != "can_decrypt" {
				viol("private-payload-from-non-participant", "payload sent by a node that cannot decrypt the participant list (key="+st.str("key")+")")
			}
		}
		exp := st.str("expect")
		if exp == "payload" && !found {
			res.Drift = append(res.Drift, fmt.Sprintf("model expects the payload to be sent (%v), code sent none", st))
		}
		return res
	case "Receive":
		dec := decrypter{keys: map[string]*ecdsa.PrivateKey{H.kid: H.key}}
		hdid := H.did
		if v, ok := st["nodedid"].(bool); ok && !v {
			hdid = did.DID{} // a node without a configured node DID
		}
		h := newHolder(t, dir, hdid, docResolver{parties}, dec)
		defer h.close()
		root := mkTx(nil, 0, nil, []byte("root payload"))
		_ = h.state.Add(context.Background(), root, []byte("root payload"))
		payload := []byte("PRIVATE-PAYLOAD-" + pc.ID)
		tx := mkTx([]dag.Transaction{root}, 1, encryptPAL([]*party{H, P}, []*party{H, P}), payload)
		_ = h.state.Add(context.Background(), tx, nil) // private transaction arrives without payload
		peer := transport.Peer{ID: "P", Address: "p:5555"}
		if st.str("peer") != "unauth" {
			peer.Authenticated = true
			peer.NodeDID = P.did
		}
		conn := &capConn{h: h, peer: peer}
		ref := tx.Ref().Slice()
		data := payload
		switch st.str("incoming") {
		case "mismatching":
			data = []byte("something else")
		case "empty":
			data = nil
		case "unknown_tx":
			other := mkTx([]dag.Transaction{root}, 1, nil, payload)
			ref = other.Ref().Slice()
		case "no_ref":
			ref = nil
		}
		env := &v2.Envelope{Message: &v2.Envelope_TransactionPayload{TransactionPayload: &v2.TransactionPayload{TransactionRef: ref, Data: data}}}
		_ = v2.VerifHandleSync(h.proto, conn, env)
		// anything stored in the payload shelf besides the root payload?
		storedWanted, _ := h.state.IsPayloadPresent(context.Background(), tx.PayloadHash())
		n := 0
		_ = h.db.ReadShelf(context.Background(), "payloads", func(r stoabs.Reader) error {
			return r.Iterate(func(k stoabs.Key, v []byte) error { n++; return nil }, stoabs.HashKey{})
		})
		obs := "rejected"
		if storedWanted {
			obs = "stored"
		}
		res.Observed = obs
		res.Trace = append(res.Trace, map[string]any{"ev": "receive", "peer": st.str("peer"), "incoming": st.str("incoming"), "observed": obs, "payloads": n})
		if st.str("incoming") != "matching" && (storedWanted || n > 1) {
			viol("payload-stored-"+st.str("incoming"), fmt.Sprintf("a %s payload was stored (%d payloads in store)", st.str("incoming"), n))
		}
		if st.str("incoming") == "matching" && !storedWanted {
			res.Drift = append(res.Drift, "matching payload was not stored")
		}
		return res
	case "Create":
		// the REAL dag.PAL.Encrypt over a scripted key resolver: participant situations
		sit := map[string]error{}
		switch st.str("parts") {
		case "one_deactivated":
			sit[P.did.String()] = resolver.ErrDeactivated
		case "all_deactivated":
			sit[P.did.String()] = resolver.ErrDeactivated
			sit[X.did.String()] = resolver.ErrNoActiveController
		case "one_without_key":
			sit[X.did.String()] = resolver.ErrKeyNotFound
		case "one_unknown":
			sit[X.did.String()] = resolver.ErrNotFound
		}
		addressees := []*party{P, X}
		pal := dag.PAL{P.did, X.did}
		epal, err := pal.Encrypt(sitResolver{parties: parties, sit: sit})
		obs := "refused"
		if err == nil {
			// who can read the list, and what does it say?
			readable := 0
			complete := true
			for _, a := range addressees {
				for _, ct := range epal {
					if pt, derr := nutsCrypto.EciesDecrypt(a.key, ct); derr == nil {
						readable++
						for _, b := range addressees {
							if !bytes.Contains(pt, []byte(b.did.String())) {
								complete = false
							}
						}
						break
					}
				}
			}
			switch {
			case len(epal) == 0:
				obs = "no_list"
				viol("private-transaction-created-without-list", "PAL.Encrypt returned an empty list for a transaction addressed to participants ("+st.str("parts")+"): the transaction would be created as a public one and its payload gossiped to everybody")
			case readable < len(addressees) || !complete:
				obs = "partial_list"
				viol("private-transaction-with-incomplete-list", fmt.Sprintf("PAL.Encrypt succeeded although not every participant is a recipient (%s): %d of %d can read the list", st.str("parts"), readable, len(addressees)))
			default:
				obs = "encrypted_all"
			}
		}
		res.Observed = obs
		res.Trace = append(res.Trace, map[string]any{"ev": "create", "parts": st.str("parts"), "observed": obs, "err": fmt.Sprint(err)})
		if obs != st.str("expect") && obs != "no_list" && obs != "partial_list" {
			res.Drift = append(res.Drift, fmt.Sprintf("Create %s: model %s, code %s", st.str("parts"), st.str("expect"), obs))
		}
		return res
	case "ReceiveList":
		dec := decrypter{keys: map[string]*ecdsa.PrivateKey{H.kid: H.key}}
		h := newHolder(t, dir, H.did, docResolver{parties}, dec)
		defer h.close()
		root := mkTx(nil, 0, nil, []byte("root payload"))
		_ = h.state.Add(context.Background(), root, []byte("root payload"))
		payload := []byte("PRIVATE-PAYLOAD-" + pc.ID)
		tx := mkTx([]dag.Transaction{root}, 1, encryptPAL([]*party{H, P}, []*party{H, P}), payload)
		if st.str("known") == "known_nopayload" {
			_ = h.state.Add(context.Background(), tx, nil) // the private transaction is known, its payload not yet
		}
		if st.str("known") == "new_unaddable" {
			// a correctly signed SECOND ROOT: passes parsing and the verifiers, refused inside the DAG's write transaction
			tx = mkTx(nil, 0, encryptPAL([]*party{H, P}, []*party{H, P}), payload)
		}
		peer := transport.Peer{ID: "P", Address: "p:5555", Authenticated: true, NodeDID: P.did}
		conn := &capConn{h: h, peer: peer}
		// the node asks the peer for the clock range (real sender, real conversation), the peer answers with a list
		h.sent = nil
		if err := v2.VerifSendRangeQuery(h.proto, conn, 0, 10); err != nil || len(h.sent) != 1 {
			res.Error = fmt.Sprintf("range query not sent: %v", err)
			return res
		}
		cid := h.sent[0].GetTransactionRangeQuery().ConversationID
		var data []byte
		switch st.str("incoming") {
		case "matching":
			data = payload
		case "mismatching":
			data = []byte("something else entirely")
		}
		env := &v2.Envelope{Message: &v2.Envelope_TransactionList{TransactionList: &v2.TransactionList{ConversationID: cid, TotalMessages: 1, MessageNumber: 1,
			Transactions: []*v2.Transaction{{Data: tx.Data(), Payload: data}}}}}
		herr := v2.VerifHandleSync(h.proto, conn, env)
		txStored, _ := h.state.IsPresent(context.Background(), tx.Ref())
		n := 0
		var foreign []string
		_ = h.db.ReadShelf(context.Background(), "payloads", func(r stoabs.Reader) error {
			return r.Iterate(func(k stoabs.Key, v []byte) error {
				n++
				sum := sha256.Sum256(v)
				if !bytes.Equal(sum[:], k.Bytes()) {
					foreign = append(foreign, hex.EncodeToString(k.Bytes())[:8])
				}
				return nil
			}, stoabs.HashKey{})
		})
		storedWanted, _ := h.state.IsPayloadPresent(context.Background(), tx.PayloadHash())
		obs := "rejected"
		if storedWanted {
			obs = "stored"
		}
		res.Observed = obs
		res.Trace = append(res.Trace, map[string]any{"ev": "receivelist", "known": st.str("known"), "incoming": st.str("incoming"), "observed": obs, "payloads": n, "tx_stored": txStored, "err": fmt.Sprint(herr)})
		// the property on the real store: every stored payload hashes to its key, and nothing but a matching payload is kept
		if len(foreign) > 0 {
			viol("payload-stored-under-foreign-hash", fmt.Sprintf("payload store holds bytes that do not hash to their key (%v) after a TransactionList with a %s payload for a %s transaction", foreign, st.str("incoming"), st.str("known")))
		}
		if storedWanted && !txStored {
			viol("payload-stored-without-transaction", "the payload that came with a "+st.str("known")+" transaction is in the payload store although the transaction is not in the DAG")
		}
		if st.str("incoming") != "matching" && storedWanted {
			viol("payload-stored-"+st.str("incoming"), "a "+st.str("incoming")+" payload delivered in a TransactionList was stored")
		}
		if st.str("incoming") == "mismatching" && st.str("known") == "new" && txStored {
			viol("transaction-admitted-with-mismatching-payload", "a new transaction delivered with bytes that do not hash to its payload hash was admitted")
		}
		if obs != st.str("expect") {
			res.Drift = append(res.Drift, fmt.Sprintf("ReceiveList %s/%s: model %s, code %s", st.str("known"), st.str("incoming"), st.str("expect"), obs))
		}
		return res
	}
	res.Error = "unknown case"
	return res
}

type svcResolver struct {
	endpoint string
	err      error
}

func (s *svcResolver) Resolve(_ ssi.URI, _ int) (did.Service, error) {
	if s.err != nil {
		return did.Service{}, s.err
	}
	return did.Service{Type: transport.NutsCommServiceType, ServiceEndpoint: s.endpoint}, nil
}
func (s *svcResolver) ResolveEx(ssi.URI, int, int, map[string]*did.Document) (did.Service, error) {
	return did.Service{}, errors.New("unused")
}

type fakeConnCap struct{ *capConn }
type capList struct{ c *fakeConnCap }

func (l *capList) Get(...grpc.Predicate) grpc.Connection           { return l.c }
func (l *capList) All() []grpc.Connection                          { return []grpc.Connection{l.c} }
func (l *capList) AllMatching(...grpc.Predicate) []grpc.Connection { return []grpc.Connection{l.c} }

func TestPriv(t *testing.T) {
	inPath, outPath := os.Getenv("VERIF_IN"), os.Getenv("VERIF_OUT")
	if inPath == "" {
		t.Skip("VERIF_IN not set")
	}
	logrus.SetLevel(logrus.PanicLevel)
	logrus.SetOutput(io.Discard)
	raw, err := os.ReadFile(inPath)
	if err != nil {
		t.Fatal(err)
	}
	var in privInput
	if err := json.Unmarshal(raw, &in); err != nil {
		t.Fatal(err)
	}
	out, err := os.Create(outPath)
	if err != nil {
		t.Fatal(err)
	}
	defer out.Close()
	bw := bufio.NewWriter(out)
	defer bw.Flush()
	enc := json.NewEncoder(bw)
	for _, c := range in.Cases {
		if err := enc.Encode(runPrivCase(t, c)); err != nil {
			t.Fatal(err)
		}
	}
}

// panicSite returns the first nuts-node frame of the current (panicking) stack.
func panicSite() string {
	buf := make([]byte, 1<<16)
	n := runtime.Stack(buf, false)
	for _, l := range strings.Split(string(buf[:n]), "\n") {
		if strings.Contains(l, "nuts-node/") && strings.Contains(l, "(") && !strings.Contains(l, "verifharness") && !strings.HasPrefix(l, "\t") {
			return l
		}
	}
	return "?"
}
