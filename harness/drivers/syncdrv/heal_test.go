package syncdrv

// X08 (Heal.tla): self-healing of a corrupted XOR digest through the network. Real v2 protocol instances over real
// dag.States that hold the SAME multi-page DAG; the script (a behaviour of Heal.tla) corrupts XOR leaves, fires gossip
// ticks, delivers or loses gossip messages and fires the repair ticker. Verdicts come from the real observables.

import (
	"bufio"
	"context"
	"crypto/sha256"
	"encoding/json"
	"fmt"
	"io"
	"os"
	"path/filepath"
	"testing"

	"github.com/nuts-foundation/nuts-node/core"
	"github.com/nuts-foundation/nuts-node/crypto/hash"
	"github.com/nuts-foundation/nuts-node/network/dag"
	"github.com/nuts-foundation/nuts-node/network/transport"
	"github.com/sirupsen/logrus"
)

type healInput struct {
	Nodes    []string     `json:"nodes"`
	Links    [][]string   `json:"links"`
	LastPage int          `json:"last_page"`
	Scripts  []healScript `json:"scripts"`
}

type healScript struct {
	ID    string `json:"id"`
	Steps []step `json:"steps"`
}

type healResult struct {
	ID         string           `json:"id"`
	Violations []violation      `json:"violations"`
	Drift      []string         `json:"drift"`
	Error      string           `json:"error,omitempty"`
	Trace      []map[string]any `json:"trace"`
	Checks     int              `json:"checks"`
	Repairs    int              `json:"repairs"`
	Fixed      int              `json:"fixed"`
	Gossips    int              `json:"gossips"`
	Rounds     int              `json:"rounds"`
}

type healRun struct {
	s        *sim
	res      *healResult
	pages    int
	right    []hash.SHA256Hash         // right[pg]: XOR of the refs whose clock lies on page pg
	garbage  map[string]map[int]string // garbage[n][pg]: tag currently XORed into that leaf by the script
	stepNo   int
	universe *universe
}

func (h *healRun) viol(kind, detail string) {
	for _, v := range h.res.Violations {
		if v.Kind == kind {
			return
		}
	}
	h.res.Violations = append(h.res.Violations, violation{"X08", kind, detail, h.stepNo})
}

// tagHash: the garbage value of tag g on page pg (the same tag on two pages must not cancel out in the root digest)
func tagHash(g string, pg int) hash.SHA256Hash {
	return hash.SHA256Hash(sha256.Sum256([]byte(fmt.Sprintf("garbage-%s-%d", g, pg))))
}

// leaves returns the real XOR leaf of every page of a node, derived from the public XOR(clock) API.
func (h *healRun) leaves(n *node) []hash.SHA256Hash {
	out := make([]hash.SHA256Hash, h.pages)
	var prev hash.SHA256Hash
	for pg := 0; pg < h.pages; pg++ {
		c := uint32(pg) * dag.PageSize
		if pg == h.pages-1 {
			c = dag.MaxLamportClock
		}
		cum, _ := n.state.XOR(c)
		out[pg] = cum.Xor(prev)
		prev = cum
	}
	return out
}

func (h *healRun) step(st step) {
	s := h.s
	switch st.str("a") {
	case "Corrupt":
		n := s.nodes[st.str("n")]
		pg := st.num("pg")
		g := st.str("g")
		clock := uint32(pg)*dag.PageSize + 1
		if old := h.garbage[n.name][pg]; old != "" {
			_ = dag.VerifCorruptXor(n.state, tagHash(old, pg), clock) // take the old garbage out again
		}
		if err := dag.VerifCorruptXor(n.state, tagHash(g, pg), clock); err != nil {
			h.res.Error = "corrupt: " + err.Error()
			return
		}
		h.garbage[n.name][pg] = g
		h.res.Trace = append(h.res.Trace, map[string]any{"ev": "corrupt", "n": n.name, "pg": pg, "g": g})
	case "GossipTick":
		before := len(s.net)
		s.tick(st.str("n"), st.str("p"))
		if len(s.net) == before {
			h.res.Drift = append(h.res.Drift, fmt.Sprintf("step %d: the gossip tick %s->%s sent nothing", h.stepNo, st.str("n"), st.str("p")))
			return
		}
		h.res.Trace = append(h.res.Trace, map[string]any{"ev": "tick", "n": st.str("n"), "p": st.str("p")})
	case "Announce":
		h.announce(st.str("n"))
	case "HandleGossip":
		h.handle(st.str("from"), st.str("to"))
	case "Lose":
		i := s.find("Gossip", st.str("from"), st.str("to"), 1)
		if i < 0 {
			h.res.Drift = append(h.res.Drift, fmt.Sprintf("step %d: no gossip %s->%s in flight to lose", h.stepNo, st.str("from"), st.str("to")))
			return
		}
		s.remove(i)
		h.res.Trace = append(h.res.Trace, map[string]any{"ev": "lose", "from": st.str("from"), "to": st.str("to")})
	case "RepairTick":
		h.repair(st.str("n"))
	}
}

// handle delivers the gossip message from->to to the real handler and then everything it triggers (State /
// TransactionSet: with equal transaction sets there is nothing to fetch).
func (h *healRun) handle(from, to string) {
	s := h.s
	i := s.find("Gossip", from, to, 1)
	if i < 0 {
		h.res.Drift = append(h.res.Drift, fmt.Sprintf("step %d: no gossip %s->%s in flight", h.stepNo, from, to))
		return
	}
	n := s.nodes[to]
	gm := s.net[i].env.GetGossip()
	mine, _ := n.state.XOR(dag.MaxLamportClock)
	eq := mine.Equals(hash.FromSlice(gm.XOR))
	before, _ := dag.VerifCircuit(n.state)
	s.deliver(i, false)
	for guard := 0; guard < 20; guard++ { // follow-ups
		j := -1
		for x, m := range s.net {
			if m.kind != "Gossip" && m.kind != "Diag" {
				j = x
				break
			}
		}
		if j < 0 {
			break
		}
		if k := s.net[j].kind; k != "State" && k != "TxSet" {
			h.viol("unexpected-traffic", fmt.Sprintf("nodes with equal transaction sets exchanged a %s message", k))
		}
		s.deliver(j, false)
	}
	after, _ := dag.VerifCircuit(n.state)
	h.res.Gossips++
	h.res.Checks++
	h.res.Trace = append(h.res.Trace, map[string]any{"ev": "gossip", "from": from, "to": to, "eq": eq, "circuit": after})
	if eq && after != 0 {
		h.viol("circuit-not-reset-on-equal", fmt.Sprintf("%s received a gossip with its own XOR and its repair circuit stayed at %d", to, after))
	}
	if !eq && after != before+1 {
		h.viol("circuit-not-raised-on-mismatch", fmt.Sprintf("%s received a gossip with another XOR at equal clocks and its repair circuit went from %d to %d", to, before, after))
	}
	h.sameSets("after gossip " + from + "->" + to)
}

// announce: the connections of the node are re-established (what a restart or a reconnect does): the gossip manager
// caches the CURRENT XOR for its announcements (PeerConnected)
func (h *healRun) announce(name string) {
	n := h.s.nodes[name]
	for _, c := range n.conns {
		for _, o := range n.mgr.observers {
			o(c.peer, transport.StateDisconnected, n.proto)
		}
		for _, o := range n.mgr.observers {
			o(c.peer, transport.StateConnected, n.proto)
		}
	}
	h.res.Trace = append(h.res.Trace, map[string]any{"ev": "announce", "n": name})
}

func (h *healRun) repair(name string) {
	n := h.s.nodes[name]
	circ, cur := dag.VerifCircuit(n.state)
	before := h.leaves(n)
	dag.VerifRepairTick(n.state)
	after := h.leaves(n)
	_, cur2 := dag.VerifCircuit(n.state)
	h.res.Repairs++
	h.res.Checks++
	changed := -1
	for pg := range before {
		if !before[pg].Equals(after[pg]) {
			if changed >= 0 || pg != int(cur) {
				h.viol("repair-touched-other-page", fmt.Sprintf("the repair round of %s at page %d changed the leaf of page %d", name, cur, pg))
			}
			changed = pg
			if !after[pg].Equals(h.right[pg]) {
				h.viol("repair-wrote-wrong-leaf", fmt.Sprintf("the repair round of %s replaced the leaf of page %d by something else than the recomputed value", name, pg))
			} else {
				h.res.Fixed++
				delete(h.garbage[name], pg)
			}
		}
		if before[pg].Equals(h.right[pg]) && !after[pg].Equals(h.right[pg]) {
			h.viol("repair-broke-clean-leaf", fmt.Sprintf("the repair round of %s damaged the right leaf of page %d", name, pg))
		}
	}
	if circ < 2 && (changed >= 0 || cur2 != cur) {
		h.viol("repair-ran-while-not-red", fmt.Sprintf("circuit of %s is %d but the repair round changed something (cursor %d -> %d)", name, circ, cur, cur2))
	}
	if circ >= 2 && int(cur) < h.pages && !before[cur].Equals(h.right[cur]) && !after[cur].Equals(h.right[cur]) {
		h.viol("repair-ineffective", fmt.Sprintf("circuit of %s is red, the leaf of page %d is wrong, the repair round looked at it and left it wrong", name, cur))
	}
	pg := int(cur)
	if changed >= 0 {
		pg = changed
	}
	h.res.Trace = append(h.res.Trace, map[string]any{"ev": "repair", "n": name, "cursor": cur2, "changed": changed >= 0, "pg": pg})
	h.sameSets("after repair of " + name)
}

// sameSets: healing never adds or removes a transaction.
func (h *healRun) sameSets(when string) {
	for _, name := range h.s.order {
		if got := len(h.s.stored(h.s.nodes[name])); got != len(h.universe.txs) {
			h.viol("transactions-changed", fmt.Sprintf("%s: node %s stores %d transactions, expected %d", when, name, got, len(h.universe.txs)))
		}
	}
}

func (h *healRun) allRight() (bool, string) {
	for _, name := range h.s.order {
		l := h.leaves(h.s.nodes[name])
		for pg := range l {
			if !l[pg].Equals(h.right[pg]) {
				return false, fmt.Sprintf("leaf of page %d of %s is still wrong", pg, name)
			}
		}
	}
	return true, ""
}

// fairSuffix: no more faults; every link gossips in both directions, every message is handled, every ticker ticks.
func (h *healRun) fairSuffix(in healInput) {
	maxRounds := 2*(h.pages+3) + 4
	healedAt := -1
	for round := 1; round <= maxRounds; round++ {
		h.res.Rounds = round
		h.stepNo = 1000 + round
		for i := len(h.s.net) - 1; i >= 0; i-- { // stale messages first
			if h.s.net[i].kind == "Gossip" {
				h.handle(h.s.net[i].from, h.s.net[i].to)
			}
		}
		for _, l := range in.Links {
			for _, pair := range [][2]string{{l[0], l[1]}, {l[1], l[0]}} {
				h.step(step{"a": "GossipTick", "n": pair[0], "p": pair[1]})
				h.step(step{"a": "HandleGossip", "from": pair[0], "to": pair[1]})
			}
		}
		for _, n := range h.s.order {
			h.repair(n)
		}
		if ok, _ := h.allRight(); ok && healedAt < 0 {
			healedAt = round
		}
		if healedAt > 0 && round >= healedAt+2 {
			break
		}
	}
	if ok, why := h.allRight(); !ok {
		h.viol("not-healed", fmt.Sprintf("after %d fault-free rounds (gossip on every link, repair ticker on every node): %s", h.res.Rounds, why))
		return
	}
	// stale announcements are refreshed (a new transaction / a reconnect), then two more gossip rounds
	for _, n := range h.s.order {
		h.announce(n)
	}
	for k := 0; k < 2; k++ {
		h.res.Rounds++
		for _, l := range in.Links {
			for _, pair := range [][2]string{{l[0], l[1]}, {l[1], l[0]}} {
				h.step(step{"a": "GossipTick", "n": pair[0], "p": pair[1]})
				h.step(step{"a": "HandleGossip", "from": pair[0], "to": pair[1]})
			}
		}
	}
	for _, name := range h.s.order {
		if c, _ := dag.VerifCircuit(h.s.nodes[name].state); c >= 2 && len(h.s.nodes[name].conns) > 0 {
			h.viol("not-calm", fmt.Sprintf("all digests are right and agree, two more gossip rounds went by, but the repair circuit of %s is still %d", name, c))
		}
	}
}

func runHeal(t *testing.T, in healInput, sc healScript, u *universe, right []hash.SHA256Hash) *healResult {
	res := &healResult{ID: sc.ID, Violations: []violation{}, Drift: []string{}, Trace: []map[string]any{}}
	dummy := &result{Violations: []violation{}, Kinds: map[string]int{}, Paths: map[string]int{}}
	s := newSim(t, input{Nodes: in.Nodes}, u, dummy)
	defer s.close()
	s.connect(in.Links)
	h := &healRun{s: s, res: res, pages: in.LastPage + 1, right: right, garbage: map[string]map[int]string{}, universe: u}
	for _, n := range in.Nodes {
		h.garbage[n] = map[int]string{}
	}
	if ok, why := h.allRight(); !ok {
		res.Error = "initial state: " + why
		return res
	}
	defer func() {
		if r := recover(); r != nil {
			res.Violations = append(res.Violations, violation{"C19", "panic", fmt.Sprintf("%v in %s", r, panicSite()), h.stepNo})
		}
	}()
	for i, st := range sc.Steps {
		h.stepNo = i
		h.step(st)
		if res.Error != "" {
			return res
		}
	}
	h.fairSuffix(in)
	// what was repaired must also be on disk: a fresh State over the same store reports the right leaves
	if len(res.Violations) == 0 {
		for _, name := range s.order {
			n := s.nodes[name]
			st2, err := dag.NewState(n.db, dag.NewPrevTransactionsVerifier(), dag.NewTransactionSignatureVerifier(nil))
			if err != nil {
				continue
			}
			_ = st2.Configure(core.ServerConfig{})
			l := h.leaves(&node{name: name, state: st2})
			for pg := range l {
				if !l[pg].Equals(h.right[pg]) {
					h.viol("repair-not-persisted", fmt.Sprintf("after healing, a restart of %s brings the wrong leaf of page %d back", name, pg))
				}
			}
			_ = st2.Shutdown()
		}
	}
	for _, v := range dummy.Violations { // C07 safety monitor of the simulator
		res.Violations = append(res.Violations, v)
	}
	return res
}

func TestHeal(t *testing.T) {
	inPath, outPath := os.Getenv("VERIF_IN"), os.Getenv("VERIF_OUT")
	if inPath == "" {
		t.Skip("VERIF_IN not set")
	}
	logrus.SetLevel(logrus.PanicLevel)
	logrus.SetOutput(io.Discard)
	raw, err := os.ReadFile(inPath)
	if err != nil {
		t.Fatal(err)
	}
	var in healInput
	if err := json.Unmarshal(raw, &in); err != nil {
		t.Fatal(err)
	}
	// one DAG for everybody: a chain that ends on the last page
	u := newUniverse()
	prev := u.add("r", nil, 0, true, false)
	total := in.LastPage*int(dag.PageSize) + 40
	for i := 1; i <= total; i++ {
		prev = u.add(fmt.Sprintf("c%d", i), []string{prev.name}, i, true, false)
	}
	right := make([]hash.SHA256Hash, in.LastPage+1)
	for _, c := range u.txs {
		pg := int(c.lc / dag.PageSize)
		right[pg] = right[pg].Xor(c.tx.Ref())
	}
	// template databases
	tdir := t.TempDir()
	{
		dummy := &result{Violations: []violation{}, Kinds: map[string]int{}, Paths: map[string]int{}}
		s := newSim(t, input{Nodes: in.Nodes}, u, dummy)
		for _, name := range in.Nodes {
			for i := 0; i <= total; i++ {
				n := "r"
				if i > 0 {
					n = fmt.Sprintf("c%d", i)
				}
				if err := s.nodes[name].state.Add(context.Background(), u.txs[n].tx, u.txs[n].payload); err != nil {
					t.Fatal(err)
				}
			}
		}
		dir := s.dir
		s.close()
		for _, name := range in.Nodes {
			b, err := os.ReadFile(filepath.Join(dir, name+".db"))
			if err != nil {
				t.Fatal(err)
			}
			if err := os.WriteFile(filepath.Join(tdir, name+".db"), b, 0o600); err != nil {
				t.Fatal(err)
			}
		}
	}
	simTemplateDir = tdir
	defer func() { simTemplateDir = "" }()
	out, err := os.Create(outPath)
	if err != nil {
		t.Fatal(err)
	}
	defer out.Close()
	bw := bufio.NewWriter(out)
	defer bw.Flush()
	enc := json.NewEncoder(bw)
	for _, sc := range in.Scripts {
		if err := enc.Encode(runHeal(t, in, sc, u, right)); err != nil {
			t.Fatal(err)
		}
		bw.Flush()
	}
}
