// Driver for Sync.tla (C07, C15): a deterministic network simulator around REAL v2 protocol instances, each over
// a real dag.State on its own bbolt file. Every envelope handed to Connection.Send is captured; delivery calls the
// real handler synchronously; gossip ticks and conversation time-outs are explicit simulator steps.
package syncdrv

import (
	"bufio"
	"bytes"
	"context"
	"crypto/ecdsa"
	"crypto/sha256"
	"encoding/hex"
	"encoding/json"
	"errors"
	"fmt"
	"io"
	"math/rand"
	"os"
	"path/filepath"
	"sort"
	"strings"
	"sync"
	"testing"
	"time"

	"github.com/nuts-foundation/go-did/did"
	"github.com/nuts-foundation/go-stoabs"
	"github.com/nuts-foundation/go-stoabs/bbolt"
	"github.com/nuts-foundation/nuts-node/core"
	nutsCrypto "github.com/nuts-foundation/nuts-node/crypto"
	"github.com/nuts-foundation/nuts-node/crypto/hash"
	"github.com/nuts-foundation/nuts-node/network/dag"
	"github.com/nuts-foundation/nuts-node/network/dag/tree"
	"github.com/nuts-foundation/nuts-node/network/transport"
	"github.com/nuts-foundation/nuts-node/network/transport/grpc"
	v2 "github.com/nuts-foundation/nuts-node/network/transport/v2"
	"github.com/nuts-foundation/nuts-node/vdr/resolver"
	"github.com/sirupsen/logrus"
	grpcLib "google.golang.org/grpc"

	"google.golang.org/protobuf/proto"

	"verifharness/txforge"
)

// ------------------------------------------------------------------------------------------ input

type attr struct {
	Prevs []string `json:"prevs"`
	Lc    int      `json:"lc"`
	OK    bool     `json:"ok"`
}

type step map[string]any

func (s step) str(k string) string { v, _ := s[k].(string); return v }
func (s step) num(k string) int {
	if f, ok := s[k].(float64); ok {
		return int(f)
	}
	return 0
}
func (s step) boolean(k string) bool { v, _ := s[k].(bool); return v }

type script struct {
	ID    string `json:"id"`
	Steps []step `json:"steps"`
	// random mode
	Seed   int64  `json:"seed,omitempty"`
	Shape  string `json:"shape,omitempty"`
	Size   int    `json:"size,omitempty"`
	Deep   int    `json:"deep,omitempty"`   // shape "deepwide": length of the common chain below the wide level
	Budget int    `json:"budget,omitempty"` // scheduler steps before the fair suffix
	Loss   int    `json:"loss,omitempty"`
	Dup    int    `json:"dup,omitempty"`
	Expire int    `json:"expire,omitempty"`
	Inject int    `json:"inject,omitempty"`
	Create int    `json:"create,omitempty"`
	Fat    bool   `json:"fat,omitempty"`  // large payloads so that lists are split into several messages
	Priv   bool   `json:"priv,omitempty"` // C15: nodes have DIDs, A creates private transactions for {A, B}
}

type input struct {
	Universe map[string]attr     `json:"universe"`
	Nodes    []string            `json:"nodes"`
	Links    [][]string          `json:"links"`
	Init     map[string][]string `json:"init"`
	Future   map[string][]string `json:"future"`
	Scripts  []script            `json:"scripts"`
	Rounds   int                 `json:"rounds"`
}

type violation struct {
	Prop   string `json:"prop"`
	Kind   string `json:"kind"`
	Detail string `json:"detail"`
	Step   int    `json:"step"`
}

type result struct {
	ID         string           `json:"id"`
	Violations []violation      `json:"violations"`
	Drift      []string         `json:"drift"`
	Error      string           `json:"error,omitempty"`
	Trace      []map[string]any `json:"trace"`
	Rounds     int              `json:"rounds"`
	Delivered  int              `json:"delivered"`
	Kinds      map[string]int   `json:"kinds"`
	TxTotal    int              `json:"tx_total"`
	Paths      map[string]int   `json:"paths"`
	Livelock   int              `json:"livelock,omitempty"` // rounds cut short: thousands of deliveries without any progress
}

// ------------------------------------------------------------------------------------ transactions

type ctx struct {
	name    string
	tx      dag.Transaction
	payload []byte
	ok      bool
	lc      uint32
	prevs   []string
}

type universe struct {
	txs   map[string]*ctx
	byRef map[hash.SHA256Hash]*ctx
}

func newUniverse() *universe {
	return &universe{txs: map[string]*ctx{}, byRef: map[hash.SHA256Hash]*ctx{}}
}

func (u *universe) add(name string, prevs []string, lc int, ok bool, fat bool) *ctx {
	key := txforge.NewKey()
	var prevRefs []string
	for _, p := range prevs {
		if c := u.txs[p]; c != nil {
			prevRefs = append(prevRefs, c.tx.Ref().String())
		} else {
			g := sha256.Sum256([]byte("ghost-" + p))
			prevRefs = append(prevRefs, hex.EncodeToString(g[:]))
		}
	}
	payload := []byte("payload-of-" + name)
	if fat {
		payload = append(payload, make([]byte, 200*1024)...)
	}
	ph := sha256.Sum256(payload)
	h := txforge.TxHeaders(key, prevRefs, lc, time.Now().Unix(), "application/x-verif")
	raw := txforge.Compact(h, []byte(hex.EncodeToString(ph[:])), key)
	if !ok {
		raw = txforge.FlipSig(raw)
	}
	tx, err := dag.ParseTransaction(raw)
	if err != nil {
		panic(err)
	}
	c := &ctx{name: name, tx: tx, payload: payload, ok: ok, lc: uint32(lc), prevs: prevs}
	u.txs[name] = c
	u.byRef[tx.Ref()] = c
	return c
}

func (u *universe) build(spec map[string]attr, fat bool) {
	names := make([]string, 0, len(spec))
	for n := range spec {
		names = append(names, n)
	}
	sort.Strings(names)
	done := map[string]bool{}
	for len(done) < len(names) {
		progress := false
		for _, n := range names {
			if done[n] {
				continue
			}
			ready := true
			for _, p := range spec[n].Prevs {
				if _, known := spec[p]; known && !done[p] {
					ready = false
				}
			}
			if ready {
				u.add(n, spec[n].Prevs, spec[n].Lc, spec[n].OK, fat)
				done[n] = true
				progress = true
			}
		}
		if !progress {
			panic("cyclic universe")
		}
	}
}

// ------------------------------------------------------------------------------------------- nodes

type stubResolver struct{}

func (stubResolver) ResolvePublicKey(kid string, _ []hash.SHA256Hash) (interface{ Equal(x interface{}) bool }, error) {
	return nil, errors.New("no kid transactions here")
}

type keyRes struct{}

type fakeConn struct {
	grpc.Connection
	sim       *sim
	owner, to string
	peer      transport.Peer
	connected bool
	authed    bool
}

// Send may be called from goroutines of the code under test (the notifier's retry goroutine makes its first attempt at
// once and in parallel): the envelope is only queued here; the simulator's own goroutine moves the queue into the
// network (pump), so that all simulator state is touched by one goroutine only.
func (c *fakeConn) Send(_ grpc.Protocol, envelope interface{}, _ bool) error {
	c.sim.inMu.Lock()
	c.sim.inbox = append(c.sim.inbox, pendingSend{c.owner, c.to, envelope.(*v2.Envelope)})
	c.sim.inMu.Unlock()
	return nil
}

type pendingSend struct {
	from, to string
	env      *v2.Envelope
}

// pump moves what the nodes have sent since the last call into the simulated network (and through the envelope monitor).
func (s *sim) pump() {
	s.inMu.Lock()
	in := s.inbox
	s.inbox = nil
	s.inMu.Unlock()
	for _, m := range in {
		s.capture(m.from, m.to, m.env)
	}
}
func (c *fakeConn) Peer() transport.Peer  { return c.peer }
func (c *fakeConn) IsConnected() bool     { return c.connected }
func (c *fakeConn) IsAuthenticated() bool { return c.peer.Authenticated }

type connList struct{ conns []*fakeConn }

func (l *connList) Get(query ...grpc.Predicate) grpc.Connection {
	for _, c := range l.conns {
		ok := true
		for _, q := range query {
			if !q.Match(c) {
				ok = false
			}
		}
		if ok {
			return c
		}
	}
	return nil
}
func (l *connList) All() []grpc.Connection {
	var out []grpc.Connection
	for _, c := range l.conns {
		out = append(out, c)
	}
	return out
}
func (l *connList) AllMatching(query ...grpc.Predicate) []grpc.Connection {
	var out []grpc.Connection
	for _, c := range l.conns {
		ok := true
		for _, q := range query {
			if !q.Match(c) {
				ok = false
			}
		}
		if ok {
			out = append(out, c)
		}
	}
	return out
}

type connMgr struct {
	transport.ConnectionManager
	observers []transport.StreamStateObserverFunc
}

func (m *connMgr) RegisterObserver(cb transport.StreamStateObserverFunc) {
	m.observers = append(m.observers, cb)
}

type registrar struct{}

func (registrar) RegisterService(*grpcLib.ServiceDesc, interface{}) {}

type node struct {
	name  string
	db    stoabs.KVStore
	state dag.State
	proto transport.Protocol
	conns map[string]*fakeConn
	list  *connList
	mgr   *connMgr
	did   did.DID
}

type inflight struct {
	seq      int
	from, to string
	env      *v2.Envelope
	kind     string
	num, tot int
	cid      string
}

type sim struct {
	inMu  sync.Mutex
	inbox []pendingSend
	t     *testing.T
	dir   string
	u     *universe
	nodes map[string]*node
	order []string
	net   []*inflight
	seq   int
	res   *result
	step  int
	// what every node has ever stored (NeverRemove), by ref
	seen map[string]map[hash.SHA256Hash]bool
	// XOR digest -> set name list (for abstraction of digests in the trace)
	cidAbs map[string]int
	// model conversation id -> real conversation id (replay mode), and the real id of the last conversation started
	cidReal   map[int]string
	lastStart string
	// C15 monitor
	parties  map[string]*party           // node name -> identity
	private  map[hash.SHA256Hash]*privTx // private transactions by ref
	privNode bool
}

type privTx struct {
	c          *ctx
	plain      map[string]bool // node names on the decrypted list
	recipients map[string]bool // node names that can decrypt
}

func kindOf(e *v2.Envelope) (string, int, int, string) {
	switch m := e.Message.(type) {
	case *v2.Envelope_Gossip:
		return "Gossip", 1, 1, ""
	case *v2.Envelope_State:
		return "State", 1, 1, string(m.State.ConversationID)
	case *v2.Envelope_TransactionSet:
		return "TxSet", 1, 1, string(m.TransactionSet.ConversationID)
	case *v2.Envelope_TransactionListQuery:
		return "ListQ", 1, 1, string(m.TransactionListQuery.ConversationID)
	case *v2.Envelope_TransactionRangeQuery:
		return "RangeQ", 1, 1, string(m.TransactionRangeQuery.ConversationID)
	case *v2.Envelope_TransactionList:
		return "List", int(m.TransactionList.MessageNumber), int(m.TransactionList.TotalMessages), string(m.TransactionList.ConversationID)
	case *v2.Envelope_TransactionPayloadQuery:
		return "PayloadQ", 1, 1, string(m.TransactionPayloadQuery.ConversationID)
	case *v2.Envelope_TransactionPayload:
		return "Payload", 1, 1, string(m.TransactionPayload.ConversationID)
	case *v2.Envelope_DiagnosticsBroadcast:
		return "Diag", 1, 1, ""
	}
	return "?", 1, 1, ""
}

func (s *sim) abstractCid(c string) int {
	if c == "" {
		return 0
	}
	if v, ok := s.cidAbs[c]; ok {
		return v
	}
	s.cidAbs[c] = len(s.cidAbs) + 1
	return s.cidAbs[c]
}

// xorNames abstracts an XOR digest sent by node `from`: the names of its stored transactions if the digest is the XOR
// of exactly those, otherwise ["?"].
func (s *sim) xorNames(from string, x []byte) []string {
	n := s.nodes[from]
	if len(s.u.txs) > 40 || n == nil {
		return []string{"?"}
	}
	acc := hash.EmptyHash()
	var names []string
	for ref := range s.stored(n) {
		acc = acc.Xor(ref)
		names = append(names, s.nameOf(ref))
	}
	if !acc.Equals(hash.FromSlice(x)) {
		return []string{"?"}
	}
	sort.Strings(names)
	if names == nil {
		names = []string{}
	}
	return names
}

// ibltNames abstracts the IBLT of a TransactionSet: the names of the sender's transactions on the pages up to the one
// holding lcReq, if the filter is exactly the IBLT of those, otherwise ["?"].
func (s *sim) ibltNames(from string, lcReq uint32, raw []byte) []string {
	n := s.nodes[from]
	if len(s.u.txs) > 40 || n == nil {
		return []string{"?"}
	}
	var high uint32
	cur := s.stored(n)
	for ref := range cur {
		if c := s.u.byRef[ref]; c != nil && c.lc > high {
			high = c.lc
		}
	}
	ref := tree.NewIblt(dag.IbltNumBuckets)
	names := []string{}
	for r := range cur {
		c := s.u.byRef[r]
		if c == nil {
			return []string{"?"}
		}
		if lcReq >= high || c.lc/dag.PageSize <= lcReq/dag.PageSize {
			ref.Insert(r)
			names = append(names, c.name)
		}
	}
	got := tree.NewIblt(dag.IbltNumBuckets)
	if err := got.UnmarshalBinary(raw); err != nil {
		return []string{"?"}
	}
	if err := got.Subtract(ref); err != nil || !got.Empty() {
		return []string{"?"}
	}
	sort.Strings(names)
	return names
}

func (s *sim) names(refs [][]byte) []string {
	out := []string{}
	for _, r := range refs {
		if c := s.u.byRef[hash.FromSlice(r)]; c != nil {
			out = append(out, c.name)
		} else {
			out = append(out, "?")
		}
	}
	sort.Strings(out)
	return out
}

func (s *sim) capture(from, to string, e *v2.Envelope) {
	k, num, tot, cid := kindOf(e)
	if k == "Diag" {
		return
	}
	if len(s.private) > 0 {
		raw, _ := proto.Marshal(e)
		for _, pt := range s.private {
			if !bytes.Contains(raw, pt.c.payload) {
				continue
			}
			conn := s.nodes[from].conns[to]
			switch {
			case k != "Payload":
				s.viol("C15", "private-payload-in-"+k, fmt.Sprintf("%s -> %s: a %s message carried the payload of private transaction %s", from, to, k, pt.c.name))
			case !conn.peer.Authenticated:
				s.viol("C15", "private-payload-to-unauthenticated", fmt.Sprintf("%s -> %s: payload of %s over an unauthenticated connection", from, to, pt.c.name))
			case !pt.plain[to]:
				s.viol("C15", "private-payload-to-unlisted", fmt.Sprintf("%s -> %s: payload of %s sent to a peer that is not on the participant list", from, to, pt.c.name))
			case !pt.recipients[from]:
				s.viol("C15", "private-payload-from-non-participant", fmt.Sprintf("%s -> %s: payload of %s sent by a node that is not a participant", from, to, pt.c.name))
			}
			s.res.Paths["private-payload-sent"]++
		}
	}
	if k == "State" || k == "ListQ" || k == "RangeQ" {
		s.lastStart = cid
	}
	s.seq++
	m := &inflight{seq: s.seq, from: from, to: to, env: e, kind: k, num: num, tot: tot, cid: cid}
	s.net = append(s.net, m)
	s.res.Kinds[k]++
	ev := map[string]any{"ev": "send", "kind": k, "from": from, "to": to, "cid": s.abstractCid(cid), "num": num, "tot": tot}
	// which branch of the reconciliation logic produced this message (vacuity guard)
	switch mm := e.Message.(type) {
	case *v2.Envelope_State:
		if (mm.State.LC+1)%dag.PageSize == 0 {
			s.res.Paths["state-previous-page"]++
		} else {
			s.res.Paths["state-current"]++
		}
	case *v2.Envelope_TransactionRangeQuery:
		switch {
		case mm.TransactionRangeQuery.Start == 0:
			s.res.Paths["range-first-page"]++
		case mm.TransactionRangeQuery.End-mm.TransactionRangeQuery.Start == dag.PageSize:
			s.res.Paths["range-next-page"]++
		default:
			s.res.Paths["range-two-pages"]++
		}
	case *v2.Envelope_TransactionListQuery:
		s.res.Paths["list-query"]++
	case *v2.Envelope_TransactionList:
		if mm.TransactionList.TotalMessages > 1 {
			s.res.Paths["list-chunked"]++
		}
	}
	switch mm := e.Message.(type) {
	case *v2.Envelope_Gossip:
		ev["lc"] = mm.Gossip.LC
		ev["refs"] = s.names(mm.Gossip.Transactions)
		ev["xor"] = s.xorNames(from, mm.Gossip.XOR)
	case *v2.Envelope_State:
		ev["lc"] = mm.State.LC
		ev["xor"] = s.xorNames(from, mm.State.XOR)
	case *v2.Envelope_TransactionSet:
		ev["lc"] = mm.TransactionSet.LC
		ev["lcReq"] = mm.TransactionSet.LCReq
		ev["set"] = s.ibltNames(from, mm.TransactionSet.LCReq, mm.TransactionSet.IBLT)
	case *v2.Envelope_TransactionListQuery:
		ev["refs"] = s.names(mm.TransactionListQuery.Refs)
	case *v2.Envelope_TransactionRangeQuery:
		ev["lo"] = mm.TransactionRangeQuery.Start
		ev["hi"] = mm.TransactionRangeQuery.End
	case *v2.Envelope_TransactionList:
		var refs [][]byte
		for _, t := range mm.TransactionList.Transactions {
			if tx, err := dag.ParseTransaction(t.Data); err == nil {
				refs = append(refs, tx.Ref().Slice())
			}
		}
		ev["refs"] = s.names(refs)
	}
	if len(s.u.txs) <= 40 {
		s.res.Trace = append(s.res.Trace, ev)
	}
}

// simTemplateDir, if set, holds <node>.db files that every new simulation starts from.
var simTemplateDir string

func newSim(t *testing.T, in input, u *universe, res *result) *sim {
	return newSimP(t, in, u, res, nil)
}

func newSimP(t *testing.T, in input, u *universe, res *result, parties map[string]*party) *sim {
	s := &sim{parties: parties, private: map[hash.SHA256Hash]*privTx{}, t: t, dir: t.TempDir(), u: u, nodes: map[string]*node{}, res: res, seen: map[string]map[hash.SHA256Hash]bool{}, cidAbs: map[string]int{}, cidReal: map[int]string{}}
	for _, name := range in.Nodes {
		if simTemplateDir != "" {
			// start from a prepared database file (same content for every script of the run)
			if raw, err := os.ReadFile(filepath.Join(simTemplateDir, name+".db")); err == nil {
				_ = os.WriteFile(filepath.Join(s.dir, name+".db"), raw, 0o600)
			}
		}
		db, err := bbolt.CreateBBoltStore(filepath.Join(s.dir, name+".db"), stoabs.WithNoSync())
		if err != nil {
			t.Fatal(err)
		}
		st, err := dag.NewState(db, dag.NewPrevTransactionsVerifier(), dag.NewTransactionSignatureVerifier(nil))
		if err != nil {
			t.Fatal(err)
		}
		if err := st.Configure(core.ServerConfig{}); err != nil {
			t.Fatal(err)
		}
		cfg := v2.Config{GossipInterval: 3600 * 1000, DiagnosticsInterval: 0, PayloadRetryDelay: time.Hour}
		n := &node{name: name, db: db, state: st, conns: map[string]*fakeConn{}, list: &connList{}, mgr: &connMgr{}}
		nodeDID := did.DID{}
		var res resolver.DIDResolver
		var dec nutsCrypto.Decrypter
		if s.parties != nil {
			pr := map[string]*party{}
			for _, p := range s.parties {
				pr[p.did.String()] = p
			}
			res = docResolver{pr}
			if p := s.parties[name]; p != nil {
				nodeDID = p.did
				dec = decrypter{keys: map[string]*ecdsa.PrivateKey{p.kid: p.key}}
				n.did = p.did
			}
		}
		n.proto = v2.New(cfg, nodeDID, st, res, dec, func() transport.Diagnostics { return transport.Diagnostics{} }, db)
		if err := n.proto.Configure(transport.PeerID(name)); err != nil {
			t.Fatal(err)
		}
		n.proto.(grpc.Protocol).Register(registrar{}, func(grpcLib.ServerStream) error { return nil }, n.list, n.mgr)
		if err := n.proto.Start(); err != nil {
			t.Fatal(err)
		}
		s.nodes[name] = n
		s.order = append(s.order, name)
		s.seen[name] = map[hash.SHA256Hash]bool{}
	}
	return s
}

func (s *sim) connect(links [][]string) {
	for _, l := range links {
		for _, pair := range [][2]string{{l[0], l[1]}, {l[1], l[0]}} {
			n, p := s.nodes[pair[0]], pair[1]
			if _, ok := n.conns[p]; ok {
				continue
			}
			peer := transport.Peer{ID: transport.PeerID(p), Address: p + ":5555"}
			if pp := s.parties[p]; pp != nil && len(l) < 3 { // a third element marks an unauthenticated link
				peer.NodeDID = pp.did
				peer.Authenticated = true
			}
			c := &fakeConn{sim: s, owner: n.name, to: p, peer: peer, connected: true}
			n.conns[p] = c
			n.list.conns = append(n.list.conns, c)
			for _, o := range n.mgr.observers {
				o(peer, transport.StateConnected, n.proto)
			}
		}
	}
}

func (s *sim) close() {
	for _, n := range s.nodes {
		n.proto.Stop()
		_ = n.state.Shutdown()
		_ = n.db.Close(context.Background())
	}
}

func (s *sim) viol(prop, kind, detail string) {
	for _, v := range s.res.Violations {
		if v.Prop == prop && v.Kind == kind {
			return
		}
	}
	s.res.Violations = append(s.res.Violations, violation{prop, kind, detail, s.step})
}

// stored returns the refs in the "documents" shelf of a node (raw read, independent of the indexes).
func (s *sim) stored(n *node) map[hash.SHA256Hash]bool {
	out := map[hash.SHA256Hash]bool{}
	_ = n.db.ReadShelf(context.Background(), "documents", func(reader stoabs.Reader) error {
		return reader.Iterate(func(k stoabs.Key, v []byte) error {
			out[hash.FromSlice(k.Bytes())] = true
			return nil
		}, stoabs.HashKey{})
	})
	return out
}

// safety evaluates "never admits an invalid transaction, never removes one" after a step.
func (s *sim) safety(when string) {
	for _, name := range s.order {
		n := s.nodes[name]
		cur := s.stored(n)
		for ref := range s.seen[name] {
			if !cur[ref] {
				s.viol("C07", "removed", fmt.Sprintf("%s: node %s no longer stores %s", when, name, s.nameOf(ref)))
			}
		}
		for ref := range cur {
			if s.seen[name][ref] {
				continue
			}
			s.seen[name][ref] = true
			c := s.u.byRef[ref]
			if c == nil {
				s.viol("C07", "unknown-admitted", fmt.Sprintf("%s: node %s stores a transaction nobody created", when, name))
				continue
			}
			if !c.ok {
				s.viol("C07", "invalid-admitted", fmt.Sprintf("%s: node %s admitted the invalid transaction %s", when, name, c.name))
			}
			for _, p := range c.prevs {
				pc := s.u.txs[p]
				if pc == nil || !cur[pc.tx.Ref()] {
					s.viol("C07", "orphan-admitted", fmt.Sprintf("%s: node %s admitted %s without its previous transaction %s", when, name, c.name, p))
				}
			}
		}
	}
}

func (s *sim) nameOf(ref hash.SHA256Hash) string {
	if c := s.u.byRef[ref]; c != nil {
		return c.name
	}
	return "?" + ref.String()[:8]
}

func (s *sim) setNames(n *node) []string {
	var out []string
	for ref := range s.stored(n) {
		out = append(out, s.nameOf(ref))
	}
	sort.Strings(out)
	return out
}

func (s *sim) converged() bool {
	s.pump()
	union := map[hash.SHA256Hash]bool{}
	sets := map[string]map[hash.SHA256Hash]bool{}
	for _, name := range s.order {
		sets[name] = s.stored(s.nodes[name])
		for r := range sets[name] {
			union[r] = true
		}
	}
	for _, name := range s.order {
		if len(sets[name]) != len(union) {
			return false
		}
	}
	// digests agree as well
	var first hash.SHA256Hash
	for i, name := range s.order {
		x, _ := s.nodes[name].state.XOR(dag.MaxLamportClock)
		if i == 0 {
			first = x
		} else if !x.Equals(first) {
			return false
		}
	}
	return true
}

func (s *sim) add(n *node, c *ctx) error {
	err := n.state.Add(context.Background(), c.tx, c.payload)
	s.pump()
	return err
}

// ------------------------------------------------------------------------------- simulator steps

func (s *sim) find(kind, from, to string, num int) int {
	s.pump()
	for i, m := range s.net {
		if m.kind == kind && m.from == from && m.to == to && (num == 0 || m.num == num) {
			return i
		}
	}
	return -1
}

func (s *sim) remove(i int) *inflight {
	m := s.net[i]
	s.net = append(s.net[:i:i], s.net[i+1:]...)
	return m
}

func (s *sim) deliver(i int, keep bool) {
	m := s.net[i]
	if !keep {
		s.remove(i)
	}
	n := s.nodes[m.to]
	conn := n.conns[m.from]
	before := len(s.setNames(n))
	ev := map[string]any{"ev": "deliver", "kind": m.kind, "from": m.from, "to": m.to, "cid": s.abstractCid(m.cid), "num": m.num, "keep": keep}
	if len(s.u.txs) <= 40 {
		s.res.Trace = append(s.res.Trace, ev)
	}
	err := func() (err error) {
		defer func() {
			if r := recover(); r != nil {
				err = fmt.Errorf("PANIC: %v", r)
				s.viol("C19", "panic", fmt.Sprintf("handler of %s panicked: %v", m.kind, r))
			}
		}()
		return v2.VerifHandleSync(n.proto, conn, m.env)
	}()
	s.pump()
	s.res.Delivered++
	ev["err"] = err != nil
	if err != nil {
		ev["errtext"] = err.Error()
	}
	ev["added"] = len(s.setNames(n)) - before
	ev["size"] = len(s.setNames(n))
	ev["convs"] = len(v2.VerifConversations(n.proto))
	s.safety(fmt.Sprintf("after delivering %s %s->%s", m.kind, m.from, m.to))
}

func (s *sim) tick(n, p string) {
	node := s.nodes[n]
	c := node.conns[p]
	if c == nil {
		return
	}
	if len(s.u.txs) <= 40 {
		s.res.Trace = append(s.res.Trace, map[string]any{"ev": "tick", "n": n, "p": p})
	}
	v2.VerifGossipTick(node.proto, c.peer)
	s.pump()
}

func (s *sim) expire(n string, kind string) int {
	return s.expireMatching(n, kind, nil)
}

// expireMatching lets one conversation of the given kind time out; `want` (from the model's Expire step) selects it by
// content: requested clock (State), number of refs (ListQ) or range (RangeQ). kind "" = all conversations.
func (s *sim) expireMatching(n string, kind string, want *v2.VerifConversation) int {
	node := s.nodes[n]
	convs := v2.VerifConversations(node.proto)
	sort.Slice(convs, func(i, j int) bool { return convs[i].ID < convs[j].ID })
	pick := ""
	for pass := 0; pass < 2 && pick == "" && kind != ""; pass++ {
		for _, c := range convs {
			if c.Kind != kind {
				continue
			}
			if pass == 0 && want != nil && want.ID != "" && c.ID != want.ID {
				continue
			}
			if pass == 0 && want != nil && (c.LC != want.LC || c.NRefs != want.NRefs || c.Lo != want.Lo || c.Hi != want.Hi) {
				continue
			}
			pick = c.ID
			break
		}
	}
	k := v2.VerifExpire(node.proto, func(c v2.VerifConversation) bool {
		return kind == "" || c.ID == pick
	})
	s.pump()
	if len(s.u.txs) <= 40 && k > 0 {
		s.res.Trace = append(s.res.Trace, map[string]any{"ev": "expire", "n": n, "kind": kind, "count": k})
	}
	return k
}

func (s *sim) inject(n, p, k string, c *ctx) {
	node := s.nodes[n]
	_ = node
	convs := v2.VerifConversations(node.proto)
	live := ""
	if len(convs) > 0 {
		sort.Slice(convs, func(i, j int) bool { return convs[i].ID < convs[j].ID })
		live = convs[0].ID
	}
	var env *v2.Envelope
	txl := func(cid string) *v2.Envelope {
		return &v2.Envelope{Message: &v2.Envelope_TransactionList{TransactionList: &v2.TransactionList{
			ConversationID: []byte(cid), TotalMessages: 1, MessageNumber: 1,
			Transactions: []*v2.Transaction{{Data: c.tx.Data(), Payload: c.payload}}}}}
	}
	set := func(cid string, lcReq uint32) *v2.Envelope {
		ib := tree.NewIblt(dag.IbltNumBuckets)
		ib.Insert(c.tx.Ref())
		b, _ := ib.MarshalBinary()
		return &v2.Envelope{Message: &v2.Envelope_TransactionSet{TransactionSet: &v2.TransactionSet{ConversationID: []byte(cid), LCReq: lcReq, LC: c.lc, IBLT: b}}}
	}
	switch k {
	case "List-unknown-cid":
		env = txl("00000000-0000-0000-0000-00000000dead")
	case "List-live-cid-foreign-refs", "List-invalid-tx":
		if live == "" {
			return
		}
		env = txl(live)
	case "TxSet-unknown-cid":
		env = set("00000000-0000-0000-0000-00000000dead", c.lc)
	case "TxSet-wrong-lcreq":
		if live == "" {
			return
		}
		env = set(live, c.lc+7)
	default:
		return
	}
	kk, num, tot, cid := kindOf(env)
	s.seq++
	s.net = append(s.net, &inflight{seq: s.seq, from: p, to: n, env: env, kind: kk, num: num, tot: tot, cid: cid})
	if len(s.u.txs) <= 40 {
		s.res.Trace = append(s.res.Trace, map[string]any{"ev": "inject", "n": n, "p": p, "k": k, "t": c.name})
	}
}

// fairSuffix: deliver everything in FIFO order, let open conversations time out, tick gossip; repeat.
// drain delivers everything in flight, in order. A correct protocol makes progress (some node stores something new) or
// falls silent; thousands of deliveries in a row without any node's digest changing is a livelock (messages going round
// in circles): the round is cut short and the run ends as "not converged".
func (s *sim) drain() bool {
	digest := func() string {
		out := ""
		for _, n := range s.order {
			x, _ := s.nodes[n].state.XOR(dag.MaxLamportClock)
			out += x.String()
		}
		return out
	}
	last := digest()
	idle := 0
	s.pump()
	for len(s.net) > 0 {
		s.deliver(0, false)
		idle++
		if idle%50 == 0 {
			if d := digest(); d != last {
				last, idle = d, 0
			}
		}
		if idle > 2500 {
			s.res.Livelock++
			return false
		}
	}
	return true
}

func (s *sim) fairSuffix(maxRounds int) bool {
	for round := 1; round <= maxRounds; round++ {
		s.res.Rounds = round
		if !s.drain() && s.res.Livelock >= 3 {
			return s.converged()
		}
		if s.converged() {
			return true
		}
		for _, n := range s.order {
			s.expire(n, "")
		}
		if s.parties != nil {
			for _, n := range s.order {
				_ = v2.VerifRetryPrivate(s.nodes[n].proto)
				s.pump()
			}
			if len(s.net) > 0 {
				continue
			}
		}
		for _, n := range s.order {
			for _, p := range s.order {
				if n != p {
					s.tick(n, p)
				}
			}
		}
	}
	s.drain()
	return s.converged()
}

func (s *sim) replay(sc script) {
	for i, st := range sc.Steps {
		s.step = i
		s.pump()
		switch st.str("a") {
		case "GossipTick":
			s.tick(st.str("n"), st.str("p"))
		case "Deliver":
			j := -1
			if real, ok := s.cidReal[st.num("cid")]; ok && st.num("cid") != 0 {
				// the message of exactly that conversation, if it is in flight
				for x, m := range s.net {
					if m.kind == st.str("kind") && m.from == st.str("from") && m.to == st.str("to") && m.num == st.num("num") && m.cid == real {
						j = x
						break
					}
				}
			}
			if j < 0 {
				j = s.find(st.str("kind"), st.str("from"), st.str("to"), st.num("num"))
			}
			if j < 0 {
				s.res.Drift = append(s.res.Drift, fmt.Sprintf("step %d: no in-flight %s %s->%s #%d", i, st.str("kind"), st.str("from"), st.str("to"), st.num("num")))
				continue
			}
			s.lastStart = ""
			s.deliver(j, st.boolean("keep"))
			if nc := st.num("new"); nc != 0 && s.lastStart != "" {
				s.cidReal[nc] = s.lastStart // the conversation the model calls nc
			}
		case "Lose":
			j := -1
			if real, ok := s.cidReal[st.num("cid")]; ok && st.num("cid") != 0 {
				for x, m := range s.net {
					if m.kind == st.str("kind") && m.from == st.str("from") && m.to == st.str("to") && m.num == st.num("num") && m.cid == real {
						j = x
						break
					}
				}
			}
			if j < 0 {
				j = s.find(st.str("kind"), st.str("from"), st.str("to"), st.num("num"))
			}
			if j < 0 {
				s.res.Drift = append(s.res.Drift, fmt.Sprintf("step %d: nothing to lose (%s %s->%s)", i, st.str("kind"), st.str("from"), st.str("to")))
				continue
			}
			m := s.remove(j)
			s.res.Trace = append(s.res.Trace, map[string]any{"ev": "lose", "kind": m.kind, "from": m.from, "to": m.to, "num": m.num})
		case "Expire":
			want := &v2.VerifConversation{LC: uint32(st.num("lc")), NRefs: st.num("nrefs"), Lo: uint32(st.num("lo")), Hi: uint32(st.num("hi"))}
			if real, ok := s.cidReal[st.num("cid")]; ok {
				want.ID = real
			}
			if s.expireMatching(st.str("n"), st.str("kind"), want) == 0 {
				s.res.Drift = append(s.res.Drift, fmt.Sprintf("step %d: no %s conversation to expire on %s", i, st.str("kind"), st.str("n")))
			}
		case "LocalCreate":
			c := s.u.txs[st.str("t")]
			s.res.Trace = append(s.res.Trace, map[string]any{"ev": "create", "n": st.str("n"), "t": c.name})
			if err := s.add(s.nodes[st.str("n")], c); err != nil {
				s.res.Drift = append(s.res.Drift, fmt.Sprintf("step %d: local create of %s failed: %v", i, c.name, err))
			}
			s.safety("after local create")
		case "Inject":
			s.inject(st.str("n"), st.str("p"), st.str("k"), s.u.txs[st.str("t")])
		}
	}
}

// random: the simulator's own seeded scheduler over enabled steps.
func (s *sim) random(sc script, future map[string][]*ctx, invalid []*ctx) {
	rnd := rand.New(rand.NewSource(sc.Seed))
	loss, dup, exp, inj, cre := sc.Loss, sc.Dup, sc.Expire, sc.Inject, sc.Create
	for i := 0; i < sc.Budget; i++ {
		s.step = i
		s.pump()
		r := rnd.Intn(100)
		switch {
		case len(s.net) > 0 && r < 60:
			j := rnd.Intn(len(s.net)) // any in-flight message: reordering
			keep := false
			if dup > 0 && rnd.Intn(10) == 0 {
				keep = true
				dup--
			}
			s.deliver(j, keep)
		case len(s.net) > 0 && r < 66 && loss > 0:
			s.remove(rnd.Intn(len(s.net)))
			loss--
		case r < 80:
			n := s.order[rnd.Intn(len(s.order))]
			for p := range s.nodes[n].conns {
				if rnd.Intn(2) == 0 {
					s.tick(n, p)
				}
			}
		case r < 86 && exp > 0:
			n := s.order[rnd.Intn(len(s.order))]
			if s.expire(n, []string{"State", "ListQ", "RangeQ"}[rnd.Intn(3)]) > 0 {
				exp--
			}
		case r < 92 && cre > 0:
			n := s.order[rnd.Intn(len(s.order))]
			if f := future[n]; len(f) > 0 {
				c := f[0]
				ok := true
				cur := s.stored(s.nodes[n])
				for _, p := range c.prevs {
					if !cur[s.u.txs[p].tx.Ref()] {
						ok = false
					}
				}
				if ok {
					future[n] = f[1:]
					if err := s.add(s.nodes[n], c); err == nil {
						cre--
					}
					s.safety("after local create")
				}
			}
		case r < 97 && inj > 0 && len(invalid) > 0:
			n := s.order[rnd.Intn(len(s.order))]
			for p := range s.nodes[n].conns {
				kinds := []string{"List-unknown-cid", "List-live-cid-foreign-refs", "List-invalid-tx", "TxSet-unknown-cid", "TxSet-wrong-lcreq"}
				k := kinds[rnd.Intn(len(kinds))]
				c := invalid[rnd.Intn(len(invalid))]
				if k != "List-invalid-tx" {
					// a valid transaction the node does not have yet, or an invalid one: both must not get in unsolicited
					names := make([]string, 0)
					for nm := range s.u.txs {
						names = append(names, nm)
					}
					sort.Strings(names)
					c = s.u.txs[names[rnd.Intn(len(names))]]
				}
				s.inject(n, p, k, c)
				inj--
				break
			}
		}
	}
}

// shapes for the random mode: big DAG pairs that exercise pages, IBLT capacity and range queries
func buildShape(u *universe, sc script, nodes []string) (map[string][]*ctx, map[string][]*ctx, []*ctx) {
	init := map[string][]*ctx{}
	future := map[string][]*ctx{}
	size := sc.Size
	if size == 0 {
		size = 600
	}
	chain := func(prefix string, from *ctx, n int) []*ctx {
		var out []*ctx
		prev := from
		for i := 0; i < n; i++ {
			c := u.add(fmt.Sprintf("%s%d", prefix, i), []string{prev.name}, int(prev.lc)+1, true, sc.Fat)
			out = append(out, c)
			prev = c
		}
		return out
	}
	root := u.add("r", nil, 0, true, false)
	a, b := nodes[0], nodes[1]
	switch sc.Shape {
	case "branches": // disjoint branches of different length
		ca := chain("a", root, size)
		cb := chain("b", root, size-90) // both sides span the same pages with disjoint content: undecodable on every page
		init[a] = append([]*ctx{root}, ca...)
		init[b] = append([]*ctx{root}, cb...)
	case "behind": // one side far behind
		ca := chain("a", root, size)
		init[a] = append([]*ctx{root}, ca...)
		init[b] = append([]*ctx{root}, ca[:size/10]...)
	case "wide": // difference larger than one IBLT can decode inside one page: many siblings
		common := chain("c", root, 530) // the wide level lies on the second page
		top := common[len(common)-1]
		init[a] = append([]*ctx{root}, common...)
		init[b] = append([]*ctx{root}, common...)
		for i := 0; i < size; i++ {
			init[a] = append(init[a], u.add(fmt.Sprintf("wa%d", i), []string{top.name}, int(top.lc)+1, true, false))
		}
		for i := 0; i < size/3; i++ {
			init[b] = append(init[b], u.add(fmt.Sprintf("wb%d", i), []string{top.name}, int(top.lc)+1, true, false))
		}
	case "deepwide": // an undecodable difference on the third (or a later) page, everything below it in sync
		deep := sc.Deep
		if deep == 0 {
			deep = 1040
		}
		common := chain("c", root, deep)
		top := common[len(common)-1]
		init[a] = append([]*ctx{root}, common...)
		init[b] = append([]*ctx{root}, common...)
		for i := 0; i < size; i++ {
			init[a] = append(init[a], u.add(fmt.Sprintf("wa%d", i), []string{top.name}, int(top.lc)+1, true, false))
		}
		for i := 0; i < size/3; i++ {
			init[b] = append(init[b], u.add(fmt.Sprintf("wb%d", i), []string{top.name}, int(top.lc)+1, true, false))
		}
	case "lowwide": // an undecodable difference on a LOW page (the first one when deep = 0) while the other node is pages ahead:
		// A holds `size` siblings directly above the common part, B a chain of 600 from the same top (one or two pages higher)
		top := root
		init[a] = []*ctx{root}
		init[b] = []*ctx{root}
		if sc.Deep > 0 {
			common := chain("c", root, sc.Deep)
			top = common[len(common)-1]
			init[a] = append(init[a], common...)
			init[b] = append(init[b], common...)
		}
		for i := 0; i < size; i++ {
			init[a] = append(init[a], u.add(fmt.Sprintf("wa%d", i), []string{top.name}, int(top.lc)+1, true, false))
		}
		init[b] = append(init[b], chain("b", top, 600)...)
	default: // "mixed": common prefix, both sides continue
		common := chain("c", root, size/2)
		top := common[len(common)-1]
		ca := chain("a", top, size/2)
		cb := chain("b", top, size/3)
		init[a] = append(append([]*ctx{root}, common...), ca...)
		init[b] = append(append([]*ctx{root}, common...), cb...)
	}
	for _, n := range nodes[2:] {
		init[n] = []*ctx{root}
	}
	// local creations continue each node's own top
	for _, n := range nodes[:2] {
		top := init[n][len(init[n])-1]
		future[n] = chain("f"+strings.ToLower(n), top, 5)
	}
	invalid := []*ctx{u.add("z1", []string{"r"}, 1, false, false), u.add("z2", []string{root.name}, 5, true, false)} // z2: valid signature, wrong clock
	invalid[1].ok = false
	return init, future, invalid
}

// --------------------------------------------------------------------------------------------- main

func runOne(t *testing.T, in input, sc script) *result {
	res := &result{ID: sc.ID, Violations: []violation{}, Drift: []string{}, Trace: []map[string]any{}, Kinds: map[string]int{}, Paths: map[string]int{}}
	u := newUniverse()
	var s *sim
	defer func() {
		if s != nil {
			s.close()
		}
	}()
	rounds := in.Rounds
	if rounds == 0 {
		rounds = 40
	}
	if sc.Shape == "" && !sc.Priv {
		u.build(in.Universe, false)
		s = newSim(t, in, u, res)
		for _, n := range in.Nodes {
			// initial DAGs in clock order
			var cs []*ctx
			for _, name := range in.Init[n] {
				cs = append(cs, u.txs[name])
			}
			sort.SliceStable(cs, func(i, j int) bool { return cs[i].lc < cs[j].lc })
			for _, c := range cs {
				if err := s.add(s.nodes[n], c); err != nil {
					res.Error = fmt.Sprintf("initial DAG of %s: %v", n, err)
					return res
				}
			}
		}
		s.connect(in.Links)
		s.safety("initially")
		s.replay(sc)
	} else if sc.Priv {
		parties := map[string]*party{}
		for _, n := range in.Nodes {
			if n != "D" { // D has no node DID at all
				parties[n] = newParty("node" + n)
			}
		}
		s = newSimP(t, in, u, res, parties)
		root := u.add("r", nil, 0, true, false)
		prev := root
		var all []*ctx
		all = append(all, root)
		for i := 0; i < 6; i++ {
			c := u.add(fmt.Sprintf("p%d", i), []string{prev.name}, int(prev.lc)+1, true, false)
			all = append(all, c)
			prev = c
		}
		for _, n := range in.Nodes {
			for _, c := range all {
				if err := s.add(s.nodes[n], c); err != nil {
					res.Error = err.Error()
					return res
				}
			}
		}
		s.connect(in.Links)
		// A creates private transactions for {A, B} interleaved with public ones
		var future []*ctx
		for i := 0; i < 4; i++ {
			payload := []byte(fmt.Sprintf("CANARY-PRIVATE-%s-%d-%x", sc.ID, i, sha256.Sum256([]byte(sc.ID))))
			pal := encryptPAL([]*party{parties["A"], parties["B"]}, []*party{parties["A"], parties["B"]})
			tx := mkTx([]dag.Transaction{prev.tx}, int(prev.lc)+1, pal, payload)
			c := &ctx{name: fmt.Sprintf("priv%d", i), tx: tx, payload: payload, ok: true, lc: prev.lc + 1, prevs: []string{prev.name}}
			u.txs[c.name] = c
			u.byRef[tx.Ref()] = c
			s.private[tx.Ref()] = &privTx{c: c, plain: map[string]bool{"A": true, "B": true}, recipients: map[string]bool{"A": true, "B": true}}
			future = append(future, c)
			prev = c
			pub := u.add(fmt.Sprintf("q%d", i), []string{prev.name}, int(prev.lc)+1, true, false)
			future = append(future, pub)
			prev = pub
		}
		s.safety("initially")
		sc.Create = len(future)
		s.random(sc, map[string][]*ctx{"A": future}, nil)
		// whatever was not created during the random phase is created now
		cur := s.stored(s.nodes["A"])
		for _, c := range future {
			if !cur[c.tx.Ref()] {
				_ = s.add(s.nodes["A"], c)
			}
		}
	} else if sc.Shape == "burst" {
		// a node creates far more transactions between two gossip rounds than the gossip queue holds, then goes quiet
		s = newSim(t, in, u, res)
		root := u.add("r", nil, 0, true, false)
		prev := root
		common := []*ctx{root}
		for i := 0; i < 20; i++ {
			c := u.add(fmt.Sprintf("c%d", i), []string{prev.name}, int(prev.lc)+1, true, false)
			common = append(common, c)
			prev = c
		}
		for _, n := range in.Nodes {
			for _, c := range common {
				if err := s.add(s.nodes[n], c); err != nil {
					res.Error = err.Error()
					return res
				}
			}
		}
		s.connect(in.Links)
		s.safety("initially")
		a, b := in.Nodes[0], in.Nodes[1]
		s.tick(a, b)
		s.tick(b, a)
		for len(s.net) > 0 {
			s.deliver(0, false)
		}
		size := sc.Size
		if size == 0 {
			size = 150
		}
		for i := 0; i < size; i++ {
			c := u.add(fmt.Sprintf("burst%d", i), []string{prev.name}, int(prev.lc)+1, true, false)
			if err := s.add(s.nodes[a], c); err != nil {
				res.Error = err.Error()
				return res
			}
			prev = c
		}
		s.safety("after the burst")
	} else {
		init, future, invalid := buildShape(u, sc, in.Nodes)
		s = newSim(t, in, u, res)
		for _, n := range in.Nodes {
			for _, c := range init[n] {
				if err := s.add(s.nodes[n], c); err != nil {
					res.Error = fmt.Sprintf("initial DAG of %s: %v", n, err)
					return res
				}
			}
		}
		s.connect(in.Links)
		s.safety("initially")
		s.random(sc, future, invalid)
	}
	res.TxTotal = len(u.txs)
	if len(u.txs) <= 40 {
		res.Trace = append(res.Trace, map[string]any{"ev": "suffix"})
	}
	if !s.fairSuffix(rounds) {
		detail := []string{}
		for _, n := range s.order {
			detail = append(detail, fmt.Sprintf("%s has %d", n, len(s.stored(s.nodes[n]))))
		}
		s.viol("C07", "no-convergence", fmt.Sprintf("nodes did not converge to the union within %d fair rounds (%s)", rounds, strings.Join(detail, ", ")))
	}
	if sc.Priv {
		for ref, pt := range s.private {
			_ = ref
			for _, n := range s.order {
				present, _ := s.nodes[n].state.IsPayloadPresent(context.Background(), pt.c.tx.PayloadHash())
				if present && !pt.plain[n] {
					s.viol("C15", "private-payload-stored-by-outsider", fmt.Sprintf("node %s holds the payload of private transaction %s", n, pt.c.name))
				}
				if !present && pt.plain[n] {
					s.res.Drift = append(s.res.Drift, fmt.Sprintf("participant %s never obtained the payload of %s", n, pt.c.name))
				}
			}
		}
	}
	// final: every node's digests are consistent with what it stores
	for _, n := range s.order {
		if err := s.nodes[n].state.Verify(context.Background()); err != nil {
			s.viol("C07", "verify-failed", fmt.Sprintf("State.Verify on %s: %v", n, err))
		}
	}
	return res
}

func TestDriver(t *testing.T) {
	inPath, outPath := os.Getenv("VERIF_IN"), os.Getenv("VERIF_OUT")
	if inPath == "" {
		t.Skip("VERIF_IN not set")
	}
	logrus.SetLevel(logrus.PanicLevel)
	logrus.SetOutput(io.Discard)
	raw, err := os.ReadFile(inPath)
	if err != nil {
		t.Fatal(err)
	}
	var in input
	if err := json.Unmarshal(raw, &in); err != nil {
		t.Fatal(err)
	}
	out, err := os.Create(outPath)
	if err != nil {
		t.Fatal(err)
	}
	defer out.Close()
	bw := bufio.NewWriter(out)
	defer bw.Flush()
	enc := json.NewEncoder(bw)
	for _, sc := range in.Scripts {
		res := runOne(t, in, sc)
		if err := enc.Encode(res); err != nil {
			t.Fatal(err)
		}
		bw.Flush()
	}
}
