package userflow

// The reference oracle of X12: the statements U1..U5 evaluated on what the fronts, the browsers, the client application
// and the state stores of the two real nodes show. It knows nothing of UserFlow.tla.

import (
	"context"
	"encoding/base64"
	"encoding/json"
	"fmt"
	"io"
	"net/http"
	"net/url"
	"sort"
	"strings"
	"time"

	"github.com/nuts-foundation/nuts-node/audit"
	nutsCrypto "github.com/nuts-foundation/nuts-node/crypto"
)

func b64json(seg string) map[string]interface{} {
	raw, err := base64.RawURLEncoding.DecodeString(seg)
	if err != nil {
		return nil
	}
	var m map[string]interface{}
	_ = json.Unmarshal(raw, &m)
	return m
}

func jwtPayload(tok string) map[string]interface{} {
	parts := strings.Split(strings.Trim(tok, "\""), ".")
	if len(parts) != 3 {
		return nil
	}
	return b64json(parts[1])
}

// vpNonce / vpIssuer / vpAudience read a presentation as it travels in vp_token (JWT or JSON-LD).
func vpNonce(vp string) string {
	if p := jwtPayload(vp); p != nil {
		n, _ := p["nonce"].(string)
		return n
	}
	var m map[string]interface{}
	if json.Unmarshal([]byte(vp), &m) == nil {
		if pr, ok := m["proof"].(map[string]interface{}); ok {
			c, _ := pr["challenge"].(string)
			return c
		}
	}
	return ""
}

func vpIssuer(vp string) string {
	if p := jwtPayload(vp); p != nil {
		n, _ := p["iss"].(string)
		if n == "" {
			n, _ = p["sub"].(string)
		}
		return n
	}
	var m map[string]interface{}
	if json.Unmarshal([]byte(vp), &m) == nil {
		h, _ := m["holder"].(string)
		return h
	}
	return ""
}

func vpAudience(vp string) string {
	if p := jwtPayload(vp); p != nil {
		switch a := p["aud"].(type) {
		case string:
			return a
		case []interface{}:
			if len(a) > 0 {
				s, _ := a[0].(string)
				return s
			}
		}
		return ""
	}
	var m map[string]interface{}
	if json.Unmarshal([]byte(vp), &m) == nil {
		if pr, ok := m["proof"].(map[string]interface{}); ok {
			c, _ := pr["domain"].(string)
			return c
		}
	}
	return ""
}

type oracle struct {
	r        *runner
	uses     map[string]int // one-time value -> successful redemptions
	burnt    []string       // one-time values redeemed in the current step
	owed     map[string]time.Duration // flow -> time of its successful callback (token not yet picked up)
	delivered map[string]int
}

func newOracle(r *runner) *oracle {
	return &oracle{r: r, uses: map[string]int{}, delivered: map[string]int{}, owed: map[string]time.Duration{}}
}

var ttl = map[string]time.Duration{"tok": 5 * time.Second, "cs": time.Minute, "st": time.Minute, "code": time.Minute, "nonce": time.Minute,
	"r1": 15 * time.Minute, "ro": 15 * time.Minute, "sid": 15 * time.Minute}

func (o *oracle) used(i int, kind, name string, bornKey string) {
	r := o.r
	r.res.Checks++
	k := kind + "/" + name
	o.uses[k]++
	if o.uses[k] > 1 {
		r.violate(i, "reuse", kind, fmt.Sprintf("%s accepted %d times", k, o.uses[k]))
	}
	o.burnt = append(o.burnt, k)
	if b, ok := r.born[bornKey]; ok && r.now()-b >= ttl[kind] {
		r.violate(i, "accepted-after-expiry", kind, fmt.Sprintf("%s accepted at age %s (life time %s)", k, r.now()-b, ttl[kind]))
	}
}

func (n *nodeRec) rawGet(key string) (string, bool) {
	n.vs.expire(context.Background(), key)
	v, err := n.vs.inner.Get(context.Background(), key)
	if err != nil {
		return "", false
	}
	b, ok := v.([]byte)
	if !ok || len(b) == 0 {
		return "", false
	}
	return string(b), true
}

// entries lists the store entries that belong to a flow of the script: name -> (node, full key)
func (o *oracle) entries() map[string][2]string {
	r := o.r
	out := map[string][2]string{}
	add := func(name, node, class, ref string) {
		if ref != "" {
			out[name] = [2]string{node, class + "/" + ref}
		}
	}
	for f := range r.flows {
		add("tok/"+f, "A", "user/redirect", r.tok[f])
		add("sid/"+f, "A", "clientaccesstoken", r.sid[f])
		add("cs/"+f, "A", "oauth/client_state", r.cs[f])
		add("r1/"+f, "A", "oauth/requestobject", r.r1id[f])
		add("st/"+f, "B", "oauth/client_state", r.st[f])
		add("code/"+f, "B", "oauth/code", r.code[f])
		add("at/"+f, "B", "serveraccesstoken", r.atoken[f])
		for _, leg := range []string{"org", "user"} {
			add("ro/"+f+"/"+leg, "B", "oauth/requestobject", r.reqB[f+"/"+leg])
			add("nonce/"+f+"/"+leg, "B", "oauth/nonce", r.nonceOf[f+"/"+leg])
		}
	}
	return out
}

func (o *oracle) snapshot() map[string]string {
	snap := map[string]string{}
	for name, e := range o.entries() {
		n := o.r.w.A
		if e[0] == "B" {
			n = o.r.w.B
		}
		if v, ok := n.rawGet(e[1]); ok {
			snap[name] = v
		}
	}
	for bn, b := range o.r.br {
		for _, c := range b.cookies {
			if c.Host == strings.TrimPrefix(o.r.w.A.front.url, "http://") {
				if v, ok := o.r.w.A.rawGet("user/session/" + c.Value); ok {
					snap["sess/"+bn+c.Path] = v
				}
			}
		}
	}
	return snap
}

func flowOfName(name string) string {
	p := strings.Split(name, "/")
	if len(p) >= 2 && p[0] != "sess" {
		return p[1]
	}
	return ""
}

// walletOf reads a user session: wallet DID and the identifier claim of the employee credentials it holds.
func walletOf(sessJSON string) (subject, did string, idents []string, issuers []string) {
	var s struct {
		SubjectID string `json:"subjectID"`
		Wallet    struct {
			Credentials []json.RawMessage
			DID         string
		} `json:"wallet"`
	}
	_ = json.Unmarshal([]byte(sessJSON), &s)
	for _, c := range s.Wallet.Credentials {
		var str string
		if json.Unmarshal(c, &str) == nil {
			p := jwtPayload(str)
			if p == nil {
				continue
			}
			iss, _ := p["iss"].(string)
			issuers = append(issuers, iss)
			if vcm, ok := p["vc"].(map[string]interface{}); ok {
				switch cs := vcm["credentialSubject"].(type) {
				case map[string]interface{}:
					id, _ := cs["identifier"].(string)
					idents = append(idents, id)
				case []interface{}:
					for _, x := range cs {
						if m, ok := x.(map[string]interface{}); ok {
							id, _ := m["identifier"].(string)
							idents = append(idents, id)
						}
					}
				}
			}
		}
	}
	return s.SubjectID, s.Wallet.DID, idents, issuers
}

func (o *oracle) flowOfUserID(id string) string {
	for f, u := range o.r.user {
		if u["id"] == id {
			return f
		}
	}
	return "?"
}

func (o *oracle) afterStep(i int, s step, out string, pg *page, logFrom int, before map[string]string) {
	r := o.r
	w := r.w
	exs := w.logSince(logFrom)
	// ---- U4: where do redirects go
	var locs []string
	for _, ex := range exs {
		if ex.Location != "" {
			locs = append(locs, ex.Location)
		}
		if strings.HasSuffix(ex.Path, "/response") && ex.Status == 200 {
			var red struct {
				RedirectURI string `json:"redirect_uri"`
			}
			_ = json.Unmarshal(ex.RespBody, &red)
			if red.RedirectURI != "" {
				locs = append(locs, red.RedirectURI)
			}
		}
	}
	for _, l := range locs {
		r.res.Checks++
		u, err := url.Parse(l)
		if err != nil {
			continue
		}
		if u.Scheme == "openid4vp" {
			continue
		}
		base := u.Scheme + "://" + u.Host
		switch {
		case base == w.evil.url:
			r.violate(i, "open-redirect", s.A, "redirect to the attacker's site: "+l[:min(len(l), 200)])
		case base == w.A.front.url || base == w.B.front.url:
		case u.Host == "app.example":
			owner := ""
			for f, a := range r.appURI {
				if strings.HasPrefix(l, a) {
					owner = f
				}
			}
			if owner == "" || (s.A == "Callback" && owner != s.S) {
				r.violate(i, "redirect-to-other-client", s.A, "redirect to "+l[:min(len(l), 200)]+" in a step on the state of flow "+s.S)
			}
		default:
			r.violate(i, "open-redirect", s.A, "redirect to an unregistered target: "+l[:min(len(l), 200)])
		}
	}
	// ---- U3 / U2: what was accepted
	cfgOf := func(f string) flowCfg { return r.flows[f] }
	mixing, accepted := false, false
	allowedGone := map[string]bool{}
	switch s.A {
	case "Land":
		mixing = s.Tn != cfgOf(s.F).Tenant
		accepted = out == "to-verifier"
		allowedGone["tok/"+s.F] = true
		if accepted {
			o.used(i, "tok", s.F, "tok/"+s.F)
			if mixing {
				r.violate(i, "cross-accepted", "redirect-token/tenant", fmt.Sprintf("redirect token of tenant %s accepted on the landing page of tenant %s", cfgOf(s.F).Tenant, s.Tn))
			}
		}
	case "AuthV":
		mixing = s.Cid != cfgOf(s.R).Tenant || s.V != cfgOf(s.R).Ver
		accepted = out == "to-wallet"
		allowedGone["r1/"+s.R] = true
		if accepted && mixing {
			r.violate(i, "cross-accepted", "request-object/client", fmt.Sprintf("request object of client %s for verifier %s accepted as client %s at verifier %s", cfgOf(s.R).Tenant, cfgOf(s.R).Ver, s.Cid, s.V))
		}
	case "AuthW":
		mixing = s.Tn != cfgOf(s.R).Tenant
		accepted = out == "to-callback-code"
		for _, leg := range []string{"org", "user"} {
			allowedGone["ro/"+s.R+"/"+leg] = true
			allowedGone["nonce/"+s.R+"/"+leg] = true
		}
		if accepted && mixing {
			r.violate(i, "cross-accepted", "authorization-request/tenant", fmt.Sprintf("authorization request of the flow of tenant %s answered by the wallet of tenant %s and accepted by the verifier", cfgOf(s.R).Tenant, s.Tn))
		}
	case "Callback":
		mixing = s.C != s.S || s.Tn != cfgOf(s.S).Tenant
		accepted = out == "to-app-ok"
		allowedGone["code/"+s.C] = true
		if accepted {
			o.owed[s.S] = r.now()
			o.used(i, "cs", s.S, "cs/"+s.S)
			if mixing {
				r.violate(i, "cross-accepted", "callback", fmt.Sprintf("code of %s with state of %s on tenant %s accepted", s.C, s.S, s.Tn))
			}
		}
	case "Retrieve":
		if out == "token" {
			o.used(i, "sid", s.F, "sid/"+s.F)
		} else if at, ok := o.owed[s.F]; ok && r.now()-at < ttl["sid"] {
			// U1, the other direction: the token bought by the flow's own callback is what the session id delivers
			r.violate(i, "token-not-delivered", "retrieve", "the callback of "+s.F+" succeeded, its session id answers "+out)
		}
		delete(o.owed, s.F)
	case "FetchA":
		mixing = s.Tn != cfgOf(s.R).Tenant
		accepted = out == "jwt"
		allowedGone["r1/"+s.R] = true
		if accepted && mixing {
			r.violate(i, "cross-accepted", "request-object/path", "request object served under the path of tenant "+s.Tn)
		}
	case "FetchB":
		want := map[string]string{"org": "get", "user": "post"}[s.Leg]
		mixing = s.V != cfgOf(s.R).Ver || s.M != want
		accepted = out == "jwt"
		allowedGone["ro/"+s.R+"/"+s.Leg] = true
		if accepted && mixing {
			r.violate(i, "cross-accepted", "request-object/path", fmt.Sprintf("request object (%s) served under the path of %s with method %s", s.Leg, s.V, s.M))
		}
	case "Post":
		mixing = s.P != s.S || s.V != cfgOf(s.S).Ver
		accepted = out == "next" || out == "code"
		allowedGone["nonce/"+s.P+"/"+s.Leg] = true
		if accepted && mixing {
			r.violate(i, "cross-accepted", "direct-post", fmt.Sprintf("presentation made for %s accepted for the state of %s at %s", s.P, s.S, s.V))
		}
	case "TokenGuess":
		mixing = true
		allowedGone["code/"+s.C] = true
		if out == "token" {
			r.violate(i, "pkce-bypass", "token", "token issued for a code without the code verifier of the flow")
		}
	case "TokenReplay":
		allowedGone["code/"+s.C] = true
	}
	// one-time values redeemed on the wire in this step (nested calls included)
	for _, ex := range exs {
		switch {
		case strings.Contains(ex.Path, "/request.jwt/") && ex.Status == 200:
			id := ex.Path[strings.LastIndex(ex.Path, "/")+1:]
			for f, v := range r.r1id {
				if v == id {
					o.used(i, "r1", f, "r1/"+f)
				}
			}
			for k, v := range r.reqB {
				if v == id {
					o.used(i, "ro", k, "ro/"+k)
				}
			}
		case ex.Node == "B" && strings.HasSuffix(ex.Path, "/token") && ex.Status == 200:
			for f, c := range r.code {
				if c == ex.Form.Get("code") {
					o.used(i, "code", f, "code/"+f)
				}
			}
		case ex.Node == "B" && strings.HasSuffix(ex.Path, "/response") && ex.Status == 200 && ex.Form.Get("vp_token") != "":
			cls := r.classifyPost(ex.Status, "", ex.RespBody)
			if cls == "next" || cls == "code" {
				n := vpNonce(ex.Form.Get("vp_token"))
				for k, v := range r.nonceOf {
					if v == n {
						o.used(i, "nonce", k, "ro/"+k)
						f := strings.Split(k, "/")[0]
						if ex.Form.Get("state") != r.st[f] {
							r.violate(i, "cross-accepted", "direct-post", "nonce of "+k+" accepted for another state")
						}
						if b, ok := r.born["st/"+f]; ok && r.now()-b >= ttl["st"] {
							r.violate(i, "accepted-after-expiry", "st", "presentation accepted for a session older than its life time")
						}
					}
				}
			}
		}
	}
	// ---- U5: the presentations made in this step come from the wallet of the tenant that was asked
	if s.A == "AuthW" {
		for _, ex := range exs {
			if ex.Node != "B" || !strings.HasSuffix(ex.Path, "/response") || ex.Form.Get("vp_token") == "" {
				continue
			}
			r.res.Checks++
			iss := vpIssuer(ex.Form.Get("vp_token"))
			if strings.HasPrefix(iss, "did:jwk") {
				ok := false
				for _, c := range r.browser(s.B).cookies {
					if c.Path == "/oauth2/"+s.Tn {
						if v, found := w.A.rawGet("user/session/" + c.Value); found {
							sub, did, _, issuers := walletOf(v)
							if did == iss && sub == s.Tn {
								ok = true
								for _, x := range issuers {
									if x != w.A.dids[s.Tn] {
										r.violate(i, "wallet-cross-tenant", "employee-credential", "credential in the session wallet of "+s.Tn+" issued by "+x)
									}
								}
							}
						}
					}
				}
				if !ok {
					r.violate(i, "wallet-cross-tenant", "user-presentation", "user presentation on the path of tenant "+s.Tn+" signed by a wallet that is not the session wallet of that tenant: "+iss[:min(len(iss), 60)])
				}
			} else if iss != w.A.dids[s.Tn] {
				r.violate(i, "wallet-cross-tenant", "organization-presentation", "organization presentation on the path of tenant "+s.Tn+" signed by "+iss)
			}
		}
	}
	if pg != nil {
		for _, c := range pg.SetCook {
			r.res.Checks++
			want := ""
			if s.Tn != "" {
				want = "/oauth2/" + s.Tn
			} else if s.V != "" {
				want = "/oauth2/" + s.V
			}
			if c.Path != want || !c.HttpOnly || !c.Secure || c.SameSite != http.SameSiteStrictMode {
				r.violate(i, "cookie-attributes", s.A, fmt.Sprintf("session cookie path=%q (attribute %q) httponly=%v secure=%v samesite=%v, tenant path %s", c.Path, c.RawPath, c.HttpOnly, c.Secure, c.SameSite, want))
			}
		}
	}
	if s.A == "Forged" && out != "error-page" {
		r.violate(i, "forged-request-accepted", "request-object/signer", "a request object signed by another tenant's key was accepted for client "+s.Cid+": "+out)
	}
	// ---- U2: no damage
	after := o.snapshot()
	// ---- U3: what was redeemed is gone
	for _, k := range o.burnt {
		name := k
		if strings.HasPrefix(k, "nonce/") || strings.HasPrefix(k, "tok/") || strings.HasPrefix(k, "code/") || strings.HasPrefix(k, "r1/") || strings.HasPrefix(k, "ro/") || (strings.HasPrefix(k, "sid/") && out == "token") {
			if _, alive := after[name]; alive {
				r.violate(i, "not-burnt", strings.Split(k, "/")[0], k+" is still redeemable after it was accepted")
			}
		}
	}
	o.burnt = nil
	involved := map[string]bool{s.F: true, s.R: true, s.C: true, s.S: true, s.P: true}
	for name, v := range before {
		if strings.HasPrefix(name, "sess/") || s.A == "Tick" {
			continue
		}
		r.res.Checks++
		f := flowOfName(name)
		nv, still := after[name]
		changed := !still || nv != v
		if !changed {
			continue
		}
		if !involved[f] {
			r.violate(i, "cross-flow-damage", strings.Split(name, "/")[0], fmt.Sprintf("step %s changed %s of a flow it does not name", s.A, name))
		} else if mixing && !accepted && !allowedGone[name] {
			r.violate(i, "cross-flow-damage", strings.Split(name, "/")[0], fmt.Sprintf("refused step %s (values of two flows) changed %s", s.A, name))
		}
	}
}

func (o *oracle) tokenDelivered(i int, f, at string, tr map[string]interface{}) {
	r := o.r
	w := r.w
	r.res.Tokens++
	r.res.Checks++
	cfg := r.flows[f]
	owner := ""
	for g, t := range r.atoken {
		if t == at && t != "" {
			owner = g
		}
	}
	if owner != f {
		r.violate(i, "token-of-other-flow", "retrieve", fmt.Sprintf("session id of %s delivered the access token issued for the code of %q", f, owner))
	}
	resp, err := w.http.Post(w.B.internal+"/internal/auth/v2/accesstoken/introspect_extended", "application/x-www-form-urlencoded", strings.NewReader("token="+url.QueryEscape(at)))
	if err != nil {
		r.violate(i, "token-not-active", "introspect", err.Error())
		return
	}
	body, _ := io.ReadAll(resp.Body)
	resp.Body.Close()
	var in map[string]interface{}
	_ = json.Unmarshal(body, &in)
	if in["active"] != true {
		r.violate(i, "token-not-active", "introspect", string(body[:min(len(body), 200)]))
		return
	}
	// (the extended endpoint drops the claims taken from the credentials: they are read from the plain one)
	plain := map[string]interface{}{}
	if resp2, err := w.http.Post(w.B.internal+"/internal/auth/v2/accesstoken/introspect", "application/x-www-form-urlencoded", strings.NewReader("token="+url.QueryEscape(at))); err == nil {
		b2, _ := io.ReadAll(resp2.Body)
		resp2.Body.Close()
		_ = json.Unmarshal(b2, &plain)
	}
	str := func(k string) string {
		if s, ok := plain[k].(string); ok {
			return s
		}
		s, _ := in[k].(string)
		return s
	}
	if str("client_id") != w.A.base(cfg.Tenant) || str("iss") != w.B.base(cfg.Ver) || str("scope") != cfg.Scope {
		r.violate(i, "token-of-other-flow", "introspect", fmt.Sprintf("client_id=%s iss=%s scope=%s for the flow of %s at %s scope %s", str("client_id"), str("iss"), str("scope"), cfg.Tenant, cfg.Ver, cfg.Scope))
	}
	if str("organization_name") != "ORG-"+cfg.Tenant {
		r.violate(i, "token-foreign-organization", "introspect", fmt.Sprintf("token of the flow of tenant %s carries the organization %q %s", cfg.Tenant, str("organization_name"), body[max(0, len(body)-700):]))
	}
	if cfg.Scope == "both" {
		if str("employee_identifier") != r.userOf(f)["id"] {
			r.violate(i, "token-foreign-user", "introspect", fmt.Sprintf("token of the flow of user %s carries the user of flow %s", f, o.flowOfUserID(str("employee_identifier"))))
		}
	} else if str("employee_identifier") != "" {
		r.violate(i, "token-foreign-user", "introspect", "user claims in a token of an organization-only scope")
	}
	// the presentations inside the token were made for the nonces / audience of this very flow
	vps, _ := in["vps"].([]interface{})
	want := 1
	if cfg.Scope == "both" {
		want = 2
	}
	if len(vps) != want {
		r.violate(i, "token-without-presentations", "introspect", fmt.Sprintf("%d presentations in the token, the scope asks for %d", len(vps), want))
	}
	for _, v := range vps {
		raw, _ := v.(string)
		if raw == "" {
			b, _ := json.Marshal(v)
			raw = string(b)
		}
		n := vpNonce(raw)
		if n == "" || (n != r.nonceOf[f+"/org"] && n != r.nonceOf[f+"/user"]) || vpAudience(raw) != w.B.base(cfg.Ver) {
			r.violate(i, "token-presentation-of-other-flow", "introspect", fmt.Sprintf("presentation with nonce %.8s audience %s in the token of %s", n, vpAudience(raw), f))
		}
	}
	o.delivered[f]++
}

func (o *oracle) atEnd() {
	r := o.r
	r.w.evil.mu.Lock()
	hits := append([]string(nil), r.w.evil.hits...)
	r.w.evil.mu.Unlock()
	if len(hits) > 0 {
		r.violate(len(r.res.Outs), "open-redirect", "evil-site", "the attacker's site was called: "+hits[0])
	}
}

// projection maps the state stores of both nodes onto the flows of the script (what TraceUserFlow.tla compares with).
func (o *oracle) projection() map[string]interface{} {
	r := o.r
	snap := o.snapshot()
	has := func(name string) bool { _, ok := snap[name]; return ok }
	list := func(prefix string, keys []string) []string {
		out := []string{}
		for _, k := range keys {
			if has(prefix + k) {
				out = append(out, k)
			}
		}
		sort.Strings(out)
		return out
	}
	var flows, legs []string
	for f := range r.flows {
		flows = append(flows, f)
		legs = append(legs, f+"/org", f+"/user")
	}
	pend := map[string]string{}
	ful := map[string][]string{}
	for _, f := range flows {
		pend[f] = "none"
		if v, ok := snap["sid/"+f]; ok {
			pend[f] = "active"
			if strings.Contains(v, "\"pending\"") {
				pend[f] = "pending"
			}
		} else if r.sid[f] != "" {
			pend[f] = "gone"
		}
		ful[f] = []string{}
		if v, ok := snap["st/"+f]; ok {
			var s struct {
				V struct {
					Sub map[string]json.RawMessage `json:"submissions"`
				} `json:"openid4vp_verifier"`
			}
			_ = json.Unmarshal([]byte(v), &s)
			if _, ok := s.V.Sub["pd_org"]; ok {
				ful[f] = append(ful[f], "org")
			}
			if _, ok := s.V.Sub["pd_user"]; ok {
				ful[f] = append(ful[f], "user")
			}
		}
	}
	wal := map[string]string{}
	for _, b := range []string{"b1", "b2"} {
		for _, t := range []string{"ta", "tb"} {
			wal[b+"/"+t] = "none"
		}
	}
	for name, v := range snap {
		if strings.HasPrefix(name, "sess/") {
			_, _, idents, _ := walletOf(v)
			k := strings.Replace(strings.TrimPrefix(name, "sess/"), "/oauth2/", "/", 1)
			wal[k] = "empty"
			if len(idents) > 0 {
				wal[k] = o.flowOfUserID(idents[0])
			}
		}
	}
	return map[string]interface{}{"redir": list("tok/", flows), "pend": pend, "cst": list("cs/", flows), "roA": list("r1/", flows),
		"sst": list("st/", flows), "ful": ful, "roB": list("ro/", legs), "non": list("nonce/", legs), "code": list("code/", flows),
		"stok": list("at/", flows), "wal": wal}
}

// forged: request objects signed by the tenant the attacker controls ("tx") that name another client / an own redirect_uri.
func (r *runner) forged(i int, s step) (string, error) {
	w := r.w
	ks := w.A.system.FindEngineByName("crypto").(nutsCrypto.KeyStore)
	victim := w.A.base(s.Cid)
	claims := map[string]interface{}{"iss": w.A.dids["tx"], "client_id": victim, "aud": w.B.base(s.V), "response_type": "code",
		"redirect_uri": w.evil.url + "/cb", "scope": "org", "state": "x", "nonce": "n", "code_challenge": "abc", "code_challenge_method": "S256",
		"exp": time.Now().Add(time.Minute).Unix(), "iat": time.Now().Unix()}
	tok, err := ks.SignJWT(audit.TestContext(), claims, nil, w.A.kids["tx"])
	if err != nil {
		return "", err
	}
	q := url.Values{"client_id": {victim}, "request": {tok}}
	pg, err := r.browser(s.B).get(w.B.base(s.V) + "/authorize?" + q.Encode())
	if err != nil {
		return "", err
	}
	return r.classify(pg.Status, pg.Location), nil
}
