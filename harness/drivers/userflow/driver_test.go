package userflow

// X12 driver: replays behaviours of UserFlow.tla (steps of the client application, the browsers and the attacker) on two
// real nodes, judges the property statements U1..U5 on the real observables (oracle_test.go) and records one trace
// event per step (arguments, class of the answer, projection of the eight state stores onto the flows of the script).

import (
	"context"
	"encoding/json"
	"fmt"
	"io"
	"net/http"
	"net/url"
	"os"
	"sort"
	"strings"
	"testing"
	"time"

	"github.com/sirupsen/logrus"
)

type flowCfg struct {
	Tenant string `json:"tenant"`
	Ver    string `json:"ver"`
	Scope  string `json:"scope"`
}

type step struct {
	A    string `json:"a"`
	F    string `json:"f,omitempty"`
	B    string `json:"b,omitempty"`
	Tn   string `json:"tn,omitempty"`
	V    string `json:"v,omitempty"`
	Cid  string `json:"cid,omitempty"`
	R    string `json:"r,omitempty"`
	C    string `json:"c,omitempty"`
	S    string `json:"s,omitempty"`
	P    string `json:"p,omitempty"`
	Leg  string `json:"leg,omitempty"`
	M    string `json:"m,omitempty"`
	Ck   string `json:"ck,omitempty"`
	Drop string `json:"drop,omitempty"`
	Evil bool   `json:"evil,omitempty"`
	D    int    `json:"d,omitempty"`
	K    string `json:"k,omitempty"`
	Out  string `json:"out,omitempty"` // the model's expectation (informative; never used for a verdict)
}

type script struct {
	ID    string             `json:"id"`
	Steps []step             `json:"steps"`
	Flows map[string]flowCfg `json:"flows,omitempty"` // the flow table of the family the script belongs to
}

type input struct {
	Flows   map[string]flowCfg `json:"flows"`
	Scripts []script           `json:"scripts"`
	Corrupt string             `json:"corrupt,omitempty"`
}

type violation struct {
	Kind   string `json:"kind"`
	Site   string `json:"site"`
	Step   int    `json:"step"`
	Detail string `json:"detail"`
}

type result struct {
	ID         string                   `json:"id"`
	Violations []violation              `json:"violations"`
	Trace      []map[string]interface{} `json:"trace"`
	Outs       []string                 `json:"outs"`
	Checks     int                      `json:"checks"`
	Requests   int                      `json:"requests"`
	Tokens     int                      `json:"tokens"`
	Error      string                   `json:"error,omitempty"`
	Notes      []string                 `json:"notes,omitempty"`
}

// heldPost is a direct_post (or token request) the attacker captured on the wire.
type heldPost struct {
	Path string
	Form url.Values
	Hdr  http.Header
}

type runner struct {
	w     *world
	flows map[string]flowCfg
	res   *result
	br    map[string]*browser
	// symbol table: the real values behind the names of the model
	tok, sid, r1url, r1id, cs, code, appURI map[string]string
	r2url                                   map[string]string // Location of the redirect to the wallet
	reqB                                    map[string]string // "f/leg" -> request object id on B
	nonceOf                                 map[string]string // "f/leg" -> nonce
	st                                      map[string]string // f -> state on B
	held                                    map[string]*heldPost
	tokreq                                  map[string]*heldPost
	atoken                                  map[string]string // f -> access token issued by B for the code of f
	user                                    map[string]map[string]string
	born                                    map[string]time.Duration // "kind/f" -> virtual time of creation
	dropNext                                string
	o                                       *oracle
}

func (r *runner) now() time.Duration { return r.w.A.vs.vnow() }

func newRunner(w *world, flows map[string]flowCfg, id string) *runner {
	r := &runner{w: w, flows: flows, res: &result{ID: id, Violations: []violation{}}, br: map[string]*browser{},
		tok: map[string]string{}, sid: map[string]string{}, r1url: map[string]string{}, r1id: map[string]string{}, cs: map[string]string{},
		code: map[string]string{}, appURI: map[string]string{}, r2url: map[string]string{}, reqB: map[string]string{}, nonceOf: map[string]string{},
		st: map[string]string{}, held: map[string]*heldPost{}, tokreq: map[string]*heldPost{}, atoken: map[string]string{},
		user: map[string]map[string]string{}, born: map[string]time.Duration{}}
	r.o = newOracle(r)
	return r
}

func (r *runner) browser(name string) *browser {
	if b, ok := r.br[name]; ok {
		return b
	}
	b := &browser{name: name, w: r.w}
	r.br[name] = b
	return b
}

func (r *runner) violate(i int, kind, site, detail string) {
	r.res.Violations = append(r.res.Violations, violation{Kind: kind, Site: site, Step: i, Detail: detail})
}

// classify names the class of an answer to the browser.
func (r *runner) classify(status int, location string) string {
	if status >= 300 && status < 400 && location != "" {
		u, err := url.Parse(location)
		if err != nil {
			return "to-other"
		}
		q := u.Query()
		base := u.Scheme + "://" + u.Host
		switch {
		case base == r.w.evil.url:
			return "to-evil"
		case base == r.w.A.front.url && strings.HasSuffix(u.Path, "/authorize"):
			return "to-wallet"
		case base == r.w.B.front.url && strings.HasSuffix(u.Path, "/authorize"):
			return "to-verifier"
		case base == r.w.A.front.url && strings.HasSuffix(u.Path, "/callback"):
			if q.Get("error") != "" {
				return "to-callback-error"
			}
			if q.Get("code") != "" {
				return "to-callback-code"
			}
			return "to-callback"
		case u.Host == "app.example":
			if q.Get("error") != "" {
				return "to-app-error"
			}
			return "to-app-ok"
		}
		return "to-other"
	}
	switch {
	case status == 403:
		return "forbidden"
	case status == 404:
		return "notfound"
	case status >= 400:
		return "error-page"
	}
	return "ok"
}

func (r *runner) userOf(f string) map[string]string {
	if u, ok := r.user[f]; ok {
		return u
	}
	u := map[string]string{"id": "id-" + f + "@" + r.res.ID, "name": "Name " + f, "role": "role-" + f}
	r.user[f] = u
	return u
}

// learn scans what the fronts and the stores saw since the step began and extends the symbol table.
func (r *runner) learn(s step, logFrom int, evA, evB int) {
	for _, e := range r.w.A.vs.eventsSince(evA) {
		if e.Op == "set" && e.Class == "oauth/client_state" && s.A == "Land" && r.cs[s.F] == "" {
			// the landing page makes exactly one client state: the one of the flow whose token was redeemed
			r.cs[s.F] = e.Ref
			r.born["cs/"+s.F] = e.VNow
		} else if e.Op == "set" && e.Class == "oauth/client_state" {
			var s struct {
				SessionID string `json:"session_id"`
			}
			_ = json.Unmarshal([]byte(e.Value), &s)
			for f, sid := range r.sid {
				if sid == s.SessionID && sid != "" {
					r.cs[f] = e.Ref
					if _, ok := r.born["cs/"+f]; !ok {
						r.born["cs/"+f] = e.VNow
					}
				}
			}
		}
	}
	flowOfCS := func(cs string) string {
		for f, v := range r.cs {
			if v == cs && cs != "" {
				return f
			}
		}
		return ""
	}
	for _, e := range r.w.B.vs.eventsSince(evB) {
		if e.Op != "set" {
			continue
		}
		switch e.Class {
		case "oauth/client_state":
			var s struct {
				ClientState string `json:"client_state"`
			}
			_ = json.Unmarshal([]byte(e.Value), &s)
			if f := flowOfCS(s.ClientState); f != "" {
				if r.st[f] == "" {
					r.born["st/"+f] = e.VNow
				}
				r.st[f] = e.Ref
			}
		case "oauth/requestobject":
			var ro struct {
				Claims map[string]interface{} `json:"claims"`
				Method string                 `json:"request_uri_method"`
			}
			_ = json.Unmarshal([]byte(e.Value), &ro)
			state, _ := ro.Claims["state"].(string)
			nonce, _ := ro.Claims["nonce"].(string)
			for f, s := range r.st {
				if s == state && s != "" {
					leg := "org"
					if ro.Method == "post" {
						leg = "user"
					}
					r.reqB[f+"/"+leg] = e.Ref
					r.nonceOf[f+"/"+leg] = nonce
					r.born["ro/"+f+"/"+leg] = e.VNow
				}
			}
		case "oauth/code":
			var s struct {
				ClientState string `json:"client_state"`
			}
			_ = json.Unmarshal([]byte(e.Value), &s)
			if f := flowOfCS(s.ClientState); f != "" {
				r.code[f] = e.Ref
				r.born["code/"+f] = e.VNow
			}
		}
	}
	for _, ex := range r.w.logSince(logFrom) {
		if ex.Node == "B" && ex.Method == "POST" && strings.HasSuffix(ex.Path, "/token") && ex.Status == 200 {
			var tr struct {
				AccessToken string `json:"access_token"`
			}
			_ = json.Unmarshal(ex.RespBody, &tr)
			for f, c := range r.code {
				if c == ex.Form.Get("code") && c != "" {
					r.atoken[f] = tr.AccessToken
				}
			}
		}
		if ex.Node == "B" && ex.Method == "POST" && strings.HasSuffix(ex.Path, "/token") {
			for f, c := range r.code {
				if c == ex.Form.Get("code") && c != "" {
					if _, ok := r.tokreq[f]; !ok {
						r.tokreq[f] = &heldPost{Path: ex.Path, Form: ex.Form, Hdr: ex.Header}
					}
				}
			}
		}
		if ex.Node == "B" && ex.Method == "POST" && strings.HasSuffix(ex.Path, "/response") && ex.Form.Get("vp_token") != "" {
			nonce := vpNonce(ex.Form.Get("vp_token"))
			for k, n := range r.nonceOf {
				if n == nonce && n != "" {
					if _, ok := r.held[k]; !ok {
						r.held[k] = &heldPost{Path: ex.Path, Form: ex.Form, Hdr: ex.Header}
					}
				}
			}
		}
	}
}

func (r *runner) do(i int, s step) (string, error) {
	w := r.w
	logFrom, evA, evB := w.logLen(), w.A.vs.nEvents(), w.B.vs.nEvents()
	before := r.o.snapshot()
	out := ""
	var pg *page
	var err error
	defer func() {
		r.res.Requests += len(w.logSince(logFrom))
	}()
	switch s.A {
	case "Start":
		cfg := r.flows[s.F]
		r.appURI[s.F] = "http://app.example/" + r.res.ID + "/" + s.F
		st, raw := w.postJSON(w.A.internal+"/internal/auth/v2/"+cfg.Tenant+"/request-user-access-token", map[string]interface{}{
			"authorization_server": w.B.base(cfg.Ver), "scope": cfg.Scope, "redirect_uri": r.appURI[s.F], "preauthorized_user": r.userOf(s.F)})
		if st != 200 {
			return "", fmt.Errorf("start %s: %d %s", s.F, st, raw)
		}
		var sr struct {
			RedirectURI string `json:"redirect_uri"`
			SessionID   string `json:"session_id"`
		}
		_ = json.Unmarshal(raw, &sr)
		u, _ := url.Parse(sr.RedirectURI)
		r.tok[s.F], r.sid[s.F] = u.Query().Get("token"), sr.SessionID
		r.born["tok/"+s.F], r.born["sid/"+s.F] = r.now(), r.now()
		if !strings.HasPrefix(sr.RedirectURI, w.A.base(cfg.Tenant)+"/user?") {
			r.violate(i, "start-redirect-elsewhere", "RequestUserAccessToken", sr.RedirectURI)
		}
		out = "started"
	case "Land":
		pg, err = r.browser(s.B).get(w.A.base(s.Tn) + "/user?token=" + url.QueryEscape(r.tok[s.F]))
		if err != nil {
			return "", err
		}
		out = r.classify(pg.Status, pg.Location)
		if out == "to-verifier" {
			u, _ := url.Parse(pg.Location)
			r.r1url[s.F] = pg.Location
			ru := u.Query().Get("request_uri")
			r.r1id[s.F] = ru[strings.LastIndex(ru, "/")+1:]
			r.born["r1/"+s.F] = r.now()
		}
	case "AuthV":
		ru := w.A.base(r.flows[s.R].Tenant) + "/request.jwt/" + r.r1id[s.R]
		q := url.Values{"client_id": {w.A.base(s.Cid)}, "request_uri": {ru}, "request_uri_method": {"get"}}
		if s.Evil {
			q.Set("redirect_uri", w.evil.url+"/cb")
		}
		pg, err = r.browser(s.B).get(w.B.base(s.V) + "/authorize?" + q.Encode())
		if err != nil {
			return "", err
		}
		out = r.classify(pg.Status, pg.Location)
		if out == "to-wallet" {
			r.r2url[s.R] = pg.Location
		}
	case "AuthW":
		u, _ := url.Parse(r.r2url[s.R])
		target := w.A.base(s.Tn) + "/authorize?" + u.RawQuery
		var extra []*cookie
		if s.Ck != "" {
			for _, c := range r.browser(s.B).cookies {
				if c.Path == "/oauth2/"+s.Ck && c.Host == strings.TrimPrefix(w.A.front.url, "http://") {
					extra = append(extra, c)
				}
			}
		}
		r.dropNext = s.Drop
		if len(extra) > 0 {
			pg, err = r.browser(s.B).getWith(target, extra) // the tampered browser sends ONLY the other tenant's cookie
		} else {
			pg, err = r.browser(s.B).get(target)
		}
		r.dropNext = ""
		if err != nil {
			return "", err
		}
		out = r.classify(pg.Status, pg.Location)
		if out == "to-callback-code" && r.cs[s.R] == "" {
			if u, err := url.Parse(pg.Location); err == nil {
				r.cs[s.R] = u.Query().Get("state") // (normally learnt from the client's session at the landing)
			}
		}
	case "Callback":
		q := url.Values{"code": {r.code[s.C]}, "state": {r.cs[s.S]}}
		pg, err = r.browser(s.B).get(w.A.base(s.Tn) + "/callback?" + q.Encode())
		if err != nil {
			return "", err
		}
		out = r.classify(pg.Status, pg.Location)
	case "Retrieve":
		resp, err := w.http.Get(w.A.internal + "/internal/auth/v2/accesstoken/" + r.sid[s.F])
		if err != nil {
			return "", err
		}
		body, _ := io.ReadAll(resp.Body)
		resp.Body.Close()
		var tr map[string]interface{}
		_ = json.Unmarshal(body, &tr)
		switch {
		case resp.StatusCode == 404:
			out = "notfound"
		case resp.StatusCode != 200:
			out = "error-page"
		case tr["status"] == "pending" || tr["access_token"] == "" || tr["access_token"] == nil:
			out = "pending"
		default:
			out = "token"
			at, _ := tr["access_token"].(string)
			r.o.tokenDelivered(i, s.F, at, tr)
		}
	case "FetchA":
		resp, err := w.http.Get(w.A.base(s.Tn) + "/request.jwt/" + r.r1id[s.R])
		if err != nil {
			return "", err
		}
		resp.Body.Close()
		out = map[bool]string{true: "jwt", false: "refused"}[resp.StatusCode == 200]
	case "FetchB":
		target := w.B.base(s.V) + "/request.jwt/" + r.reqB[s.R+"/"+s.Leg]
		var resp *http.Response
		if s.M == "post" {
			resp, err = w.http.Post(target, "application/x-www-form-urlencoded", strings.NewReader(""))
		} else {
			resp, err = w.http.Get(target)
		}
		if err != nil {
			return "", err
		}
		resp.Body.Close()
		out = map[bool]string{true: "jwt", false: "refused"}[resp.StatusCode == 200]
	case "Post":
		h := r.held[s.P+"/"+s.Leg]
		if h == nil {
			return "", fmt.Errorf("no captured direct_post of %s/%s", s.P, s.Leg)
		}
		form := url.Values{}
		for k, v := range h.Form {
			form[k] = v
		}
		form.Set("state", r.st[s.S])
		resp, err := w.http.Post(w.B.base(s.V)+"/response", "application/x-www-form-urlencoded", strings.NewReader(form.Encode()))
		if err != nil {
			return "", err
		}
		body, _ := io.ReadAll(resp.Body)
		resp.Body.Close()
		out = r.classifyPost(resp.StatusCode, resp.Header.Get("Location"), body)
	case "TokenReplay", "TokenGuess":
		form := url.Values{"grant_type": {"authorization_code"}, "code": {r.code[s.C]}, "client_id": {w.A.base(s.Cid)}, "code_verifier": {"guess-" + strings.Repeat("x", 43)}}
		hdr := http.Header{}
		if s.A == "TokenReplay" {
			h := r.tokreq[s.C]
			if h == nil {
				return "", fmt.Errorf("no captured token request of %s", s.C)
			}
			form = h.Form
			hdr = h.Hdr
		}
		req, _ := http.NewRequest("POST", w.B.base(s.V)+"/token", strings.NewReader(form.Encode()))
		req.Header.Set("Content-Type", "application/x-www-form-urlencoded")
		if d := hdr.Get("Dpop"); d != "" {
			req.Header.Set("DPoP", d)
		}
		resp, err := w.http.Do(req)
		if err != nil {
			return "", err
		}
		resp.Body.Close()
		out = map[bool]string{true: "token", false: "refused"}[resp.StatusCode == 200]
	case "Forged":
		out, err = r.forged(i, s)
		if err != nil {
			return "", err
		}
	case "Tick":
		w.A.vs.advance(time.Duration(s.D) * time.Second)
		w.B.vs.advance(time.Duration(s.D) * time.Second)
		out = "tick"
	default:
		return "", fmt.Errorf("unknown action %s", s.A)
	}
	if os.Getenv("VERIF_X12_DEBUG") != "" {
		if pg != nil {
			r.res.Notes = append(r.res.Notes, fmt.Sprintf("%d %s -> %d %s %.300s", i, s.A, pg.Status, pg.Location, pg.Body))
		}
		for _, ex := range w.logSince(logFrom) {
			if strings.HasSuffix(ex.Path, "/response") || strings.HasSuffix(ex.Path, "/token") {
				r.res.Notes = append(r.res.Notes, fmt.Sprintf("   %s %s %.100s -> %d %.300s [iss=%s payload=%v]", ex.Node, ex.Path, ex.Body, ex.Status, ex.RespBody, vpIssuer(ex.Form.Get("vp_token")), jwtPayload(ex.Form.Get("vp_token"))))
			}
		}
	}
	r.learn(s, logFrom, evA, evB)
	r.o.afterStep(i, s, out, pg, logFrom, before)
	return out, nil
}

func (r *runner) classifyPost(status int, location string, body []byte) string {
	if status == 200 {
		var red struct {
			RedirectURI string `json:"redirect_uri"`
		}
		_ = json.Unmarshal(body, &red)
		switch {
		case strings.HasPrefix(red.RedirectURI, "openid4vp:"):
			return "next"
		case strings.Contains(red.RedirectURI, "code="):
			return "code"
		case strings.Contains(red.RedirectURI, "error="):
			return "error-redirect"
		}
		return "ok"
	}
	if status >= 300 && status < 400 {
		return "error-redirect"
	}
	return "refused"
}

func sortedKeys(m map[string]string) []string {
	var out []string
	for k, v := range m {
		if v != "" {
			out = append(out, k)
		}
	}
	sort.Strings(out)
	return out
}

func (w *world) runScript(flows map[string]flowCfg, sc script, corrupt string) (res result) {
	w.reset()
	r := newRunner(w, flows, sc.ID)
	res.ID = sc.ID
	defer func() {
		if p := recover(); p != nil {
			r.res.Error = fmt.Sprintf("panic: %v", p)
		}
		res = *r.res
	}()
	w.dropHook = func(ex *exchange) bool {
		if r.dropNext == "" || ex.Node != "B" || ex.Method != "POST" || !strings.HasSuffix(ex.Path, "/response") {
			return false
		}
		leg := "org"
		if strings.Contains(vpIssuer(ex.Form.Get("vp_token")), "did:jwk") {
			leg = "user"
		}
		return leg == r.dropNext
	}
	defer func() { w.dropHook = nil }()
	for i, s := range sc.Steps {
		done := make(chan struct{})
		var out string
		var err error
		go func() {
			defer close(done)
			defer func() {
				if p := recover(); p != nil {
					err = fmt.Errorf("panic: %v", p)
				}
			}()
			out, err = r.do(i, s)
		}()
		select {
		case <-done:
		case <-time.After(60 * time.Second):
			r.res.Error = fmt.Sprintf("step %d (%s) did not return", i, s.A)
			return
		}
		if err != nil {
			r.res.Error = fmt.Sprintf("step %d (%s): %v", i, s.A, err)
			return
		}
		r.res.Outs = append(r.res.Outs, out)
		ev := map[string]interface{}{"ev": "step", "a": s.A, "f": s.F, "b": s.B, "tn": s.Tn, "v": s.V, "cid": s.Cid, "r": s.R, "c": s.C, "s": s.S,
			"p": s.P, "leg": s.Leg, "m": s.M, "ck": s.Ck, "drop": s.Drop, "evil": s.Evil, "d": s.D, "k": s.K, "out": out, "proj": r.o.projection()}
		if corrupt != "" && corrupt == fmt.Sprintf("%s:%d", sc.ID, i) {
			ev["out"] = "corrupted-" + out
		}
		r.res.Trace = append(r.res.Trace, ev)
	}
	r.o.atEnd()
	return
}

func TestDriver(t *testing.T) {
	logrus.SetOutput(io.Discard)
	logrus.SetLevel(logrus.PanicLevel)
	inPath, outPath := os.Getenv("VERIF_IN"), os.Getenv("VERIF_OUT")
	if inPath == "" {
		t.Skip("VERIF_IN not set")
	}
	raw, err := os.ReadFile(inPath)
	if err != nil {
		t.Fatal(err)
	}
	var in input
	if err := json.Unmarshal(raw, &in); err != nil {
		t.Fatal(err)
	}
	out, err := os.Create(outPath)
	if err != nil {
		t.Fatal(err)
	}
	defer out.Close()
	w := newWorld(t)
	_ = context.Background()
	enc := json.NewEncoder(out)
	for _, sc := range in.Scripts {
		fl := in.Flows
		if sc.Flows != nil {
			fl = sc.Flows
		}
		res := w.runScript(fl, sc, in.Corrupt)
		if err := enc.Encode(res); err != nil {
			t.Fatal(err)
		}
	}
}
