package userflow

import (
	"bytes"
	"context"
	"runtime"
	"strconv"
	"strings"
	"sync"
	"time"

	"github.com/eko/gocache/lib/v4/store"
)

// goid returns the id of the calling goroutine (SessionStoreImpl calls the cache with context.Background(), so the
// goroutine is the only thing that tells which request a store operation belongs to).
func goid() int64 {
	var buf [64]byte
	n := runtime.Stack(buf[:], false)
	f := bytes.Fields(buf[:n])
	if len(f) < 2 {
		return -1
	}
	id, _ := strconv.ParseInt(string(f[1]), 10, 64)
	return id
}

// storeEvent is one primitive operation of the session database.
type storeEvent struct {
	Op    string        `json:"op"` // get | set | delete
	Class string        `json:"class"`
	Ref   string        `json:"ref"`
	Value string        `json:"value,omitempty"`
	Hit   bool          `json:"hit"`
	TTL   time.Duration `json:"ttl,omitempty"`
	VNow  time.Duration `json:"vnow"`
	Gid   int64         `json:"-"`
}

// vstore decorates the go-cache store under the REAL in-memory session database. It observes every primitive
// operation, keeps a VIRTUAL clock (an entry put with expiration d at virtual time t is gone from virtual time t+d
// on: exactly what go-cache does with the real clock) and lets a script block an operation at a gate.
type vstore struct {
	name   string
	inner  store.StoreInterface
	mu     sync.Mutex
	now    time.Duration
	exp    map[string]time.Duration // full key -> virtual expiry (absent = no expiry)
	events []storeEvent
	gate   func(gid int64, op, class string) // may block
}

func newVStore(name string) *vstore { return &vstore{name: name, exp: map[string]time.Duration{}} }

func (g *vstore) wrap(inner store.StoreInterface) store.StoreInterface {
	g.inner = inner
	return g
}

func (g *vstore) vnow() time.Duration {
	g.mu.Lock()
	defer g.mu.Unlock()
	return g.now
}

func (g *vstore) advance(d time.Duration) {
	g.mu.Lock()
	g.now += d
	g.mu.Unlock()
}

// reset starts a new script: empty store, clock 0.
func (g *vstore) reset() {
	_ = g.inner.Clear(context.Background())
	g.mu.Lock()
	g.now, g.exp, g.events, g.gate = 0, map[string]time.Duration{}, nil, nil
	g.mu.Unlock()
}

func split(key any) (string, string, string) {
	k, _ := key.(string)
	if i := strings.LastIndex(k, "/"); i >= 0 {
		return k, k[:i], k[i+1:]
	}
	return k, "", k
}

func (g *vstore) before(op, class string) {
	g.mu.Lock()
	gt := g.gate
	g.mu.Unlock()
	if gt != nil {
		gt(goid(), op, class)
	}
}

func (g *vstore) record(e storeEvent) {
	g.mu.Lock()
	e.VNow = g.now
	g.events = append(g.events, e)
	g.mu.Unlock()
}

// expire drops the entry if its virtual life time is over.
func (g *vstore) expire(ctx context.Context, k string) {
	g.mu.Lock()
	e, ok := g.exp[k]
	dead := ok && g.now >= e
	if dead {
		delete(g.exp, k)
	}
	g.mu.Unlock()
	if dead {
		_ = g.inner.Delete(ctx, k)
	}
}

func (g *vstore) Get(ctx context.Context, key any) (any, error) {
	k, class, ref := split(key)
	g.before("get", class)
	g.expire(ctx, k)
	v, err := g.inner.Get(ctx, key)
	hit := err == nil
	if b, ok := v.([]byte); ok && len(b) == 0 {
		hit = false
	}
	g.record(storeEvent{Op: "get", Class: class, Ref: ref, Hit: hit, Gid: goid()})
	return v, err
}

func (g *vstore) GetWithTTL(ctx context.Context, key any) (any, time.Duration, error) {
	k, class, ref := split(key)
	g.before("get", class)
	g.expire(ctx, k)
	v, d, err := g.inner.GetWithTTL(ctx, key)
	g.record(storeEvent{Op: "get", Class: class, Ref: ref, Hit: err == nil, Gid: goid()})
	return v, d, err
}

func (g *vstore) Set(ctx context.Context, key any, value any, options ...store.Option) error {
	k, class, ref := split(key)
	g.before("set", class)
	ttl := store.ApplyOptions(options...).Expiration
	err := g.inner.Set(ctx, key, value, options...)
	if err == nil {
		g.mu.Lock()
		if ttl > 0 {
			g.exp[k] = g.now + ttl
		} else {
			delete(g.exp, k)
		}
		g.mu.Unlock()
	}
	val := ""
	if b, ok := value.([]byte); ok && len(b) < 1<<20 {
		val = string(b)
	}
	g.record(storeEvent{Op: "set", Class: class, Ref: ref, Value: val, Hit: err == nil, TTL: ttl, Gid: goid()})
	return err
}

func (g *vstore) Delete(ctx context.Context, key any) error {
	k, class, ref := split(key)
	g.before("delete", class)
	err := g.inner.Delete(ctx, key)
	g.mu.Lock()
	delete(g.exp, k)
	g.mu.Unlock()
	g.record(storeEvent{Op: "delete", Class: class, Ref: ref, Hit: err == nil, Gid: goid()})
	return err
}

func (g *vstore) Invalidate(ctx context.Context, options ...store.InvalidateOption) error {
	return g.inner.Invalidate(ctx, options...)
}
func (g *vstore) Clear(ctx context.Context) error { return g.inner.Clear(ctx) }
func (g *vstore) GetType() string                 { return g.inner.GetType() }

// live returns the references of a class that are present and not expired (virtual clock).
func (g *vstore) live(class string) []string {
	g.mu.Lock()
	cands := map[string]bool{}
	for _, e := range g.events {
		if e.Op == "set" && e.Class == class {
			cands[e.Ref] = true
		}
	}
	g.mu.Unlock()
	var out []string
	for ref := range cands {
		k := class + "/" + ref
		g.expire(context.Background(), k)
		if v, err := g.inner.Get(context.Background(), k); err == nil {
			if b, ok := v.([]byte); !ok || len(b) > 0 {
				out = append(out, ref)
			}
		}
	}
	return out
}

// eventsSince returns a copy of the events recorded from index i on.
func (g *vstore) eventsSince(i int) []storeEvent {
	g.mu.Lock()
	defer g.mu.Unlock()
	if i > len(g.events) {
		i = len(g.events)
	}
	return append([]storeEvent(nil), g.events[i:]...)
}

func (g *vstore) nEvents() int {
	g.mu.Lock()
	defer g.mu.Unlock()
	return len(g.events)
}
