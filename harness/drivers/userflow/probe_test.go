package userflow

import (
	"encoding/json"
	"fmt"
	"io"
	"net/http"
	"os"
	"testing"

	"github.com/sirupsen/logrus"
)

func TestProbe(t *testing.T) {
	if os.Getenv("VERIF_PROBE") == "" {
		t.Skip()
	}
	logrus.SetOutput(io.Discard)
	w := newWorld(t)
	st, raw := w.postJSON(w.A.internal+"/internal/auth/v2/ta/request-user-access-token", map[string]interface{}{
		"authorization_server": w.B.base("v1"), "scope": "both", "redirect_uri": "http://app.example/done",
		"preauthorized_user": map[string]string{"id": "u1@x", "name": "User One", "role": "nurse"}})
	fmt.Println("start", st, string(raw))
	var sr struct {
		RedirectURI string `json:"redirect_uri"`
		SessionID   string `json:"session_id"`
	}
	_ = json.Unmarshal(raw, &sr)
	b := &browser{name: "b1", w: w}
	next := sr.RedirectURI
	for i := 0; i < 8 && next != "" && len(next) > 4 && next[:4] == "http" && next[:18] != "http://app.example"; i++ {
		p, err := b.get(next)
		if err != nil {
			t.Fatal(err)
		}
		fmt.Println("GET", next, "->", p.Status, p.Location, string(p.Body[:min(len(p.Body), 300)]))
		for _, c := range p.SetCook {
			fmt.Printf("  set-cookie %+v\n", *c)
		}
		next = p.Location
	}
	resp, _ := http.Get(w.A.internal + "/internal/auth/v2/accesstoken/" + sr.SessionID)
	body, _ := io.ReadAll(resp.Body)
	fmt.Println("retrieve", resp.StatusCode, string(body))
	for _, ex := range w.logSince(0) {
		fmt.Println(ex.Seq, ex.Node, ex.Method, ex.Path, ex.Query.Encode()[:min(len(ex.Query.Encode()), 120)], "->", ex.Status, ex.Location[:min(len(ex.Location), 100)], string(ex.RespBody[:min(len(ex.RespBody), 100)]))
	}
	for _, n := range []*nodeRec{w.A, w.B} {
		for _, e := range n.vs.eventsSince(0) {
			fmt.Println(n.name, e.Op, e.Class, e.Ref[:min(8, len(e.Ref))], e.Hit, e.TTL)
		}
	}
}
