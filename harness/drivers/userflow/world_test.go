package userflow

// X12: two real in-process nuts nodes (test/node.StartServer): node "A" hosts the client tenants (holder / user wallet
// side), node "B" the authorization server tenants (verifier side). Each node is reached - by the scripted browser, by
// the client application AND by the other node - through a recording front (a plain reverse proxy of the harness, the
// "network" of the model): NUTS_URL of a node is the URL of its front. The fronts record every request / response of
// the OAuth endpoints in arrival order and keep the bodies of node-to-node calls (direct_post, token request), which
// is what the attacker of UserFlow.tla replays. https:// (did:web resolution) is dialled as plain TCP to the fronts.
// The session database of each node is re-seated on an observed store with a virtual clock (vstore_test.go).

import (
	"bytes"
	"context"
	"encoding/json"
	"fmt"
	"io"
	"net"
	"net/http"
	"net/url"
	"os"
	"path/filepath"
	"strings"
	"sync"
	"syscall"
	"testing"
	"time"

	"github.com/nuts-foundation/nuts-node/core"
	nutsClient "github.com/nuts-foundation/nuts-node/http/client"
	"github.com/nuts-foundation/nuts-node/storage"
	"github.com/nuts-foundation/nuts-node/test/node"
)

// exchange is one request / response pair seen by a front.
type exchange struct {
	Node     string
	Method   string
	Path     string
	Query    url.Values
	Form     url.Values
	Header   http.Header
	Body     []byte
	Status   int
	Location string
	RespBody []byte
	Seq      int
}

type front struct {
	name   string
	ln     net.Listener
	url    string
	target string
	w      *world
	client *http.Client
}

func newFront(w *world, name string) *front {
	ln, err := net.Listen("tcp", "127.0.0.1:0")
	if err != nil {
		panic(err)
	}
	f := &front{name: name, ln: ln, w: w}
	f.url = fmt.Sprintf("http://localhost:%d", ln.Addr().(*net.TCPAddr).Port)
	f.client = &http.Client{Timeout: 30 * time.Second, Transport: &http.Transport{MaxIdleConnsPerHost: 16},
		CheckRedirect: func(*http.Request, []*http.Request) error { return http.ErrUseLastResponse }}
	go func() { _ = http.Serve(ln, f) }()
	return f
}

func (f *front) ServeHTTP(rw http.ResponseWriter, req *http.Request) {
	body, _ := io.ReadAll(req.Body)
	ex := &exchange{Node: f.name, Method: req.Method, Path: req.URL.Path, Query: req.URL.Query(), Header: req.Header.Clone(), Body: body}
	if strings.HasPrefix(req.Header.Get("Content-Type"), "application/x-www-form-urlencoded") {
		ex.Form, _ = url.ParseQuery(string(body))
	}
	if h := f.w.dropHook; h != nil && h(ex) {
		ex.Status = 502
		f.w.record(ex)
		http.Error(rw, "dropped", 502)
		return
	}
	out, err := http.NewRequest(req.Method, f.target+req.URL.RequestURI(), bytes.NewReader(body))
	if err != nil {
		http.Error(rw, err.Error(), 502)
		return
	}
	for k, v := range req.Header {
		out.Header[k] = v
	}
	out.Host = req.Host
	resp, err := f.client.Do(out)
	if err != nil {
		http.Error(rw, err.Error(), 502)
		return
	}
	defer resp.Body.Close()
	rb, _ := io.ReadAll(resp.Body)
	ex.Status, ex.Location, ex.RespBody = resp.StatusCode, resp.Header.Get("Location"), rb
	f.w.record(ex)
	for k, v := range resp.Header {
		rw.Header()[k] = v
	}
	rw.WriteHeader(resp.StatusCode)
	_, _ = rw.Write(rb)
}

type nodeRec struct {
	name     string
	internal string
	public   string // the real public interface (behind the front)
	front    *front
	system   *core.System
	vs       *vstore
	dids     map[string]string // subject -> did
	kids     map[string]string // subject -> key id of its assertion method
}

func (n *nodeRec) base(subject string) string { return n.front.url + "/oauth2/" + subject }

type world struct {
	t    *testing.T
	A, B *nodeRec
	mu   sync.Mutex
	log  []*exchange
	http *http.Client
	evil *evilServer
	// dropHook: the attacker on the wire captures a request and does not let it through (answer 502)
	dropHook func(ex *exchange) bool
}

func (w *world) record(ex *exchange) {
	w.mu.Lock()
	ex.Seq = len(w.log)
	w.log = append(w.log, ex)
	w.mu.Unlock()
}

func (w *world) logSince(i int) []*exchange {
	w.mu.Lock()
	defer w.mu.Unlock()
	if i > len(w.log) {
		i = len(w.log)
	}
	return append([]*exchange(nil), w.log[i:]...)
}

func (w *world) logLen() int {
	w.mu.Lock()
	defer w.mu.Unlock()
	return len(w.log)
}

// evilServer is the attacker's web site: every redirect that ends there is an open redirect.
type evilServer struct {
	url  string
	mu   sync.Mutex
	hits []string
}

func newEvil() *evilServer {
	ln, err := net.Listen("tcp", "127.0.0.1:0")
	if err != nil {
		panic(err)
	}
	e := &evilServer{url: fmt.Sprintf("http://localhost:%d", ln.Addr().(*net.TCPAddr).Port)}
	go func() {
		_ = http.Serve(ln, http.HandlerFunc(func(rw http.ResponseWriter, r *http.Request) {
			e.mu.Lock()
			e.hits = append(e.hits, r.URL.String())
			e.mu.Unlock()
			rw.WriteHeader(200)
		}))
	}()
	return e
}

const policyJSON = `{
 "both": {"organization": %ORG%, "user": %USER%},
 "org":  {"organization": %ORG%}
}`

const fmtJSON = `{"ldp_vc":{"proof_type":["JsonWebSignature2020"]},"ldp_vp":{"proof_type":["JsonWebSignature2020"]},"jwt_vc":{"alg":["ES256"]},"jwt_vp":{"alg":["ES256"]}}`

const orgPD = `{"format": ` + fmtJSON + `, "id": "pd_org", "name": "Care organization", "purpose": "organization",
 "input_descriptors": [{"id": "id_org_cred", "constraints": {"fields": [
   {"path": ["$.type"], "filter": {"type": "string", "const": "NutsOrganizationCredential"}},
   {"id": "organization_name", "path": ["$.credentialSubject.organization.name", "$.credentialSubject[0].organization.name"], "filter": {"type": "string"}},
   {"id": "organization_city", "path": ["$.credentialSubject.organization.city", "$.credentialSubject[0].organization.city"], "filter": {"type": "string"}}]}}]}`

const userPD = `{"format": ` + fmtJSON + `, "id": "pd_user", "name": "Employee", "purpose": "employee",
 "input_descriptors": [{"id": "id_employee_cred", "constraints": {"fields": [
   {"path": ["$.type"], "filter": {"type": "string", "const": "EmployeeCredential"}},
   {"id": "employee_identifier", "path": ["$.credentialSubject.identifier", "$.credentialSubject[0].identifier"], "filter": {"type": "string"}},
   {"id": "employee_name", "path": ["$.credentialSubject.name", "$.credentialSubject[0].name"], "filter": {"type": "string"}},
   {"id": "employee_role", "path": ["$.credentialSubject.roleName", "$.credentialSubject[0].roleName"], "filter": {"type": "string"}}]}}]}`

var clientTenants = []string{"ta", "tb", "tx"} // tx: the tenant the attacker controls (its key signs forged request objects)
var verifierTenants = []string{"v1", "v2"}

func startNode(t *testing.T, w *world, name string, pdir string) *nodeRec {
	n := &nodeRec{name: name, dids: map[string]string{}, kids: map[string]string{}}
	n.front = newFront(w, name)
	n.internal, n.public, n.system = node.StartServer(t, func(_, public string) {
		n.front.target = public
		t.Setenv("NUTS_URL", n.front.url)
		t.Setenv("NUTS_DIDMETHODS", "web")
		t.Setenv("NUTS_POLICY_DIRECTORY", pdir)
		t.Setenv("NUTS_AUTH_AUTHORIZATIONENDPOINT_ENABLED", "true")
		t.Setenv("NUTS_VERBOSITY", "panic")
		t.Setenv("NUTS_HTTP_LOG", "nothing")
		t.Setenv("NUTS_INTERNALRATELIMITER", "false")
	})
	n.vs = newVStore(name)
	if !storage.VerifReseatSessionDatabase(n.system.FindEngineByName("storage").(storage.Engine), n.vs.wrap) {
		t.Fatal("session database of the node is not the in-memory one")
	}
	return n
}

func newWorld(t *testing.T) *world {
	w := &world{t: t}
	// "TLS" of the harness network: https://localhost:<front> is dialled as plain TCP (did:web resolution insists on https)
	nutsClient.SafeHttpTransport.DialTLSContext = func(ctx context.Context, network, addr string) (net.Conn, error) {
		var d net.Dialer
		return d.DialContext(ctx, network, addr)
	}
	pdir := t.TempDir()
	pol := strings.ReplaceAll(strings.ReplaceAll(policyJSON, "%ORG%", orgPD), "%USER%", userPD)
	if err := os.WriteFile(filepath.Join(pdir, "verif.json"), []byte(pol), 0o644); err != nil {
		t.Fatal(err)
	}
	w.http = &http.Client{Timeout: 60 * time.Second, Transport: &http.Transport{MaxIdleConnsPerHost: 16},
		CheckRedirect: func(*http.Request, []*http.Request) error { return http.ErrUseLastResponse }}
	w.evil = newEvil()
	// node start-up picks "free" ports and binds them a moment later: the shards of one check take turns
	if lf, err := os.OpenFile("/tmp/verif-x12-start.lock", os.O_CREATE|os.O_RDWR, 0o666); err == nil {
		_ = syscall.Flock(int(lf.Fd()), syscall.LOCK_EX)
		defer func() { _ = syscall.Flock(int(lf.Fd()), syscall.LOCK_UN); lf.Close() }()
	}
	w.A = startNode(t, w, "A", pdir)
	w.B = startNode(t, w, "B", pdir)
	for _, s := range clientTenants {
		w.A.dids[s], w.A.kids[s] = w.createSubject(w.A, s)
		w.issueOrgCredential(w.A, s, "ORG-"+s, "CITY-"+s)
	}
	for _, s := range verifierTenants {
		w.B.dids[s], w.B.kids[s] = w.createSubject(w.B, s)
	}
	return w
}

func (w *world) postJSON(u string, body interface{}) (int, []byte) {
	raw, _ := json.Marshal(body)
	resp, err := w.http.Post(u, "application/json", bytes.NewReader(raw))
	if err != nil {
		w.t.Fatalf("POST %s: %v", u, err)
	}
	defer resp.Body.Close()
	out, _ := io.ReadAll(resp.Body)
	return resp.StatusCode, out
}

func (w *world) createSubject(n *nodeRec, subject string) (string, string) {
	st, raw := w.postJSON(n.internal+"/internal/vdr/v2/subject", map[string]string{"subject": subject})
	if st != 200 {
		w.t.Fatalf("create subject %s: %d %s", subject, st, raw)
	}
	var out struct {
		Documents []struct {
			ID              string        `json:"id"`
			AssertionMethod []interface{} `json:"assertionMethod"`
		} `json:"documents"`
	}
	if err := json.Unmarshal(raw, &out); err != nil || len(out.Documents) == 0 {
		w.t.Fatalf("create subject %s: %v %s", subject, err, raw)
	}
	kid := ""
	if len(out.Documents[0].AssertionMethod) > 0 {
		switch v := out.Documents[0].AssertionMethod[0].(type) {
		case string:
			kid = v
		case map[string]interface{}:
			kid, _ = v["id"].(string)
		}
	}
	return out.Documents[0].ID, kid
}

func (w *world) issueOrgCredential(n *nodeRec, subject, name, city string) {
	d := n.dids[subject]
	no := false
	st, raw := w.postJSON(n.internal+"/internal/vcr/v2/issuer/vc", map[string]interface{}{
		"type": []string{"VerifiableCredential", "NutsOrganizationCredential"}, "issuer": d,
		"credentialSubject":            map[string]interface{}{"id": d, "organization": map[string]interface{}{"name": name, "city": city}},
		"withStatusList2021Revocation": &no,
	})
	if st != 200 {
		w.t.Fatalf("issue org credential %s: %d %s", subject, st, raw)
	}
	st2, raw2 := w.postJSONRaw(n.internal+"/internal/vcr/v2/holder/"+subject+"/vc", raw)
	if st2 != 204 && st2 != 200 {
		w.t.Fatalf("load org credential %s: %d %s", subject, st2, raw2)
	}
}

func (w *world) postJSONRaw(u string, raw []byte) (int, []byte) {
	resp, err := w.http.Post(u, "application/json", bytes.NewReader(raw))
	if err != nil {
		w.t.Fatalf("POST %s: %v", u, err)
	}
	defer resp.Body.Close()
	out, _ := io.ReadAll(resp.Body)
	return resp.StatusCode, out
}

// reset starts a new script: all state stores of both nodes empty, virtual clocks at 0, network log cleared.
func (w *world) reset() {
	w.A.vs.reset()
	w.B.vs.reset()
	w.mu.Lock()
	w.log = nil
	w.mu.Unlock()
	w.evil.mu.Lock()
	w.evil.hits = nil
	w.evil.mu.Unlock()
}

// ------------------------------------------------------------------------------------------------- browser

// browser is a scripted user agent: a cookie jar that honours the Path attribute (the Secure attribute is recorded, not
// enforced: the harness network has no TLS) and never follows a redirect by itself.
type cookie struct {
	Name, Value, Path string
	RawPath           string // the Path attribute as sent by the server
	Secure, HttpOnly  bool
	SameSite          http.SameSite
	Host              string
}

type browser struct {
	name    string
	w       *world
	cookies []*cookie
}

func (b *browser) cookiesFor(u *url.URL) []*cookie {
	var out []*cookie
	for _, c := range b.cookies {
		if c.Host != u.Host {
			continue
		}
		p := c.Path
		if p == "" {
			p = "/"
		}
		if u.Path == p || (strings.HasPrefix(u.Path, p) && (strings.HasSuffix(p, "/") || strings.HasPrefix(u.Path[len(p):], "/"))) {
			out = append(out, c)
		}
	}
	return out
}

type page struct {
	Status   int
	Location string
	Body     []byte
	SetCook  []*cookie
	Sent     []*cookie
}

func (b *browser) get(target string) (*page, error) { return b.getWith(target, nil) }

// getWith: only sends the given cookies when only != nil (a tampered user agent)
func (b *browser) getWith(target string, only []*cookie) (*page, error) {
	u, err := url.Parse(target)
	if err != nil {
		return nil, err
	}
	req, _ := http.NewRequest("GET", target, nil)
	req.Header.Set("Accept", "text/html")
	sent := b.cookiesFor(u)
	if only != nil {
		sent = only
	}
	for _, c := range sent {
		req.AddCookie(&http.Cookie{Name: c.Name, Value: c.Value})
	}
	resp, err := b.w.http.Do(req)
	if err != nil {
		return nil, err
	}
	defer resp.Body.Close()
	body, _ := io.ReadAll(resp.Body)
	p := &page{Status: resp.StatusCode, Location: resp.Header.Get("Location"), Body: body, Sent: sent}
	for _, c := range resp.Cookies() {
		nc := &cookie{Name: c.Name, Value: c.Value, Path: c.Path, RawPath: c.Path, Secure: c.Secure, HttpOnly: c.HttpOnly, SameSite: c.SameSite, Host: u.Host}
		if !strings.HasPrefix(nc.Path, "/") {
			// RFC 6265 5.2.4 / 5.1.4: an attribute value that does not start with "/" is ignored, the default-path of the request URI is used
			nc.Path = "/"
			if i := strings.LastIndex(u.Path, "/"); i > 0 {
				nc.Path = u.Path[:i]
			}
		}
		p.SetCook = append(p.SetCook, nc)
		kept := b.cookies[:0]
		for _, o := range b.cookies {
			if !(o.Name == nc.Name && o.Path == nc.Path && o.Host == nc.Host) {
				kept = append(kept, o)
			}
		}
		b.cookies = append(kept, nc)
	}
	return p, nil
}
