// Driver for Pex.tla (C12): concretises the abstract cases TLC enumerates (presentation definition x wallet x
// envelope shape x submission mutation) into real JSON presentation definitions, real VCs / VPs, calls the REAL
// pe.PresentationDefinition.Match, PresentationSubmissionBuilder.Build, PresentationSubmission.Validate and
// ResolveConstraintsFields (each under recover) and judges the observables against the expectations the TLA+
// reference matcher computed for the case (carried in the case record; no second matcher lives in this file).
package pex

import (
	"bufio"
	"crypto/ecdsa"
	"crypto/elliptic"
	"encoding/json"
	"errors"
	"fmt"
	"io"
	"math/big"
	"os"
	"reflect"
	"runtime/debug"
	"sort"
	"strings"
	"testing"
	"time"

	"github.com/lestrrat-go/jwx/v2/jwa"
	"github.com/lestrrat-go/jwx/v2/jws"
	"github.com/lestrrat-go/jwx/v2/jwt"
	ssi "github.com/nuts-foundation/go-did"
	"github.com/nuts-foundation/go-did/did"
	"github.com/nuts-foundation/go-did/vc"
	"github.com/nuts-foundation/nuts-node/vcr/pe"
	"github.com/sirupsen/logrus"
)

// ------------------------------------------------------------------------------------------ abstract case (from TLC)

type val struct {
	K string `json:"k"` // s | n | b | a | none
	S string `json:"s"`
	N int    `json:"n"`
	A []val  `json:"a"`
}

type cred struct {
	Name string `json:"name"`
	Cid  string `json:"cid"` // credential id member (several credentials may carry the same one); default = name
	Fmt  string `json:"fmt"` // ldp | jwt
	Typ  string `json:"typ"`
	F    val    `json:"f"`
	G    val    `json:"g"`
}

type filter struct {
	Type  string   `json:"type"`
	Const []string `json:"const"`
	Enum  []string `json:"enum"`
	Pat   []string `json:"pat"`
}

type field struct {
	Path []string `json:"path"` // the field's paths in order, each f | g | h | type (several may select a value in one credential)
	Flt  []filter `json:"flt"`
	Opt  bool     `json:"opt"`
	ID   string   `json:"id"`
}

type desc struct {
	ID     string   `json:"id"`
	Fields []field  `json:"fields"`
	Fmt    string   `json:"fmt"`
	Grp    []string `json:"grp"`
}

type req struct {
	Rule   string `json:"rule"`
	Count  []int  `json:"count"`
	Min    []int  `json:"min"`
	Max    []int  `json:"max"`
	From   string `json:"from"`
	Nested []req  `json:"nested"`
}

type definition struct {
	Fmt  string `json:"fmt"`
	Ds   []desc `json:"ds"`
	Reqs []req  `json:"reqs"`
}

type apath struct {
	K string `json:"k"` // single | idx | vp | root | subj | subj1 | oob
	I int    `json:"i"`
}

type entry struct {
	ID     string  `json:"id"`
	P      apath   `json:"p"`
	Fmt    string  `json:"fmt"`
	Nested []entry `json:"nested"`
}

type sub struct {
	Ek  string `json:"ek"`  // plain | kind of hostile envelope
	Env []cred `json:"env"` // credentials of the holder's presentation when it is not the wallet's own selection
	Shape   string  `json:"shape"`
	Mut     string  `json:"mut"`
	Entries []entry `json:"entries"`
	Must    string  `json:"must"` // reject | accept | any   (reference verdict)
	Pred    string  `json:"pred"` // accept | reject | panic (verdict of the descriptive model of Validate)
}

type mapping struct {
	ID string `json:"id"`
	C  string `json:"c"`
}

type pred struct {
	Res string    `json:"res"` // ok | error | panic
	Why string    `json:"why"`
	Vcs []string  `json:"vcs"`
	Map []mapping `json:"map"`
}

type extract struct {
	D   string `json:"d"`
	C   string `json:"c"`
	Fid string `json:"fid"`
	Adm []val  `json:"adm"`
}

type satRow struct {
	D  string   `json:"d"`
	Cs []string `json:"cs"`
}

type devRow struct {
	D   string `json:"d"`
	C   string `json:"c"`
	Why string `json:"why"`
}

type expect struct {
	SatRows  []satRow            `json:"sat"`
	Sat      map[string][]string `json:"-"`
	Dev      []devRow            `json:"dev"`
	Valid    [][]string          `json:"valid"`
	Complete bool                `json:"complete"`
	MustFind bool                `json:"mustfind"` // a complete selection exists and the definition leaves no room about what one is
	Pred     pred                `json:"pred"`
	Extract  []extract           `json:"extract"`
	Class    string              `json:"class"` // shape class used in violation signatures
}

type acase struct {
	ID     string     `json:"id"`
	Fam    string     `json:"fam"`
	Def    definition `json:"def"`
	Wallet []cred     `json:"wallet"`
	Exp    expect     `json:"exp"`
	Shapes []string   `json:"shapes"`
	Subs   []sub      `json:"subs"`
}

type input struct {
	Cases   []acase `json:"cases"`
	Verbose bool    `json:"verbose"`
	// Corrupt is the binding self-test: "sat" empties the reference sat sets, "verdict" turns the must-accept of the
	// unmutated submission into must-reject
	Corrupt string `json:"corrupt"`
}

// ------------------------------------------------------------------------------------------------------- results

type violation struct {
	Kind   string `json:"kind"`
	Shape  string `json:"shape,omitempty"`
	Filter string `json:"filter,omitempty"`
	Mut    string `json:"mut,omitempty"`
	Env    string `json:"env,omitempty"`
	Detail string `json:"detail"`
}

type result struct {
	ID         string         `json:"id"`
	Violations []violation    `json:"violations"`
	Drift      []string       `json:"drift"`
	Notes      []string       `json:"notes,omitempty"`
	Checks     int            `json:"checks"`
	Calls      int            `json:"calls"`
	Error      string         `json:"error,omitempty"`
	Real       string         `json:"real"` // ok | error | panic
	Obs        map[string]any `json:"obs,omitempty"`
}

// ------------------------------------------------------------------------------------------------- concretiser

const (
	holderDID = "did:web:holder.example"
	issuerDID = "did:web:issuer.example"
	otherDID  = "did:web:other.example"
)

var signKey = func() *ecdsa.PrivateKey {
	d, _ := new(big.Int).SetString("6b9d3dad2e1b8c1c05b19875b6659f4de23c3b667bf297ba9aa47740787137d8", 16)
	k := &ecdsa.PrivateKey{D: d}
	k.Curve = elliptic.P256()
	k.X, k.Y = k.Curve.ScalarBaseMult(d.Bytes())
	return k
}()

func (v val) concrete() (any, bool) {
	switch v.K {
	case "s":
		return v.S, true
	case "n":
		return v.N, true
	case "b":
		return v.N == 1, true
	case "a":
		out := make([]any, 0, len(v.A))
		for _, e := range v.A {
			x, _ := e.concrete()
			out = append(out, x)
		}
		return out, true
	}
	return nil, false
}

func (c cred) id() string {
	if c.Cid != "" {
		return c.Cid
	}
	return c.Name
}

var credCache = map[string]vc.VerifiableCredential{}

func buildCred(c cred) (vc.VerifiableCredential, error) {
	key, _ := json.Marshal(c)
	if v, ok := credCache[string(key)]; ok {
		return v, nil
	}
	subject := map[string]any{"id": holderDID}
	if x, ok := c.F.concrete(); ok {
		subject["f"] = x
	}
	if x, ok := c.G.concrete(); ok {
		subject["g"] = x
	}
	var raw string
	switch c.Fmt {
	case "ldp":
		doc := map[string]any{
			"@context":          []any{"https://www.w3.org/2018/credentials/v1"},
			"id":                "urn:vc:" + c.id(),
			"type":              []any{"VerifiableCredential", c.Typ},
			"issuer":            issuerDID,
			"issuanceDate":      "2024-01-01T00:00:00Z",
			"credentialSubject": subject,
			"proof": map[string]any{"type": "JsonWebSignature2020", "verificationMethod": issuerDID + "#k1",
				"proofPurpose": "assertionMethod", "created": "2024-01-01T00:00:00Z", "jws": "eyJhbGciOiJFUzI1NiJ9..c2ln"},
		}
		b, _ := json.Marshal(doc)
		raw = string(b)
	case "jwt":
		delete(subject, "id") // carried by the sub claim, as issuers do
		tok := jwt.New()
		_ = tok.Set(jwt.IssuerKey, issuerDID)
		_ = tok.Set(jwt.SubjectKey, holderDID)
		_ = tok.Set(jwt.JwtIDKey, "urn:vc:"+c.id())
		_ = tok.Set(jwt.NotBeforeKey, time.Date(2024, 1, 1, 0, 0, 0, 0, time.UTC))
		_ = tok.Set("vc", map[string]any{
			"@context":          []any{"https://www.w3.org/2018/credentials/v1"},
			"type":              []any{"VerifiableCredential", c.Typ},
			"credentialSubject": subject,
		})
		hdr := jws.NewHeaders()
		_ = hdr.Set(jws.TypeKey, "JWT")
		_ = hdr.Set(jws.KeyIDKey, issuerDID+"#k1")
		b, err := jwt.Sign(tok, jwt.WithKey(jwa.ES256, signKey, jws.WithProtectedHeaders(hdr)))
		if err != nil {
			return vc.VerifiableCredential{}, err
		}
		raw = string(b)
	default:
		return vc.VerifiableCredential{}, fmt.Errorf("unknown credential format %q", c.Fmt)
	}
	p, err := vc.ParseVerifiableCredential(raw)
	if err != nil {
		return vc.VerifiableCredential{}, err
	}
	credCache[string(key)] = *p
	return *p, nil
}

func formatJSON(f string) map[string]any {
	ldp := map[string]any{"proof_type": []any{"JsonWebSignature2020"}}
	jw := map[string]any{"alg": []any{"ES256"}}
	switch f {
	case "ldp":
		return map[string]any{"ldp_vc": ldp}
	case "jwt":
		return map[string]any{"jwt_vc": jw}
	case "both":
		return map[string]any{"ldp_vc": ldp, "jwt_vc": jw}
	case "ldpx":
		return map[string]any{"ldp_vc": map[string]any{"proof_type": []any{"Ed25519Signature2018"}}}
	case "jwtx":
		return map[string]any{"jwt_vc": map[string]any{"alg": []any{"ES384"}}}
	}
	return nil
}

// pathsOf: the JSON paths of a field. Every abstract path of the subject comes in the two encodings definitions use
// (object / array valued credentialSubject); at most one of the two selects something, but DIFFERENT abstract paths may
// select a value each in the same credential.
func pathsOf(ps []string) []any {
	out := []any{}
	for _, p := range ps {
		switch p {
		case "type":
			out = append(out, "$.type")
		default:
			out = append(out, "$.credentialSubject."+p, "$.credentialSubject[0]."+p)
		}
	}
	return out
}

func reqJSON(r req) map[string]any {
	m := map[string]any{"rule": r.Rule, "name": reqName(r)}
	if len(r.Count) > 0 {
		m["count"] = r.Count[0]
	}
	if len(r.Min) > 0 {
		m["min"] = r.Min[0]
	}
	if len(r.Max) > 0 {
		m["max"] = r.Max[0]
	}
	if len(r.Nested) > 0 {
		var n []any
		for _, c := range r.Nested {
			n = append(n, reqJSON(c))
		}
		m["from_nested"] = n
	} else {
		m["from"] = r.From
	}
	return m
}

func reqName(r req) string {
	s := r.Rule
	if len(r.Count) > 0 {
		s += fmt.Sprintf("-count%d", r.Count[0])
	}
	if len(r.Min) > 0 {
		s += fmt.Sprintf("-min%d", r.Min[0])
	}
	if len(r.Max) > 0 {
		s += fmt.Sprintf("-max%d", r.Max[0])
	}
	if len(r.Nested) > 0 {
		return s + "-nested"
	}
	return s + "-" + r.From
}

func definitionJSON(d definition) []byte {
	doc := map[string]any{"id": "pd-verif"}
	if f := formatJSON(d.Fmt); f != nil {
		doc["format"] = f
	}
	ds := []any{}
	for _, x := range d.Ds {
		fields := []any{}
		for _, fl := range x.Fields {
			fm := map[string]any{"path": pathsOf(fl.Path)}
			if fl.ID != "" {
				fm["id"] = fl.ID
			}
			if fl.Opt {
				fm["optional"] = true
			}
			if len(fl.Flt) > 0 {
				ft := fl.Flt[0]
				f := map[string]any{}
				if ft.Type != "" {
					f["type"] = ft.Type
				}
				if len(ft.Const) > 0 {
					f["const"] = ft.Const[0]
				}
				if len(ft.Enum) > 0 {
					e := []any{}
					for _, s := range ft.Enum {
						e = append(e, s)
					}
					f["enum"] = e
				}
				if len(ft.Pat) > 0 {
					f["pattern"] = ft.Pat[0]
				}
				fm["filter"] = f
			}
			fields = append(fields, fm)
		}
		dm := map[string]any{"id": x.ID, "name": x.ID, "constraints": map[string]any{"fields": fields}}
		if f := formatJSON(x.Fmt); f != nil {
			dm["format"] = f
		}
		if len(x.Grp) > 0 {
			g := []any{}
			for _, s := range x.Grp {
				g = append(g, s)
			}
			dm["group"] = g
		}
		ds = append(ds, dm)
	}
	doc["input_descriptors"] = ds
	if len(d.Reqs) > 0 {
		rs := []any{}
		for _, r := range d.Reqs {
			rs = append(rs, reqJSON(r))
		}
		doc["submission_requirements"] = rs
	}
	b, _ := json.Marshal(doc)
	return b
}

// buildVP mimics vcr/holder/presenter.go (JSON-LD: go-did marshalling of the VP struct; JWT: "vp" claim).
func buildVP(format string, holder string, creds []vc.VerifiableCredential, n int) (string, error) {
	holderURI := ssi.MustParseURI(holder)
	id := ssi.MustParseURI(fmt.Sprintf("%s#vp-%d", holder, n))
	switch format {
	case "ldp":
		vp := vc.VerifiablePresentation{
			Context:              []ssi.URI{ssi.MustParseURI("https://www.w3.org/2018/credentials/v1"), ssi.MustParseURI("https://w3c-ccg.github.io/lds-jws2020/contexts/lds-jws2020-v1.json")},
			ID:                   &id,
			Type:                 []ssi.URI{ssi.MustParseURI("VerifiablePresentation")},
			Holder:               &holderURI,
			VerifiableCredential: creds,
			Proof: []any{map[string]any{"type": "JsonWebSignature2020", "verificationMethod": holder + "#k1", "proofPurpose": "authentication",
				"created": "2024-01-01T00:00:00Z", "challenge": "nonce", "domain": "aud", "jws": "eyJhbGciOiJFUzI1NiJ9..c2ln"}},
		}
		b, err := json.Marshal(vp)
		return string(b), err
	case "jwt":
		tok := jwt.New()
		_ = tok.Set(jwt.SubjectKey, holder)
		_ = tok.Set(jwt.JwtIDKey, id.String())
		_ = tok.Set("vp", vc.VerifiablePresentation{
			Context:              []ssi.URI{ssi.MustParseURI("https://www.w3.org/2018/credentials/v1")},
			Type:                 []ssi.URI{ssi.MustParseURI("VerifiablePresentation")},
			Holder:               &holderURI,
			VerifiableCredential: creds,
		})
		_ = tok.Set("nonce", "nonce")
		_ = tok.Set(jwt.AudienceKey, "aud")
		_ = tok.Set(jwt.NotBeforeKey, time.Date(2024, 1, 1, 0, 0, 0, 0, time.UTC))
		_ = tok.Set(jwt.ExpirationKey, time.Date(2034, 1, 1, 0, 0, 0, 0, time.UTC))
		hdr := jws.NewHeaders()
		_ = hdr.Set(jws.TypeKey, "JWT")
		_ = hdr.Set(jws.KeyIDKey, holder+"#k1")
		b, err := jwt.Sign(tok, jwt.WithKey(jwa.ES256, signKey, jws.WithProtectedHeaders(hdr)))
		return string(b), err
	}
	return "", fmt.Errorf("unknown VP format %q", format)
}

// envelope shapes: ldp | jwt (single VP), ldp-arr | jwt-arr ([VP]), ldp-arr2 | jwt-arr2 ([decoy VP of another holder, VP])
func shapeParts(shape string) (vpfmt string, array bool, two bool) {
	vpfmt = shape[:3]
	return vpfmt, strings.Contains(shape, "-arr"), strings.HasSuffix(shape, "-arr2")
}

func buildEnvelope(shape string, creds []vc.VerifiableCredential, decoy vc.VerifiableCredential) ([]byte, error) {
	vpfmt, array, two := shapeParts(shape)
	vp, err := buildVP(vpfmt, holderDID, creds, 1)
	if err != nil {
		return nil, err
	}
	asJSON := func(s string) json.RawMessage {
		if vpfmt == "jwt" {
			b, _ := json.Marshal(s)
			return b
		}
		return json.RawMessage(s)
	}
	if !array {
		return []byte(vp), nil
	}
	items := []json.RawMessage{}
	if two {
		d, err := buildVP(vpfmt, otherDID, []vc.VerifiableCredential{decoy}, 0)
		if err != nil {
			return nil, err
		}
		items = append(items, asJSON(d))
	}
	items = append(items, asJSON(vp))
	return json.Marshal(items)
}

func pathString(p apath) string {
	switch p.K {
	case "single":
		return "$.verifiableCredential"
	case "idx":
		return fmt.Sprintf("$.verifiableCredential[%d]", p.I)
	case "vp":
		return fmt.Sprintf("$[%d]", p.I)
	case "root":
		return "$"
	case "subj1":
		return "$.verifiableCredential.credentialSubject"
	case "subj":
		return fmt.Sprintf("$.verifiableCredential[%d].credentialSubject", p.I)
	case "oob":
		return "$.verifiableCredential[7]"
	case "desc":
		return "$..verifiableCredential"
	case "holder":
		return "$.holder"
	}
	return "$.nowhere"
}

func formatString(f string) string {
	switch f {
	case "ldp":
		return "ldp_vc"
	case "jwt":
		return "jwt_vc"
	case "ldpvp":
		return "ldp_vp"
	case "jwtvp":
		return "jwt_vp"
	}
	return f
}

func concreteEntry(e entry) pe.InputDescriptorMappingObject {
	m := pe.InputDescriptorMappingObject{Id: e.ID, Path: pathString(e.P), Format: formatString(e.Fmt)}
	if len(e.Nested) > 0 {
		n := concreteEntry(e.Nested[0])
		m.PathNested = &n
	}
	return m
}

// ------------------------------------------------------------------------------------------------- real calls

type outcome struct {
	res   string // ok | error | panic
	err   string
	stack string
}

func guarded(f func() error) (o outcome) {
	defer func() {
		if r := recover(); r != nil {
			o = outcome{res: "panic", err: fmt.Sprint(r), stack: topFrames(string(debug.Stack()))}
		}
	}()
	if err := f(); err != nil {
		return outcome{res: "error", err: err.Error()}
	}
	return outcome{res: "ok"}
}

func topFrames(stack string) string {
	var out []string
	for _, l := range strings.Split(stack, "\n") {
		l = strings.TrimSpace(l)
		if strings.Contains(l, "/vcr/pe/") && strings.Contains(l, ".go:") {
			l = l[strings.Index(l, "/vcr/pe/")+1:]
			if i := strings.Index(l, " "); i > 0 {
				l = l[:i]
			}
			out = append(out, l)
		}
	}
	if len(out) > 3 {
		out = out[:3]
	}
	return strings.Join(out, " < ")
}

func contains(xs []string, x string) bool {
	for _, y := range xs {
		if x == y {
			return true
		}
	}
	return false
}

func sameVal(real any, v val) bool {
	want, ok := v.concrete()
	if !ok {
		return real == nil
	}
	a, _ := json.Marshal(real)
	b, _ := json.Marshal(want)
	return string(a) == string(b)
}

// filterClass names the filter shape of a descriptor (for violation signatures)
func filterClass(d desc) string {
	var parts []string
	for _, f := range d.Fields {
		s := strings.Join(f.Path, "|") + ":"
		if len(f.Flt) == 0 {
			s += "nofilter"
		} else {
			ft := f.Flt[0]
			var k []string
			if len(ft.Const) > 0 {
				k = append(k, "const")
			}
			if len(ft.Enum) > 0 {
				k = append(k, "enum")
			}
			if len(ft.Pat) > 0 {
				k = append(k, "pattern")
			}
			if len(k) == 0 {
				k = append(k, "type-only")
			}
			s += ft.Type + "/" + strings.Join(k, "+")
		}
		if f.Opt {
			s += "/optional"
		}
		parts = append(parts, s)
	}
	return strings.Join(parts, ",")
}

func valueClass(c cred, paths []string) string {
	if len(paths) > 1 {
		var parts []string
		for _, p := range paths {
			parts = append(parts, valueClass(c, []string{p}))
		}
		return strings.Join(parts, "|")
	}
	v := c.F
	switch paths[0] {
	case "g":
		v = c.G
	case "h":
		return "absent"
	case "type":
		return "array-of-string"
	}
	switch v.K {
	case "s":
		return "string"
	case "n":
		return "number"
	case "b":
		return "boolean"
	case "none":
		return "absent"
	case "a":
		if len(v.A) == 0 {
			return "empty-array"
		}
		k := map[string]bool{}
		for _, e := range v.A {
			k[e.K] = true
		}
		var ks []string
		for x := range k {
			ks = append(ks, map[string]string{"s": "string", "n": "number", "b": "boolean", "a": "array"}[x])
		}
		sort.Strings(ks)
		return "array-of-" + strings.Join(ks, "+")
	}
	return v.K
}

func runCase(c acase, in input) (res result) {
	res = result{ID: c.ID, Violations: []violation{}, Drift: []string{}}
	defer func() {
		if r := recover(); r != nil {
			res.Error = fmt.Sprintf("driver panic: %v\n%s", r, debug.Stack())
		}
	}()
	obs := map[string]any{}
	res.Obs = obs
	viol := func(v violation) { res.Violations = append(res.Violations, v) }
	class := c.Exp.Class
	if class == "none" || class == "" {
		class = "unpredicted"
	}
	c.Exp.Sat = map[string][]string{}
	for _, r := range c.Exp.SatRows {
		if in.Corrupt != "sat" {
			c.Exp.Sat[r.D] = r.Cs
		}
	}
	partial := false

	// 1. the definition must be accepted by the repository's own schema validator and parser
	raw := definitionJSON(c.Def)
	obs["definition"] = json.RawMessage(raw)
	pd, err := pe.ParsePresentationDefinition(raw)
	if err != nil {
		res.Error = "definition rejected by the repository's schema/parser: " + err.Error()
		return
	}
	descByID := map[string]desc{}
	for _, d := range c.Def.Ds {
		descByID[d.ID] = d
	}

	// 2. wallet
	var wallet []vc.VerifiableCredential
	nameOf := map[string]string{}
	credByName := map[string]cred{}
	for _, w := range c.Wallet {
		v, err := buildCred(w)
		if err != nil {
			res.Error = "cannot build credential " + w.Name + ": " + err.Error()
			return
		}
		wallet = append(wallet, v)
		nameOf[v.Raw()] = w.Name
		credByName[w.Name] = w
	}
	name := func(v vc.VerifiableCredential) string {
		if n, ok := nameOf[v.Raw()]; ok {
			return n
		}
		return "?" + v.Raw()
	}

	// 3. WalletMatch: the real Match
	var selVCs []vc.VerifiableCredential
	var selMap []pe.InputDescriptorMappingObject
	var matchErr error
	om := guarded(func() error {
		selVCs, selMap, matchErr = pd.Match(wallet)
		return matchErr
	})
	res.Calls++
	res.Real = om.res
	obs["match"] = map[string]any{"res": om.res, "err": om.err, "at": om.stack}
	if om.res == "panic" {
		viol(violation{Kind: "panic", Shape: class, Detail: "Match: " + om.err + " at " + om.stack})
	}
	res.Checks++
	// NoFalseMissing: "missing credentials" is the wallet's report that no complete selection exists; it must be true
	if om.res == "error" && errors.Is(matchErr, pe.ErrNoCredentials) && c.Exp.MustFind {
		var fc []string
		for _, d := range c.Def.Ds {
			for _, cn := range c.Exp.Sat[d.ID] {
				vcl := ""
				for _, f := range d.Fields {
					vcl += valueClass(credByName[cn], f.Path) + ","
				}
				fc = append(fc, filterClass(d)+" on "+strings.TrimSuffix(vcl, ","))
				break
			}
		}
		viol(violation{Kind: "false-missing-credentials", Shape: class, Filter: strings.Join(fc, "; "),
			Detail: fmt.Sprintf("Match reports %q although a complete selection exists: reference sat = %v, valid descriptor sets %v", om.err, c.Exp.Sat, c.Exp.Valid)})
	}
	var realVcs []string
	var realMap []mapping
	if om.res == "ok" {
		for _, v := range selVCs {
			realVcs = append(realVcs, name(v))
		}
		mappedSet := map[string]bool{}
		for _, m := range selMap {
			var idx int
			cn := "?"
			if _, err := fmt.Sscanf(m.Path, "$.verifiableCredential[%d]", &idx); err == nil && idx >= 0 && idx < len(selVCs) {
				cn = name(selVCs[idx])
				if want := selVCs[idx].Format(); want != m.Format {
					viol(violation{Kind: "mapping-format", Shape: class, Detail: fmt.Sprintf("%s: format %s for a %s credential", m.Id, m.Format, want)})
				}
			} else {
				// another path syntax is not forbidden by the property: the verifier decides (WalletVerifierAgree below)
				res.Drift = append(res.Drift, fmt.Sprintf("Match: mapping path %q of %s is not $.verifiableCredential[i]", m.Path, m.Id))
				mappedSet[m.Id] = true
				continue
			}
			realMap = append(realMap, mapping{ID: m.Id, C: cn})
			// WalletSelectsOnlySatisfying: the mapped credential is in the reference sat set of the descriptor
			res.Checks++
			d, known := descByID[m.Id]
			if !known {
				viol(violation{Kind: "mapping-unknown-descriptor", Shape: class, Detail: m.Id})
				continue
			}
			if mappedSet[m.Id] {
				viol(violation{Kind: "mapping-duplicate-descriptor", Shape: class, Detail: m.Id})
			}
			mappedSet[m.Id] = true
			if !contains(c.Exp.Sat[m.Id], cn) {
				vcl := ""
				for _, f := range d.Fields {
					vcl += valueClass(credByName[cn], f.Path) + ","
				}
				fc := filterClass(d) + " on " + strings.TrimSuffix(vcl, ",")
				for _, dv := range c.Exp.Dev {
					if dv.D == m.Id && dv.C == cn {
						fc = dv.Why // deviation class the descriptive model predicts for this pair
					}
				}
				viol(violation{Kind: "selected-unsatisfying", Filter: fc,
					Detail: fmt.Sprintf("descriptor %s mapped to %s, reference sat = %v", m.Id, cn, c.Exp.Sat[m.Id])})
			}
		}
		// NoPartialSelection: the set of mapped descriptors satisfies the submission requirements (reference)
		var mapped []string
		for id := range mappedSet {
			mapped = append(mapped, id)
		}
		sort.Strings(mapped)
		res.Checks++
		okSet := false
		for _, vs := range c.Exp.Valid {
			s := append([]string{}, vs...)
			sort.Strings(s)
			if reflect.DeepEqual(s, mapped) || (len(s) == 0 && len(mapped) == 0) {
				okSet = true
			}
		}
		if !okSet {
			partial = true
			viol(violation{Kind: "partial-selection", Shape: class,
				Detail: fmt.Sprintf("mapped descriptors %v do not satisfy the submission requirements (valid sets %v, complete selection exists: %v)", mapped, c.Exp.Valid, c.Exp.Complete)})
		}
		// every selected credential is mapped (no surplus credential in the presentation)
		for i, v := range selVCs {
			used := false
			for _, m := range selMap {
				if m.Path == fmt.Sprintf("$.verifiableCredential[%d]", i) {
					used = true
				}
			}
			if !used {
				// over-disclosure is not part of C12
				res.Drift = append(res.Drift, "Match: selected credential "+name(v)+" is not referenced by any mapping")
			}
		}
	}
	obs["vcs"], obs["map"] = realVcs, realMap
	// conformance with the descriptive model (not part of the property): DRIFT only
	if om.res != c.Exp.Pred.Res {
		res.Drift = append(res.Drift, fmt.Sprintf("Match: model predicts %s (%s), code: %s %s", c.Exp.Pred.Res, c.Exp.Pred.Why, om.res, om.err))
	} else if om.res == "ok" && (!reflect.DeepEqual(realMap, c.Exp.Pred.Map) && !(len(realMap) == 0 && len(c.Exp.Pred.Map) == 0)) {
		res.Drift = append(res.Drift, fmt.Sprintf("Match: model predicts mapping %v, code: %v", c.Exp.Pred.Map, realMap))
	} else if om.res == "ok" && !reflect.DeepEqual(realVcs, c.Exp.Pred.Vcs) && !(len(realVcs) == 0 && len(c.Exp.Pred.Vcs) == 0) {
		res.Drift = append(res.Drift, fmt.Sprintf("Match: model predicts credentials %v, code: %v", c.Exp.Pred.Vcs, realVcs))
	}
	conform := len(res.Drift) == 0

	// 4. Build (wallet side)
	var submission pe.PresentationSubmission
	var sign pe.SignInstruction
	ob := guarded(func() error {
		b := pd.PresentationSubmissionBuilder()
		b.AddWallet(did.MustParseDID(holderDID), wallet)
		var err error
		submission, sign, err = b.Build("ldp_vp")
		return err
	})
	res.Calls++
	obs["build"] = map[string]any{"res": ob.res, "err": ob.err}
	if ob.res == "panic" && om.res != "panic" {
		viol(violation{Kind: "panic", Shape: class, Detail: "Build: " + ob.err + " at " + ob.stack})
	}
	// complete-or-error through the wallet's real entry point: whatever Build returns without error is what the holder
	// presents, so its descriptor map must be a valid selection (reference) -- also when it is empty
	res.Checks++
	if ob.res == "ok" {
		bm := map[string]bool{}
		for _, m := range submission.DescriptorMap {
			bm[m.Id] = true
		}
		var built []string
		for id := range bm {
			built = append(built, id)
		}
		sort.Strings(built)
		okSet := false
		for _, vs := range c.Exp.Valid {
			s := append([]string{}, vs...)
			sort.Strings(s)
			if reflect.DeepEqual(s, built) || (len(s) == 0 && len(built) == 0) {
				okSet = true
			}
		}
		if !okSet && !partial {
			partial = true
			viol(violation{Kind: "partial-selection", Shape: class,
				Detail: fmt.Sprintf("Build (Match: %s) returned a submission for descriptors %v with %d credentials; valid sets %v, complete selection exists: %v",
					om.res, built, len(sign.VerifiableCredentials), c.Exp.Valid, c.Exp.Complete)})
		}
		if om.res == "ok" && len(submission.DescriptorMap) != len(selMap) {
			res.Drift = append(res.Drift, fmt.Sprintf("Build maps %d descriptors, Match %d", len(submission.DescriptorMap), len(selMap)))
		}
	} else if om.res == "ok" {
		viol(violation{Kind: "build-failed", Shape: class, Detail: ob.res + ": " + ob.err})
	}
	walletOK := om.res == "ok" && ob.res == "ok"
	if walletOK {
		obs["submission"] = submission
	}

	decoy, _ := buildCred(cred{Name: "decoyvp", Fmt: "ldp", Typ: "DecoyCredential", F: val{K: "s", S: "zzz"}, G: val{K: "none"}})

	validate := func(shape string, s pe.PresentationSubmission, presented []vc.VerifiableCredential) (outcome, map[string]vc.VerifiableCredential, error) {
		if presented == nil {
			presented = sign.VerifiableCredentials
		}
		env, err := buildEnvelope(shape, presented, decoy)
		if shape == "no-vp" {
			env, err = []byte("[]"), nil // an envelope without any presentation
		}
		if err != nil {
			return outcome{}, nil, err
		}
		var got map[string]vc.VerifiableCredential
		o := guarded(func() error {
			// the API layer receives the envelope as bytes; parse it with the real parser
			envelope, err := pe.ParseEnvelope(env)
			if err != nil {
				return fmt.Errorf("ParseEnvelope: %w", err)
			}
			got, err = s.Validate(*envelope, *pd)
			return err
		})
		res.Calls++
		return o, got, nil
	}

	// 5. WalletVerifierAgree: the wallet's own submission in every envelope shape
	expectedByID := map[string]string{}
	for _, m := range realMap {
		expectedByID[m.ID] = m.C
	}
	rejectedSingle := false
	for _, shape := range c.Shapes {
		if !walletOK {
			break
		}
		vpfmt, array, two := shapeParts(shape)
		s := submission
		s.DescriptorMap = append([]pe.InputDescriptorMappingObject{}, submission.DescriptorMap...)
		if array {
			k := 0
			if two {
				k = 1
			}
			for i, m := range s.DescriptorMap {
				inner := m
				// the hop carries ldp_vp also for JWT presentations: Validate sees decoded maps (jwt_vp is refused, see notes)
				s.DescriptorMap[i] = pe.InputDescriptorMappingObject{Id: m.Id, Format: "ldp_vp", Path: fmt.Sprintf("$[%d]", k), PathNested: &inner}
			}
			_ = vpfmt
		}
		o, got, err := validate(shape, s, nil)
		if err != nil {
			res.Error = "cannot build envelope: " + err.Error()
			return
		}
		res.Checks++
		if o.res == "panic" {
			viol(violation{Kind: "panic", Shape: class, Env: shape, Detail: "Validate: " + o.err + " at " + o.stack})
			continue
		}
		if o.res != "ok" && partial {
			continue // the wallet already delivered an invalid selection (reported above); either verdict is wrong
		}
		if o.res != "ok" {
			if array && rejectedSingle {
				continue
			}
			if array {
				// the statement demands acceptance of the wallet's own submission (single presentation); array envelopes
				// are produced by the harness
				res.Drift = append(res.Drift, fmt.Sprintf("correct submission in envelope %s rejected: %s", shape, o.err))
			} else {
				rejectedSingle = true
				viol(violation{Kind: "correct-rejected", Shape: class, Env: shape, Detail: o.err})
			}
			continue
		}
		gotByID := map[string]string{}
		for id, v := range got {
			gotByID[id] = name(v)
		}
		if !reflect.DeepEqual(gotByID, expectedByID) {
			viol(violation{Kind: "validate-returns-other-credentials", Shape: class, Env: shape, Detail: fmt.Sprintf("wallet mapped %v, verifier returned %v", expectedByID, gotByID)})
		}
		// 6. ExtractedValueIsPresentValue
		var values map[string]any
		oe := guarded(func() error {
			var err error
			values, err = pd.ResolveConstraintsFields(got)
			return err
		})
		res.Calls++
		res.Checks++
		if oe.res != "ok" {
			k := "extract-failed"
			if oe.res == "panic" {
				k = "panic"
			}
			viol(violation{Kind: k, Shape: class, Env: shape, Detail: "ResolveConstraintsFields: " + oe.err})
			continue
		}
		if shape == c.Shapes[0] {
			obs["values"] = values
		}
		want := 0
		for _, x := range c.Exp.Extract {
			if expectedByID[x.D] != x.C {
				continue
			}
			want++
			real, present := values[x.Fid]
			okv := false
			for _, a := range x.Adm {
				if sameVal(real, a) {
					okv = true
				}
			}
			if !present || !okv {
				rb, _ := json.Marshal(real)
				ab, _ := json.Marshal(x.Adm)
				viol(violation{Kind: "extracted-value", Shape: class, Filter: filterClass(descByID[x.D]), Env: shape,
					Detail: fmt.Sprintf("field %s of %s->%s: extracted %s (present %v), admissible %s", x.Fid, x.D, x.C, rb, present, ab)})
			}
		}
		if conform && len(res.Violations) == 0 && len(values) != want {
			res.Drift = append(res.Drift, fmt.Sprintf("ResolveConstraintsFields returned %d values, model expects %d", len(values), want))
		}
	}

	// 7. ForgedMappingRejected: mutated submissions (only meaningful when the code selected what the model predicts,
	// because the abstract mutations are expressed relative to the predicted selection)
	skipped := false
	var subObs []map[string]any
	for _, sb := range c.Subs {
		// submissions over the wallet's own selection need that selection (and need it to be the predicted one);
		// empty / decoy-only / missing presentations do not depend on the wallet at all
		independent := sb.Mut == "incomplete" && sb.Ek != "partial-vp"
		if !independent && (!walletOK || !conform) {
			if !skipped && walletOK {
				res.Drift = append(res.Drift, "mutations skipped: real selection differs from the model's")
			}
			skipped = true
			continue
		}
		s := pe.PresentationSubmission{Id: "sub-verif", DefinitionId: pd.Id}
		for _, e := range sb.Entries {
			s.DescriptorMap = append(s.DescriptorMap, concreteEntry(e))
		}
		must := sb.Must
		if in.Corrupt == "verdict" && must == "accept" {
			must = "reject" // self-test: the expectation of the correct submission is corrupted
		}
		var presented []vc.VerifiableCredential
		if sb.Ek != "" && sb.Ek != "plain" {
			presented = []vc.VerifiableCredential{} // exactly sb.Env, also when that is empty
		}
		for _, e := range sb.Env {
			v, err := buildCred(e)
			if err != nil {
				res.Error = "cannot build credential " + e.Name + ": " + err.Error()
				return
			}
			presented = append(presented, v)
		}
		o, _, err := validate(sb.Shape, s, presented)
		if err != nil {
			res.Error = "cannot build envelope: " + err.Error()
			return
		}
		res.Checks++
		if in.Verbose {
			subObs = append(subObs, map[string]any{"mut": sb.Mut, "shape": sb.Shape, "ek": sb.Ek, "must": sb.Must, "res": o.res, "err": o.err, "map": s.DescriptorMap})
		}
		if real := map[string]string{"ok": "accept", "error": "reject", "panic": "panic"}[o.res]; real != sb.Pred && in.Corrupt == "" {
			res.Drift = append(res.Drift, fmt.Sprintf("Validate %s/%s/%s: model predicts %s, code: %s %s", sb.Shape, sb.Ek, sb.Mut, sb.Pred, real, o.err))
		}
		switch {
		case o.res == "panic":
			viol(violation{Kind: "panic", Shape: class, Mut: sb.Mut, Env: sb.Shape, Detail: "Validate: " + o.err + " at " + o.stack})
		case must == "reject" && o.res == "ok":
			dm, _ := json.Marshal(s.DescriptorMap)
			viol(violation{Kind: "forged-accepted", Shape: class, Mut: sb.Mut, Env: sb.Shape + "/" + sb.Ek, Detail: string(dm)})
		case must == "accept" && o.res != "ok":
			_, array, _ := shapeParts(sb.Shape)
			if array || sb.Mut != "none" || (sb.Ek != "" && sb.Ek != "plain") {
				res.Drift = append(res.Drift, fmt.Sprintf("submission %s/%s expected to be accepted, rejected: %s", sb.Shape, sb.Mut, o.err))
			} else {
				viol(violation{Kind: "correct-rejected", Shape: class, Mut: sb.Mut, Env: sb.Shape, Detail: o.err})
			}
		}
	}
	if in.Verbose {
		obs["subs"] = subObs
	}
	return
}

func TestDriver(t *testing.T) {
	logrus.SetOutput(io.Discard)
	inPath, outPath := os.Getenv("VERIF_IN"), os.Getenv("VERIF_OUT")
	if inPath == "" || outPath == "" {
		t.Skip("VERIF_IN / VERIF_OUT not set")
	}
	data, err := os.ReadFile(inPath)
	if err != nil {
		t.Fatal(err)
	}
	var in input
	if err := json.Unmarshal(data, &in); err != nil {
		t.Fatal(err)
	}
	out, err := os.Create(outPath)
	if err != nil {
		t.Fatal(err)
	}
	defer out.Close()
	w := bufio.NewWriterSize(out, 1<<20)
	defer w.Flush()
	enc := json.NewEncoder(w)
	for _, c := range in.Cases {
		r := runCase(c, in)
		if !in.Verbose && len(r.Violations) == 0 && len(r.Drift) == 0 && r.Error == "" {
			r.Obs = nil
		}
		if err := enc.Encode(r); err != nil {
			t.Fatal(err)
		}
	}
}
