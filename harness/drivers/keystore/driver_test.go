// Driver for KeyStore.tla (C03): replays TLC generated operation sequences on a whole in-process node (fs key store, sqlite)
// with CANARY keys and byte-scans every output channel after every step; key-name classes against the real validating
// wrapper over the real fs backend (decoy files outside the key directory) and over the real Vault backend (recording fake
// Vault server); every signature is verified against every known public key.
package keystore

import (
	"bufio"
	"bytes"
	"context"
	"crypto"
	"crypto/ecdh"
	"crypto/ecdsa"
	"crypto/ed25519"
	"crypto/elliptic"
	"crypto/rand"
	"crypto/rsa"
	"crypto/sha256"
	"crypto/x509"
	"encoding/base64"
	"encoding/hex"
	"encoding/json"
	"encoding/pem"
	"fmt"
	"io"
	"math/big"
	"net/http"
	"net/http/httptest"
	"net/url"
	"os"
	"path/filepath"
	"runtime/debug"
	"sort"
	"strings"
	"sync"
	"testing"
	"time"

	"github.com/lestrrat-go/jwx/v2/jwa"
	"github.com/lestrrat-go/jwx/v2/jwk"
	"github.com/lestrrat-go/jwx/v2/jws"
	"github.com/lestrrat-go/jwx/v2/x25519"
	"github.com/nuts-foundation/nuts-node/audit"
	"github.com/nuts-foundation/nuts-node/core"
	nutsCrypto "github.com/nuts-foundation/nuts-node/crypto"
	"github.com/nuts-foundation/nuts-node/crypto/dpop"
	"github.com/nuts-foundation/nuts-node/network/dag"
	"github.com/nuts-foundation/nuts-node/crypto/storage/fs"
	"github.com/nuts-foundation/nuts-node/crypto/storage/spi"
	"github.com/nuts-foundation/nuts-node/crypto/storage/vault"
	cryptoUtil "github.com/nuts-foundation/nuts-node/crypto/util"
	"github.com/nuts-foundation/nuts-node/storage"
	testnode "github.com/nuts-foundation/nuts-node/test/node"
	"github.com/sirupsen/logrus"
	"gorm.io/gorm"
)

// ------------------------------------------------------------------------------------------------- protocol

type step map[string]any

func (s step) str(k string) string { v, _ := s[k].(string); return v }

type script struct {
	ID    string `json:"id"`
	Steps []step `json:"steps"`
}

type input struct {
	Seed    int64    `json:"seed"`
	Scripts []script `json:"scripts"`
	// Plant makes the HARNESS leak a canary into a channel (binding demonstration of the scanner; never set by the check)
	Plant string `json:"plant,omitempty"`
}

type violation struct {
	Kind      string `json:"kind"` // secret-leak | namespace-escape | wrong-key | unbound-kid-selects-key | artefact-names-other-key | audit-names-other-key
	Channel   string `json:"channel,omitempty"`
	Op        string `json:"op,omitempty"`
	NameClass string `json:"name_class,omitempty"`
	Backend   string `json:"backend,omitempty"`
	Jwk       string `json:"jwk,omitempty"` // class of the caller supplied jwk header whose secret part was echoed
	KidClass  string `json:"kid_class,omitempty"` // class of the REQUEST key id no key is bound to
	HdrKid    string `json:"hdr_kid,omitempty"`   // class of the caller supplied kid header
	Detail    string `json:"detail"`
	Step      int    `json:"step"`
}

type opResult struct {
	A       string `json:"a"`
	Outcome string `json:"outcome"`
}

type result struct {
	ID         string           `json:"id"`
	Violations []violation      `json:"violations"`
	Ops        []opResult       `json:"ops"`
	Checks     int              `json:"checks"`      // channel scans + signature verifications + namespace checks
	Scanned    int64            `json:"scanned"`     // bytes scanned
	Needles    int              `json:"needles"`     // canary forms in use at the end of the script
	Signatures int              `json:"signatures"`  // signatures verified against all known public keys
	AuditLines int              `json:"audit_lines"` // audit records captured and scanned
	Channels   map[string]int64 `json:"channels"`    // bytes scanned per channel
	Drift      []string         `json:"drift"`
	Error      string           `json:"error,omitempty"`
	Trace      []map[string]any `json:"trace"`
}

// ------------------------------------------------------------------------------------------------- canaries

type canary struct {
	kid     string
	name    string // storage name (file name without _private.pem)
	fam     string // key family
	pub     crypto.PublicKey
	priv    *ecdsa.PrivateKey // set for EC keys only
	needles [][]byte
	forms   []string
}

func (c *canary) pubEqual(other crypto.PublicKey) bool {
	if eq, ok := c.pub.(interface{ Equal(crypto.PublicKey) bool }); ok {
		return eq.Equal(other)
	}
	return false
}

func b64Aligned(enc *base64.Encoding, secret []byte) [][]byte {
	// the encoding of secret as it appears inside a longer base64 text, for the three possible alignments
	var out [][]byte
	for pad := 0; pad < 3; pad++ {
		buf := append(bytes.Repeat([]byte{0x5a}, pad), secret...)
		buf = append(buf, 0x5a, 0x5a, 0x5a)
		s := enc.EncodeToString(buf)
		// drop the characters influenced by the padding bytes
		start := 0
		if pad > 0 {
			start = 4
		}
		end := (pad+len(secret))/3*4 - 0
		if end > len(s) {
			end = len(s)
		}
		inner := s[start:end]
		if len(inner) >= 24 {
			out = append(out, []byte(inner))
		}
	}
	return out
}

// secretParts returns the secret values of a private key: byte strings and (where the key holds them as such) big integers.
func secretParts(key any) (fam string, raws [][]byte, ints []*big.Int) {
	switch k := key.(type) {
	case *ecdsa.PrivateKey:
		raw := make([]byte, (k.Curve.Params().BitSize+7)/8)
		k.D.FillBytes(raw)
		return "EC-P" + fmt.Sprint(k.Curve.Params().BitSize), [][]byte{raw}, []*big.Int{k.D}
	case *rsa.PrivateKey:
		ints = []*big.Int{k.D}
		ints = append(ints, k.Primes...)
		if k.Precomputed.Dp != nil {
			ints = append(ints, k.Precomputed.Dp, k.Precomputed.Dq, k.Precomputed.Qinv)
		}
		for _, x := range ints {
			raws = append(raws, x.Bytes())
		}
		return "RSA", raws, ints
	case ed25519.PrivateKey:
		return "Ed25519", [][]byte{k.Seed(), []byte(k)}, nil
	case x25519.PrivateKey:
		return "X25519", [][]byte{k.Seed()}, nil
	}
	return "unknown", nil, nil
}

// makeNeedles: every rendering of the secret we look for. Byte strings: raw, hex, base64 / base64url (padded, raw, at
// the three alignments inside a longer text), the decimal byte list fmt prints for %v of a []byte, the Go-syntax byte list
// of %#v. Integers: decimal (what %v / %d print for a *big.Int), hex without leading zeros (%x). Stored form: PEM body, DER.
func makeNeedles(key any, pemText string) ([][]byte, []string) {
	_, raws, ints := secretParts(key)
	var ns [][]byte
	var forms []string
	add := func(form string, b ...[]byte) {
		for _, x := range b {
			if len(x) >= 16 {
				ns = append(ns, x)
				forms = append(forms, form)
			}
		}
	}
	for _, raw := range raws {
		if len(raw) < 16 {
			continue
		}
		add("raw", raw)
		add("hex", []byte(hex.EncodeToString(raw)), []byte(strings.ToUpper(hex.EncodeToString(raw))))
		add("base64", []byte(base64.StdEncoding.EncodeToString(raw)), []byte(base64.RawStdEncoding.EncodeToString(raw)))
		add("base64url", []byte(base64.URLEncoding.EncodeToString(raw)), []byte(base64.RawURLEncoding.EncodeToString(raw)))
		add("base64-unaligned", b64Aligned(base64.RawStdEncoding, raw)...)
		add("base64url-unaligned", b64Aligned(base64.RawURLEncoding, raw)...)
		// fmt's renderings of a byte slice: %v "[12 34 ...]", %#v "[]byte{0xc, 0x22, ...}", %x with spaces "0c 22"
		add("byte-list-decimal", []byte(strings.Trim(fmt.Sprint(raw), "[]")))
		gs := fmt.Sprintf("%#v", raw)
		add("byte-list-go-syntax", []byte(gs[strings.Index(gs, "{")+1:len(gs)-1]))
		add("hex-spaced", []byte(fmt.Sprintf("% x", raw)))
	}
	for _, x := range ints {
		add("decimal", []byte(x.String()))
		add("hex-int", []byte(x.Text(16)), []byte(strings.ToUpper(x.Text(16))))
	}
	// PEM body: every line of the stored file (the DER contains the secret)
	for _, line := range strings.Split(pemText, "\n") {
		line = strings.TrimSpace(line)
		if line == "" || strings.HasPrefix(line, "-----") {
			continue
		}
		if len(line) >= 40 {
			add("pem-body", []byte(line[:40]), []byte(line[len(line)-40:]))
		} else if len(line) >= 24 {
			add("pem-body", []byte(line))
		}
	}
	// DER of the key in hex / raw (other containers)
	if blk, _ := pem.Decode([]byte(pemText)); blk != nil {
		add("der-hex", []byte(hex.EncodeToString(blk.Bytes)))
		add("der-raw", blk.Bytes)
	}
	return ns, forms
}

// ------------------------------------------------------------------------------------------------- node

type nodeEnv struct {
	t          *testing.T
	system     *core.System
	internal   string
	public     string
	datadir    string
	ks         nutsCrypto.KeyStore
	db         *gorm.DB
	logFile    *os.File
	logOffset  int64
	canaries   map[string]*canary // by storage name
	knownFiles map[string]bool
	client     *http.Client
	plant      string
	idx        map[[16]byte][]needleRef
	idxPrefix  *[65536]bool
	idxKeys    int
	order      []string // storage names in creation order
}

func startNode(t *testing.T) *nodeEnv {
	env := &nodeEnv{t: t, canaries: map[string]*canary{}, knownFiles: map[string]bool{}, client: &http.Client{Timeout: 20 * time.Second}}
	// everything written to stderr (audit logger) and to the standard logger goes to one file that is scanned
	lf, err := os.CreateTemp(t.TempDir(), "node-log-*.txt")
	if err != nil {
		t.Fatal(err)
	}
	env.logFile = lf
	origStderr := os.Stderr
	os.Stderr = lf
	t.Cleanup(func() { os.Stderr = origStderr })
	logrus.SetOutput(lf)
	internal, public, system := testnode.StartServer(t, func(_, _ string) {
		t.Setenv("NUTS_DIDMETHODS", "web,nuts")
		t.Setenv("NUTS_VERBOSITY", "trace")
		t.Setenv("NUTS_INTERNALRATELIMITER", "false") // the check creates more than 30 keys
		t.Setenv("NUTS_DISCOVERY_CLIENT_REFRESHINTERVAL", "0")
	})
	logrus.SetOutput(lf)
	logrus.SetLevel(logrus.TraceLevel)
	env.system, env.internal, env.public = system, internal, public
	env.datadir = os.Getenv("NUTS_DATADIR")
	system.VisitEngines(func(e core.Engine) {
		if c, ok := e.(*nutsCrypto.Crypto); ok {
			env.ks = c
		}
		if s, ok := e.(storage.Engine); ok {
			env.db = s.GetSQLDatabase()
		}
	})
	if env.ks == nil || env.db == nil || env.datadir == "" {
		t.Fatalf("harness: crypto engine / database / datadir not found")
	}
	return env
}

func (n *nodeEnv) keyDir() string { return filepath.Join(n.datadir, "crypto") }

// harvest reads every new key file and registers its canary forms.
func (n *nodeEnv) harvest() []*canary {
	var fresh []*canary
	entries, _ := os.ReadDir(n.keyDir())
	for _, e := range entries {
		if e.IsDir() || !strings.HasSuffix(e.Name(), "_private.pem") || n.knownFiles[e.Name()] {
			continue
		}
		n.knownFiles[e.Name()] = true
		data, err := os.ReadFile(filepath.Join(n.keyDir(), e.Name()))
		if err != nil {
			continue
		}
		signer, err := cryptoUtil.PemToPrivateKey(data)
		if err != nil || signer == nil {
			continue
		}
		name := strings.TrimSuffix(e.Name(), "_private.pem")
		c := &canary{name: name, pub: signer.Public()}
		c.priv, _ = signer.(*ecdsa.PrivateKey)
		c.fam, _, _ = secretParts(signer)
		c.needles, c.forms = makeNeedles(signer, string(data))
		n.canaries[name] = c
		n.order = append(n.order, name)
		fresh = append(fresh, c)
	}
	return fresh
}

func (n *nodeEnv) kidOfName(name string) string {
	var rows []map[string]any
	n.db.Table("key_reference").Where("key_name = ?", name).Find(&rows)
	for _, r := range rows {
		return fmt.Sprint(r["kid"])
	}
	return ""
}

type httpExchange struct {
	status int
	body   []byte
	all    []byte // status line + headers + body
}

func (n *nodeEnv) do(method, rawURL string, body any, contentType string) httpExchange {
	var rd io.Reader
	switch b := body.(type) {
	case nil:
	case []byte:
		rd = bytes.NewReader(b)
	case string:
		rd = strings.NewReader(b)
	default:
		bs, _ := json.Marshal(b)
		rd = bytes.NewReader(bs)
		if contentType == "" {
			contentType = "application/json"
		}
	}
	req, err := http.NewRequest(method, rawURL, rd)
	if err != nil {
		return httpExchange{status: -1, all: []byte(err.Error())}
	}
	if contentType != "" {
		req.Header.Set("Content-Type", contentType)
	}
	resp, err := n.client.Do(req)
	if err != nil {
		return httpExchange{status: -1, all: []byte(err.Error())}
	}
	defer resp.Body.Close()
	bs, _ := io.ReadAll(resp.Body)
	var all bytes.Buffer
	fmt.Fprintf(&all, "%s\n", resp.Status)
	_ = resp.Header.Write(&all)
	all.Write(bs)
	return httpExchange{status: resp.StatusCode, body: bs, all: all.Bytes()}
}

// sqlDump renders every row of every table; []byte columns verbatim.
func (n *nodeEnv) sqlDump() []byte {
	var tables []string
	n.db.Raw("SELECT name FROM sqlite_master WHERE type='table'").Scan(&tables)
	sort.Strings(tables)
	var out bytes.Buffer
	for _, tb := range tables {
		rows, err := n.db.Table(tb).Rows()
		if err != nil {
			continue
		}
		cols, _ := rows.Columns()
		for rows.Next() {
			vals := make([]any, len(cols))
			ptrs := make([]any, len(cols))
			for i := range vals {
				ptrs[i] = &vals[i]
			}
			if rows.Scan(ptrs...) != nil {
				continue
			}
			out.WriteString(tb + ":")
			for i, v := range vals {
				out.WriteString(cols[i] + "=")
				switch x := v.(type) {
				case []byte:
					out.Write(x)
				case string:
					out.WriteString(x)
				default:
					fmt.Fprint(&out, x)
				}
				out.WriteByte('|')
			}
			out.WriteByte('\n')
		}
		rows.Close()
	}
	return out.Bytes()
}

func (n *nodeEnv) newLogs() []byte {
	_ = n.logFile.Sync()
	st, err := os.Stat(n.logFile.Name())
	if err != nil || st.Size() <= n.logOffset {
		return nil
	}
	buf := make([]byte, st.Size()-n.logOffset)
	f, err := os.Open(n.logFile.Name())
	if err != nil {
		return nil
	}
	defer f.Close()
	_, _ = f.ReadAt(buf, n.logOffset)
	n.logOffset = st.Size()
	return buf
}

// listing returns every path below the data directory (names only), and the files that are not where key files belong.
func (n *nodeEnv) listing() []byte {
	var out bytes.Buffer
	_ = filepath.Walk(n.datadir, func(p string, info os.FileInfo, err error) error {
		if err == nil {
			rel, _ := filepath.Rel(n.datadir, p)
			out.WriteString(rel + "\n")
		}
		return nil
	})
	return out.Bytes()
}

// decodeJOSE returns the decoded segments of compact JWS/JWE texts found in data (headers and claims of signed artefacts).
func decodeJOSE(data []byte) []byte {
	var out bytes.Buffer
	for _, tok := range bytes.FieldsFunc(data, func(r rune) bool {
		return !(r == '.' || r == '-' || r == '_' || r == '=' || r == '+' || r == '/' || (r >= '0' && r <= '9') || (r >= 'a' && r <= 'z') || (r >= 'A' && r <= 'Z'))
	}) {
		if bytes.Count(tok, []byte(".")) < 2 || len(tok) < 20 {
			continue
		}
		for _, seg := range bytes.Split(tok, []byte(".")) {
			for _, enc := range []*base64.Encoding{base64.RawURLEncoding, base64.RawStdEncoding} {
				if dec, err := enc.DecodeString(strings.TrimRight(string(seg), "=")); err == nil && len(dec) > 0 {
					out.Write(dec)
					out.WriteByte('\n')
					break
				}
			}
		}
	}
	return out.Bytes()
}

// ------------------------------------------------------------------------------------------------- script run

type run struct {
	n      *nodeEnv
	res    *result
	stepNo int
	op     string
	// per script
	subject map[string]string // abstract key -> subject id
	webDID  map[string]string
	nutsDID map[string]string
	kid     map[string]string // abstract key -> kid currently used for it (alias after LinkKey)
	pubOf   map[string]string // abstract key -> storage name whose key is expected to sign
	aliasNC map[string]string // name class -> alias kid
	aliasN  int
	sid     string
	jwkClass string           // jwk header class of the current step (SignJWS)
	hkClass  string           // class of the caller supplied kid header of the current step (SignJWT / SignJWS): none | same | other | unbound | empty
	panics   []string         // operations of the current step that panicked
	errs     []string         // texts of the errors / panics the operations of the current step returned
	deleted map[string]string // abstract key -> kid whose key was deleted and not created again
	inproc  map[string]bool   // abstract key whose current key was created / linked in process (the DID document does not know it)
}

func (r *run) violate(v violation) {
	v.Step, v.Op = r.stepNo, r.op
	if len(r.res.Violations) < 20 {
		r.res.Violations = append(r.res.Violations, v)
	}
}

// needleIndex finds any of thousands of canary forms in one pass: every needle is indexed by its first 16 bytes.
type needleRef struct {
	c *canary
	i int
}

func (n *nodeEnv) index() (map[[16]byte][]needleRef, *[65536]bool) {
	if n.idx != nil && n.idxKeys == len(n.canaries) {
		return n.idx, n.idxPrefix
	}
	idx := map[[16]byte][]needleRef{}
	var prefix [65536]bool
	for _, c := range n.canaries {
		for i, nd := range c.needles {
			var k [16]byte
			copy(k[:], nd[:16])
			idx[k] = append(idx[k], needleRef{c, i})
			prefix[int(nd[0])<<8|int(nd[1])] = true
		}
	}
	n.idx, n.idxPrefix, n.idxKeys = idx, &prefix, len(n.canaries)
	return idx, &prefix
}

func (r *run) scan(channel string, data []byte) {
	if len(data) == 0 {
		return
	}
	r.res.Checks++
	r.res.Scanned += int64(len(data))
	if r.res.Channels == nil {
		r.res.Channels = map[string]int64{}
	}
	r.res.Channels[channel] += int64(len(data))
	idx, prefix := r.n.index()
	var k [16]byte
	for pos := 0; pos+16 <= len(data); pos++ {
		if !prefix[int(data[pos])<<8|int(data[pos+1])] {
			continue
		}
		copy(k[:], data[pos:pos+16])
		refs, ok := idx[k]
		if !ok {
			continue
		}
		for _, ref := range refs {
			nd := ref.c.needles[ref.i]
			if bytes.HasPrefix(data[pos:], nd) {
				lo, hi := pos-60, pos+len(nd)+20
				if lo < 0 {
					lo = 0
				}
				if hi > len(data) {
					hi = len(data)
				}
				r.violate(violation{Kind: "secret-leak", Channel: channel,
					Detail: fmt.Sprintf("private key of %s (storage name %s) found in form %s: ...%q...", ref.c.kid, ref.c.name, ref.c.forms[ref.i], data[lo:hi])})
				return
			}
		}
	}
}

// scanAll scans the channels that accumulate state (SQL rows, logs, file names) plus what the step produced.
func (r *run) scanAll(http [][]byte, artefacts [][]byte, docs [][]byte) {
	for _, h := range http {
		r.scan("httpResponse", h)
		dec := decodeJOSE(h)
		r.scan("token", dec)
	}
	for _, a := range artefacts {
		if what, bad := headerPublishesSecretJWK(a); bad {
			r.res.Checks++
			r.violate(violation{Kind: "secret-leak", Channel: "jwsHeader", Jwk: r.jwkClass, Detail: "the protected header of a produced JWS carries a jwk with private/symmetric parameters: " + what})
		}
		r.scan("token", a)
		segs := bytes.Split(bytes.TrimSpace(a), []byte("."))
		if len(segs) >= 2 {
			if dec, err := base64.RawURLEncoding.DecodeString(string(segs[0])); err == nil {
				r.scan("jwsHeader", dec)
			}
		}
		r.scan("token", decodeJOSE(a))
	}
	for _, d := range docs {
		r.scan("didDocument", d)
	}
	if len(r.errs) > 0 {
		r.scan("errorText", []byte(strings.Join(r.errs, "\n")))
	}
	dump := r.n.sqlDump()
	if r.n.plant == "sqlRow" {
		for _, c := range r.n.canaries {
			if c.priv != nil {
				dump = append(dump, []byte("planted:"+hex.EncodeToString(c.priv.D.Bytes()))...)
				break
			}
		}
	}
	r.scan("sqlRow", dump)
	logs := r.n.newLogs()
	if r.n.plant == "log" {
		for _, c := range r.n.canaries {
			if c.priv != nil {
				logs = append(logs, []byte("planted d="+base64.RawURLEncoding.EncodeToString(c.priv.D.FillBytes(make([]byte, 32))))...)
				break
			}
		}
	}
	var audit, plain bytes.Buffer
	for _, line := range bytes.Split(logs, []byte("\n")) {
		if bytes.Contains(line, []byte("level=audit")) || bytes.Contains(line, []byte(`"level":"audit"`)) {
			audit.Write(line)
			audit.WriteByte('\n')
			r.res.AuditLines++
		} else {
			plain.Write(line)
			plain.WriteByte('\n')
		}
	}
	r.scan("auditLog", audit.Bytes())
	r.scan("log", plain.Bytes())
	r.scan("log", decodeJOSE(plain.Bytes()))
	r.scan("fileName", r.n.listing())
	r.namespaceCheckNode()
}

// namespaceCheckNode: every key file lies directly in <datadir>/crypto, nothing key-like anywhere else.
func (r *run) namespaceCheckNode() {
	r.res.Checks++
	root := filepath.Dir(r.n.datadir)
	_ = filepath.Walk(root, func(p string, info os.FileInfo, err error) error {
		if err != nil || info.IsDir() {
			return nil
		}
		if strings.HasSuffix(info.Name(), "_private.pem") && filepath.Dir(p) != r.n.keyDir() && !strings.Contains(p, "verif-decoy") {
			r.violate(violation{Kind: "namespace-escape", Backend: "fs", NameClass: "node", Detail: "key file outside the key directory: " + p})
		}
		return nil
	})
}

// verifySig checks that the compact JWS verifies with the expected public key and with no other known key.
func (r *run) verifySig(compact []byte, payload []byte, expectName string, requestedKid string) {
	r.res.Signatures++
	r.res.Checks++
	verify := func(pub crypto.PublicKey) bool {
		alg := jwa.ES256
		var hdr struct {
			Alg string `json:"alg"`
		}
		if json.Unmarshal(protectedHeaderOf(compact), &hdr) == nil && hdr.Alg != "" {
			alg = jwa.SignatureAlgorithm(hdr.Alg)
		}
		opts := []jws.VerifyOption{jws.WithKey(alg, pub)}
		if payload != nil {
			opts = append(opts, jws.WithDetachedPayload(payload))
		}
		_, err := jws.Verify(compact, opts...)
		return err == nil
	}
	exp, ok := r.n.canaries[expectName]
	if !ok {
		r.res.Drift = append(r.res.Drift, "no canary for storage name "+expectName)
		return
	}
	if !verify(exp.pub) {
		r.violate(violation{Kind: "wrong-key", Detail: fmt.Sprintf("signature requested for %s does not verify with the public key of its key (%s)", requestedKid, expectName)})
	}
	// the kid WRITTEN INTO the artefact (if it carries one) must name the key that signed it: a verifier that resolves the key
	// by that kid must get the signer's public key, whatever `kid` the caller put among the headers
	if written, present := kidHeaderOf(compact); present {
		r.res.Checks++
		if owner := r.ownerOfKid(written); owner != expectName {
			what := "to which no key is bound"
			if owner != "" {
				what = fmt.Sprintf("which is bound to another key (%s, kid %s)", owner, r.n.canaries[owner].kid)
			}
			r.violate(violation{Kind: "artefact-names-other-key", HdrKid: r.hkClass, Detail: fmt.Sprintf("the artefact signed with the key of %s (%s) carries the kid header %q %s", requestedKid, expectName, written, what)})
		}
	}
	// ... and with no other key: the other keys of this script, plus the most recently created ones (bounded, the node
	// accumulates hundreds of keys over a run)
	others := map[string]bool{}
	for _, nm := range r.pubOf {
		others[nm] = true
	}
	for i := len(r.n.order) - 1; i >= 0 && len(others) < 16; i-- {
		others[r.n.order[i]] = true
	}
	for name := range others {
		c := r.n.canaries[name]
		if c != nil && name != expectName && !c.pubEqual(exp.pub) && verify(c.pub) {
			r.violate(violation{Kind: "wrong-key", Detail: fmt.Sprintf("signature requested for %s verifies with the key stored as %s", requestedKid, name)})
		}
	}
	// the public key the store resolves for the requested kid must be the verifying one
	if pub, err := r.n.ks.Resolve(audit.TestContext(), requestedKid); err == nil {
		if !verify(pub) {
			r.violate(violation{Kind: "wrong-key", Detail: fmt.Sprintf("signature requested for %s does not verify with the key the store resolves for it", requestedKid)})
		}
	}
}

var nameOfClass = map[string]string{
	"uuid":        "7c9b4a5e-1d2f-4b6a-9c3e-0f1a2b3c4d5e",
	"kid":         "did:nuts:GvkzxsezHvEc8nGhgz6Xo3jbqkHwswLmWw3CYtCm7hAW#abc-def_1",
	"dotdot":      "..",
	"dotted":      "a.b..c",
	"dotdotslash": "../verif-decoy",
	"slash":       "sub/verif-decoy",
	"abs":         "/tmp/verif-decoy-abs",
	"backslash":   `..\verif-decoy`,
	"pct2F":       "..%2Fverif-decoy",
	"pct2e2e":     "%2e%2e",
	"space":       "a b",
	"hash":        "a#b",
	"empty":       "",
	"long300":     strings.Repeat("a", 300),
	"nul":         "a\x00b",
}

func (r *run) ctx() context.Context { return audit.TestContext() }

func (r *run) famOf(k string) string {
	if c := r.n.canaries[r.pubOf[k]]; c != nil {
		return c.fam
	}
	return "?"
}

// noteErr records the text of a returned error: error texts are an output channel (they end up in API responses and logs).
func (r *run) noteErr(err error) error {
	if err != nil {
		r.errs = append(r.errs, err.Error())
	}
	return err
}

// try runs an in-process operation; a panic is recorded (its text is output as well) and reported as an error.
func (r *run) try(what string, f func() error) (err error) {
	defer func() {
		if rec := recover(); rec != nil {
			err = fmt.Errorf("PANIC in %s: %v", what, rec)
			r.errs = append(r.errs, err.Error())
			r.panics = append(r.panics, what)
		}
	}()
	return r.noteErr(f())
}

func (r *run) exec(s step) (outcome string) {
	n := r.n
	a := s.str("a")
	k := s.str("k")
	var httpOut, artefacts, docs [][]byte
	note := func(ex httpExchange) httpExchange { httpOut = append(httpOut, ex.all); return ex }
	r.errs, r.panics = nil, nil
	defer func() { r.scanAll(httpOut, artefacts, docs) }()
	kid := r.kid[k]
	switch a {
	case "New":
		if old := r.deleted[k]; old != "" {
			// the key of this kid was deleted: a NEW key under the SAME key id
			ref, pub, err := n.ks.New(r.ctx(), func(crypto.PublicKey) (string, error) { return old, nil })
			if r.noteErr(err) != nil {
				return "re-create under the same kid failed: " + err.Error()
			}
			fresh := n.harvest()
			for _, c := range fresh {
				c.kid = old
			}
			c := n.canaries[ref.KeyName]
			if c == nil || !c.pubEqual(pub) {
				return "re-created but key file not found"
			}
			delete(r.deleted, k)
			r.kid[k], r.pubOf[k], r.inproc[k] = old, ref.KeyName, true
			return "ok re-created under the same kid"
		}
		r.aliasN++
		subj := fmt.Sprintf("s%s-%s-%d", r.sid, k, r.aliasN)
		ex := note(n.do("POST", n.internal+"/internal/vdr/v2/subject", map[string]any{"subject": subj}, ""))
		if ex.status != 200 {
			return fmt.Sprintf("http %d %s", ex.status, trunc(string(ex.body), 120))
		}
		docs = append(docs, ex.body)
		var created struct {
			Documents []map[string]any `json:"documents"`
		}
		_ = json.Unmarshal(ex.body, &created)
		fresh := n.harvest()
		for _, c := range fresh {
			c.kid = n.kidOfName(c.name)
		}
		for _, d := range created.Documents {
			id, _ := d["id"].(string)
			if strings.HasPrefix(id, "did:web:") {
				r.webDID[k] = id
			}
			if strings.HasPrefix(id, "did:nuts:") {
				r.nutsDID[k] = id
			}
		}
		for _, c := range fresh {
			if strings.HasPrefix(c.kid, "did:web:") {
				r.kid[k], r.pubOf[k] = c.kid, c.name
			}
		}
		r.subject[k] = subj
		if r.kid[k] == "" {
			return "created but no did:web key found"
		}
		// the published documents and metadata (public endpoints) are output channels too
		docs = append(docs, note(n.do("GET", n.public+"/iam/"+subj+"/did.json", nil, "")).body)
		note(n.do("GET", n.public+"/.well-known/openid-configuration/oauth2/"+subj, nil, ""))
		note(n.do("GET", n.public+"/oauth2/"+subj+"/oauth-client", nil, ""))
		return fmt.Sprintf("ok %d keys", len(fresh))
	case "Import":
		// a key of another family in the backend (imported PEM: pre-populated fs backend), registered by Link or by Migrate
		fam, via := s.str("fam"), s.str("via")
		key := heldKeyOf(fam, k)
		if key == nil {
			return "unknown family " + fam
		}
		pemText, err := marshalPKCS8PEM(key)
		if err != nil {
			return "cannot marshal: " + err.Error()
		}
		r.aliasN++
		name := fmt.Sprintf("verif-import-%s-%s-%d", r.sid, k, r.aliasN)
		newKid := fmt.Sprintf("did:web:import.example.com:iam:%s#%s-%d", r.sid, k, r.aliasN)
		if via == "migrate" {
			name = newKid // Migrate registers a key under its storage name
		}
		file := filepath.Join(n.keyDir(), name+"_private.pem")
		if err := os.WriteFile(file, []byte(pemText), 0o600); err != nil {
			return "cannot write key file: " + err.Error()
		}
		for _, c := range n.harvest() {
			c.kid = newKid
		}
		if n.canaries[name] == nil {
			// the backend cannot parse this family (e.g. X25519): it is a canary all the same
			n.knownFiles[name+"_private.pem"] = true
			c := &canary{name: name, kid: newKid, fam: fam}
			c.needles, c.forms = makeNeedles(key, pemText)
			n.canaries[name] = c
			n.order = append(n.order, name)
		}
		if via == "migrate" {
			cr, ok := n.ks.(*nutsCrypto.Crypto)
			if !ok {
				return "key store is not *crypto.Crypto"
			}
			err = r.try("Migrate", cr.Migrate)
		} else {
			err = r.try("Link", func() error { return n.ks.Link(r.ctx(), newKid, name, "1") })
		}
		delete(r.deleted, k)
		r.kid[k], r.pubOf[k], r.inproc[k] = newKid, name, true
		r.webDID[k], r.nutsDID[k], r.subject[k] = "", "", ""
		return fmt.Sprintf("imported %s via %s err=%v", n.canaries[name].fam, via, err)
	case "Exists":
		for _, id := range []string{kid, r.deleted[k], "did:web:unknown.example.com#nope"} {
			if id == "" {
				continue
			}
			_ = r.try("Exists", func() error { _, err := n.ks.Exists(r.ctx(), id); return err })
		}
		return "exists checked"
	case "JWE":
		// encrypt for the public half of the key, decrypt by key id (in process, every family)
		out := ""
		var pub crypto.PublicKey
		_ = r.try("Resolve", func() error { var err error; pub, err = n.ks.Resolve(r.ctx(), kid); return err })
		if pub == nil {
			if c := n.canaries[r.pubOf[k]]; c != nil {
				pub = c.pub
			}
		}
		var msg string
		err := r.try("EncryptJWE", func() error {
			var err error
			msg, err = n.ks.EncryptJWE(r.ctx(), []byte("jwe-plaintext-"+k), map[string]interface{}{"kid": kid}, pub)
			return err
		})
		out += fmt.Sprintf("encrypt err=%v; ", err != nil)
		if err == nil {
			artefacts = append(artefacts, []byte(msg))
		} else {
			msg = "eyJhbGciOiJFQ0RILUVTK0EyNTZLVyIsImVuYyI6IkEyNTZHQ00iLCJraWQiOiI" + base64.RawURLEncoding.EncodeToString([]byte(kid)) + "In0.AAAA.AAAA.AAAA.AAAA"
		}
		var body []byte
		err = r.try("DecryptJWE", func() error { var err error; body, _, err = n.ks.DecryptJWE(r.ctx(), msg); return err })
		out += fmt.Sprintf("decrypt err=%v", err != nil)
		httpOut = append(httpOut, body)
		dx := note(n.do("POST", n.internal+"/internal/crypto/v1/decrypt_jwe", map[string]any{"message": msg}, ""))
		out += fmt.Sprintf(" http=%d", dx.status)
		return out
	case "SignJWT":
		out := ""
		var tok string
		// the caller supplied headers may carry a kid of their own (hk): the store writes the id of the key it uses
		hkVal, hkPresent, hkClass := r.hdrKid(k, s.str("hk"))
		r.hkClass = hkClass
		hdrs := map[string]interface{}{"typ": "JWT"}
		if hkPresent {
			hdrs["kid"] = hkVal
		}
		mark := n.logMark()
		if err := r.try("SignJWT", func() error {
			var err error
			tok, err = n.ks.SignJWT(r.ctx(), map[string]interface{}{"iss": "verif", "sub": k}, hdrs, kid)
			return err
		}); err == nil {
			artefacts = append(artefacts, []byte(tok))
			r.verifySig([]byte(tok), nil, r.pubOf[k], kid)
			r.auditNamesSigner(n.auditSince(mark), kid, hkVal)
			out = "inproc:signed "
		} else {
			out = "inproc:failed "
		}
		mark = n.logMark()
		ex := note(n.do("POST", n.internal+"/internal/crypto/v1/sign_jwt", map[string]any{"kid": kid, "claims": map[string]any{"iss": "verif", "sub": k, "iat": time.Now().Unix()}}, ""))
		if ex.status != 200 {
			return out + fmt.Sprintf("http %d", ex.status)
		}
		artefacts = append(artefacts, ex.body)
		r.verifySig(bytes.TrimSpace(ex.body), nil, r.pubOf[k], kid)
		r.auditNamesSigner(n.auditSince(mark), kid, "")
		return "signed " + out
	case "SignJWS":
		j := s.str("jwk")
		cls, fam := "none", "-"
		if parts := strings.SplitN(j, ":", 2); len(parts) == 2 {
			cls, fam = parts[0], parts[1]
		}
		ck := callerKeyOf(fam)
		var hdrKey jwk.Key
		var secrets [][]byte
		switch cls {
		case "pub":
			if ck != nil {
				hdrKey, _ = jwk.FromRaw(ck.pub)
			}
		case "priv", "sym":
			if ck != nil {
				hdrKey, _ = jwk.FromRaw(ck.priv)
				secrets = ck.secrets
			}
		}
		var hdrMap any
		if hdrKey != nil {
			bs, _ := json.Marshal(hdrKey)
			_ = json.Unmarshal(bs, &hdrMap)
		}
		headers := map[string]any{"typ": "verif"}
		if hdrMap != nil {
			headers["jwk"] = hdrMap
		}
		// the caller supplied headers may carry a kid of their own (hk): the store writes the id of the key it uses
		hkVal, hkPresent, hkClass := r.hdrKid(k, s.str("hk"))
		r.hkClass = hkClass
		if hkPresent {
			headers["kid"] = hkVal
		}
		payload := []byte("payload-" + k)
		out := ""
		var produced [][]byte
		// (1) through the HTTP API (jwk header arrives as a JSON object)
		for _, detached := range []bool{false, true} {
			mark := n.logMark()
			ex := note(n.do("POST", n.internal+"/internal/crypto/v1/sign_jws", map[string]any{"kid": kid, "headers": headers, "payload": payload, "detached": detached}, ""))
			out += fmt.Sprintf("http:%d ", ex.status)
			if ex.status == 200 {
				r.auditNamesSigner(n.auditSince(mark), kid, hkVal)
				produced = append(produced, bytes.TrimSpace(ex.body))
				if detached {
					r.verifySig(bytes.TrimSpace(ex.body), payload, r.pubOf[k], kid)
				} else {
					r.verifySig(bytes.TrimSpace(ex.body), nil, r.pubOf[k], kid)
				}
			}
		}
		// (2) in process, the way the node's own components pass a jwk.Key object: key store method, detached and not ...
		for _, detached := range []bool{false, true} {
			h2 := map[string]interface{}{"typ": "verif"}
			if hdrKey != nil {
				h2["jwk"] = hdrKey
			}
			if hkPresent {
				h2["kid"] = hkVal
			}
			var sig string
			mark := n.logMark()
			err := r.try("SignJWS", func() error { var err error; sig, err = n.ks.SignJWS(r.ctx(), payload, h2, kid, detached); return err })
			if err != nil {
				out += "inproc:refused "
				continue
			}
			r.auditNamesSigner(n.auditSince(mark), kid, hkVal)
			out += "inproc:signed "
			produced = append(produced, []byte(sig))
			if hdrKey == nil { // with a jwk header the kid header is dropped and verification is by that jwk: not the store's business
				if detached {
					r.verifySig([]byte(sig), payload, r.pubOf[k], kid)
				} else {
					r.verifySig([]byte(sig), nil, r.pubOf[k], kid)
				}
			}
		}
		// (3) ... and the package level crypto.SignJWS every other signer (DAG transactions, in-memory signer) ends in
		if hdrKey != nil {
			h3 := map[string]interface{}{"typ": "verif", "kid": "verif-throwaway", "jwk": hdrKey}
			if sig, err := nutsCrypto.SignJWS(r.ctx(), payload, h3, throwawaySigner, false); err == nil {
				out += "pkg:signed"
				produced = append(produced, []byte(sig))
			} else {
				out += "pkg:refused"
			}
		}
		artefacts = append(artefacts, produced...)
		// no private / symmetric key material handed in through a header may be published by the produced JWS
		for _, jwsText := range produced {
			r.res.Checks++
			hdr := protectedHeaderOf(jwsText)
			for _, sec := range secrets {
				if bytes.Contains(jwsText, sec) || bytes.Contains(hdr, sec) {
					r.violate(violation{Kind: "secret-leak", Channel: "jwsHeader", Jwk: j,
						Detail: fmt.Sprintf("the %s key supplied in the jwk header is published by the produced JWS: protected header %s", j, trunc(string(hdr), 300))})
					break
				}
			}
		}
		return strings.TrimSpace(out)
	case "SignDPoP":
		var ex httpExchange
		for _, esc := range []string{url.PathEscape(kid), strings.ReplaceAll(url.PathEscape(kid), "%25", "%"), url.PathEscape(url.PathEscape(kid))} {
			ex = note(n.do("POST", n.internal+"/internal/auth/v2/dpop/"+esc, map[string]any{"htm": "POST", "htu": "https://resource.example.com/token", "token": "access-token"}, ""))
			if ex.status == 200 {
				break
			}
		}
		if ex.status != 200 {
			return fmt.Sprintf("http %d %s", ex.status, trunc(string(ex.body), 100))
		}
		var resp struct {
			Dpop string `json:"dpop"`
		}
		_ = json.Unmarshal(ex.body, &resp)
		artefacts = append(artefacts, []byte(resp.Dpop))
		r.verifySig([]byte(resp.Dpop), nil, r.pubOf[k], kid)
		// in-process as well
		req, _ := http.NewRequest("GET", "https://resource.example.com/x", nil)
		var tok string
		if err := r.try("SignDPoP", func() error { var err error; tok, err = n.ks.SignDPoP(r.ctx(), *dpop.New(*req), kid); return err }); err == nil {
			artefacts = append(artefacts, []byte(tok))
			r.verifySig([]byte(tok), nil, r.pubOf[k], kid)
		}
		return "signed"
	case "SignLD":
		if r.subject[k] == "" {
			return "not applicable (key without DID document)"
		}
		did := r.webDID[k]
		body := map[string]any{"@context": "https://nuts.nl/credentials/v1", "type": "NutsOrganizationCredential", "issuer": did, "format": "ldp_vc", "withStatusList2021Revocation": false,
			"credentialSubject": map[string]any{"id": did, "organization": map[string]any{"name": "Canary Care", "city": "Testville"}}}
		ex := note(n.do("POST", n.internal+"/internal/vcr/v2/issuer/vc", body, ""))
		if ex.status != 200 {
			// a linked (aliased) key id is not in the DID document: the issuer cannot use it
			return fmt.Sprintf("http %d %s", ex.status, trunc(string(ex.body), 100))
		}
		var cred map[string]any
		_ = json.Unmarshal(ex.body, &cred)
		if proof, ok := cred["proof"].(map[string]any); ok {
			vm, _ := proof["verificationMethod"].(string)
			r.res.Checks++
			if owner := r.ownerOfKid(vm); owner == "" {
				r.violate(violation{Kind: "wrong-key", Detail: "LD proof names verificationMethod " + vm + " which is not a key of the issuer " + did})
			}
			if jwsv, _ := proof["jws"].(string); jwsv != "" {
				artefacts = append(artefacts, []byte(jwsv))
			}
		}
		// the node's own verifier must accept it (signature made by the key the document publishes)
		vex := note(n.do("POST", n.internal+"/internal/vcr/v2/verifier/vc", map[string]any{"verifiableCredential": cred}, ""))
		r.res.Checks++
		if !r.inproc[k] && !bytes.Contains(vex.body, []byte(`"validity":true`)) {
			r.violate(violation{Kind: "wrong-key", Detail: "credential issued by " + did + " does not verify with the published key: " + trunc(string(vex.body), 160)})
		}
		// JWT format as well
		body["format"] = "jwt_vc"
		ex2 := note(n.do("POST", n.internal+"/internal/vcr/v2/issuer/vc", body, ""))
		if ex2.status == 200 {
			var tok string
			if json.Unmarshal(ex2.body, &tok) == nil {
				artefacts = append(artefacts, []byte(tok))
				if name := r.ownerOfKid(kidOfJWS(tok)); name != "" {
					r.verifySig([]byte(tok), nil, name, kidOfJWS(tok))
				}
			}
		}
		return "issued"
	case "SignTx":
		// a service on the subject: DID document update; the did:nuts document travels as a signed DAG transaction
		subj := r.subject[k]
		if subj == "" {
			return "not applicable (key without DID document)"
		}
		ex := note(n.do("POST", n.internal+"/internal/vdr/v2/subject/"+subj+"/service", map[string]any{"type": fmt.Sprintf("verif-%d", r.stepNo), "serviceEndpoint": "https://svc.example.com/" + k}, ""))
		docs = append(docs, ex.body)
		// the transactions (JWS with embedded jwk) are an output channel
		lst := note(n.do("GET", n.internal+"/internal/network/v1/transaction?start=0&end=1000", nil, ""))
		var txs []string
		if json.Unmarshal(lst.body, &txs) == nil {
			for _, tx := range txs {
				artefacts = append(artefacts, []byte(tx))
				if name := r.ownerOfKid(kidOfJWS(tx)); name != "" {
					r.verifySig([]byte(tx), nil, name, kidOfJWS(tx))
				} else if jn := r.ownerOfEmbeddedJWK(tx); jn != "" {
					r.verifySig([]byte(tx), nil, jn, n.canaries[jn].kid)
				}
			}
		}
		return fmt.Sprintf("http %d, %d transactions", ex.status, len(txs))
	case "Decrypt":
		// in process, every family: a real ECIES cipher text where possible, garbage, and the caller that logs failures
		// (network/dag EncryptedPAL.Decrypt, used for the PAL header of incoming private transactions)
		inproc := ""
		cts := [][]byte{[]byte("not a cipher text"), {}}
		if c := n.canaries[r.pubOf[k]]; c != nil {
			if ecPub, ok := c.pub.(*ecdsa.PublicKey); ok {
				_ = r.try("EciesEncrypt", func() error {
					ct, err := nutsCrypto.EciesEncrypt(ecPub, []byte("did:nuts:GvkzxsezHvEc8nGhgz6Xo3jbqkHwswLmWw3CYtCm7hAW"))
					if err == nil {
						cts = append(cts, ct)
					}
					return err
				})
			}
		}
		for _, ct := range cts {
			ct := ct
			var plain []byte
			err := r.try("Decrypt", func() error { var err error; plain, err = n.ks.Decrypt(r.ctx(), kid, ct); return err })
			httpOut = append(httpOut, plain)
			inproc += fmt.Sprintf("%v,", err == nil)
			_ = r.try("EncryptedPAL.Decrypt", func() error { _, err := dag.EncryptedPAL{ct}.Decrypt(r.ctx(), []string{kid}, n.ks); return err })
		}
		if r.subject[k] == "" {
			return "in-process only (no DID): ok=" + inproc
		}
		did := r.nutsDID[k]
		if did == "" {
			did = r.webDID[k]
		}
		plain := []byte("plaintext-for-" + k)
		ex := note(n.do("POST", n.internal+"/internal/crypto/v1/encrypt_jwe", map[string]any{"receiver": did, "payload": plain, "headers": map[string]any{}}, ""))
		if ex.status != 200 {
			return fmt.Sprintf("encrypt http %d %s", ex.status, trunc(string(ex.body), 100))
		}
		dx := note(n.do("POST", n.internal+"/internal/crypto/v1/decrypt_jwe", map[string]any{"message": strings.TrimSpace(string(ex.body))}, ""))
		if dx.status != 200 {
			return fmt.Sprintf("decrypt http %d", dx.status)
		}
		var dr struct {
			Body []byte `json:"body"`
		}
		_ = json.Unmarshal(dx.body, &dr)
		if !bytes.Equal(dr.Body, plain) {
			r.res.Drift = append(r.res.Drift, "decrypt_jwe returned a different plaintext")
		}
		return "decrypted"
	case "Resolve":
		if did := r.webDID[k]; did != "" {
			docs = append(docs, note(n.do("GET", n.internal+"/internal/vdr/v2/did/"+url.PathEscape(did), nil, "")).body)
			docs = append(docs, note(n.do("GET", n.public+"/iam/"+r.subject[k]+"/did.json", nil, "")).body)
			docs = append(docs, note(n.do("GET", n.internal+"/internal/vdr/v2/subject/"+r.subject[k], nil, "")).body)
		}
		var pub crypto.PublicKey
		err := r.try("Resolve", func() error { var err error; pub, err = n.ks.Resolve(r.ctx(), kid); return err })
		if pub != nil {
			httpOut = append(httpOut, []byte(fmt.Sprintf("%v %+v", pub, pub))) // the returned value, as a caller would print it
		}
		r.res.Checks++
		if err == nil {
			if c := n.canaries[r.pubOf[k]]; c != nil && !c.pubEqual(pub) {
				r.violate(violation{Kind: "wrong-key", Detail: "Resolve(" + kid + ") returns another public key than the one of its key pair"})
			}
			if _, isPriv := pub.(crypto.Signer); isPriv {
				r.violate(violation{Kind: "secret-leak", Channel: "httpResponse", Detail: "Resolve returned a private key object"})
			}
		}
		return fmt.Sprintf("resolved err=%v", err)
	case "List":
		note(n.do("GET", n.internal+"/internal/vdr/v2/subject", nil, ""))
		note(n.do("GET", n.internal+"/status/diagnostics", nil, ""))
		note(n.do("GET", n.internal+"/status", nil, ""))
		note(n.do("GET", n.internal+"/health", nil, ""))
		note(n.do("GET", n.internal+"/metrics", nil, ""))
		note(n.do("GET", n.internal+"/internal/network/v1/diagnostics/graph", nil, ""))
		note(n.do("POST", n.internal+"/internal/vcr/v2/search", map[string]any{"query": map[string]any{"@context": []string{"https://www.w3.org/2018/credentials/v1", "https://nuts.nl/credentials/v1"}, "type": []string{"VerifiableCredential", "NutsOrganizationCredential"}}}, ""))
		names := n.ks.List(r.ctx())
		httpOut = append(httpOut, []byte(strings.Join(names, "\n")))
		return fmt.Sprintf("%d kids listed", len(names))
	case "Delete":
		err := r.try("Delete", func() error { return n.ks.Delete(r.ctx(), kid) })
		if err != nil {
			return fmt.Sprintf("deleted err=%v", err)
		}
		// the key file must be gone, the canary stays registered (its secret must still not show up anywhere)
		if _, statErr := os.Stat(filepath.Join(n.keyDir(), r.pubOf[k]+"_private.pem")); statErr == nil {
			r.res.Drift = append(r.res.Drift, "Delete left the key file behind")
		}
		r.deleted[k] = kid
		// every abstract key that was linked to the same key material lost it as well
		for q, nm := range r.pubOf {
			if q != k && nm == r.pubOf[k] && r.deleted[q] == "" && r.kid[q] != "" {
				r.deleted[q] = r.kid[q]
			}
		}
		return "deleted; " + r.deletedCannotSign(k, &httpOut, &artefacts)
	case "SignDeleted":
		if r.deleted[k] == "" {
			return "not deleted"
		}
		return r.deletedCannotSign(k, &httpOut, &artefacts)
	case "UseUnbound":
		return r.useUnbound(s.str("kc"), &httpOut, &artefacts)
	case "LinkKey":
		to := s.str("to")
		target := r.kid[k]
		if old := r.deleted[k]; old != "" {
			target = old // the kid lost its key: link it to the other key
		} else if target == "" || !r.inproc[k] {
			r.aliasN++
			target = fmt.Sprintf("verif-alias-%s-%d", r.sid, r.aliasN)
		}
		err := r.try("Link", func() error { return n.ks.Link(r.ctx(), target, r.pubOf[to], "1") })
		if err == nil {
			delete(r.deleted, k)
			r.kid[k], r.pubOf[k], r.inproc[k] = target, r.pubOf[to], true
			r.webDID[k], r.nutsDID[k], r.subject[k] = r.webDID[to], r.nutsDID[to], r.subject[to]
		}
		return fmt.Sprintf("linked %s err=%v", trunc(target, 40), err)
	case "LinkName":
		nc := s.str("nc")
		r.aliasN++
		alias := fmt.Sprintf("verif-name-%s-%s-%d", r.sid, nc, r.aliasN)
		err := r.try("Link", func() error { return n.ks.Link(r.ctx(), alias, nameOfClass[nc], "1") })
		if err == nil {
			r.aliasNC[nc] = alias
		}
		return fmt.Sprintf("linked err=%v", err)
	case "UseName":
		nc, b := s.str("nc"), s.str("b")
		out := ""
		if b == "fs" {
			// through the whole node: every operation that dereferences the key reference
			alias := r.aliasNC[nc]
			e1 := r.try("Resolve", func() error { _, err := n.ks.Resolve(r.ctx(), alias); return err })
			e2 := r.try("SignJWT", func() error { _, err := n.ks.SignJWT(r.ctx(), map[string]interface{}{"iss": "x"}, nil, alias); return err })
			e3 := r.try("Decrypt", func() error { _, err := n.ks.Decrypt(r.ctx(), alias, []byte("x")); return err })
			ex := note(n.do("POST", n.internal+"/internal/crypto/v1/sign_jwt", map[string]any{"kid": alias, "claims": map[string]any{"iss": "x"}}, ""))
			out = fmt.Sprintf("node: resolve=%v sign=%v decrypt=%v http=%d; ", e1 != nil, e2 != nil, e3 != nil, ex.status)
		}
		out += r.useNameStandalone(b, nc)
		return out
	}
	return "unknown action"
}

// unboundKid builds the request key id of class kc. The near misses are derived from a key id (baseKid) and a storage name
// (baseName) that exist in the store.
func unboundKid(kc, baseKid, baseName, sid string) string {
	switch kc {
	case "empty":
		return ""
	case "unknown":
		return "did:web:unbound.example.com:iam:" + sid + "#0"
	case "prefix":
		return baseKid[:len(baseKid)-1]
	case "suffixed":
		return baseKid + "0"
	case "upper":
		if up := strings.ToUpper(baseKid); up != baseKid {
			return up
		}
		return strings.ToLower(baseKid)
	case "padded":
		return baseKid + " "
	case "sqlwild":
		return "%"
	case "sqlany":
		return baseKid[:len(baseKid)-1] + "_"
	case "name":
		return baseName
	case "pct":
		return strings.ReplaceAll(strings.ReplaceAll(url.PathEscape(baseKid), ":", "%3A"), "-", "%2D")
	}
	return "did:web:unbound.example.com:iam:" + sid + "#" + kc
}

// whoseKey: the storage name of the canary whose public key verifies the compact JWS / equals pub ("" if none).
func (r *run) whoseKey(compact []byte, pub crypto.PublicKey) string {
	names := make([]string, 0, len(r.n.canaries))
	for name := range r.n.canaries {
		names = append(names, name)
	}
	sort.Strings(names)
	for _, name := range names {
		c := r.n.canaries[name]
		if c.pub == nil {
			continue
		}
		if pub != nil && c.pubEqual(pub) {
			return name
		}
		if compact != nil {
			for _, alg := range []jwa.SignatureAlgorithm{jwa.ES256, jwa.ES384, jwa.ES512, jwa.PS256, jwa.EdDSA} {
				if _, err := jws.Verify(compact, jws.WithKey(alg, c.pub)); err == nil {
					return name
				}
			}
		}
	}
	return ""
}

// useUnbound: every operation of the key store that selects a key by key id, requested for an id of class kc to which NO
// key is bound while other keys (of this script and of the other "tenants" on the node) exist. None may select a key:
// no signature, no decryption, no public key, "does not exist", and Delete removes nothing.
func (r *run) useUnbound(kc string, httpOut, artefacts *[][]byte) string {
	n := r.n
	// a key of this script the near misses are derived from (deterministic choice), else ids that never existed
	baseKid, baseName := "did:web:nobody.example.com:iam:"+r.sid+"#key-1", "verif-nobody-"+r.sid
	var slots []string
	for k := range r.kid {
		slots = append(slots, k)
	}
	sort.Strings(slots)
	for _, k := range slots {
		if r.kid[k] != "" && r.deleted[k] == "" && r.pubOf[k] != "" {
			baseKid, baseName = r.kid[k], r.pubOf[k]
			break
		}
	}
	x := unboundKid(kc, baseKid, baseName, r.sid)
	// the harness' own reference: is a key bound to this id? (e.g. a migrated key is registered under its storage name)
	var bound int64
	n.db.Table("key_reference").Where("kid = ?", x).Count(&bound)
	if bound > 0 {
		return fmt.Sprintf("not applicable: a key is bound to %q", trunc(x, 60))
	}
	var rowsBefore int64
	n.db.Table("key_reference").Count(&rowsBefore)
	filesBefore := map[string]bool{}
	if entries, err := os.ReadDir(n.keyDir()); err == nil {
		for _, e := range entries {
			filesBefore[e.Name()] = true
		}
	}
	var selected []string
	hit := func(op, detail string) {
		selected = append(selected, op)
		r.violate(violation{Kind: "unbound-kid-selects-key", KidClass: kc, Detail: fmt.Sprintf("%s for the key id %q (class %s), to which no key is bound: %s", op, trunc(x, 80), kc, detail)})
	}
	signedBy := func(compact []byte) string {
		if name := r.whoseKey(compact, nil); name != "" {
			return fmt.Sprintf("produced a signature that verifies with the key stored as %s (kid %s)", name, n.canaries[name].kid)
		}
		return "produced a signature"
	}
	r.res.Checks++
	// Exists / Resolve
	var exists bool
	if err := r.try("Exists", func() error { var err error; exists, err = n.ks.Exists(r.ctx(), x); return err }); err == nil && exists {
		hit("Exists", "the store says a key exists")
	}
	var pub crypto.PublicKey
	if err := r.try("Resolve", func() error { var err error; pub, err = n.ks.Resolve(r.ctx(), x); return err }); err == nil && pub != nil {
		hit("Resolve", fmt.Sprintf("returned the public key of the key stored as %s", r.whoseKey(nil, pub)))
	}
	// sign: JWT, JWS, DPoP
	var tok string
	if err := r.try("SignJWT", func() error {
		var err error
		tok, err = n.ks.SignJWT(r.ctx(), map[string]interface{}{"iss": "verif"}, map[string]interface{}{"typ": "JWT"}, x)
		return err
	}); err == nil {
		*artefacts = append(*artefacts, []byte(tok))
		hit("SignJWT", signedBy([]byte(tok)))
	}
	if err := r.try("SignJWS", func() error {
		var err error
		tok, err = n.ks.SignJWS(r.ctx(), []byte("payload"), map[string]interface{}{"typ": "verif"}, x, false)
		return err
	}); err == nil {
		*artefacts = append(*artefacts, []byte(tok))
		hit("SignJWS", signedBy([]byte(tok)))
	}
	req, _ := http.NewRequest("GET", "https://resource.example.com/x", nil)
	if err := r.try("SignDPoP", func() error { var err error; tok, err = n.ks.SignDPoP(r.ctx(), *dpop.New(*req), x); return err }); err == nil {
		*artefacts = append(*artefacts, []byte(tok))
		hit("SignDPoP", signedBy([]byte(tok)))
	}
	// decrypt: cipher texts made for the keys of this script (a success means one of their private keys was selected)
	cts := [][]byte{[]byte("not a cipher text")}
	var jwes []string
	for _, k := range slots {
		c := n.canaries[r.pubOf[k]]
		if c == nil || c.pub == nil {
			continue
		}
		if ecPub, ok := c.pub.(*ecdsa.PublicKey); ok && ecPub.Curve == elliptic.P256() {
			if ct, err := nutsCrypto.EciesEncrypt(ecPub, []byte("for-"+k)); err == nil {
				cts = append(cts, ct)
			}
		}
		if x != "" {
			if msg, err := n.ks.EncryptJWE(r.ctx(), []byte("jwe-for-"+k), map[string]interface{}{"kid": x}, c.pub); err == nil {
				jwes = append(jwes, msg)
			}
		}
	}
	for _, ct := range cts {
		ct := ct
		var plain []byte
		if err := r.try("Decrypt", func() error { var err error; plain, err = n.ks.Decrypt(r.ctx(), x, ct); return err }); err == nil {
			*httpOut = append(*httpOut, plain)
			hit("Decrypt", fmt.Sprintf("decrypted %d bytes", len(plain)))
			break
		}
	}
	for _, msg := range jwes {
		msg := msg
		var body []byte
		if err := r.try("DecryptJWE", func() error { var err error; body, _, err = n.ks.DecryptJWE(r.ctx(), msg); return err }); err == nil {
			*httpOut = append(*httpOut, body)
			hit("DecryptJWE", fmt.Sprintf("decrypted %d bytes", len(body)))
			break
		}
	}
	// the HTTP API
	ex := n.do("POST", n.internal+"/internal/crypto/v1/sign_jwt", map[string]any{"kid": x, "claims": map[string]any{"iss": "verif"}}, "")
	*httpOut = append(*httpOut, ex.all)
	if ex.status == 200 {
		*artefacts = append(*artefacts, ex.body)
		hit("POST sign_jwt", signedBy(bytes.TrimSpace(ex.body)))
	}
	ex = n.do("POST", n.internal+"/internal/crypto/v1/sign_jws", map[string]any{"kid": x, "headers": map[string]any{"typ": "verif"}, "payload": []byte("payload")}, "")
	*httpOut = append(*httpOut, ex.all)
	if ex.status == 200 {
		*artefacts = append(*artefacts, ex.body)
		hit("POST sign_jws", signedBy(bytes.TrimSpace(ex.body)))
	}
	if !strings.Contains(x, "%") { // the path parameter is unescaped by the handler: an id with '%' would be another id there
		ex = n.do("POST", n.internal+"/internal/auth/v2/dpop/"+url.PathEscape(x), map[string]any{"htm": "POST", "htu": "https://resource.example.com/token", "token": "access-token"}, "")
		*httpOut = append(*httpOut, ex.all)
		if ex.status == 200 {
			var resp struct {
				Dpop string `json:"dpop"`
			}
			_ = json.Unmarshal(ex.body, &resp)
			*artefacts = append(*artefacts, []byte(resp.Dpop))
			hit("POST dpop/{kid}", signedBy([]byte(resp.Dpop)))
		}
	}
	// Delete, last: it must remove nothing
	if err := r.try("Delete", func() error { return n.ks.Delete(r.ctx(), x) }); err == nil {
		hit("Delete", "reported success")
	}
	var rowsAfter int64
	n.db.Table("key_reference").Count(&rowsAfter)
	var lost []string
	for name := range filesBefore {
		if _, err := os.Stat(filepath.Join(n.keyDir(), name)); err != nil {
			lost = append(lost, name)
		}
	}
	if rowsAfter < rowsBefore || len(lost) > 0 {
		sort.Strings(lost)
		hit("Delete", fmt.Sprintf("removed %d key reference(s) and the key file(s) %v", rowsBefore-rowsAfter, lost))
	}
	if len(selected) > 0 {
		return "unbound kid selected a key: " + strings.Join(selected, ",")
	}
	return "unbound kid refused"
}

// deletedCannotSign: every operation that needs the private key of a deleted kid must fail.
func (r *run) deletedCannotSign(k string, httpOut, artefacts *[][]byte) string {
	n, kid := r.n, r.deleted[k]
	r.res.Checks++
	var still []string
	if tok, err := n.ks.SignJWT(r.ctx(), map[string]interface{}{"iss": "x"}, nil, kid); r.noteErr(err) == nil {
		still = append(still, "SignJWT")
		*artefacts = append(*artefacts, []byte(tok))
	}
	if tok, err := n.ks.SignJWS(r.ctx(), []byte("p"), map[string]interface{}{}, kid, false); r.noteErr(err) == nil {
		still = append(still, "SignJWS")
		*artefacts = append(*artefacts, []byte(tok))
	}
	req, _ := http.NewRequest("GET", "https://resource.example.com/x", nil)
	if tok, err := n.ks.SignDPoP(r.ctx(), *dpop.New(*req), kid); r.noteErr(err) == nil {
		still = append(still, "SignDPoP")
		*artefacts = append(*artefacts, []byte(tok))
	}
	if _, err := n.ks.Decrypt(r.ctx(), kid, []byte("not a ciphertext")); r.noteErr(err) == nil {
		still = append(still, "Decrypt")
	}
	ex := n.do("POST", n.internal+"/internal/crypto/v1/sign_jwt", map[string]any{"kid": kid, "claims": map[string]any{"iss": "x"}}, "")
	*httpOut = append(*httpOut, ex.all)
	if ex.status == 200 {
		still = append(still, "sign_jwt API")
		*artefacts = append(*artefacts, ex.body)
	}
	if _, err := n.ks.Resolve(r.ctx(), kid); r.noteErr(err) == nil {
		still = append(still, "Resolve")
	}
	if len(still) > 0 {
		r.violate(violation{Kind: "wrong-key", Detail: fmt.Sprintf("the key of %s was deleted but %v still succeed(s): a signature for this kid verifies with no published key", kid, still)})
		return "deleted key still usable: " + strings.Join(still, ",")
	}
	return "deleted key refused"
}

// keys of the families a backend can hold (plus X25519, which util.PemToPrivateKey does not support), per abstract key:
// generated once per process (RSA key generation is slow), distinct per abstract key so that signatures tell them apart
var (
	heldMu   sync.Mutex
	heldKeys = map[string]any{}
)

func heldKeyOf(fam, slot string) any {
	heldMu.Lock()
	defer heldMu.Unlock()
	id := fam + "/" + slot
	if k, ok := heldKeys[id]; ok {
		return k
	}
	var key any
	switch fam {
	case "EC-P256":
		key, _ = ecdsa.GenerateKey(elliptic.P256(), rand.Reader)
	case "EC-P384":
		key, _ = ecdsa.GenerateKey(elliptic.P384(), rand.Reader)
	case "EC-P521":
		key, _ = ecdsa.GenerateKey(elliptic.P521(), rand.Reader)
	case "RSA":
		key, _ = rsa.GenerateKey(rand.Reader, 2048)
	case "Ed25519":
		_, key, _ = ed25519.GenerateKey(rand.Reader)
	case "X25519":
		_, key, _ = x25519.GenerateKey(rand.Reader)
	default:
		return nil
	}
	heldKeys[id] = key
	return key
}

func marshalPKCS8PEM(key any) (string, error) {
	if xk, ok := key.(x25519.PrivateKey); ok {
		ek, err := ecdh.X25519().NewPrivateKey(xk.Seed())
		if err != nil {
			return "", err
		}
		key = ek
	}
	der, err := x509.MarshalPKCS8PrivateKey(key)
	if err != nil {
		return "", err
	}
	return string(pem.EncodeToMemory(&pem.Block{Type: "PRIVATE KEY", Bytes: der})), nil
}

// caller supplied keys of every family jwx knows (generated once per process)
type callerKey struct {
	priv, pub any
	secrets   [][]byte // encodings of the secret part as they would appear in a JWK (base64url) and raw
}

var (
	callerKeysOnce  sync.Once
	callerKeys      map[string]*callerKey
	throwawaySigner crypto.Signer
)

func callerKeyOf(fam string) *callerKey {
	callerKeysOnce.Do(func() {
		callerKeys = map[string]*callerKey{}
		secretsOf := func(vals ...[]byte) [][]byte {
			var out [][]byte
			for _, v := range vals {
				if len(v) >= 16 {
					out = append(out, []byte(base64.RawURLEncoding.EncodeToString(v)), v, []byte(hex.EncodeToString(v)))
				}
			}
			return out
		}
		for name, curve := range map[string]elliptic.Curve{"EC-P256": elliptic.P256(), "EC-P384": elliptic.P384(), "EC-P521": elliptic.P521()} {
			k, _ := ecdsa.GenerateKey(curve, rand.Reader)
			d := make([]byte, (curve.Params().BitSize+7)/8)
			k.D.FillBytes(d)
			callerKeys[name] = &callerKey{priv: k, pub: &k.PublicKey, secrets: secretsOf(d)}
		}
		rk, _ := rsa.GenerateKey(rand.Reader, 2048)
		callerKeys["RSA"] = &callerKey{priv: rk, pub: &rk.PublicKey, secrets: secretsOf(rk.D.Bytes(), rk.Primes[0].Bytes(), rk.Primes[1].Bytes())}
		edPub, edPriv, _ := ed25519.GenerateKey(rand.Reader)
		callerKeys["OKP-Ed25519"] = &callerKey{priv: edPriv, pub: edPub, secrets: secretsOf(edPriv.Seed())}
		xPub, xPriv, _ := x25519.GenerateKey(rand.Reader)
		callerKeys["OKP-X25519"] = &callerKey{priv: xPriv, pub: xPub, secrets: secretsOf(xPriv.Seed())}
		sym := make([]byte, 32)
		_, _ = rand.Read(sym)
		callerKeys["oct"] = &callerKey{priv: sym, pub: nil, secrets: secretsOf(sym)}
		throwawaySigner, _ = ecdsa.GenerateKey(elliptic.P256(), rand.Reader)
	})
	return callerKeys[fam]
}

func protectedHeaderOf(compact []byte) []byte {
	seg := bytes.SplitN(bytes.TrimSpace(compact), []byte("."), 2)[0]
	dec, err := base64.RawURLEncoding.DecodeString(string(seg))
	if err != nil {
		return nil
	}
	return dec
}

// privateJWKParams: members that only a private / symmetric JWK has (RFC 7518 6.2.2, 6.3.2, 6.4; RFC 8037)
var privateJWKParams = []string{"d", "p", "q", "dp", "dq", "qi", "oth", "k"}

// headerPublishesSecretJWK reports whether the protected header of a JWS carries a jwk with private / symmetric parameters.
func headerPublishesSecretJWK(compact []byte) (string, bool) {
	hdr := protectedHeaderOf(compact)
	var h struct {
		JWK map[string]any `json:"jwk"`
	}
	if hdr == nil || json.Unmarshal(hdr, &h) != nil || h.JWK == nil {
		return "", false
	}
	for _, p := range privateJWKParams {
		if _, ok := h.JWK[p]; ok {
			return fmt.Sprintf("kty=%v crv=%v member %q", h.JWK["kty"], h.JWK["crv"], p), true
		}
	}
	return "", false
}

func kidOfJWS(compact string) string {
	seg := strings.SplitN(compact, ".", 2)[0]
	dec, err := base64.RawURLEncoding.DecodeString(seg)
	if err != nil {
		return ""
	}
	var h map[string]any
	if json.Unmarshal(dec, &h) != nil {
		return ""
	}
	k, _ := h["kid"].(string)
	return k
}

// kidHeaderOf returns the `kid` member of the protected header of a compact JWS and whether the header has one at all.
func kidHeaderOf(compact []byte) (string, bool) {
	var h map[string]any
	if json.Unmarshal(protectedHeaderOf(compact), &h) != nil {
		return "", false
	}
	v, present := h["kid"]
	k, _ := v.(string)
	return k, present
}

// hdrKid maps the caller supplied kid header of a step (hk: none | empty | unbound | an abstract key) to the header value.
func (r *run) hdrKid(k, hk string) (value string, present bool, class string) {
	switch hk {
	case "", "none":
		return "", false, "none"
	case "empty":
		return "", true, "empty"
	case "unbound":
		return "did:web:unbound.example.com:iam:" + r.sid + "#hk", true, "unbound"
	case k:
		return r.kid[k], true, "same"
	}
	if v := r.kid[hk]; v != "" {
		return v, true, "other" // another key's id (its key may exist, be deleted, or be the same key under an alias)
	}
	return "did:web:unbound.example.com:iam:" + r.sid + "#" + hk, true, "other"
}

// logMark / auditSince: the audit records written between two points in time (the log file is shared with scanAll, which
// consumes it at the end of the step; this only peeks).
func (n *nodeEnv) logMark() int64 {
	_ = n.logFile.Sync()
	st, err := os.Stat(n.logFile.Name())
	if err != nil {
		return n.logOffset
	}
	return st.Size()
}

func (n *nodeEnv) auditSince(mark int64) [][]byte {
	end := n.logMark()
	if end <= mark {
		return nil
	}
	buf := make([]byte, end-mark)
	f, err := os.Open(n.logFile.Name())
	if err != nil {
		return nil
	}
	defer f.Close()
	_, _ = f.ReadAt(buf, mark)
	var out [][]byte
	for _, line := range bytes.Split(buf, []byte("\n")) {
		if bytes.Contains(line, []byte("level=audit")) || bytes.Contains(line, []byte(`"level":"audit"`)) {
			out = append(out, line)
		}
	}
	return out
}

// auditNamesSigner: the audit records of a signature made with the key of signerKid. Where they name key ids this script
// knows (the requested one, the other keys' ids, the kid the caller put among the headers), the id of the key that was
// really used must be among them: an audit trail that attributes the signature to another key only is wrong. Records
// that name no known id at all are not judged (the property does not prescribe their wording).
func (r *run) auditNamesSigner(lines [][]byte, signerKid string, hdrKid string) {
	if len(lines) == 0 || signerKid == "" {
		return
	}
	r.res.Checks++
	known := map[string]bool{}
	for _, id := range r.kid {
		known[id] = true
	}
	for _, id := range r.deleted {
		known[id] = true
	}
	known[hdrKid] = true
	delete(known, "")
	delete(known, signerKid)
	// ids of which the signer's id is a part do not count as "another" id (and vice versa)
	var others []string
	for id := range known {
		if len(id) >= 8 && !strings.Contains(signerKid, id) && !strings.Contains(id, signerKid) {
			others = append(others, id)
		}
	}
	sort.Strings(others)
	namesSigner := false
	var named []string
	for _, line := range lines {
		if bytes.Contains(line, []byte(signerKid)) {
			namesSigner = true
		}
		for _, id := range others {
			if bytes.Contains(line, []byte(id)) {
				named = append(named, id)
			}
		}
	}
	if !namesSigner && len(named) > 0 {
		r.violate(violation{Kind: "audit-names-other-key", HdrKid: r.hkClass, Detail: fmt.Sprintf("the audit record(s) of a signature made with the key of %s name %v and not the key that was used: %s", signerKid, named, trunc(string(lines[0]), 300))})
	}
}

// ownerOfKid returns the storage name of the key the key reference of kid CURRENTLY points at ("" if none / not a canary).
func (r *run) ownerOfKid(kid string) string {
	if kid == "" {
		return ""
	}
	var rows []map[string]any
	r.n.db.Table("key_reference").Where("kid = ?", kid).Find(&rows)
	for _, row := range rows {
		name := fmt.Sprint(row["key_name"])
		if _, ok := r.n.canaries[name]; ok {
			return name
		}
	}
	return ""
}

func (r *run) ownerOfEmbeddedJWK(compact string) string {
	seg := strings.SplitN(compact, ".", 2)[0]
	dec, err := base64.RawURLEncoding.DecodeString(seg)
	if err != nil {
		return ""
	}
	var h struct {
		JWK json.RawMessage `json:"jwk"`
	}
	if json.Unmarshal(dec, &h) != nil || len(h.JWK) == 0 {
		return ""
	}
	key, err := jwk.ParseKey(h.JWK)
	if err != nil {
		return ""
	}
	var pub ecdsa.PublicKey
	if key.Raw(&pub) != nil {
		return ""
	}
	for name, c := range r.n.canaries {
		if c.pubEqual(&pub) {
			return name
		}
	}
	return ""
}

func trunc(s string, n int) string {
	if len(s) > n {
		return s[:n] + "..."
	}
	return s
}

// ------------------------------------------------------------------------------- name classes on standalone backends

// recorder sits between the validating wrapper and the real backend: what it sees has REACHED the backend.
type recorder struct {
	spi.Storage
	mu   sync.Mutex
	seen []string
}

func (r *recorder) rec(op, name string) {
	r.mu.Lock()
	r.seen = append(r.seen, op+":"+name)
	r.mu.Unlock()
}
func (r *recorder) GetPrivateKey(ctx context.Context, name string, version string) (crypto.Signer, error) {
	r.rec("get", name)
	return r.Storage.GetPrivateKey(ctx, name, version)
}
func (r *recorder) PrivateKeyExists(ctx context.Context, name string, version string) (bool, error) {
	r.rec("exists", name)
	return r.Storage.PrivateKeyExists(ctx, name, version)
}
func (r *recorder) SavePrivateKey(ctx context.Context, name string, key crypto.PrivateKey) error {
	r.rec("save", name)
	return r.Storage.SavePrivateKey(ctx, name, key)
}
func (r *recorder) DeletePrivateKey(ctx context.Context, name string) error {
	r.rec("delete", name)
	return r.Storage.DeletePrivateKey(ctx, name)
}

// wouldEscape is the harness' own reference: where would this backend address storage for the name?
func wouldEscape(backend, name string) bool {
	switch backend {
	case "fs":
		dir := "/keystore/crypto"
		p := filepath.Clean(filepath.Join(dir, name+"_private.pem"))
		return filepath.Dir(p) != dir || strings.ContainsRune(name, 0)
	case "vault":
		ns := "kv/nuts-private-keys"
		p := filepath.Clean(ns + "/" + filepath.Base(name))
		return !strings.HasPrefix(p, ns+"/") || strings.Contains(name, "/") && filepath.Base(name) != name && false
	}
	return false
}

type fakeVault struct {
	mu    sync.Mutex
	paths []string
	data  map[string]map[string]any
	srv   *httptest.Server
}

func newFakeVault() *fakeVault {
	fv := &fakeVault{data: map[string]map[string]any{}}
	fv.srv = httptest.NewServer(http.HandlerFunc(func(w http.ResponseWriter, req *http.Request) {
		p := req.URL.Path // decoded once, like Vault does
		if p == "/v1/auth/token/lookup-self" {
			_, _ = w.Write([]byte(`{"data":{"id":"verif-token","ttl":0}}`))
			return
		}
		fv.mu.Lock()
		fv.paths = append(fv.paths, req.Method+" "+p)
		fv.mu.Unlock()
		switch req.Method {
		case http.MethodGet:
			fv.mu.Lock()
			d, ok := fv.data[p]
			fv.mu.Unlock()
			if !ok {
				w.WriteHeader(404)
				_, _ = w.Write([]byte(`{"errors":[]}`))
				return
			}
			_ = json.NewEncoder(w).Encode(map[string]any{"data": d})
		case http.MethodPut, http.MethodPost:
			var d map[string]any
			_ = json.NewDecoder(req.Body).Decode(&d)
			fv.mu.Lock()
			fv.data[p] = d
			fv.mu.Unlock()
			w.WriteHeader(204)
		case http.MethodDelete:
			fv.mu.Lock()
			delete(fv.data, p)
			fv.mu.Unlock()
			w.WriteHeader(204)
		default:
			w.WriteHeader(405)
		}
	}))
	return fv
}

func (r *run) useNameStandalone(backend, nc string) string {
	name := nameOfClass[nc]
	ctx := context.Background()
	decoyKey, _ := ecdsa.GenerateKey(elliptic.P256(), rand.Reader)
	freshKey, _ := ecdsa.GenerateKey(elliptic.P256(), rand.Reader)
	decoyPEM, _ := cryptoUtil.PrivateKeyToPem(decoyKey)
	switch backend {
	case "fs":
		root := r.n.t.TempDir()
		keyDir := filepath.Join(root, "keystore", "crypto")
		be, err := fs.NewFileSystemBackend(keyDir)
		if err != nil {
			return "fs backend: " + err.Error()
		}
		// decoys OUTSIDE the key directory (one level up, in a sub directory, at an absolute path) and one legitimate key
		absName := filepath.Join(root, "absdir", "verif-decoy-abs") // private to this run (shards run in parallel)
		if nc == "abs" {
			name = absName
		}
		decoys := []string{filepath.Join(root, "keystore", "verif-decoy_private.pem"), filepath.Join(keyDir, "sub", "verif-decoy_private.pem"), absName + "_private.pem"}
		_ = os.MkdirAll(filepath.Join(keyDir, "sub"), 0o700)
		_ = os.MkdirAll(filepath.Join(root, "absdir"), 0o700)
		for _, d := range decoys {
			_ = os.WriteFile(d, []byte(decoyPEM), 0o600)
		}
		rec := &recorder{Storage: be}
		w := spi.NewValidatedKIDBackendWrapper(rec, spi.KidPattern)
		got, eGet := w.GetPrivateKey(ctx, name, "1")
		_, eEx := w.PrivateKeyExists(ctx, name, "1")
		eSave := w.SavePrivateKey(ctx, name, freshKey)
		eDel := w.DeletePrivateKey(ctx, name)
		r.res.Checks += 4
		esc := wouldEscape("fs", name)
		if esc && len(rec.seen) > 0 {
			r.violate(violation{Kind: "namespace-escape", NameClass: nc, Backend: "fs", Detail: fmt.Sprintf("name %q addresses storage outside the key directory but reached the backend: %v", name, rec.seen)})
		}
		if got != nil {
			if ec, ok := got.(*ecdsa.PrivateKey); ok && ec.Equal(decoyKey) {
				r.violate(violation{Kind: "namespace-escape", NameClass: nc, Backend: "fs", Detail: fmt.Sprintf("GetPrivateKey(%q) returned a key stored OUTSIDE the key directory", name)})
			}
		}
		for _, d := range decoys {
			if bs, err := os.ReadFile(d); err != nil || string(bs) != decoyPEM {
				r.violate(violation{Kind: "namespace-escape", NameClass: nc, Backend: "fs", Detail: fmt.Sprintf("operation on name %q changed/deleted the file %s outside the key directory", name, d)})
			}
		}
		_ = filepath.Walk(root, func(p string, info os.FileInfo, err error) error {
			if err != nil || info.IsDir() {
				return nil
			}
			known := false
			for _, d := range decoys {
				known = known || p == d
			}
			if !known && filepath.Dir(p) != keyDir {
				r.violate(violation{Kind: "namespace-escape", NameClass: nc, Backend: "fs", Detail: fmt.Sprintf("name %q created %s outside the key directory", name, p)})
			}
			return nil
		})
		return fmt.Sprintf("fs: reached=%d get=%v exists=%v save=%v delete=%v", len(rec.seen), eGet != nil, eEx != nil, eSave != nil, eDel != nil)
	case "vault":
		fv := newFakeVault()
		defer fv.srv.Close()
		be, err := vault.NewVaultKVStorage(vault.Config{Address: fv.srv.URL, Token: "verif-token", PathPrefix: "kv", Timeout: 5 * time.Second})
		if err != nil {
			return "vault backend: " + err.Error()
		}
		// something stored directly under the prefix, outside the key namespace
		fv.data["/v1/kv"] = map[string]any{"key": decoyPEM}
		fv.data["/v1/kv/other-secret"] = map[string]any{"key": decoyPEM}
		rec := &recorder{Storage: be}
		w := spi.NewValidatedKIDBackendWrapper(rec, spi.KidPattern)
		got, eGet := w.GetPrivateKey(ctx, name, "1")
		_, eEx := w.PrivateKeyExists(ctx, name, "1")
		eSave := w.SavePrivateKey(ctx, name, freshKey)
		eDel := w.DeletePrivateKey(ctx, name)
		r.res.Checks += 4
		if wouldEscape("vault", name) && len(rec.seen) > 0 {
			r.violate(violation{Kind: "namespace-escape", NameClass: nc, Backend: "vault", Detail: fmt.Sprintf("name %q addresses a Vault path outside <prefix>/nuts-private-keys/ but reached the backend: %v", name, rec.seen)})
		}
		fv.mu.Lock()
		for _, p := range fv.paths {
			path := strings.SplitN(p, " ", 2)[1]
			if !strings.HasPrefix(path, "/v1/kv/nuts-private-keys/") {
				r.violate(violation{Kind: "namespace-escape", NameClass: nc, Backend: "vault", Detail: fmt.Sprintf("name %q made the backend request %s (outside /v1/kv/nuts-private-keys/)", name, p)})
			}
		}
		np := len(fv.paths)
		fv.mu.Unlock()
		if got != nil {
			if ec, ok := got.(*ecdsa.PrivateKey); ok && ec.Equal(decoyKey) {
				r.violate(violation{Kind: "namespace-escape", NameClass: nc, Backend: "vault", Detail: fmt.Sprintf("GetPrivateKey(%q) returned a secret stored OUTSIDE the key namespace", name)})
			}
		}
		return fmt.Sprintf("vault: reached=%d requests=%d get=%v exists=%v save=%v delete=%v", len(rec.seen), np, eGet != nil, eEx != nil, eSave != nil, eDel != nil)
	}
	return "unknown backend"
}

// ------------------------------------------------------------------------------------------------- main

func (n *nodeEnv) runScript(sc script) (res result) {
	res = result{ID: sc.ID, Violations: []violation{}, Ops: []opResult{}, Drift: []string{}, Trace: []map[string]any{}}
	h := sha256.Sum256([]byte(sc.ID))
	r := &run{n: n, res: &res, subject: map[string]string{}, webDID: map[string]string{}, nutsDID: map[string]string{}, kid: map[string]string{}, pubOf: map[string]string{},
		aliasNC: map[string]string{}, deleted: map[string]string{}, inproc: map[string]bool{}, sid: hex.EncodeToString(h[:4])}
	defer func() {
		if rec := recover(); rec != nil {
			res.Error = fmt.Sprintf("harness panic: %v\n%s", rec, debug.Stack())
		}
	}()
	for i, s := range sc.Steps {
		r.stepNo, r.op, r.jwkClass, r.hkClass = i, s.str("a"), s.str("jwk"), ""
		out := r.exec(s)
		for _, pn := range r.panics {
			res.Drift = append(res.Drift, fmt.Sprintf("PANIC in %s during %s (key family %s)", pn, s.str("a"), r.famOf(s.str("k"))))
			out += " PANIC:" + pn
		}
		res.Ops = append(res.Ops, opResult{A: s.str("a"), Outcome: out})
		ev := map[string]any{"ev": "op", "a": s.str("a"), "leak": len(res.Violations) > 0}
		for _, key := range []string{"k", "jwk", "to", "nc", "b", "fam", "via", "hk", "kc"} {
			if v := s.str(key); v != "" {
				ev[key] = v
			}
		}
		res.Trace = append(res.Trace, ev)
	}
	for _, c := range n.canaries {
		res.Needles += len(c.needles)
	}
	return res
}

func TestDriver(t *testing.T) {
	inPath, outPath := os.Getenv("VERIF_IN"), os.Getenv("VERIF_OUT")
	if inPath == "" {
		t.Skip("VERIF_IN not set")
	}
	rawIn, err := os.ReadFile(inPath)
	if err != nil {
		t.Fatal(err)
	}
	var in input
	if err := json.Unmarshal(rawIn, &in); err != nil {
		t.Fatal(err)
	}
	n := startNode(t)
	n.plant = in.Plant
	out, err := os.Create(outPath)
	if err != nil {
		t.Fatal(err)
	}
	defer out.Close()
	bw := bufio.NewWriter(out)
	defer bw.Flush()
	enc := json.NewEncoder(bw)
	for _, sc := range in.Scripts {
		res := n.runScript(sc)
		if err := enc.Encode(res); err != nil {
			t.Fatal(err)
		}
	}
}
