// Driver for Discovery.tla (C16): replays TLC behaviours on the real discovery.Module as server and as client
// (two sqlite databases, statement-level gates inside the server's get) and evaluates the C16 statement on the
// real observables: server Get output, client Search output, the sqlite rows.
package discovery

import (
	"bufio"
	"context"
	"encoding/json"
	"fmt"
	"io"
	"os"
	"reflect"
	"sort"
	"strconv"
	"strings"
	"sync"
	"sync/atomic"
	"testing"
	"time"

	"github.com/nuts-foundation/go-did/vc"
	discoserver "github.com/nuts-foundation/nuts-node/discovery/api/server"
	"github.com/sirupsen/logrus"

	"verifharness/gate"
)

type step map[string]any

func (s step) str(k string) string {
	v, _ := s[k].(string)
	return v
}

type script struct {
	ID    string `json:"id"`
	Steps []step `json:"steps"`
}

type input struct {
	Scripts    []script `json:"scripts"`
	Workers    int      `json:"workers"`
	FinalPolls int      `json:"final_polls"`
	// Sabotage switches a defect INTO THE HARNESS ADAPTER (self-test of the oracles, see tools/props/discovery.py)
	Sabotage string `json:"sabotage,omitempty"`
}

type violation struct {
	Prop   string `json:"prop"`
	Kind   string `json:"kind"`
	Site   string `json:"site"`
	Detail string `json:"detail"`
	Step   int    `json:"step"`
}

type result struct {
	ID         string           `json:"id"`
	Violations []violation      `json:"violations"`
	Drift      []string         `json:"drift"`
	Deferred   int              `json:"deferred"`
	Error      string           `json:"error,omitempty"`
	Trace      []map[string]any `json:"trace"`
	Checks     int              `json:"checks"`
	Accepted   int              `json:"accepted"`
	Rejected   int              `json:"rejected"`
	Wipes      int              `json:"wipes"`
	Races      int              `json:"races"` // polls whose two statements had a committed registration in between
	Refetches  int              `json:"refetches"`
	Restarts   int              `json:"restarts"` // restarts of the server / client module on its database
	WallMs     int64            `json:"wall_ms"`
}

// ---------------------------------------------------------------------------------------------- lab

type people struct {
	authority *identity
	rogue     *identity            // another issuer
	subj      map[string]*identity // s1.. (did:jwk)
	subjKey   map[string]*identity // the same subjects under a DID method the service does not allow
}

type lab struct {
	srv, cli *node
	ad       *adapter
	ppl      *people
	defDir   string
}

// restartServer stops the server's discovery module and starts a NEW module instance on the same storage engine
// (the same database): what a restart of the node process is for the discovery engine (Shutdown; New, Configure, Start).
func (l *lab) restartServer() error {
	if err := l.srv.module.Shutdown(); err != nil {
		return err
	}
	if err := l.srv.start(l.defDir, true, nil); err != nil {
		return fmt.Errorf("the server module does not start on its own database: %w", err)
	}
	l.ad.wrapper = &discoserver.Wrapper{Server: l.srv.module}
	if l.ad.sabotage == "restart-reinit" {
		// self-test of the oracles: the HARNESS does what a defective start-up would do
		return l.srv.db.Exec("UPDATE discovery_service SET seed = '', last_lamport_timestamp = 0").Error
	}
	return nil
}

func (l *lab) restartClient() error {
	if err := l.cli.module.Shutdown(); err != nil {
		return err
	}
	if err := l.cli.start(l.defDir, false, l.ad); err != nil {
		return fmt.Errorf("the client module does not start on its own database: %w", err)
	}
	return nil
}

func newLab(t *testing.T, defDir string, ppl *people) (*lab, error) {
	srv, err := newNode(t, defDir, true, nil)
	if err != nil {
		return nil, err
	}
	ad := &adapter{server: srv, wrapper: &discoserver.Wrapper{Server: srv.module}}
	cli, err := newNode(t, defDir, false, ad)
	if err != nil {
		return nil, err
	}
	return &lab{srv: srv, cli: cli, ad: ad, ppl: ppl, defDir: defDir}, nil
}

// ---------------------------------------------------------------------------------------------- run

type submitted struct {
	raw        string
	s          string // model subject
	kind, e, d string
	jti        string
	exp        int64
	acceptedAt time.Time
	serverTs   int // timestamp the server handed out
	seed       string
}

type getInfo struct {
	after      int
	firstTable string
	inTx       bool
	rts        int
	rseed      string
	captured   bool
}

type run struct {
	l                 *lab
	in                *input
	res               *result
	sched             *gate.Sched
	ctx               context.Context
	stepNo            int
	seeds             map[string]int        // server seed -> epoch number
	known             map[string]*submitted // raw -> what the harness knows about an accepted presentation
	shortExp          []int64
	ticked            bool
	hasTick           bool
	maxTs             map[string]int // per seed: highest timestamp handed out
	lastTs            int            // highest timestamp handed out since the server last lost its database (ServerReset)
	restartedSinceAdd bool           // the server process was restarted after it handed out lastTs
	creds             map[string]string
	credsKey          map[string]string
	otherVC           map[string]string
	// poll in flight
	pollPos string
	armed   atomic.Bool
	gi      getInfo
	resp    struct {
		seed string
		ts   int
		rows []int
	}
	verified     sync.Map // raw -> true: the CLIENT's own verifier accepted it
	srvEvents    int      // state changing server events, to detect races
	pollMark     int
	lossyWipe    []int // `after` values of polls whose stale response was applied after a wipe
	probeErr     atomic.Pointer[string]
	midApply     []string
	secondLogged bool
}

func (r *run) viol(kind, site, detail string) {
	for _, v := range r.res.Violations {
		if v.Kind == kind && v.Site == site {
			return
		}
	}
	r.res.Violations = append(r.res.Violations, violation{Prop: "C16", Kind: kind, Site: site, Detail: detail, Step: r.stepNo})
}

func (r *run) drift(f string, a ...any) {
	if len(r.res.Drift) < 20 {
		r.res.Drift = append(r.res.Drift, fmt.Sprintf("step %d: ", r.stepNo)+fmt.Sprintf(f, a...))
	}
}

func (r *run) log(ev string, kv map[string]any) {
	kv["ev"] = ev
	r.res.Trace = append(r.res.Trace, kv)
}

func (r *run) seedNo(seed string, server bool) int {
	if seed == "" {
		return 0
	}
	if n, ok := r.seeds[seed]; ok {
		return n
	}
	if server {
		n := len(r.seeds) + 1
		r.seeds[seed] = n
		return n
	}
	return 99
}

type svcRow struct {
	Seed string
	Ts   int
}

func serviceRow(n *node) (svcRow, error) {
	var out svcRow
	row := n.db.Raw("SELECT seed, last_lamport_timestamp FROM discovery_service WHERE id = ?", serviceID).Row()
	var seed *string
	var ts *int
	if err := row.Scan(&seed, &ts); err != nil {
		return out, err
	}
	if seed != nil {
		out.Seed = *seed
	}
	if ts != nil {
		out.Ts = *ts
	}
	return out, nil
}

type presRow struct {
	Signer    string
	JTI       string
	Raw       string
	Exp       int64
	Validated bool
	Ts        int
}

func presentationRows(n *node) ([]presRow, error) {
	rows, err := n.db.Raw("SELECT credential_subject_id, presentation_id, presentation_raw, presentation_expiration, validated, lamport_timestamp FROM discovery_presentation WHERE service_id = ?", serviceID).Rows()
	if err != nil {
		return nil, err
	}
	defer rows.Close()
	var out []presRow
	for rows.Next() {
		var p presRow
		var val *int64
		if err = rows.Scan(&p.Signer, &p.JTI, &p.Raw, &p.Exp, &val, &p.Ts); err != nil {
			return nil, err
		}
		p.Validated = val != nil && *val != 0
		out = append(out, p)
	}
	return out, rows.Err()
}

func (r *run) subjectOf(did string) string {
	for n, id := range r.l.ppl.subj {
		if id.did == did {
			return n
		}
	}
	for n, id := range r.l.ppl.subjKey {
		if id.did == did {
			return n + "/key"
		}
	}
	return did
}

func isRetraction(raw string) bool {
	j, err := splitJWT(raw)
	if err != nil {
		return false
	}
	vp, _ := j.claims["vp"].(map[string]any)
	return contains(strList(vp["type"]), retractionType)
}

// settleClock waits while `now` is within a second of the expiry of any short-lived presentation, so that
// "expired" means the same for every component and for the oracle.
func (r *run) settleClock() int64 {
	for i := 0; i < 40; i++ {
		now := time.Now()
		amb := false
		for _, e := range r.shortExp {
			if d := now.Sub(time.Unix(e, 0)); d > -150*time.Millisecond && d < 1150*time.Millisecond {
				amb = true
			}
		}
		if !amb {
			return now.Unix()
		}
		time.Sleep(100 * time.Millisecond)
	}
	return time.Now().Unix()
}

// ------------------------------------------------------------------------------------------ oracles

type listed struct {
	ts   int
	raw  string
	info *listedInfo
}

// observeServer evaluates the server half of the statement on Get(service, 0).
func (r *run) observeServer() ([]listed, svcRow, bool) {
	entries, seed, ts, err := r.l.srv.module.Get(r.ctx, serviceID, 0)
	if err != nil {
		r.res.Error = "server Get failed: " + err.Error()
		return nil, svcRow{}, false
	}
	var out []listed
	bySigner := map[string]int{}
	for k, p := range entries {
		n, _ := strconv.Atoi(k)
		raw := p.Raw()
		if raw == "" { // not a JWT presentation
			b, _ := json.Marshal(p)
			raw = string(b)
		}
		at := time.Time{}
		if k := r.known[raw]; k != nil {
			at = k.acceptedAt
		}
		info, bad := referenceVerify(raw, r.l.ppl.authority.did, []string{"jwk"}, at)
		r.res.Checks++
		if len(bad) > 0 {
			cls := strings.SplitN(bad[0], ":", 2)[0]
			r.viol("listed-unverified", cls, fmt.Sprintf("the server lists (timestamp %d) a presentation that fails the reference verification: %s", n, strings.Join(bad, "; ")))
		}
		if info != nil {
			bySigner[info.Signer]++
			out = append(out, listed{ts: n, raw: raw, info: info})
		}
		if n > ts {
			r.viol("timestamp-not-increasing", "get", fmt.Sprintf("entry with timestamp %d but the service timestamp is %d", n, ts))
		}
	}
	for s, c := range bySigner {
		r.res.Checks++
		if c > 1 {
			r.viol("two-entries-per-subject", "add", fmt.Sprintf("%d entries listed for %s", c, r.subjectOf(s)))
		}
	}
	sort.Slice(out, func(i, j int) bool { return out[i].ts < out[j].ts })
	for i := 1; i < len(out); i++ {
		if out[i].ts == out[i-1].ts {
			r.viol("timestamp-not-increasing", "add", fmt.Sprintf("two entries share timestamp %d", out[i].ts))
		}
	}
	return out, svcRow{Seed: seed, Ts: ts}, true
}

func liveOf(list []listed, now int64) map[string]string { // jti -> signer
	out := map[string]string{}
	for _, l := range list {
		if !l.info.Retraction && l.info.Exp > now {
			out[l.info.JTI] = l.info.Signer
		}
	}
	return out
}

type clientView struct {
	rows   []presRow
	live   map[string]string // jti -> signer: registration rows that have not expired
	search map[string]string
}

// observeClient evaluates SearchSound and returns the client's replica.
func (r *run) observeClient(now int64) (*clientView, bool) {
	before := time.Now().Unix()
	results, err := r.l.cli.module.Search(serviceID, map[string]string{})
	if err != nil {
		r.res.Error = "client Search failed: " + err.Error()
		return nil, false
	}
	cv := &clientView{live: map[string]string{}, search: map[string]string{}}
	for _, sr := range results {
		raw := sr.Presentation.Raw()
		r.res.Checks++
		if _, ok := r.verified.Load(raw); !ok {
			r.viol("search-unverified", "search", "Search returns a presentation the client's verifier never accepted: "+r.describe(raw))
		}
		j, err := splitJWT(raw)
		if err != nil {
			r.viol("search-unverified", "search", "Search returns a presentation that is not a JWT")
			continue
		}
		exp, _ := num(j.claims["exp"])
		if exp < before-1 {
			r.viol("search-expired", "search", fmt.Sprintf("Search returns a presentation that expired %d s ago: %s", before-exp, r.describe(raw)))
		}
		jti, _ := j.claims["jti"].(string)
		kid, _ := j.header["kid"].(string)
		cv.search[jti] = didOfKid(kid)
	}
	rows, err := presentationRows(r.l.cli)
	if err != nil {
		r.res.Error = "client rows: " + err.Error()
		return nil, false
	}
	cv.rows = rows
	for _, p := range rows {
		if !isRetraction(p.Raw) && p.Exp > now {
			cv.live[p.JTI] = p.Signer
		}
	}
	return cv, true
}

func (r *run) describe(raw string) string {
	if k := r.known[raw]; k != nil {
		return fmt.Sprintf("%s %s/%s (server timestamp %d)", k.s, k.kind, k.e, k.serverTs)
	}
	return "unknown presentation"
}

func subjectsOf(r *run, m map[string]string) []string {
	set := map[string]bool{}
	for _, signer := range m {
		set[r.subjectOf(signer)] = true
	}
	out := make([]string, 0, len(set))
	for s := range set {
		out = append(out, s)
	}
	sort.Strings(out)
	return out
}

// checkConverged: after the final fair suffix of polls the client must hold exactly the server's live set.
func (r *run) checkConverged() {
	now := r.settleClock()
	list, _, ok := r.observeServer()
	if !ok {
		return
	}
	cv, ok := r.observeClient(now)
	if !ok {
		return
	}
	srvLive := liveOf(list, now)
	r.res.Checks++
	for jti, signer := range srvLive {
		_, inRows := cv.live[jti]
		_, inSearch := cv.search[jti]
		if inRows && inSearch {
			continue
		}
		k := r.knownByJTI(jti)
		site := "other"
		if k != nil {
			for _, after := range r.lossyWipe {
				if k.serverTs <= after {
					site = "stale-response-after-seed-wipe"
				}
			}
		}
		what := "not held by the client"
		if inRows {
			what = "held by the client but not returned by Search"
			if site == "other" {
				site = "not-validated"
			}
		}
		r.viol("converge-missing", site, fmt.Sprintf("live on the server, %s after %d quiet polls: %s of %s", what, r.in.FinalPolls, r.describe(r.rawByJTI(jti)), r.subjectOf(signer)))
	}
	for jti, signer := range cv.live {
		if _, ok := srvLive[jti]; ok {
			continue
		}
		site := "other"
		if k := r.knownByJTI(jti); k != nil {
			// was it replaced on the server by a presentation of the same subject that expired earlier?
			for _, o := range r.known {
				if o.s == k.s && o.seed == k.seed && o.serverTs > k.serverTs && o.exp < k.exp && o.exp <= now {
					site = "superseded-by-shorter-lived"
				}
			}
		}
		r.viol("converge-stale", site, fmt.Sprintf("held by the client but not live on the server after %d quiet polls: %s of %s", r.in.FinalPolls, r.describe(r.rawByJTI(jti)), r.subjectOf(signer)))
	}
	for jti := range cv.search {
		if _, ok := cv.live[jti]; !ok {
			if _, ok2 := srvLive[jti]; !ok2 {
				r.viol("converge-stale", "search-only", "Search returns a presentation that is neither a live row nor live on the server: "+r.describe(r.rawByJTI(jti)))
			}
		}
	}
}

func (r *run) knownByJTI(jti string) *submitted {
	var best *submitted
	for _, k := range r.known {
		if k.jti == jti && (best == nil || k.acceptedAt.After(best.acceptedAt)) {
			best = k
		}
	}
	return best
}

func (r *run) rawByJTI(jti string) string {
	if k := r.knownByJTI(jti); k != nil {
		return k.raw
	}
	return ""
}

// ------------------------------------------------------------------------------------------ steps

// shortValidity is the real validity (seconds, rounded down to the second) of a "short" presentation in a script
// that contains a Tick; everything before the Tick has to happen within it.
const shortValidity = 4

func (r *run) expFor(e string) time.Time {
	if e == "short" && !r.ticked {
		if !r.hasTick {
			// nothing expires in this behaviour: "short" only has to expire before "long"
			return time.Now().Add(20 * time.Minute).Truncate(time.Second)
		}
		return time.Unix(time.Now().Unix()+shortValidity, 0)
	}
	return time.Now().Add(30 * time.Minute).Truncate(time.Second)
}

func ldpPresentation(signer *identity) []byte {
	doc := map[string]any{
		"@context": []string{"https://www.w3.org/2018/credentials/v1", "https://w3id.org/security/suites/jws-2020/v1"},
		"id":       signer.did + "#" + freshID(),
		"type":     "VerifiablePresentation",
		"holder":   signer.did,
		"proof": map[string]any{"type": "JsonWebSignature2020", "created": time.Now().UTC().Format(time.RFC3339), "proofPurpose": "assertionMethod",
			"verificationMethod": signer.kid, "domain": serviceID, "expires": time.Now().Add(10 * time.Minute).UTC().Format(time.RFC3339),
			"jws": "eyJhbGciOiJFUzI1NiIsImI2NCI6ZmFsc2UsImNyaXQiOlsiYjY0Il19..AAAA"},
	}
	b, _ := json.Marshal(doc)
	return b
}

// build produces the request body of a submission. cur = what the server currently lists for the subject,
// other = an entry of another subject.
func (r *run) build(st step, cur, other *listed) (body []byte, raw string, sub *submitted, err error) {
	s, kind, e, d, c := st.str("s"), st.str("kind"), st.str("e"), st.str("d"), st.str("c")
	id := r.l.ppl.subj[s]
	if id == nil {
		return nil, "", nil, fmt.Errorf("unknown subject %q", s)
	}
	exp := r.expFor(e)
	spec := vpSpec{signer: id, key: id.key, jti: id.did + "#" + freshID(), aud: []string{serviceID}, exp: exp}
	if kind == "ret" {
		spec.retraction = true
		if cur != nil {
			spec.retractJTI = cur.info.JTI
		}
	}
	// a registration carries one credential per input descriptor; o decides their order in the presentation
	var member, registration, extra any = r.creds[s], forgeSelfAttested(id.did, nil), nil
	cls := d
	if c != "" { // the concrete realisation of the abstract defect class
		cls = c
	}
	switch cls {
	case "none":
		if kind == "ret" && cur == nil {
			return nil, "", nil, fmt.Errorf("retraction without a listed presentation of %s", s)
		}
	case "replay":
		if cur == nil {
			return nil, "", nil, fmt.Errorf("replay without a listed presentation of %s", s)
		}
		b, _ := json.Marshal(cur.raw)
		at := time.Now()
		if k := r.known[cur.raw]; k != nil {
			at = k.acceptedAt
		}
		return b, cur.raw, &submitted{raw: cur.raw, s: s, kind: kind, e: e, d: d, jti: cur.info.JTI, exp: cur.info.Exp, acceptedAt: at}, nil
	case "ret-other":
		if other == nil {
			return nil, "", nil, fmt.Errorf("no entry of another subject")
		}
		spec.retractJTI = other.info.JTI
	case "ret-unknown":
		spec.retractJTI = id.did + "#" + freshID()
	case "ret-nojti":
		spec.retractJTI = ""
	case "ret-creds":
		spec.creds = []any{r.creds[s]}
	case "ldp":
		b := ldpPresentation(id)
		return b, string(b), &submitted{raw: string(b), s: s, kind: kind, e: e, d: d}, nil
	case "noid":
		spec.noJTI = true
	case "aud":
		spec.aud = []string{"urn:verif:usecase:another"}
	case "noaud":
		spec.aud = nil
	case "noexp":
		spec.noExp = true
	case "toolong":
		spec.exp = time.Now().Add(time.Duration(maxValiditySecs+900) * time.Second)
		// the credential outlives it, so only the maximum validity is broken
		member = forgeVC(r.l.ppl.authority, r.l.ppl.authority, id.did, credentialType, time.Now().Add(3*time.Hour))
	case "expired":
		spec.exp = time.Now().Add(-2 * time.Minute)
	case "method":
		kid := r.l.ppl.subjKey[s]
		spec.signer, spec.key, spec.jti = kid, kid.key, kid.did+"#"+freshID()
		member, registration = r.credsKey[s], forgeSelfAttested(kid.did, nil)
	case "outlive":
		// the presentation outlives the member credential
		spec.exp = time.Now().Add(20 * time.Minute).Truncate(time.Second)
		member = forgeVC(r.l.ppl.authority, r.l.ppl.authority, id.did, credentialType, time.Now().Add(10*time.Minute))
	case "outlive-self":
		// the presentation outlives the holder's own registration credential
		spec.exp = time.Now().Add(20 * time.Minute).Truncate(time.Second)
		t := time.Now().Add(10 * time.Minute)
		registration = forgeSelfAttested(id.did, &t)
	case "missing":
		member, registration = nil, nil
	case "missing-member":
		member = nil
	case "missing-registration":
		registration = nil
	case "surplus":
		extra = r.otherVC[s]
	case "surplus-registration":
		extra = forgeSelfAttested(id.did, nil)
	case "nonmatch":
		member = r.otherVC[s]
	case "nonmatch-issuer":
		member = forgeVC(r.l.ppl.rogue, r.l.ppl.rogue, id.did, credentialType, time.Now().Add(50*time.Minute))
	case "badsig":
	case "otherkey":
		for n, o := range r.l.ppl.subj {
			if n != s {
				spec.key = o.key
				break
			}
		}
	case "vcsig":
		member = forgeVC(r.l.ppl.authority, r.l.ppl.rogue, id.did, credentialType, time.Now().Add(50*time.Minute))
	default:
		return nil, "", nil, fmt.Errorf("unknown defect class %q", cls)
	}
	if kind == "reg" {
		list := []any{member, registration, extra}
		if st.str("o") == "sf" { // the holder's own credential first
			list = []any{extra, registration, member}
		}
		for _, c := range list {
			if c != nil {
				spec.creds = append(spec.creds, c)
			}
		}
	}
	raw = forgeVP(spec)
	if cls == "badsig" {
		i := len(raw) - 5
		ch := byte('A')
		if raw[i] == 'A' {
			ch = 'B'
		}
		raw = raw[:i] + string(ch) + raw[i+1:]
	}
	body, _ = json.Marshal(raw)
	jti := spec.jti
	if spec.noJTI {
		jti = ""
	}
	return body, raw, &submitted{raw: raw, s: s, kind: kind, e: e, d: d, jti: jti, exp: spec.exp.Unix()}, nil
}

func orderOf(st step) string {
	if st.str("kind") == "reg" && st.str("o") == "sf" {
		return "sf"
	}
	return "mf"
}

// pollBlocking reports whether the parked poll holds the (single) database connection of the server.
func (r *run) pollHoldsServerTx() bool { return r.pollPos == "q1" && r.gi.inTx }

func (r *run) serverEvent(fn func() error) error {
	if r.pollHoldsServerTx() {
		return fmt.Errorf("the parked poll holds the server's database connection")
	}
	return fn()
}

func (r *run) doSubmit(st step) error {
	before, _, ok := r.observeServer()
	if !ok {
		return nil
	}
	s := st.str("s")
	id := r.l.ppl.subj[s]
	var cur, other *listed
	for i := range before {
		if id != nil && before[i].info.Signer == id.did {
			cur = &before[i]
		} else if other == nil {
			other = &before[i]
		}
	}
	body, raw, sub, err := r.build(st, cur, other)
	if err != nil {
		return err
	}
	var regErr error
	if err = r.serverEvent(func() error {
		regErr = r.l.ad.registerJSON(r.ctx, body)
		return nil
	}); err != nil {
		return err
	}
	accepted := regErr == nil
	after, svc, ok := r.observeServer()
	if !ok {
		return nil
	}
	if accepted {
		r.res.Accepted++
		r.srvEvents++
		sub.acceptedAt = time.Now()
		sub.seed = svc.Seed
		for _, l := range after {
			if l.raw == raw {
				sub.serverTs = l.ts
			}
		}
		r.res.Checks++
		if sub.serverTs == 0 {
			r.viol("accepted-not-listed", "register", "Register returned success but the presentation is not listed")
		} else {
			if prev, seen := r.maxTs[svc.Seed]; seen && sub.serverTs <= prev {
				r.viol("timestamp-not-increasing", "register", fmt.Sprintf("timestamp %d handed out after %d (same seed)", sub.serverTs, prev))
			} else if sub.serverTs <= r.lastTs {
				// only the loss of the database starts the timestamps over
				site := "register"
				if r.restartedSinceAdd {
					site = "register-after-restart"
				}
				r.viol("timestamp-not-increasing", site, fmt.Sprintf("timestamp %d handed out after %d and the server has not been reset in between", sub.serverTs, r.lastTs))
			}
			if sub.serverTs > r.lastTs {
				r.lastTs = sub.serverTs
			}
			r.restartedSinceAdd = false
			if sub.serverTs > r.maxTs[svc.Seed] {
				r.maxTs[svc.Seed] = sub.serverTs
			}
		}
		if sub.kind == "ret" || isRetraction(raw) {
			// accepted only from the signer of an existing entry
			j, _ := splitJWT(raw)
			target := ""
			signer := ""
			if j != nil {
				target, _ = j.claims["retract_jti"].(string)
				kid, _ := j.header["kid"].(string)
				signer = didOfKid(kid)
			}
			found := false
			for _, l := range before {
				if l.info.JTI == target && l.info.Signer == signer {
					found = true
				}
			}
			r.res.Checks++
			if !found {
				r.viol("retraction-not-by-signer", "validateRetraction", fmt.Sprintf("retraction of %q accepted from %s, which has no listed presentation with that id", target, r.subjectOf(signer)))
			}
		}
		// (a defective submission that fixes its own, long validity -- "outlive", "toolong" -- and is accepted by a
		// defective server is not one the Tick has to wait for)
		if e := st.str("e"); e == "short" && !r.ticked && r.hasTick && sub.exp <= time.Now().Unix()+shortValidity+1 {
			r.shortExp = append(r.shortExp, sub.exp)
		}
		r.known[raw] = sub
	} else {
		r.res.Rejected++
	}
	if want := st.str("res"); want != "" && (want == "accepted") != accepted {
		r.drift("submission %v: the model says %s, the server answered %v", st, want, regErr)
	}
	res := "rejected"
	if accepted {
		res = "accepted"
	}
	now := time.Now().Unix()
	errText := ""
	if regErr != nil {
		errText = regErr.Error()
		if len(errText) > 160 {
			errText = errText[:160]
		}
	}
	r.log("submit", map[string]any{"err": errText, "s": s, "kind": st.str("kind"), "e": st.str("e"), "d": st.str("d"), "c": st.str("c"), "o": orderOf(st), "res": res,
		"ts": svc.Ts, "seed": r.seedNo(svc.Seed, true), "n": len(after), "live": subjectsOf(r, liveOf(after, now))})
	return nil
}

func (r *run) doTick() error {
	if r.ticked {
		return fmt.Errorf("second Tick")
	}
	var last int64
	for _, e := range r.shortExp {
		if e > last {
			last = e
		}
	}
	for time.Now().Unix() < last+1 {
		time.Sleep(50 * time.Millisecond)
	}
	r.ticked = true
	r.srvEvents++
	r.log("tick", map[string]any{})
	return nil
}

func (r *run) doReset() error {
	if r.pollPos == "q1" {
		return fmt.Errorf("reset while a get is executing")
	}
	if err := r.l.srv.wipe(); err != nil {
		return err
	}
	r.srvEvents++
	r.lastTs, r.restartedSinceAdd = 0, false
	r.log("srvreset", map[string]any{})
	return nil
}

// unexpired: what the server lists that has not expired, raw -> timestamp.
func unexpired(list []listed, now int64) map[string]int {
	out := map[string]int{}
	for _, l := range list {
		if l.info.Exp > now {
			out[l.raw] = l.ts
		}
	}
	return out
}

// doServerRestart: the server process stops and starts again on its database. A restart is none of the events that
// change a list (register / refresh / retract / expire / reset): the new incarnation must list what its predecessor
// listed and must go on counting where the predecessor stopped.
func (r *run) doServerRestart() error {
	if r.pollPos == "q1" {
		return fmt.Errorf("server restart while a get is executing")
	}
	now := r.settleClock()
	before, svcB, ok := r.observeServer()
	if !ok {
		return nil
	}
	if err := r.l.restartServer(); err != nil {
		return err
	}
	r.res.Restarts++
	r.restartedSinceAdd = true
	after, svcA, ok := r.observeServer()
	if !ok {
		return nil
	}
	r.res.Checks++
	if svcA.Ts < svcB.Ts {
		r.viol("timestamp-not-increasing", "restart", fmt.Sprintf("the service timestamp went back from %d to %d when the server was restarted on its database (seed before %q, after %q)", svcB.Ts, svcA.Ts, svcB.Seed, svcA.Seed))
	}
	lb, la := unexpired(before, now), unexpired(after, now)
	r.res.Checks++
	if !reflect.DeepEqual(lb, la) {
		r.viol("restart-changes-list", "server", fmt.Sprintf("the server listed %d unexpired entries before it was restarted on its database and %d afterwards (or under other timestamps)", len(lb), len(la)))
	}
	r.log("srvrestart", map[string]any{"ts": svcA.Ts, "seed": r.seedNo(svcA.Seed, true), "n": len(after), "live": subjectsOf(r, liveOf(after, time.Now().Unix()))})
	return nil
}

// doClientRestart: the client process stops between two polls and starts again on its database.
func (r *run) doClientRestart() error {
	if r.pollPos != "" {
		return fmt.Errorf("client restart while a poll is at %q", r.pollPos)
	}
	if err := r.l.restartClient(); err != nil {
		return err
	}
	r.res.Restarts++
	row, err := serviceRow(r.l.cli)
	if err != nil {
		return err
	}
	cv, ok := r.observeClient(time.Now().Unix())
	if !ok {
		return nil
	}
	r.log("clirestart", map[string]any{"cts": row.Ts, "cseed": r.seedNo(row.Seed, false), "n": len(cv.rows),
		"live": subjectsOf(r, cv.live), "search": subjectsOf(r, cv.search)})
	return nil
}

func (r *run) await() (string, error) {
	at, ok := r.sched.Await("poll", r.sched.GiveUp)
	if !ok {
		return "", fmt.Errorf("poll goroutine does not reach a gate")
	}
	return at, nil
}

func (r *run) pollFirst() error {
	if r.pollPos != "" {
		return fmt.Errorf("PollFirst while a poll is at %q", r.pollPos)
	}
	r.gi = getInfo{}
	r.secondLogged = false
	r.pollMark = r.srvEvents
	r.armed.Store(true)
	var pollErr error
	r.sched.Go("poll", func(ctx context.Context) {
		pollErr = r.l.cli.module.VerifUpdate(ctx)
		if pollErr != nil {
			msg := "client update failed: " + pollErr.Error()
			r.probeErr.Store(&msg)
		}
	})
	if _, err := r.sched.Step("poll", "start", "go"); err != nil {
		return err
	}
	at, err := r.await()
	if err != nil {
		return err
	}
	r.pollPos = at
	switch at {
	case "q1":
		ev := map[string]any{"after": r.gi.after, "first": r.gi.firstTable}
		if r.gi.captured {
			ev["rts"], ev["rseed"] = r.gi.rts, r.seedNo(r.gi.rseed, true)
		}
		r.log("poll.first", ev)
		if r.gi.inTx {
			// the code runs the statements of get inside one transaction (and holds the only sqlite connection):
			// nothing can happen between them, so the second statement follows at once
			r.res.Deferred++
			if err := r.advanceToResponse(); err != nil {
				return err
			}
		}
	case "resp", "done":
		// get executed no statement the gate could stop at: the whole get is one step
		r.drift("the server's get did not stop after a first statement (now at %s)", at)
		r.log("poll.first", map[string]any{"after": r.gi.after, "first": "none"})
	}
	return nil
}

func (r *run) advanceToResponse() error {
	if _, err := r.sched.Step("poll", "q1", "go"); err != nil {
		return err
	}
	at, err := r.await()
	if err != nil {
		return err
	}
	r.pollPos = at
	r.logSecond()
	return nil
}

// logSecond records the second statement of get at the moment it really happened.
func (r *run) logSecond() {
	if r.secondLogged {
		return
	}
	r.secondLogged = true
	r.armed.Store(false)
	if r.srvEvents != r.pollMark && r.pollPos == "resp" {
		r.res.Races++
	}
	rows := append([]int{}, r.resp.rows...)
	sort.Ints(rows)
	r.log("poll.second", map[string]any{"rows": rows, "rts": r.resp.ts, "rseed": r.seedNo(r.resp.seed, true)})
}

func (r *run) pollSecond() error {
	switch r.pollPos {
	case "q1":
		return r.advanceToResponse()
	case "resp", "done":
		r.logSecond()
		return nil
	}
	return fmt.Errorf("PollSecond while the poll is at %q", r.pollPos)
}

// clientApply delivers the response. outage: the client cannot resolve DIDs while it applies it (its verifier fails for
// every presentation), so what it adds stays unvalidated until a later validation round.
func (r *run) clientApply(outage bool) error {
	if r.pollPos == "q1" {
		return fmt.Errorf("ClientApply before PollSecond")
	}
	r.l.cli.didres.down.Store(outage)
	defer r.l.cli.didres.down.Store(false)
	before, err := serviceRow(r.l.cli)
	if err != nil {
		return err
	}
	if r.pollPos == "resp" {
		if _, err := r.sched.Step("poll", "resp", "go"); err != nil {
			return err
		}
		at, err := r.await()
		if err != nil {
			return err
		}
		for n := 0; at == "resp" && n < 3; n++ {
			// the client asked the server again within the same update (e.g. starting over after a wipe)
			r.res.Refetches++
			if _, err = r.sched.Step("poll", "resp", "go"); err != nil {
				return err
			}
			if at, err = r.await(); err != nil {
				return err
			}
		}
		if at != "done" {
			return fmt.Errorf("poll at %q after the response was delivered", at)
		}
	}
	r.pollPos = ""
	if e := r.probeErr.Load(); e != nil {
		return fmt.Errorf("%s", *e)
	}
	after, err := serviceRow(r.l.cli)
	if err != nil {
		return err
	}
	if before.Seed != "" && before.Seed != r.resp.seed {
		r.res.Wipes++
		if len(r.resp.rows) > 0 && r.gi.after > 0 && after.Ts == r.resp.ts && after.Ts > 0 {
			// the client wiped its copy and nevertheless applied what it had fetched with the OLD timestamp
			r.lossyWipe = append(r.lossyWipe, r.gi.after)
		}
	}
	now := time.Now().Unix()
	cv, ok := r.observeClient(now)
	if !ok {
		return nil
	}
	out := 0
	if outage {
		out = 1
	}
	r.log("apply", map[string]any{"out": out, "cts": after.Ts, "cseed": r.seedNo(after.Seed, false), "n": len(cv.rows),
		"live": subjectsOf(r, cv.live), "search": subjectsOf(r, cv.search)})
	return nil
}

// clientValidate runs one background validation round (clientRegistrationManager.validate) with a working resolver.
func (r *run) clientValidate() error {
	if err := r.l.cli.module.VerifValidate(); err != nil {
		return err
	}
	cv, ok := r.observeClient(time.Now().Unix())
	if !ok {
		return nil
	}
	r.log("validate", map[string]any{"n": len(cv.rows), "live": subjectsOf(r, cv.live), "search": subjectsOf(r, cv.search)})
	return nil
}

func (r *run) fullPoll() error {
	if err := r.pollFirst(); err != nil {
		return err
	}
	if err := r.pollSecond(); err != nil {
		return err
	}
	return r.clientApply(false)
}

// ------------------------------------------------------------------------------------------ script

func (l *lab) runScript(in *input, sc script) *result {
	t0 := time.Now()
	res := &result{ID: sc.ID, Violations: []violation{}, Drift: []string{}, Trace: []map[string]any{}}
	r := &run{l: l, in: in, res: res, sched: gate.New(), ctx: context.Background(), seeds: map[string]int{}, known: map[string]*submitted{},
		maxTs: map[string]int{}, creds: map[string]string{}, credsKey: map[string]string{}, otherVC: map[string]string{}}
	r.sched.BlockedAfter = 5 * time.Millisecond
	for _, st := range sc.Steps {
		if st.str("a") == "Tick" {
			r.hasTick = true
		}
	}
	defer func() {
		r.sched.Kill()
		l.srv.gate.onQuery.Store(nil)
		l.ad.afterGet.Store(nil)
		l.cli.vfy.hook.Store(nil)
		res.WallMs = time.Since(t0).Milliseconds()
	}()
	if err := l.srv.wipe(); err != nil {
		res.Error = err.Error()
		return res
	}
	if err := l.cli.wipe(); err != nil {
		res.Error = err.Error()
		return res
	}
	ppl := l.ppl
	vcExp := time.Now().Add(55 * time.Minute)
	for n, id := range ppl.subj {
		r.creds[n] = forgeVC(ppl.authority, ppl.authority, id.did, credentialType, vcExp)
		r.otherVC[n] = forgeVC(ppl.authority, ppl.authority, id.did, otherCredType, vcExp)
		r.credsKey[n] = forgeVC(ppl.authority, ppl.authority, ppl.subjKey[n].did, credentialType, vcExp)
	}
	// gates
	onQuery := func(table string, inTx bool, dest any) {
		if !r.armed.CompareAndSwap(true, false) {
			return
		}
		r.gi.firstTable, r.gi.inTx = table, inTx
		v := reflect.Indirect(reflect.ValueOf(dest))
		if v.Kind() == reflect.Struct {
			if f, g := v.FieldByName("LastLamportTimestamp"), v.FieldByName("Seed"); f.IsValid() && g.IsValid() {
				r.gi.rts, r.gi.rseed, r.gi.captured = int(f.Int()), g.String(), true
			}
		}
		r.sched.At("poll", "q1")
	}
	l.srv.gate.onQuery.Store(&onQuery)
	afterGet := func() { r.sched.At("poll", "resp") }
	l.ad.afterGet.Store(&afterGet)
	l.ad.onCall = func(after int) { r.gi.after = after }
	l.ad.onResponse = func(seed string, ts int, rows []int) {
		r.resp.seed, r.resp.ts, r.resp.rows = seed, ts, rows
	}
	l.ad.sabotage = in.Sabotage
	hook := verifyHook(func(vp vc.VerifiablePresentation, err error) {
		if err == nil {
			r.verified.Store(vp.Raw(), true)
		}
		// the presentation has been added but not yet flagged as validated: Search must stay sound right here
		if results, serr := l.cli.module.Search(serviceID, map[string]string{}); serr == nil {
			for _, sr := range results {
				if _, ok := r.verified.Load(sr.Presentation.Raw()); !ok {
					msg := "Search (while the client was applying a response) returns a presentation the client's verifier never accepted"
					r.midApply = append(r.midApply, msg)
				}
			}
		}
	})
	l.cli.vfy.hook.Store(&hook)

	for i, st := range sc.Steps {
		r.stepNo = i
		var err error
		switch st.str("a") {
		case "Submit":
			err = r.doSubmit(st)
		case "Tick":
			err = r.doTick()
		case "ServerReset":
			err = r.doReset()
		case "ServerRestart":
			err = r.doServerRestart()
		case "ClientRestart":
			err = r.doClientRestart()
		case "PollFirst":
			err = r.pollFirst()
		case "PollSecond":
			err = r.pollSecond()
		case "ClientApply":
			out, _ := st["out"].(bool)
			err = r.clientApply(out)
		case "ClientValidate":
			err = r.clientValidate()
		default:
			err = fmt.Errorf("unknown action %v", st)
		}
		if err != nil {
			res.Error = fmt.Sprintf("step %d %v: %v", i, st, err)
			return res
		}
		if res.Error != "" {
			return res
		}
		if !r.ticked {
			now := time.Now().Unix()
			for _, e := range r.shortExp {
				if e <= now {
					res.Error = "timing: a short-lived presentation expired before the script reached its Tick"
					return res
				}
			}
		}
	}
	// a fair suffix of polls: finish the poll in flight, then FinalPolls complete polls and one validation round
	r.stepNo = len(sc.Steps)
	var err error
	if r.pollPos == "q1" {
		err = r.pollSecond()
	}
	if err == nil && r.pollPos != "" {
		err = r.clientApply(false)
	}
	for i := 0; err == nil && i < in.FinalPolls; i++ {
		err = r.fullPoll()
	}
	if err == nil {
		err = r.clientValidate()
	}
	if err != nil {
		res.Error = "final polls: " + err.Error()
		return res
	}
	for _, m := range r.midApply {
		r.viol("search-unverified", "search-mid-apply", m)
	}
	r.checkConverged()
	return res
}

// ------------------------------------------------------------------------------------------ main

func TestDriver(t *testing.T) {
	inPath, outPath := os.Getenv("VERIF_IN"), os.Getenv("VERIF_OUT")
	if inPath == "" {
		t.Skip("VERIF_IN not set")
	}
	logrus.SetLevel(logrus.PanicLevel)
	logrus.SetOutput(io.Discard)
	raw, err := os.ReadFile(inPath)
	if err != nil {
		t.Fatal(err)
	}
	var in input
	if err := json.Unmarshal(raw, &in); err != nil {
		t.Fatal(err)
	}
	if in.Workers <= 0 {
		in.Workers = 4
	}
	if in.FinalPolls <= 0 {
		in.FinalPolls = 3
	}
	if in.Workers > len(in.Scripts) {
		in.Workers = len(in.Scripts)
	}
	ppl := &people{authority: newJWKIdentity("authority"), rogue: newJWKIdentity("rogue"), subj: map[string]*identity{}, subjKey: map[string]*identity{}}
	for _, n := range []string{"s1", "s2", "s3"} {
		ppl.subj[n] = newJWKIdentity(n)
		ppl.subjKey[n] = newKeyIdentity(n)
	}
	defDir := t.TempDir()
	if err := writeDefinition(defDir, ppl.authority.did); err != nil {
		t.Fatal(err)
	}
	// silence the "Created test storage engine" chatter of the storage test helper
	stdout := os.Stdout
	if devnull, err := os.OpenFile(os.DevNull, os.O_WRONLY, 0); err == nil {
		os.Stdout = devnull
		defer func() { os.Stdout = stdout }()
	}
	labs := make([]*lab, in.Workers)
	for i := range labs {
		if labs[i], err = newLab(t, defDir, ppl); err != nil {
			t.Fatal(err)
		}
	}
	out, err := os.Create(outPath)
	if err != nil {
		t.Fatal(err)
	}
	defer out.Close()
	bw := bufio.NewWriter(out)
	defer bw.Flush()
	enc := json.NewEncoder(bw)
	var mu sync.Mutex
	var wg sync.WaitGroup
	next := atomic.Int64{}
	for _, l := range labs {
		wg.Add(1)
		go func(l *lab) {
			defer wg.Done()
			for {
				i := int(next.Add(1)) - 1
				if i >= len(in.Scripts) {
					return
				}
				res := l.runScript(&in, in.Scripts[i])
				mu.Lock()
				_ = enc.Encode(res)
				mu.Unlock()
			}
		}(l)
	}
	wg.Wait()
}
