package discovery

// Forging of identities, credentials and presentations (real keys, hand-made compact JWS so that every
// defect class can be produced), and the self-contained reference verification of the C16 statement.

import (
	"crypto/ecdsa"
	"crypto/elliptic"
	"crypto/rand"
	"crypto/sha256"
	"encoding/base64"
	"encoding/json"
	"errors"
	"fmt"
	"math/big"
	"strings"
	"sync/atomic"
	"time"

	"github.com/mr-tron/base58"
)

const (
	serviceID       = "urn:verif:usecase:c16"
	credentialType  = "VerifMemberCredential"
	otherCredType   = "VerifOtherCredential"
	maxValiditySecs = 3600
	retractionType  = "RetractedVerifiablePresentation"
)

type identity struct {
	name string
	did  string
	kid  string
	key  *ecdsa.PrivateKey
}

var b64 = base64.RawURLEncoding

func alnum(s string) bool {
	for _, c := range s {
		if !(c >= 'a' && c <= 'z' || c >= 'A' && c <= 'Z' || c >= '0' && c <= '9') {
			return false
		}
	}
	return true
}

func fixed32(b *big.Int) []byte {
	out := make([]byte, 32)
	b.FillBytes(out)
	return out
}

// newJWKIdentity creates a did:jwk identity. The nuts-node resolver decodes the method specific id with
// base64.RawStdEncoding while the specification says base64url; keys are drawn until both encodings agree.
func newJWKIdentity(name string) *identity {
	for {
		k, err := ecdsa.GenerateKey(elliptic.P256(), rand.Reader)
		if err != nil {
			panic(err)
		}
		jwk := fmt.Sprintf(`{"crv":"P-256","kty":"EC","x":"%s","y":"%s"}`, b64.EncodeToString(fixed32(k.X)), b64.EncodeToString(fixed32(k.Y)))
		enc := b64.EncodeToString([]byte(jwk))
		if !alnum(enc) {
			continue
		}
		d := "did:jwk:" + enc
		return &identity{name: name, did: d, kid: d + "#0", key: k}
	}
}

// newKeyIdentity creates a did:key identity (P-256): a DID method the service definition does not allow.
func newKeyIdentity(name string) *identity {
	k, err := ecdsa.GenerateKey(elliptic.P256(), rand.Reader)
	if err != nil {
		panic(err)
	}
	pub := elliptic.MarshalCompressed(elliptic.P256(), k.X, k.Y)
	mb := "z" + base58.Encode(append([]byte{0x80, 0x24}, pub...))
	d := "did:key:" + mb
	return &identity{name: name, did: d, kid: d + "#" + mb, key: k}
}

func signCompact(key *ecdsa.PrivateKey, header, payload map[string]any) string {
	h, _ := json.Marshal(header)
	p, _ := json.Marshal(payload)
	signingInput := b64.EncodeToString(h) + "." + b64.EncodeToString(p)
	digest := sha256.Sum256([]byte(signingInput))
	r, s, err := ecdsa.Sign(rand.Reader, key, digest[:])
	if err != nil {
		panic(err)
	}
	sig := append(fixed32(r), fixed32(s)...)
	return signingInput + "." + b64.EncodeToString(sig)
}

var idCounter atomic.Int64

func freshID() string {
	var b [12]byte
	_, _ = rand.Read(b[:])
	return fmt.Sprintf("%d-%x", idCounter.Add(1), b)
}

// forgeVC issues a JWT credential of the given type from issuer to subject, signed with signer's key.
func forgeVC(issuer, signer *identity, subject string, typ string, exp time.Time) string {
	now := time.Now()
	id := issuer.did + "#" + freshID()
	claims := map[string]any{
		"iss": issuer.did, "sub": subject, "jti": id, "nbf": now.Add(-time.Minute).Unix(), "exp": exp.Unix(),
		"vc": map[string]any{
			"@context":          []string{"https://www.w3.org/2018/credentials/v1"},
			"type":              []string{"VerifiableCredential", typ},
			"credentialSubject": map[string]any{"id": subject, "member": "yes"},
		},
	}
	return signCompact(signer.key, map[string]any{"alg": "ES256", "typ": "JWT", "kid": issuer.kid}, claims)
}

const registrationCredType = "DiscoveryRegistrationCredential"

// forgeSelfAttested makes the holder's own DiscoveryRegistrationCredential: no proof (the presentation's signature
// covers it), no expirationDate unless exp is given.
func forgeSelfAttested(subject string, exp *time.Time) map[string]any {
	c := map[string]any{
		"@context":          []string{"https://www.w3.org/2018/credentials/v1", "https://nuts.nl/credentials/v1"},
		"id":                subject + "#" + freshID(),
		"type":              []string{"VerifiableCredential", registrationCredType},
		"issuer":            subject,
		"issuanceDate":      time.Now().Add(-time.Minute).UTC().Format(time.RFC3339),
		"credentialSubject": map[string]any{"id": subject, "authServerURL": "https://node.verif.example/oauth2/" + freshID()},
	}
	if exp != nil {
		c["expirationDate"] = exp.UTC().Format(time.RFC3339)
	}
	return c
}

type vpSpec struct {
	signer     *identity // whose DID is stated (iss, kid)
	key        *ecdsa.PrivateKey
	jti        string
	noJTI      bool
	aud        []string
	exp        time.Time
	noExp      bool
	creds      []any  // compact JWT credentials (string) and self-attested credentials (JSON object)
	retractJTI string // "" = registration
	retraction bool
}

func forgeVP(s vpSpec) string {
	types := []string{"VerifiablePresentation"}
	if s.retraction {
		types = append(types, retractionType)
	}
	vp := map[string]any{
		"@context": []string{"https://www.w3.org/2018/credentials/v1"},
		"type":     types,
		"holder":   s.signer.did,
	}
	if len(s.creds) > 0 {
		vp["verifiableCredential"] = s.creds
	}
	claims := map[string]any{
		"iss": s.signer.did, "sub": s.signer.did, "nbf": time.Now().Add(-time.Minute).Unix(), "vp": vp,
	}
	if !s.noJTI {
		claims["jti"] = s.jti
	}
	if len(s.aud) > 0 {
		claims["aud"] = s.aud
	}
	if !s.noExp {
		claims["exp"] = s.exp.Unix()
	}
	if s.retraction && s.retractJTI != "" {
		claims["retract_jti"] = s.retractJTI
	}
	return signCompact(s.key, map[string]any{"alg": "ES256", "typ": "JWT", "kid": s.signer.kid}, claims)
}

// ------------------------------------------------------------------------------ reference verification

type jwtParts struct {
	header  map[string]any
	claims  map[string]any
	signing string
	sig     []byte
}

func splitJWT(raw string) (*jwtParts, error) {
	parts := strings.Split(raw, ".")
	if len(parts) != 3 {
		return nil, errors.New("not a compact JWS")
	}
	var out jwtParts
	hb, err := b64.DecodeString(parts[0])
	if err != nil {
		return nil, err
	}
	pb, err := b64.DecodeString(parts[1])
	if err != nil {
		return nil, err
	}
	if out.sig, err = b64.DecodeString(parts[2]); err != nil {
		return nil, err
	}
	if err = json.Unmarshal(hb, &out.header); err != nil {
		return nil, err
	}
	if err = json.Unmarshal(pb, &out.claims); err != nil {
		return nil, err
	}
	out.signing = parts[0] + "." + parts[1]
	return &out, nil
}

// publicKeyOf derives the public key from the DID itself (did:jwk, did:key with P-256): no resolver of the
// code under test is involved.
func publicKeyOf(did string) (*ecdsa.PublicKey, error) {
	switch {
	case strings.HasPrefix(did, "did:jwk:"):
		raw, err := b64.DecodeString(strings.TrimPrefix(did, "did:jwk:"))
		if err != nil {
			return nil, err
		}
		var j struct{ Crv, Kty, X, Y string }
		if err = json.Unmarshal(raw, &j); err != nil {
			return nil, err
		}
		if j.Crv != "P-256" || j.Kty != "EC" {
			return nil, errors.New("unsupported jwk")
		}
		x, err1 := b64.DecodeString(j.X)
		y, err2 := b64.DecodeString(j.Y)
		if err1 != nil || err2 != nil {
			return nil, errors.New("bad jwk coordinates")
		}
		return &ecdsa.PublicKey{Curve: elliptic.P256(), X: new(big.Int).SetBytes(x), Y: new(big.Int).SetBytes(y)}, nil
	case strings.HasPrefix(did, "did:key:z"):
		raw, err := base58.Decode(strings.TrimPrefix(did, "did:key:z"))
		if err != nil || len(raw) < 3 || raw[0] != 0x80 || raw[1] != 0x24 {
			return nil, errors.New("unsupported did:key")
		}
		x, y := elliptic.UnmarshalCompressed(elliptic.P256(), raw[2:])
		if x == nil {
			return nil, errors.New("bad point")
		}
		return &ecdsa.PublicKey{Curve: elliptic.P256(), X: x, Y: y}, nil
	}
	return nil, errors.New("unsupported DID method")
}

func didOfKid(kid string) string {
	if i := strings.Index(kid, "#"); i >= 0 {
		return kid[:i]
	}
	return kid
}

func didMethod(did string) string {
	p := strings.Split(did, ":")
	if len(p) < 3 {
		return ""
	}
	return p[1]
}

func (j *jwtParts) verifySignature() error {
	if j.header["alg"] != "ES256" {
		return errors.New("alg is not ES256")
	}
	kid, _ := j.header["kid"].(string)
	pub, err := publicKeyOf(didOfKid(kid))
	if err != nil {
		return err
	}
	if len(j.sig) != 64 {
		return errors.New("bad signature length")
	}
	digest := sha256.Sum256([]byte(j.signing))
	if !ecdsa.Verify(pub, digest[:], new(big.Int).SetBytes(j.sig[:32]), new(big.Int).SetBytes(j.sig[32:])) {
		return errors.New("signature does not verify")
	}
	return nil
}

func audiences(v any) []string {
	switch a := v.(type) {
	case string:
		return []string{a}
	case []any:
		var out []string
		for _, x := range a {
			if s, ok := x.(string); ok {
				out = append(out, s)
			}
		}
		return out
	}
	return nil
}

func num(v any) (int64, bool) {
	f, ok := v.(float64)
	return int64(f), ok
}

func strList(v any) []string {
	switch a := v.(type) {
	case string:
		return []string{a}
	case []any:
		var out []string
		for _, x := range a {
			if s, ok := x.(string); ok {
				out = append(out, s)
			}
		}
		return out
	}
	return nil
}

func contains(l []string, s string) bool {
	for _, x := range l {
		if x == s {
			return true
		}
	}
	return false
}

// listedInfo is what the reference verification extracts from a listed presentation.
type listedInfo struct {
	Signer     string
	JTI        string
	Exp        int64
	Retraction bool
	RetractJTI string
}

// referenceVerify evaluates the conditions of the C16 statement on the raw listed presentation:
// verifiable JWT presentation (signature by the DID it names, credentials signed by their issuer), addressed to
// the service, validity <= max counted from acceptedAt, not outliving its credentials, allowed DID method,
// credentials all and only fulfilling the presentation definition (exactly one credentialType credential issued by
// the authority to the signer). Retractions: no credentials, a retract_jti.
func referenceVerify(raw string, authority string, allowedMethods []string, acceptedAt time.Time) (*listedInfo, []string) {
	var bad []string
	j, err := splitJWT(raw)
	if err != nil {
		return nil, []string{"format: not a JWT presentation (" + err.Error() + ")"}
	}
	info := &listedInfo{}
	kid, _ := j.header["kid"].(string)
	info.Signer = didOfKid(kid)
	if err := j.verifySignature(); err != nil {
		bad = append(bad, "signature: "+err.Error())
	}
	if iss, _ := j.claims["iss"].(string); iss != info.Signer {
		bad = append(bad, "signature: signer is not the issuer of the presentation")
	}
	info.JTI, _ = j.claims["jti"].(string)
	if info.JTI == "" {
		bad = append(bad, "id: presentation without id")
	}
	if !contains(audiences(j.claims["aud"]), serviceID) {
		bad = append(bad, "audience: not addressed to the service")
	}
	exp, ok := num(j.claims["exp"])
	if !ok {
		bad = append(bad, "validity: no expiration")
	} else {
		info.Exp = exp
		if !acceptedAt.IsZero() && exp-acceptedAt.Unix() > maxValiditySecs+1 {
			bad = append(bad, fmt.Sprintf("validity: %d s exceeds the maximum of %d s", exp-acceptedAt.Unix(), maxValiditySecs))
		}
		if !acceptedAt.IsZero() && exp < acceptedAt.Unix()-1 {
			bad = append(bad, "validity: expired when it was accepted")
		}
	}
	if !contains(allowedMethods, didMethod(info.Signer)) {
		bad = append(bad, "method: DID method "+didMethod(info.Signer)+" is not allowed")
	}
	vp, _ := j.claims["vp"].(map[string]any)
	info.Retraction = contains(strList(vp["type"]), retractionType)
	var creds []any
	switch c := vp["verifiableCredential"].(type) {
	case string:
		creds = []any{c}
	case map[string]any:
		creds = []any{c}
	case []any:
		creds = c
	}
	if info.Retraction {
		info.RetractJTI, _ = j.claims["retract_jti"].(string)
		if len(creds) > 0 {
			bad = append(bad, "retraction: contains credentials")
		}
		if info.RetractJTI == "" {
			bad = append(bad, "retraction: no retract_jti")
		}
		return info, bad
	}
	// the presentation definition has two input descriptors: a credentialType credential issued by the authority and
	// the holder's DiscoveryRegistrationCredential carrying an authServerURL; "all and only": one credential each
	member, registration := 0, 0
	for _, c := range creds {
		switch cred := c.(type) {
		case string:
			cj, err := splitJWT(cred)
			if err != nil {
				bad = append(bad, "credentials: unparsable credential")
				continue
			}
			if err := cj.verifySignature(); err != nil {
				bad = append(bad, "credentials: "+err.Error())
			}
			ckid, _ := cj.header["kid"].(string)
			ciss, _ := cj.claims["iss"].(string)
			if didOfKid(ckid) != ciss {
				bad = append(bad, "credentials: not signed by its issuer")
			}
			if cexp, ok := num(cj.claims["exp"]); ok && info.Exp > cexp {
				bad = append(bad, "outlive: presentation outlives a credential")
			}
			if csub, _ := cj.claims["sub"].(string); csub != info.Signer {
				bad = append(bad, "credentials: credential subject is not the signer")
			}
			cvc, _ := cj.claims["vc"].(map[string]any)
			if contains(strList(cvc["type"]), credentialType) && ciss == authority {
				member++
			} else {
				bad = append(bad, "definition: surplus credential that does not fulfil the presentation definition")
			}
		case map[string]any:
			// without a proof of its own it is verifiable only as a claim of the holder, covered by the presentation's signature
			if _, hasProof := cred["proof"]; hasProof {
				bad = append(bad, "credentials: unexpected JSON-LD credential with a proof")
			}
			if iss, _ := cred["issuer"].(string); iss != info.Signer {
				bad = append(bad, "credentials: unsigned credential that is not issued by the signer")
			}
			if holder, _ := vp["holder"].(string); holder != info.Signer {
				bad = append(bad, "credentials: self-attested credential but the holder is not the signer")
			}
			if es, ok := cred["expirationDate"].(string); ok {
				if t, err := time.Parse(time.RFC3339, es); err != nil || info.Exp > t.Unix() {
					bad = append(bad, "outlive: presentation outlives a credential")
				}
			}
			subj, _ := cred["credentialSubject"].(map[string]any)
			if sid, _ := subj["id"].(string); sid != info.Signer {
				bad = append(bad, "credentials: credential subject is not the signer")
			}
			if url, _ := subj["authServerURL"].(string); contains(strList(cred["type"]), registrationCredType) && url != "" {
				registration++
			} else {
				bad = append(bad, "definition: surplus credential that does not fulfil the presentation definition")
			}
		default:
			bad = append(bad, "credentials: unparsable credential")
		}
	}
	if member != 1 || registration != 1 {
		bad = append(bad, fmt.Sprintf("definition: %d member and %d registration credentials for the two input descriptors", member, registration))
	}
	return info, bad
}
