package discovery

// Construction of the real objects: two discovery.Module instances (server, client) on two sqlite databases,
// a real vcr verifier (did:jwk / did:key resolvers), the in-memory HTTP adapter through the real API wrapper,
// and the statement-level gates (gorm callbacks).

import (
	"context"
	"encoding/json"
	"errors"
	"fmt"
	"os"
	"path/filepath"
	"strconv"
	"sync"
	"sync/atomic"
	"testing"
	"time"

	ssi "github.com/nuts-foundation/go-did"
	"github.com/nuts-foundation/go-did/did"
	"github.com/nuts-foundation/go-did/vc"
	"github.com/nuts-foundation/nuts-node/core"
	"github.com/nuts-foundation/nuts-node/discovery"
	discoserver "github.com/nuts-foundation/nuts-node/discovery/api/server"
	discoclient "github.com/nuts-foundation/nuts-node/discovery/api/server/client"
	"github.com/nuts-foundation/nuts-node/jsonld"
	"github.com/nuts-foundation/nuts-node/storage"
	"github.com/nuts-foundation/nuts-node/vcr"
	"github.com/nuts-foundation/nuts-node/vcr/credential"
	"github.com/nuts-foundation/nuts-node/vcr/revocation"
	"github.com/nuts-foundation/nuts-node/vcr/trust"
	"github.com/nuts-foundation/nuts-node/vcr/verifier"
	"github.com/nuts-foundation/nuts-node/vdr/didjwk"
	"github.com/nuts-foundation/nuts-node/vdr/didkey"
	"github.com/nuts-foundation/nuts-node/vdr/resolver"
	"gorm.io/gorm"
)

// ---- vcr.VCR with only a (real) Verifier ------------------------------------------------------------

type noRevocations struct{}

func (noRevocations) Diagnostics() []core.DiagnosticResult { return nil }
func (noRevocations) GetRevocations(ssi.URI) ([]*credential.Revocation, error) {
	return nil, verifier.ErrNotFound
}
func (noRevocations) StoreRevocation(credential.Revocation) error { return nil }
func (noRevocations) Close() error                                { return nil }

// verifyHook is called by the instrumented verifier (interface seam vcr.VCR.Verifier()).
type verifyHook func(vp vc.VerifiablePresentation, err error)

type seamVerifier struct {
	verifier.Verifier
	hook atomic.Pointer[verifyHook]
}

func (s *seamVerifier) VerifyVP(vp vc.VerifiablePresentation, verifyVCs bool, allowUntrustedVCs bool, validAt *time.Time) ([]vc.VerifiableCredential, error) {
	creds, err := s.Verifier.VerifyVP(vp, verifyVCs, allowUntrustedVCs, validAt)
	if h := s.hook.Load(); h != nil {
		(*h)(vp, err)
	}
	return creds, err
}

type fakeVCR struct {
	vcr.VCR // nil: only Verifier() is used by the code under test
	v       *seamVerifier
}

func (f *fakeVCR) Verifier() verifier.Verifier { return f.v }

// flakyResolver is the DID resolver of a node; while `down` it fails like an unreachable did:web host or a resolver
// backend that is temporarily unavailable would (interface seam resolver.DIDResolver).
type flakyResolver struct {
	inner resolver.DIDResolver
	down  atomic.Bool
}

func (f *flakyResolver) Resolve(id did.DID, metadata *resolver.ResolveMetadata) (*did.Document, *resolver.DocumentMetadata, error) {
	if f.down.Load() {
		return nil, nil, errors.New("verif: DID resolution temporarily unavailable")
	}
	return f.inner.Resolve(id, metadata)
}

func newRealVerifier(t testing.TB, db *gorm.DB, dir string) (*seamVerifier, *flakyResolver) {
	router := &resolver.DIDResolverRouter{}
	router.Register(didjwk.MethodName, didjwk.NewResolver())
	router.Register(didkey.MethodName, didkey.NewResolver())
	flaky := &flakyResolver{inner: router}
	keyResolver := resolver.DIDKeyResolver{Resolver: flaky}
	status := revocation.NewStatusList2021(db, nil, "https://verif.example")
	v := verifier.NewVerifier(noRevocations{}, flaky, keyResolver, jsonld.NewTestJSONLDManager(t), trust.NewConfig(filepath.Join(dir, "trust.yaml")), status)
	return &seamVerifier{Verifier: v}, flaky
}

// ---- statement gates (gorm callbacks) --------------------------------------------------------------

// stmtGate is registered once per database; the driver arms it for one poll.
type stmtGate struct {
	inGet   atomic.Bool                                           // the server's Get is executing (set by the adapter)
	onQuery atomic.Pointer[func(table string, tx bool, dest any)] // called after every query statement while inGet
	onWrite atomic.Pointer[func(op, table string)]                // called after every create/update/delete
}

func installGate(db *gorm.DB) (*stmtGate, error) {
	g := &stmtGate{}
	err := db.Callback().Query().After("gorm:after_query").Register("verif:query", func(tx *gorm.DB) {
		if !g.inGet.Load() {
			return
		}
		if f := g.onQuery.Load(); f != nil {
			_, inTx := tx.Statement.ConnPool.(gorm.TxCommitter)
			(*f)(tx.Statement.Table, inTx, tx.Statement.Dest)
		}
	})
	if err != nil {
		return nil, err
	}
	w := func(op string) func(tx *gorm.DB) {
		return func(tx *gorm.DB) {
			if f := g.onWrite.Load(); f != nil && tx.Error == nil {
				(*f)(op, tx.Statement.Table)
			}
		}
	}
	if err = db.Callback().Create().After("gorm:after_create").Register("verif:create", w("create")); err != nil {
		return nil, err
	}
	if err = db.Callback().Delete().After("gorm:after_delete").Register("verif:delete", w("delete")); err != nil {
		return nil, err
	}
	return g, nil
}

// ---- one node ------------------------------------------------------------------------------------------

type node struct {
	engine storage.Engine
	db     *gorm.DB
	gate   *stmtGate
	vfy    *seamVerifier
	didres *flakyResolver
	module *discovery.Module
}

var engineMu sync.Mutex // storage engines set process-wide state while they are configured

func newNode(t testing.TB, defDir string, server bool, httpClient discoclient.HTTPClient) (*node, error) {
	engineMu.Lock()
	engine := storage.NewTestStorageEngine(t)
	engineMu.Unlock()
	n := &node{engine: engine, db: engine.GetSQLDatabase()}
	var err error
	if n.gate, err = installGate(n.db); err != nil {
		return nil, err
	}
	n.vfy, n.didres = newRealVerifier(t, n.db, t.TempDir())
	if err = n.start(defDir, server, httpClient); err != nil {
		return nil, err
	}
	return n, nil
}

func (n *node) start(defDir string, server bool, httpClient discoclient.HTTPClient) error {
	m := discovery.New(n.engine, &fakeVCR{v: n.vfy}, nil, nil)
	cfg := m.Config().(*discovery.Config)
	cfg.Definitions.Directory = defDir
	cfg.Client.RefreshInterval = 0 // no background goroutine: the driver decides when the client polls
	if server {
		cfg.Server.IDs = []string{serviceID}
	}
	if err := m.Configure(core.TestServerConfig()); err != nil {
		return err
	}
	if httpClient != nil {
		m.VerifSetHTTPClient(httpClient)
	}
	if err := m.Start(); err != nil {
		return err
	}
	n.module = m
	return nil
}

// wipe empties the discovery tables: a database that has never been used (new server instance / fresh client).
func (n *node) wipe() error {
	for _, q := range []string{"DELETE FROM discovery_credential", "DELETE FROM discovery_presentation",
		"DELETE FROM credential_prop", "DELETE FROM credential",
		"UPDATE discovery_service SET seed = '', last_lamport_timestamp = 0"} {
		if err := n.db.Exec(q).Error; err != nil {
			return err
		}
	}
	return nil
}

func writeDefinition(dir string, authority string) error {
	def := map[string]any{
		"id":                        serviceID,
		"endpoint":                  "https://discovery.verif.example/" + serviceID,
		"did_methods":               []string{"jwk"},
		"presentation_max_validity": maxValiditySecs,
		"presentation_definition": map[string]any{
			"id": "pd_verif_c16",
			"format": map[string]any{
				"ldp_vc": map[string]any{"proof_type": []string{"JsonWebSignature2020"}}, // the holder's own credential has no proof
				"jwt_vc": map[string]any{"alg": []string{"ES256"}},
				"jwt_vp": map[string]any{"alg": []string{"ES256"}},
			},
			"input_descriptors": []any{map[string]any{
				"id": "id_member",
				"constraints": map[string]any{"fields": []any{
					map[string]any{"path": []string{"$.type"}, "filter": map[string]any{"type": "string", "const": credentialType}},
					map[string]any{"path": []string{"$.issuer"}, "filter": map[string]any{"type": "string", "const": authority}},
				}},
			}, map[string]any{
				"id": "id_registration",
				"constraints": map[string]any{"fields": []any{
					map[string]any{"path": []string{"$.type"}, "filter": map[string]any{"type": "string", "const": registrationCredType}},
					map[string]any{"id": "auth_server_url", "path": []string{"$.credentialSubject.authServerURL"}, "filter": map[string]any{"type": "string"}},
				}},
			}},
		},
	}
	b, _ := json.MarshalIndent(def, "", " ")
	return os.WriteFile(filepath.Join(dir, "c16.json"), b, 0o644)
}

// ---- in-memory HTTP adapter: client module -> real API wrapper of the server module ------------------

type adapter struct {
	mu      sync.Mutex
	server  *node
	wrapper *discoserver.Wrapper
	// afterGet is called with the response before it is handed to the client (the response is "in flight")
	afterGet   atomic.Pointer[func()]
	onCall     func(after int)
	onResponse func(seed string, ts int, rows []int)
	// sabotage makes the ADAPTER misbehave like a defective server would (self-test of the oracles):
	// "ts-after-rows": the timestamp of the response is read after the rows (and after the in-flight gate)
	sabotage string
}

var _ discoclient.HTTPClient = (*adapter)(nil)

func (a *adapter) Register(ctx context.Context, _ string, presentation vc.VerifiablePresentation) error {
	return a.register(ctx, presentation)
}

// register sends the presentation the way the HTTP API receives it: as a JSON document.
func (a *adapter) register(ctx context.Context, presentation vc.VerifiablePresentation) error {
	body, err := json.Marshal(presentation)
	if err != nil {
		return err
	}
	return a.registerJSON(ctx, body)
}

func (a *adapter) registerJSON(ctx context.Context, body []byte) error {
	var parsed vc.VerifiablePresentation
	if err := json.Unmarshal(body, &parsed); err != nil {
		return fmt.Errorf("unparsable request body: %w", err)
	}
	resp, err := a.wrapper.RegisterPresentation(ctx, discoserver.RegisterPresentationRequestObject{ServiceID: serviceID, Body: &parsed})
	if err != nil {
		return err
	}
	if _, ok := resp.(discoserver.RegisterPresentation201Response); !ok {
		return errors.New("unexpected response type")
	}
	return nil
}

func (a *adapter) Get(ctx context.Context, _ string, timestamp int) (map[string]vc.VerifiablePresentation, string, int, error) {
	srv := a.server
	if a.onCall != nil {
		a.onCall(timestamp)
	}
	srv.gate.inGet.Store(true)
	resp, err := a.wrapper.GetPresentations(ctx, discoserver.GetPresentationsRequestObject{ServiceID: serviceID,
		Params: discoserver.GetPresentationsParams{Timestamp: &timestamp}})
	srv.gate.inGet.Store(false)
	if err != nil {
		return nil, "", 0, err
	}
	// the wire format
	wire, err := json.Marshal(resp)
	if err != nil {
		return nil, "", 0, err
	}
	var result discoclient.PresentationsResponse
	if err = json.Unmarshal(wire, &result); err != nil {
		return nil, "", 0, err
	}
	if a.onResponse != nil {
		var rows []int
		for k := range result.Entries {
			n, _ := strconv.Atoi(k)
			rows = append(rows, n)
		}
		a.onResponse(result.Seed, result.Timestamp, rows)
	}
	if f := a.afterGet.Load(); f != nil {
		(*f)()
	}
	if a.sabotage == "ts-after-rows" {
		if row, err := serviceRow(srv); err == nil {
			result.Timestamp = row.Ts
		}
	}
	return result.Entries, result.Seed, result.Timestamp, nil
}
